(* The constants that are literals inside utils.to_bitcoin_address and script.utils.scriptpubkey NOW (read from the
   source by ast, Gen/AddressGen.v) are the ones of the reference (Spec/Templates.v, Spec/Bip173.v) that the model
   (Model/Address.v) is written with; the encoder really emits them; the dispatcher tests in the modelled order. *)
From Coq Require Import ZArith List Bool.
Require Coq.Strings.String.
Import Coq.Strings.String.StringSyntax.
Require Import Bits.Lib.Result Bits.Lib.Bytes Bits.Lib.PyStr Bits.Model.Bech32 Bits.Model.Address.
Require Bits.Gen.AddressGen Bits.Spec.Templates Bits.Spec.Bip173.
Import ListNotations.
Local Open Scope Z_scope.

Module G := Bits.Gen.AddressGen.
Module S := Bits.Spec.Templates.

(* the table the reference fixes: (network name, address type name) -> version byte, in the generator's (sorted) order *)
Definition spec_versions : list (bytes * bytes * bytes) :=
  [ (net_mainnet, s_p2pkh, [S.version_byte S.P2PKH S.Mainnet]); (net_mainnet, s_p2sh, [S.version_byte S.P2SH S.Mainnet]);
    (net_regtest, s_p2pkh, [S.version_byte S.P2PKH S.Regtest]); (net_regtest, s_p2sh, [S.version_byte S.P2SH S.Regtest]);
    (net_testnet, s_p2pkh, [S.version_byte S.P2PKH S.Testnet]); (net_testnet, s_p2sh, [S.version_byte S.P2SH S.Testnet]) ].

Theorem gen_encoder_versions_are_spec : G.encoder_versions = spec_versions.
Proof. vm_compute. reflexivity. Qed.

(* ... and they are what to_bitcoin_address emits (decoded by an independent Base58 decoder in the generator) *)
Theorem gen_emitted_versions_are_spec : G.emitted_versions = spec_versions.
Proof. vm_compute. reflexivity. Qed.

(* the model's four literals *)
Theorem model_versions_are_spec :
  spec_versions = [ (net_mainnet, s_p2pkh, ver_p2pkh_main); (net_mainnet, s_p2sh, ver_p2sh_main);
                    (net_regtest, s_p2pkh, ver_p2pkh_test); (net_regtest, s_p2sh, ver_p2sh_test);
                    (net_testnet, s_p2pkh, ver_p2pkh_test); (net_testnet, s_p2sh, ver_p2sh_test) ].
Proof. vm_compute. reflexivity. Qed.

(* the dispatcher's version-byte lists per builder *)
Theorem gen_dispatch_p2pkh_versions : G.dispatch_p2pkh_versions = map (fun v => [v]) S.p2pkh_versions
  /\ G.dispatch_p2pkh_versions = [ver_p2pkh_main; ver_p2pkh_test].
Proof. vm_compute. split; reflexivity. Qed.

Theorem gen_dispatch_p2sh_versions : G.dispatch_p2sh_versions = map (fun v => [v]) S.p2sh_versions
  /\ G.dispatch_p2sh_versions = [ver_p2sh_main; ver_p2sh_test].
Proof. vm_compute. split; reflexivity. Qed.

(* every version byte the encoder can emit is known to the dispatcher, under the right builder *)
Theorem gen_encoder_dispatcher_agree :
  forallb (fun r => let '(_, ty, v) := r in
             if bytes_eqb ty s_p2pkh then existsb (bytes_eqb v) G.dispatch_p2pkh_versions
             else existsb (bytes_eqb v) G.dispatch_p2sh_versions) G.encoder_versions = true.
Proof. vm_compute. reflexivity. Qed.

Theorem gen_dispatch_hrps : G.dispatch_hrps = Bits.Spec.Bip173.segwit_hrps /\ G.dispatch_hrps = [hrp_bc; hrp_tb; hrp_bcrt].
Proof. vm_compute. split; reflexivity. Qed.

Local Open Scope string_scope.
Theorem gen_dispatch_lengths :
  G.dispatch_lengths = [(20, str "p2wpkh_script_pubkey"); (32, str "p2wsh_script_pubkey")].
Proof. vm_compute. reflexivity. Qed.

(* the Base58Check payload (version byte excluded) must be exactly 20 bytes, else ValueError *)
Theorem gen_dispatch_payload_length : G.dispatch_payload_length = (20, str "ValueError").
Proof. vm_compute. reflexivity. Qed.

Theorem gen_dispatch_order : G.dispatch_order = [str "is_point"; str "is_base58check"; str "is_segwit_addr"].
Proof. vm_compute. reflexivity. Qed.
