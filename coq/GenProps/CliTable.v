(* Theorems about the REGENERATED parser table (Gen/CliTable.v = what setup_parser(), Config() and conf/ are now):
   - table_marks_explicit: every action of every (sub)parser whose dest is a Config key is an ExplicitOption --
     the hypothesis of the precedence theorem;
   - no name in any namespace can be confused with an option's `__explicit` mark or is called "self";
   - the defaults: Config() = conf/config.json = conf/config.toml = the documented ones (Spec), and the value in
     effect with an empty command line and no file is the documented default for every subcommand and option
     (None instead of "" for the rpc_* options of `bits rpc`);
   - precedence_cli: the precedence theorem instantiated, hypothesis-free, on this table. *)
From Coq Require Import ZArith List Lia Bool.
Require Import Bits.Lib.Result Bits.Lib.Bytes.
Require Import Bits.Spec.Cli Bits.Model.Cli Bits.Proofs.CliConfig.
Require Bits.Gen.CliTable.
Import ListNotations.
Import Coq.Init.Byte.
Module G := Bits.Gen.CliTable.

Definition all_parsers : list (bytes * parser) := ([], t_base G.table) :: t_subs G.table.

Lemma find_sub_in name l p : find_sub name l = Some p -> In (name, p) l.
Proof.
  induction l as [|[n q] l IH]; cbn [find_sub]; [discriminate|].
  destruct (bytes_eqb n name) eqn:E.
  - intros H. injection H as ->. apply bytes_eqb_eq in E. subst. now left.
  - intros H. right. auto.
Qed.

Lemma parser_of_in sub p : parser_of G.table sub = Some p -> In (sub, p) all_parsers.
Proof.
  unfold parser_of, all_parsers. destruct (bytes_eqb sub []) eqn:E.
  - intros H. injection H as <-. apply bytes_eqb_eq in E. subst. now left.
  - intros H. right. now apply find_sub_in.
Qed.

(* ---- every configurable option of every (sub)parser is marked explicit ---- *)
Definition marks_explicitb (p : parser) : bool :=
  forallb (fun a => implb (dmem (a_dest a) G.config_defaults) (a_explicit a)) p.

Theorem table_marks_explicit_b : forallb (fun sp => marks_explicitb (snd sp)) all_parsers = true.
Proof. vm_compute. reflexivity. Qed.

Theorem table_marks_explicit : forall sub p opt,
  parser_of G.table sub = Some p -> dmem opt G.config_defaults = true -> marks_explicit p opt.
Proof.
  intros sub p opt Hp Hopt a Hin Hd.
  pose proof table_marks_explicit_b as H. rewrite forallb_forall in H.
  specialize (H _ (parser_of_in _ _ Hp)). cbn [snd] in H. unfold marks_explicitb in H.
  rewrite forallb_forall in H. specialize (H a Hin). rewrite Hd, Hopt in H. exact H.
Qed.

(* ---- names ---- *)
Theorem table_names_ok_b :
  forallb (fun sp => forallb (fun kd => wf_namesb G.table (snd sp) (fst kd)) G.config_defaults) all_parsers = true.
Proof. vm_compute. reflexivity. Qed.

Lemma dmem_in_keys k (d : dict) : dmem k d = true -> exists v, In (k, v) d.
Proof. unfold dmem. destruct (dget k d) as [v|] eqn:E; [|discriminate]. intros _. exists v. now apply dget_in. Qed.

Theorem table_names_ok : forall sub p opt,
  parser_of G.table sub = Some p -> dmem opt G.config_defaults = true -> wf_namesb G.table p opt = true.
Proof.
  intros sub p opt Hp Hopt. pose proof table_names_ok_b as H. rewrite forallb_forall in H.
  specialize (H _ (parser_of_in _ _ Hp)). cbn [snd] in H. rewrite forallb_forall in H.
  destruct (dmem_in_keys _ _ Hopt) as (v & Hin). exact (H _ Hin).
Qed.

Theorem config_keys_ok : dmem s_self G.config_defaults = false /\ NoDup (map fst G.config_defaults).
Proof.
  split; [vm_compute; reflexivity|].
  cbn [map fst G.config_defaults]. repeat (constructor; [cbn [In]; intuition discriminate|]). constructor.
Qed.

(* ---- defaults ---- *)
Definition spec_dict : dict := map (fun kv => (fst kv, PStr (snd kv))) spec_defaults.

Theorem config_defaults_are_spec : G.config_defaults = spec_dict.
Proof. vm_compute. reflexivity. Qed.
Theorem conf_json_is_spec : G.conf_json = spec_dict.
Proof. vm_compute. reflexivity. Qed.
Theorem conf_toml_is_spec : G.conf_toml = Some spec_dict.
Proof. vm_compute. reflexivity. Qed.

(* the documented default, or None where the documented default is the empty string (rpc_* of `bits rpc`:
   both are falsy, which is all bits.rpc.rpc_method looks at) *)
Definition same_default (got doc : pyval) : bool :=
  pyval_eqb got doc || (pyval_eqb got PNone && pyval_eqb doc (PStr [])).

Theorem builtin_defaults_are_spec_b :
  forallb (fun sp => forallb (fun kd => same_default (builtin_default G.config_defaults G.table (fst sp) (fst kd)) (snd kd))
                             spec_dict) all_parsers = true.
Proof. vm_compute. reflexivity. Qed.

Theorem builtin_defaults_are_spec : forall sub p opt doc,
  parser_of G.table sub = Some p -> In (opt, doc) spec_dict ->
  same_default (builtin_default G.config_defaults G.table sub opt) doc = true.
Proof.
  intros sub p opt doc Hp Hin. pose proof builtin_defaults_are_spec_b as H. rewrite forallb_forall in H.
  specialize (H _ (parser_of_in _ _ Hp)). cbn [fst] in H. rewrite forallb_forall in H. exact (H _ Hin).
Qed.

(* `type=format_option` is applied by argparse to string defaults and consts: it leaves them unchanged *)
Theorem format_option_fixes_defaults :
  forallb (fun sp => forallb (fun a =>
     if bytes_eqb (a_type a) s_format_option then
       match a_default a, a_const a with
       | PStr d, PStr c => match format_option d, format_option c with
                           | Ok v, Ok w => pyval_eqb v (PStr d) && pyval_eqb w (PStr c)
                           | _, _ => false end
       | _, _ => false
       end
     else true) (snd sp)) all_parsers = true.
Proof. vm_compute. reflexivity. Qed.

(* ---- the precedence theorem on this table ---- *)
Theorem precedence_cli : forall has_toml sub p cli cv ftoml fjson opt,
  parser_of G.table sub = Some p ->
  convert_cli p cli = Ok cv ->
  dmem opt G.config_defaults = true ->
  effective G.config_defaults G.table has_toml sub cli ftoml fjson opt =
    Ok (spec_effective (dget opt cv) (file_value has_toml ftoml fjson opt)
                       (builtin_default G.config_defaults G.table sub opt)).
Proof.
  intros has_toml sub p cli cv ftoml fjson opt Hp Hcv Hopt.
  apply (precedence G.config_defaults G.table has_toml sub p cli cv ftoml fjson opt); try assumption.
  - eapply table_names_ok; eauto.
  - apply config_keys_ok.
  - intros _. eapply table_marks_explicit; eauto.
Qed.

(* ---- main() reads configurable options only through the Config object ---- *)
Require Coq.Strings.String.
Module Lit.
  Import Coq.Strings.String.
  Local Open Scope string_scope.
  Definition none := list_byte_of_string "<none>".
  Definition read_bytes := list_byte_of_string "read_bytes".
  Definition write_bytes := list_byte_of_string "write_bytes".
  Definition cfg_in := list_byte_of_string "config.input_format".
  Definition cfg_out := list_byte_of_string "config.output_format".
  Definition raw := list_byte_of_string "'raw'".
End Lit.

(* no `args.<configurable option>` (nor getattr(args, "<option>"), vars(args)["<option>"]) anywhere in bits/__main__.py *)
Theorem no_direct_args_reads : G.args_config_reads = [].
Proof. vm_compute. reflexivity. Qed.

(* every read_bytes / write_bytes call of main() sits in a subcommand branch and takes its format from
   config.input_format / config.output_format, or is the constant "raw" *)
Definition io_call_ok (c : bytes * bytes * bytes * bytes) : bool :=
  let '(sub, _, f, e) := c in
  negb (bytes_eqb sub Lit.none) &&
  (if bytes_eqb f Lit.read_bytes
   then bytes_eqb e Lit.cfg_in || bytes_eqb e Lit.raw
   else bytes_eqb f Lit.write_bytes && (bytes_eqb e Lit.cfg_out || bytes_eqb e Lit.raw)).

Theorem io_calls_use_config : forallb io_call_ok G.io_calls = true.
Proof. vm_compute. reflexivity. Qed.
