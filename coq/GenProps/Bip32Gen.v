(* The BIP32 constants the code defines NOW equal the standard's (Spec/Bip32.v, Spec/Secp256k1.v) and hence the
   ones the model uses. *)
From Coq Require Import ZArith List Bool.
Require Import Bits.Lib.Bytes Bits.Model.Bip32.
Require Bits.Spec.Bip32 Bits.Spec.Secp256k1 Bits.Gen.Bip32Gen.
Import ListNotations.
Local Open Scope Z_scope.

(* xpub 0x0488B21E, xprv 0x0488ADE4, tpub 0x043587CF, tprv 0x04358394 as 4 big-endian bytes *)
Theorem gen_version_public_mainnet : Bits.Gen.Bip32Gen.version_public_mainnet = to_be 4 0x0488B21E.
Proof. vm_compute. reflexivity. Qed.
Theorem gen_version_private_mainnet : Bits.Gen.Bip32Gen.version_private_mainnet = to_be 4 0x0488ADE4.
Proof. vm_compute. reflexivity. Qed.
Theorem gen_version_public_testnet : Bits.Gen.Bip32Gen.version_public_testnet = to_be 4 0x043587CF.
Proof. vm_compute. reflexivity. Qed.
Theorem gen_version_private_testnet : Bits.Gen.Bip32Gen.version_private_testnet = to_be 4 0x04358394.
Proof. vm_compute. reflexivity. Qed.

Theorem gen_versions_are_model :
  Bits.Gen.Bip32Gen.version_public_mainnet = VERSION_PUBLIC_MAINNET /\
  Bits.Gen.Bip32Gen.version_private_mainnet = VERSION_PRIVATE_MAINNET /\
  Bits.Gen.Bip32Gen.version_public_testnet = VERSION_PUBLIC_TESTNET /\
  Bits.Gen.Bip32Gen.version_private_testnet = VERSION_PRIVATE_TESTNET.
Proof. vm_compute. repeat split; reflexivity. Qed.

Theorem gen_versions_are_spec :
  Bits.Gen.Bip32Gen.version_public_mainnet = Bits.Spec.Bip32.ser32 Bits.Spec.Bip32.version_pub_main /\
  Bits.Gen.Bip32Gen.version_private_mainnet = Bits.Spec.Bip32.ser32 Bits.Spec.Bip32.version_prv_main /\
  Bits.Gen.Bip32Gen.version_public_testnet = Bits.Spec.Bip32.ser32 Bits.Spec.Bip32.version_pub_test /\
  Bits.Gen.Bip32Gen.version_private_testnet = Bits.Spec.Bip32.ser32 Bits.Spec.Bip32.version_prv_test.
Proof. vm_compute. repeat split; reflexivity. Qed.

Theorem gen_hardened_offset : Bits.Gen.Bip32Gen.hardened_offset = 2 ^ 31
  /\ Bits.Gen.Bip32Gen.hardened_offset = HARDENED_OFFSET.
Proof. vm_compute. split; reflexivity. Qed.

(* the literal n inside to_master_key is the order of secp256k1; the HMAC key is "Bitcoin seed" *)
Theorem gen_master_n : Bits.Gen.Bip32Gen.master_n = Bits.Spec.Secp256k1.n.
Proof. vm_compute. reflexivity. Qed.
Theorem gen_master_hmac_key : Bits.Gen.Bip32Gen.master_hmac_key = Bits.Spec.Bip32.bitcoin_seed.
Proof. vm_compute. reflexivity. Qed.
