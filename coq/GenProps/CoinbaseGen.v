(* The constants coinbase_txin / coinbase_tx / the block functions read from the code NOW (Gen/CoinbaseGen.v,
   regenerated on every run) are the values the standards fix (Spec) and the values the models use. *)
From Coq Require Import ZArith List Bool.
Require Import Bits.Lib.Result Bits.Lib.Bytes Bits.Spec.Coinbase Bits.Spec.Subsidy Bits.Spec.ScriptNum.
Require Import Bits.Model.Tx Bits.Model.Coinbase.
Require Bits.Gen.CoinbaseGen.
Import ListNotations.
Import Coq.Init.Byte.
Local Open Scope Z_scope.

Module G := Bits.Gen.CoinbaseGen.

(* BIP141 / Bitcoin Core: the reserved value is 32 zero bytes *)
Theorem gen_witness_reserved_value : G.witness_reserved_value = Bits.Spec.Coinbase.witness_reserved_value.
Proof. vm_compute. reflexivity. Qed.

(* null outpoint = 32 zero bytes, index 0xffffffff *)
Theorem gen_null_outpoint :
  G.null_32 = Bits.Spec.Coinbase.null_txid /\ G.uint32_max = 2 ^ 32 - 1 /\ G.uint32_max = Bits.Model.Coinbase.UINT32_MAX
  /\ G.null_32 ++ to_le 4 G.uint32_max = Bits.Spec.Coinbase.null_outpoint.
Proof. vm_compute. auto. Qed.

Theorem gen_coin : G.coin = Bits.Spec.Subsidy.COIN.
Proof. vm_compute. reflexivity. Qed.

(* OP_0 .. OP_16 are the bytes CScript::push_int64 emits for 0 .. 16, and what the model's op_n_byte uses *)
Theorem gen_op_n_is_push_int :
  length G.op_n = 17%nat /\
  forallb (fun i => match push_int (Z.of_nat i), op_n_byte (Z.of_nat i) with
                    | [b], Ok b' => (b2z b =? nth i G.op_n (-1)) && (b2z b' =? nth i G.op_n (-1))
                    | _, _ => false end) (seq 0 17) = true.
Proof. vm_compute. auto. Qed.

Theorem gen_script_opcodes :
  G.op_return = 106 /\ G.op_pushdata1 = 76 /\ G.op_pushdata2 = 77 /\ G.op_pushdata4 = 78.
Proof. vm_compute. auto. Qed.

Theorem gen_defaults :
  G.coinbase_sequence = Bits.Spec.Coinbase.default_sequence /\ G.txin_sequence = Bits.Model.Tx.default_sequence
  /\ G.tx_version = 1 /\ G.tx_locktime = 0.
Proof. vm_compute. auto. Qed.
