(* The SIGHASH_* constants the code defines NOW (bits.script.constants) equal BIP143's / Bitcoin Core's. *)
From Coq Require Import ZArith List.
Require Import Bits.Lib.Bytes Bits.Spec.Bip143.
Require Bits.Gen.Bip143Gen.
Import ListNotations.
Local Open Scope Z_scope.

Theorem gen_sighash_all : Bits.Gen.Bip143Gen.sighash_all = SIGHASH_ALL /\ SIGHASH_ALL = 1.
Proof. vm_compute. split; reflexivity. Qed.
Theorem gen_sighash_none : Bits.Gen.Bip143Gen.sighash_none = SIGHASH_NONE /\ SIGHASH_NONE = 2.
Proof. vm_compute. split; reflexivity. Qed.
Theorem gen_sighash_single : Bits.Gen.Bip143Gen.sighash_single = SIGHASH_SINGLE /\ SIGHASH_SINGLE = 3.
Proof. vm_compute. split; reflexivity. Qed.
Theorem gen_sighash_anyonecanpay :
  Bits.Gen.Bip143Gen.sighash_anyonecanpay = SIGHASH_ANYONECANPAY /\ SIGHASH_ANYONECANPAY = 0x80.
Proof. vm_compute. split; reflexivity. Qed.

(* the six standard types are exactly the combinations of the code's constants *)
Theorem gen_standard_flags :
  let a := Bits.Gen.Bip143Gen.sighash_anyonecanpay in
  [Bits.Gen.Bip143Gen.sighash_all; Bits.Gen.Bip143Gen.sighash_none; Bits.Gen.Bip143Gen.sighash_single;
   Z.lor Bits.Gen.Bip143Gen.sighash_all a; Z.lor Bits.Gen.Bip143Gen.sighash_none a;
   Z.lor Bits.Gen.Bip143Gen.sighash_single a] = standard_flags.
Proof. vm_compute. reflexivity. Qed.
