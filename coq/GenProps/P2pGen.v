(* The P2P constants and tables the code defines NOW (Gen/P2pGen.v, regenerated from /repo on every run)
   equal the values of the protocol references (Spec/P2p.v); plus the well-formedness facts about the
   tables that the C17 theorems rely on. *)
From Coq Require Import ZArith List Bool.
Require Import Bits.Lib.Result Bits.Lib.Bytes Bits.Spec.P2p Bits.Model.P2pFrame Bits.Model.P2pCodec Bits.Proofs.P2pFrame.
Require Bits.Gen.P2pGen Bits.Spec.P2pNet.
Import ListNotations.
Import Coq.Init.Byte.
Local Open Scope Z_scope.

Theorem gen_mainnet_start_is_spec : Bits.Gen.P2pGen.mainnet_start = mainnet_start.
Proof. vm_compute. reflexivity. Qed.
Theorem gen_testnet_start_is_spec : Bits.Gen.P2pGen.testnet_start = testnet_start.
Proof. vm_compute. reflexivity. Qed.
Theorem gen_regtest_start_is_spec : Bits.Gen.P2pGen.regtest_start = regtest_start.
Proof. vm_compute. reflexivity. Qed.

(* set_magic_start_bytes(network) installs the start string of that network; mainnet after import *)
Theorem gen_magic_of_network_is_spec : Bits.Gen.P2pGen.magic_of_network = Bits.Spec.P2pNet.network_magics.
Proof. vm_compute. reflexivity. Qed.
(* what set_magic_start_bytes does with names it must refuse: an exception, and the global unchanged (probed) *)
Theorem gen_refused_network_leaves_magic : Bits.Gen.P2pGen.magic_after_refused_select = Bits.Gen.P2pGen.magic_default.
Proof. vm_compute. reflexivity. Qed.
Theorem gen_magic_default_is_mainnet : Bits.Gen.P2pGen.magic_default = mainnet_start.
Proof. vm_compute. reflexivity. Qed.

Theorem gen_msg_header_len_is_spec : Bits.Gen.P2pGen.msg_header_len = msg_header_len.
Proof. vm_compute. reflexivity. Qed.
Theorem gen_max_size_is_spec : Bits.Gen.P2pGen.max_size = max_size.
Proof. vm_compute. reflexivity. Qed.
Theorem gen_max_blockfile_size_is_spec : Bits.Gen.P2pGen.max_blockfile_size = max_blockfile_size.
Proof. vm_compute. reflexivity. Qed.
Theorem gen_msg_witness_flag_is_spec : Bits.Gen.P2pGen.msg_witness_flag = msg_witness_flag.
Proof. vm_compute. reflexivity. Qed.

Theorem gen_commands_is_spec : Bits.Gen.P2pGen.commands = commands.
Proof. vm_compute. reflexivity. Qed.
Theorem gen_inventory_type_id_is_spec : Bits.Gen.P2pGen.inventory_type_id = inventory_type_id.
Proof. vm_compute. reflexivity. Qed.
Theorem gen_parser_commands_is_spec : Bits.Gen.P2pGen.parser_commands = parser_commands.
Proof. vm_compute. reflexivity. Qed.

(* every command of the code's table fits the 12-byte field, is non-empty ASCII without a trailing NUL (so
   that NUL padding and rstrip are inverse), and the table has no duplicates *)
Theorem gen_commands_wf :
  forallb (fun c => (1 <=? length c)%nat && (length c <=? 12)%nat && is_ascii c
                    && bytes_eqb (rstrip0 (pad12 c)) c) Bits.Gen.P2pGen.commands = true
  /\ NoDup Bits.Gen.P2pGen.commands.
Proof.
  split; [vm_compute; reflexivity|].
  repeat (constructor; [cbv [In]; intros H; repeat (destruct H as [H|H]; [discriminate H|]); exact H|]).
  constructor.
Qed.

(* inventory identifiers: distinct names, distinct values, all 32-bit, witness variants = base | flag *)
Theorem gen_inventory_wf :
  NoDup (map fst Bits.Gen.P2pGen.inventory_type_id) /\ NoDup (map snd Bits.Gen.P2pGen.inventory_type_id)
  /\ forallb (fun kv : bytes * Z => (0 <=? snd kv) && (snd kv <? 2 ^ 32)) Bits.Gen.P2pGen.inventory_type_id = true
  /\ map snd Bits.Gen.P2pGen.inventory_type_id
     = [1; 2; 3; 4; Z.lor 1 msg_witness_flag; Z.lor 2 msg_witness_flag].
Proof.
  split; [|split; [|split; vm_compute; reflexivity]].
  - repeat (constructor; [cbv [In map fst Bits.Gen.P2pGen.inventory_type_id]; intros H;
                          repeat (destruct H as [H|H]; [discriminate H|]); exact H|]). constructor.
  - repeat (constructor; [cbv [In map snd Bits.Gen.P2pGen.inventory_type_id]; intros H;
                          repeat (destruct H as [H|H]; [discriminate H|]); exact H|]). constructor.
Qed.

(* MAX_SIZE fits the 4-byte length field, so len(payload).to_bytes(4) in msg_ser cannot overflow *)
Theorem gen_max_size_fits_length_field : Bits.Gen.P2pGen.max_size < 2 ^ 32.
Proof. vm_compute. reflexivity. Qed.
