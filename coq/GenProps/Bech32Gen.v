(* The Bech32 tables and constants the code defines NOW equal the ones BIP173/BIP350 fix (Spec). *)
From Coq Require Import ZArith List Bool.
Require Import Bits.Lib.Result Bits.Lib.Bytes Bits.Spec.Bip173 Bits.Model.Base58 Bits.Model.Bech32.
Require Bits.Gen.Bech32Gen.
Import ListNotations.
Local Open Scope Z_scope.

Theorem gen_charset_is_spec : Bits.Gen.Bech32Gen.charset = Bits.Spec.Bip173.charset.
Proof. vm_compute. reflexivity. Qed.

Theorem gen_separator_is_spec : Bits.Gen.Bech32Gen.separator = Bits.Spec.Bip173.separator.
Proof. vm_compute. reflexivity. Qed.

Theorem gen_max_len_is_spec : Bits.Gen.Bech32Gen.max_len = Bits.Spec.Bip173.max_len.
Proof. vm_compute. reflexivity. Qed.

Theorem gen_GEN_is_spec : Bits.Gen.Bech32Gen.GEN = Bits.Spec.Bip173.GEN.
Proof. vm_compute. reflexivity. Qed.

Theorem gen_bech32m_const_is_spec : Bits.Gen.Bech32Gen.BECH32M_CONST = Bits.Spec.Bip173.BECH32M_CONST.
Proof. vm_compute. reflexivity. Qed.

Theorem gen_segwit_hrps_is_spec : Bits.Gen.Bech32Gen.segwit_hrps = Bits.Spec.Bip173.segwit_hrps.
Proof. vm_compute. reflexivity. Qed.

(* the HRP segwit_addr selects for "mainnet"/"testnet"/"regtest" is the model's *)
Theorem gen_network_hrps :
  Bits.Gen.Bech32Gen.network_hrps = [(net_mainnet, hrp_bc); (net_testnet, hrp_tb); (net_regtest, hrp_bcrt)].
Proof. vm_compute. reflexivity. Qed.

(* 32 pairwise distinct characters *)
Fixpoint distinctb (l : bytes) : bool :=
  match l with
  | [] => true
  | x :: xs => negb (existsb (byte_eqb x) xs) && distinctb xs
  end.

Theorem gen_charset_32_distinct :
  length Bits.Gen.Bech32Gen.charset = 32%nat /\ distinctb Bits.Gen.Bech32Gen.charset = true.
Proof. vm_compute. auto. Qed.

(* bech32_int_map is exactly the index function of the character table: its keys are the 32
   one-byte strings of the table, and on all 256 byte values it agrees with the position *)
Definition map_lookup (k : bytes) : option Z :=
  match find (fun p => bytes_eqb (fst p) k) Bits.Gen.Bech32Gen.int_map with
  | Some p => Some (snd p) | None => None end.

Definition all_bytes : list byte := map (fun n => z2b (Z.of_nat n)) (seq 0 256).

Theorem gen_int_map_is_index :
  forallb (fun c => match map_lookup [c], index_of c charset 0 with
                    | Some i, Some j => Z.eqb i j | None, None => true | _, _ => false end)
          all_bytes = true.
Proof. vm_compute. reflexivity. Qed.

Theorem gen_int_map_keys :
  length Bits.Gen.Bech32Gen.int_map = 32%nat /\
  forallb (fun p => (length (fst p) =? 1)%nat) Bits.Gen.Bech32Gen.int_map = true.
Proof. vm_compute. auto. Qed.

(* the model's lookup is the spec's character value on every byte *)
Theorem gen_int_map_is_char_value :
  forallb (fun c => match map_lookup [c], char_value c with
                    | Some i, Some j => Z.eqb i j | None, None => true | _, _ => false end)
          all_bytes = true.
Proof. vm_compute. reflexivity. Qed.
