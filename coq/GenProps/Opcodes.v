(* The opcode tables the code defines NOW (Gen/Opcodes.v, regenerated on every run) against the Script
   reference (Spec/Opcodes.v).  Everything here is a finite check closed by computation. *)
From Coq Require Import ZArith List Bool.
Require Import Bits.Lib.Result Bits.Lib.Bytes Bits.Lib.PyStr Bits.Spec.Opcodes Bits.Model.Script.
Require Bits.Gen.Opcodes.
Import ListNotations.
Local Open Scope Z_scope.

Module G := Bits.Gen.Opcodes.

Definition spec_all : list (bytes * Z) := spec_opcodes ++ spec_pseudo.
Definition all_byte_values : list Z := map Z.of_nat (seq 0 256).

(* (1) every name of the reference is defined by the code, with the reference value (aliases included) *)
Definition has_spec_entry (p : bytes * Z) : bool :=
  match assoc_b (fst p) G.op_int_map with Some v => v =? snd p | None => false end.
Theorem gen_has_every_spec_opcode : forallb has_spec_entry spec_opcodes = true.
Proof. vm_compute. reflexivity. Qed.

(* (2) the code defines no conflicting byte: each of its names is a reference name with the reference value, or
   is unknown to the reference and then its value is not the value of any reference opcode *)
Definition no_conflict (p : bytes * Z) : bool :=
  match assoc_b (fst p) spec_all with
  | Some v => v =? snd p
  | None => negb (existsb (fun q => snd q =? snd p) spec_all)
  end.
Theorem gen_no_conflicting_byte : forallb no_conflict G.op_int_map = true.
Proof. vm_compute. reflexivity. Qed.

(* (3) per entry of the name table: the name starts with "OP_", the value is one byte, it is NOT a direct-push
   byte 0x01..0x4b, and the byte has a representative name in INT_OP_MAP which is itself a name of that byte *)
Definition entry_ok (p : bytes * Z) : bool :=
  starts_with s_OP_ (fst p) && (0 <=? snd p) && (snd p <? 256) && negb ((1 <=? snd p) && (snd p <=? 75))
  && match assoc_z (snd p) G.int_op_map with
     | Some r => match assoc_b r G.op_int_map with Some v' => v' =? snd p | None => false end
     | None => false
     end.
Theorem gen_entries_ok : forallb entry_ok G.op_int_map = true.
Proof. vm_compute. reflexivity. Qed.

(* (4) INT_OP_MAP only contains names of the name table, under their own byte *)
Definition rep_ok (q : Z * bytes) : bool :=
  match assoc_b (snd q) G.op_int_map with Some v => v =? fst q | None => false end.
Theorem gen_reps_ok : forallb rep_ok G.int_op_map = true.
Proof. vm_compute. reflexivity. Qed.

(* (5) INT_OP_MAP is the "last name wins" inversion of the name table ({value: key for key, value in ...}),
   on all 256 byte values *)
Fixpoint last_name (v : Z) (l : list (bytes * Z)) (cur : option bytes) : option bytes :=
  match l with
  | [] => cur
  | (n, v') :: r => last_name v r (if v' =? v then Some n else cur)
  end.
Definition opt_bytes_eqb (a b : option bytes) : bool :=
  match a, b with Some x, Some y => bytes_eqb x y | None, None => true | _, _ => false end.
Theorem gen_int_op_map_is_inversion :
  forallb (fun v => opt_bytes_eqb (assoc_z v G.int_op_map) (last_name v G.op_int_map None)) all_byte_values = true.
Proof. vm_compute. reflexivity. Qed.

(* (6) the three PUSHDATA opcodes, both directions *)
Theorem gen_pushdata_values :
  assoc_b s_PUSHDATA1 G.op_int_map = Some OP_PUSHDATA1_v /\ assoc_b s_PUSHDATA2 G.op_int_map = Some OP_PUSHDATA2_v
  /\ assoc_b s_PUSHDATA4 G.op_int_map = Some OP_PUSHDATA4_v
  /\ assoc_z 0x4c G.int_op_map = Some s_PUSHDATA1 /\ assoc_z 0x4d G.int_op_map = Some s_PUSHDATA2
  /\ assoc_z 0x4e G.int_op_map = Some s_PUSHDATA4.
Proof. vm_compute. repeat split; reflexivity. Qed.

(* (7) every non-push opcode byte of the REFERENCE is decoded by the code to a name that is not a PUSHDATA name,
   starts with "OP_" and assembles back to that byte *)
Definition decodes_ok (v : Z) : bool :=
  implb (spec_defined_nonpush v)
    match assoc_z v G.int_op_map with
    | Some r => negb (bytes_eqb r s_PUSHDATA1) && negb (bytes_eqb r s_PUSHDATA2) && negb (bytes_eqb r s_PUSHDATA4)
                && starts_with s_OP_ r
                && match assoc_b r G.op_int_map with Some v' => v' =? v | None => false end
    | None => false
    end.
Theorem gen_decodes_every_spec_byte : forallb decodes_ok all_byte_values = true.
Proof. vm_compute. reflexivity. Qed.

(* (8) the names f"OP_{k}" for k = 0..16 used by the multisig and witness-program builders *)
Theorem gen_small_int_opcodes :
  forallb (fun k => match assoc_b (s_OP_ ++ dec_str k) G.op_int_map with
                    | Some v => v =? (if k =? 0 then 0 else 80 + k) | None => false end)
          (map Z.of_nat (seq 0 17)) = true.
Proof. vm_compute. reflexivity. Qed.

(* (9) no name is listed twice (dir() of a module) and no byte twice in INT_OP_MAP (dict keys) *)
Fixpoint nodup_b (l : list bytes) : bool :=
  match l with [] => true | x :: r => negb (existsb (bytes_eqb x) r) && nodup_b r end.
Fixpoint nodup_z (l : list Z) : bool :=
  match l with [] => true | x :: r => negb (existsb (Z.eqb x) r) && nodup_z r end.
Theorem gen_keys_unique : nodup_b (map fst G.op_int_map) = true /\ nodup_z (map fst G.int_op_map) = true.
Proof. vm_compute. split; reflexivity. Qed.
