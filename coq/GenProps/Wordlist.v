(* The word list the code loads NOW (Gen/Wordlist.v, regenerated on every run from
   bits.bips.bip39.load_wordlist()) is well formed: 2048 entries, pairwise distinct, every word a
   non-empty string of lower-case ASCII letters (in particular no white space inside a word).
   That its text is the published BIP39 english.txt (sha256 2f5eed53...dbda) is checked by the
   harness with hashlib (obligation gen:Wordlist-digest). *)
From Coq Require Import ZArith List Bool.
Require Import Bits.Lib.Result Bits.Lib.Bytes Bits.Spec.Bip39.
Require Bits.Gen.Wordlist.
Import ListNotations.

Fixpoint memb (w : bytes) (l : list bytes) : bool :=
  match l with
  | [] => false
  | x :: r => bytes_eqb x w || memb w r
  end.

Fixpoint nodupb (l : list bytes) : bool :=
  match l with
  | [] => true
  | x :: r => negb (memb x r) && nodupb r
  end.

Lemma memb_In w l : memb w l = true <-> In w l.
Proof.
  induction l as [|x r IH]; simpl; [split; [discriminate|tauto]|].
  rewrite orb_true_iff, bytes_eqb_eq, IH. tauto.
Qed.

Lemma nodupb_NoDup l : nodupb l = true -> NoDup l.
Proof.
  induction l as [|x r IH]; simpl; intros H; [constructor|].
  apply andb_true_iff in H as [H1 H2]. constructor; [|auto].
  intros Hin. apply memb_In in Hin. rewrite Hin in H1. discriminate.
Qed.

Theorem gen_wordlist_length : length Bits.Gen.Wordlist.wordlist = 2048%nat.
Proof. vm_compute. reflexivity. Qed.

Theorem gen_wordlist_nodup : NoDup Bits.Gen.Wordlist.wordlist.
Proof. apply nodupb_NoDup. vm_compute. reflexivity. Qed.

Theorem gen_wordlist_words_ok : Forall (fun w => word_ok w = true) Bits.Gen.Wordlist.wordlist.
Proof. apply Forall_forall. apply forallb_forall. vm_compute. reflexivity. Qed.
