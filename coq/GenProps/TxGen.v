(* The constants bits.tx defines NOW equal the standard's values (Spec/Tx.v) and the model's. *)
From Coq Require Import ZArith List.
Require Import Bits.Lib.Bytes Bits.Spec.Tx Bits.Model.Tx.
Require Bits.Gen.TxGen.
Import ListNotations.
Local Open Scope Z_scope.

Theorem gen_uint32_max_is_spec : Bits.Gen.TxGen.uint32_max = spec_uint32_max.
Proof. vm_compute. reflexivity. Qed.
Theorem gen_uint32_max_is_width : Bits.Gen.TxGen.uint32_max = 2 ^ 32 - 1.
Proof. vm_compute. reflexivity. Qed.
(* the default sequence of txin() is the final sequence number, and it is what the model uses *)
Theorem gen_default_sequence_is_spec : Bits.Gen.TxGen.txin_default_sequence = spec_sequence_final.
Proof. vm_compute. reflexivity. Qed.
Theorem gen_default_sequence_is_model : Bits.Gen.TxGen.txin_default_sequence = default_sequence.
Proof. vm_compute. reflexivity. Qed.
Theorem gen_coinbase_default_sequence_is_spec : Bits.Gen.TxGen.coinbase_txin_default_sequence = spec_sequence_final.
Proof. vm_compute. reflexivity. Qed.
Theorem gen_tx_defaults : Bits.Gen.TxGen.tx_default_version = 1 /\ Bits.Gen.TxGen.tx_default_locktime = 0.
Proof. vm_compute. split; reflexivity. Qed.
