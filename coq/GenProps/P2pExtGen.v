(* What p2p.py has NOW (Gen/P2pExtGen.v, regenerated on every run) is what Model/P2pCodecExt.v assumes. *)
From Coq Require Import ZArith List Bool.
Require Import Bits.Lib.Result Bits.Lib.Bytes Bits.Model.P2pCodecExt.
Require Bits.Gen.P2pExtGen.
Local Open Scope Z_scope.

Module G := Bits.Gen.P2pExtGen.

Theorem gen_getblocks_default_version : G.getblocks_default_version = getblocks_default_version.
Proof. vm_compute. reflexivity. Qed.

(* neither message has a parse_<command>_payload: parse_payload answers None for both (Model/P2pCodec.v PNoParser) *)
Theorem gen_no_own_parser : G.has_parse_getblocks = false /\ G.has_parse_headers = false.
Proof. vm_compute. auto. Qed.
