(* What bits/bips/bip340.py contains NOW equals what the model (Model/Schnorr.v) takes from the BIP / SEC 2:
   the curve constants imported by name, the three tag strings in their order of use, the literals of lift_x,
   the 32-byte width of every to_bytes.  Regenerated from /repo on every run. *)
From Coq Require Import ZArith List Bool.
Require Import Bits.Lib.Bytes.
Require Bits.Spec.Secp256k1 Bits.Spec.Bip340 Bits.Gen.Bip340Gen.
Import ListNotations.
Local Open Scope Z_scope.
Module S := Bits.Spec.Secp256k1.
Module B := Bits.Spec.Bip340.
Module G := Bits.Gen.Bip340Gen.

Theorem gen_bip340_curve : G.p = S.p /\ G.n = S.n /\ G.Gx = S.Gx /\ G.Gy = S.Gy.
Proof. vm_compute. repeat split. Qed.

(* sign uses aux, nonce, challenge (in this order); verify uses challenge *)
Theorem gen_bip340_tags :
  G.sign_tags = [B.tag_aux; B.tag_nonce; B.tag_challenge] /\ G.verify_tags = [B.tag_challenge].
Proof. vm_compute. split; reflexivity. Qed.

(* c = x^3 + 7;  y = c^((p + 1) // 4) *)
Theorem gen_bip340_lift_literals : G.lift_cube = 3 /\ G.lift_b = 7 /\ G.lift_b = S.b /\ G.lift_exp_add = 1 /\ G.lift_exp_div = 4.
Proof. vm_compute. repeat split. Qed.

Theorem gen_bip340_widths : G.to_bytes_widths = [32].
Proof. vm_compute. reflexivity. Qed.

(* the premises on sizes and the parity / residue class of p used by the theorems hold for the constants in the code *)
Theorem gen_bip340_sizes : G.p <= 2 ^ 256 /\ G.n <= 2 ^ 256 /\ G.p mod 4 = 3 /\ 7 < G.p.
Proof. vm_compute. repeat split; discriminate. Qed.
