(* The alphabet and lookup table the code defines NOW equal the standard's (Spec). *)
From Coq Require Import ZArith List Bool.
Require Import Bits.Lib.Result Bits.Lib.Bytes Bits.Spec.Base58 Bits.Model.Base58.
Require Bits.Gen.Base58Gen.
Import ListNotations.

Theorem gen_alphabet_is_spec : Bits.Gen.Base58Gen.alphabet = Bits.Spec.Base58.alphabet.
Proof. vm_compute. reflexivity. Qed.

(* BITCOIN_ALPHABET_MAP is exactly the index function of the alphabet, on all 256 bytes *)
Definition map_lookup (c : byte) : option Z :=
  match find (fun p => byte_eqb (fst p) c) Bits.Gen.Base58Gen.alphabet_map with
  | Some p => Some (snd p) | None => None end.

Definition all_bytes : list byte := map (fun n => z2b (Z.of_nat n)) (seq 0 256).

Theorem gen_map_is_index :
  forallb (fun c => match map_lookup c, index_of c alphabet 0 with
                    | Some i, Some j => Z.eqb i j | None, None => true | _, _ => false end)
          all_bytes = true.
Proof. vm_compute. reflexivity. Qed.

Theorem gen_map_size : length Bits.Gen.Base58Gen.alphabet_map = 58%nat.
Proof. vm_compute. reflexivity. Qed.
