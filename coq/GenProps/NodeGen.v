(* The commands the receive thread handles inline NOW, and what their handlers do NOW (probed on
   recording sockets by harness/gen_c18.py), are what Model/NodeQueue.v says. *)
From Coq Require Import ZArith List Bool.
Require Coq.Strings.String.
Require Import Bits.Lib.Bytes Bits.Model.NodeQueue Bits.Spec.NodeQueue.
Require Bits.Gen.NodeGen.
Import ListNotations.

(* Node()._registered_commands_to_handle is the list the model tests membership in *)
Theorem gen_registered_is_model : Bits.Gen.NodeGen.registered = registered.
Proof. vm_compute. reflexivity. Qed.

(* hence the model's [handled] predicate is membership in the code's list *)
Theorem gen_handled_is_membership : forall m, handled m = mem (command m) Bits.Gen.NodeGen.registered.
Proof. intros m. unfold handled. now rewrite gen_registered_is_model. Qed.

(* the handled set is exactly {version, verack, ping} *)
Theorem gen_handled_set : forall c,
  mem c Bits.Gen.NodeGen.registered = true <-> c = cmd_version \/ c = cmd_verack \/ c = cmd_ping.
Proof.
  intros c. rewrite gen_registered_is_model. unfold mem, registered. cbn [existsb].
  rewrite !orb_true_iff, !bytes_eqb_eq. intuition congruence.
Qed.

(* every registered command has a handler method (otherwise handle_command raises AttributeError
   and the receive thread dies with the message neither handled nor queued) *)
Theorem gen_registered_have_handlers :
  forallb (fun c => mem c Bits.Gen.NodeGen.handler_names) Bits.Gen.NodeGen.registered = true.
Proof. vm_compute. reflexivity. Qed.

(* what the model's handler does for peer 1 of a fresh node with the probed frame *)
Definition model_probe (cmd raw : bytes) : list (bytes * bytes) * Z * bool :=
  let s := run_handler (init []) 1 (classify cmd raw) in
  (map frame_of_reply (sent s 1),
   Z.of_nat (length (sent s 0) + length (sent s 2)),
   match stored s 1 with Some v => bytes_eqb v raw | None => false end).

Fixpoint frames_eqb (a b : list (bytes * bytes)) : bool :=
  match a, b with
  | [], [] => true
  | x :: a', y :: b' => bytes_eqb (fst x) (fst y) && bytes_eqb (snd x) (snd y) && frames_eqb a' b'
  | _, _ => false
  end.

(* the probe covers exactly the registered commands, and every handler did exactly what the model's
   [run_handler] does: the reply frames on the addressed peer's socket (verack for version, pong
   with the SAME nonce for ping, nothing for verack), nothing on any other socket, the version
   payload stored *)
Theorem gen_probe_is_model :
  map (fun r => fst (fst (fst (fst r)))) Bits.Gen.NodeGen.probe = registered /\
  forallb (fun r => match r with
                    | (cmd, raw, frames, elsewhere, kept) =>
                        match model_probe cmd raw with
                        | (frames', elsewhere', kept') =>
                            frames_eqb frames frames'
                            && Z.eqb elsewhere elsewhere' && Bool.eqb kept kept'
                        end
                    end) Bits.Gen.NodeGen.probe = true.
Proof. split; vm_compute; reflexivity. Qed.

(* and the model's handler is the specified reply *)
Theorem model_handler_is_spec : forall s t m,
  handled m = true ->
  sent (run_handler s t m) t = sent s t ++ expected_reply m /\
  (forall p, p <> t -> sent (run_handler s t m) p = sent s p) /\
  queue (run_handler s t m) = queue s.
Proof.
  intros s t m _. destruct m; cbn; unfold upd; rewrite ?Nat.eqb_refl, ?app_nil_r; repeat split; auto;
    intros p Hp; apply Nat.eqb_neq in Hp; now rewrite Hp.
Qed.

(* Static footprint of Node.recv_loop on the node's state (read from its source by harness/gen_c18.py and NORMALISED there:
   every occurrence of self.<attr> in recv_loop and in the private Node methods it calls - inlined transitively - reduced to
   its access path and use, as a sorted multiset).  The only operations on the node's state are the ones [step] models: the
   exit test, the receive on the peer's own socket, ONE membership test, ONE handler call, ONE append to the queue, the close
   of the peer's own socket.  In particular nothing reads (len, iteration) or modifies the shared queue apart from that
   append, and there is no node-wide attribute beyond these - so the (A) step of the model is one atomic deque operation.
   Renamed locals, a negated test with an early `continue`, helper methods and logging do not change this table. *)
Definition str (s : Coq.Strings.String.string) : bytes := Coq.Strings.String.list_byte_of_string s.
Import Coq.Strings.String.
Local Open Scope string_scope.
Definition expected_recv_loop_ops : list (Coq.Strings.String.string * Coq.Strings.String.string) :=
  [ ("_msg_queue.append()",                  "1");
    ("_peer_sockets[] arg:recv_msg",         "1");
    ("_peer_sockets[].close()",              "1");
    ("_peer_threads[].exit_event.is_set()",  "1");
    ("handle_command()",                     "1");
    ("in _registered_commands_to_handle",    "1") ].

Theorem gen_recv_loop_shape :
  Bits.Gen.NodeGen.recv_loop_ops = map (fun p => (str (fst p), str (snd p))) expected_recv_loop_ops.
Proof. vm_compute. reflexivity. Qed.
