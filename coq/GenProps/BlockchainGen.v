(* The values blockchain.py has NOW (Gen/BlockchainGen.v, regenerated on every run) are the values of the standards
   (Spec/Target.v, Spec/Genesis.v) and of the models (Model/Target.v, Model/Genesis.v). *)
From Coq Require Import ZArith List Bool.
Require Import Bits.Lib.Result Bits.Lib.Bytes Bits.Spec.Target Bits.Spec.Genesis Bits.Model.Target Bits.Model.Genesis Bits.Model.Difficulty.
Require Bits.Gen.BlockchainGen.
Import ListNotations.
Import Coq.Init.Byte.
Local Open Scope Z_scope.

Module G := Bits.Gen.BlockchainGen.

(* MAX_TARGET is the difficulty-1 target 0x1d00ffff of the main network, by the code and by SetCompact *)
Theorem gen_max_target :
  G.max_target = 65535 * 2 ^ 208 /\ G.max_target = sc_value nbits_main
  /\ target_threshold (to_be 4 nbits_main) = PInt G.max_target.
Proof. vm_compute. auto. Qed.

(* MAX_TARGET_REGTEST is 0x207fffff *)
Theorem gen_max_target_regtest :
  G.max_target_regtest = 8388607 * 2 ^ 232 /\ G.max_target_regtest = sc_value nbits_regtest
  /\ target_threshold (to_be 4 nbits_regtest) = PInt G.max_target_regtest.
Proof. vm_compute. auto. Qed.

(* the docstring's example is what the model computes *)
Theorem gen_docstring_vector : target_threshold G.docstring_nbits = PInt G.docstring_target.
Proof. vm_compute. reflexivity. Qed.

(* genesis_coinbase_tx() returns the published coinbase transaction, and the model computes the same bytes *)
Theorem gen_genesis_coinbase_tx :
  G.genesis_coinbase_tx = Bits.Spec.Genesis.genesis_coinbase /\ Bits.Model.Genesis.genesis_coinbase_tx = Ok G.genesis_coinbase_tx.
Proof. vm_compute. auto. Qed.

(* genesis_block() returns the published 285 bytes *)
Theorem gen_genesis_block : G.genesis_block = Bits.Spec.Genesis.genesis_block.
Proof. vm_compute. reflexivity. Qed.

(* the constants difficulty() divides are the model's *)
Theorem gen_difficulty_constants :
  G.max_target = Bits.Model.Difficulty.MAX_TARGET /\ G.max_target_regtest = Bits.Model.Difficulty.MAX_TARGET_REGTEST.
Proof. vm_compute. auto. Qed.
