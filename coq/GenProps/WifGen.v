(* The WIF tables, ASN.1 tag tables and OID encodings /repo defines NOW agree with the Spec / the model. *)
From Coq Require Import ZArith List Bool String.
Require Import Bits.Lib.Result Bits.Lib.Bytes Bits.Spec.Wif Bits.Model.Wif Bits.Model.Asn1.
Require Bits.Spec.Rfc5915.
Require Bits.Gen.WifGen.
Import ListNotations.
Local Open Scope string_scope.
Local Open Scope Z_scope.

Theorem gen_network_base_is_spec : Bits.Gen.WifGen.wif_network_base = network_base.
Proof. vm_compute. reflexivity. Qed.

Theorem gen_script_offset_is_spec : Bits.Gen.WifGen.wif_script_offset = script_offset.
Proof. vm_compute. reflexivity. Qed.

(* WIF_TYPE_COMBINATIONS_MAP (the decoder's dict) is the Spec table, entry by entry and in order *)
Theorem gen_combinations_map_is_spec : Bits.Gen.WifGen.wif_type_combinations_map = version_table.
Proof. vm_compute. reflexivity. Qed.

(* it is the inverse of WIF_TYPE_COMBINATIONS *)
Theorem gen_map_is_inverse :
  Bits.Gen.WifGen.wif_type_combinations_map
  = map (fun kv : (bytes * bytes) * Z => (snd kv, fst kv)) Bits.Gen.WifGen.wif_type_combinations.
Proof. vm_compute. reflexivity. Qed.

(* base + offset = combination, for every (network, type) listed in WIF_TYPE_COMBINATIONS *)
Theorem gen_base_plus_offset :
  forallb (fun kv : (bytes * bytes) * Z =>
             match lookup_str (fst (fst kv)) Bits.Gen.WifGen.wif_network_base,
                   lookup_str (snd (fst kv)) Bits.Gen.WifGen.wif_script_offset with
             | Ok b, Ok o => b + o =? snd kv
             | _, _ => false
             end) Bits.Gen.WifGen.wif_type_combinations = true.
Proof. vm_compute. reflexivity. Qed.

(* the map is injective on (network class, type): no two rows share a version byte *)
Fixpoint nodupZ (l : list Z) : bool :=
  match l with [] => true | x :: xs => negb (existsb (Z.eqb x) xs) && nodupZ xs end.
Theorem gen_versions_distinct : nodupZ (map snd Bits.Gen.WifGen.wif_type_combinations) = true.
Proof. vm_compute. reflexivity. Qed.
Theorem gen_versions_count : List.length Bits.Gen.WifGen.wif_type_combinations = 16%nat.
Proof. vm_compute. reflexivity. Qed.

(* ASN.1: the tag numbers the model dispatches on carry the names the library gives them *)
Definition tag_name (t : Z) : option bytes :=
  match find (fun kv : Z * bytes => fst kv =? t) Bits.Gen.WifGen.tag_map with Some kv => Some (snd kv) | None => None end.
Theorem gen_tag_names :
  tag_name T_INTEGER = Some (ascii "INTEGER") /\ tag_name T_BITSTRING = Some (ascii "BIT STRING") /\
  tag_name T_OCTETSTRING = Some (ascii "OCTET STRING") /\ tag_name T_OID = Some (ascii "OBJECT IDENTIFIER") /\
  tag_name T_SEQUENCE = Some (ascii "SEQUENCE (OF)").
Proof. vm_compute. repeat split; reflexivity. Qed.
Theorem gen_tag_classes :
  Bits.Gen.WifGen.tag_class_map =
  [(0, ascii "Universal"); (1, ascii "Application"); (2, ascii "Context-specific"); (3, ascii "Private")].
Proof. vm_compute. reflexivity. Qed.

(* OIDs: what the encoder writes for the two names = the model's encode_oid = X.690 (Spec/Rfc5915.v) *)
Theorem gen_oid_ecPublicKey :
  Bits.Gen.WifGen.oid_nodes_ecPublicKey = oid_ecPublicKey /\
  Bits.Gen.WifGen.oid_nodes_ecPublicKey = Bits.Spec.Rfc5915.id_ecPublicKey /\
  encode_oid oid_ecPublicKey = Ok Bits.Gen.WifGen.oid_der_ecPublicKey /\
  Bits.Gen.WifGen.oid_der_ecPublicKey = Bits.Spec.Rfc5915.oid_content Bits.Spec.Rfc5915.id_ecPublicKey.
Proof. vm_compute. repeat split; reflexivity. Qed.
Theorem gen_oid_ansip256k1 :
  Bits.Gen.WifGen.oid_nodes_ansip256k1 = oid_ansip256k1 /\
  Bits.Gen.WifGen.oid_nodes_ansip256k1 = Bits.Spec.Rfc5915.secp256k1_oid /\
  encode_oid oid_ansip256k1 = Ok Bits.Gen.WifGen.oid_der_ansip256k1 /\
  Bits.Gen.WifGen.oid_der_ansip256k1 = Bits.Spec.Rfc5915.oid_content Bits.Spec.Rfc5915.secp256k1_oid.
Proof. vm_compute. repeat split; reflexivity. Qed.
