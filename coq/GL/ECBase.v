(* Chord-and-tangent addition on y^2 = x^3 + A x + B over an abstract field K (Leibniz equality,
   decidable), characteristic <> 2, and NO point with y = 0 (no rational 2-torsion):
   definitions, case analysis, and all group laws except associativity. *)
From Coq Require Import Field Ring Setoid Bool.

Section EC.
Variable K : Type.
Variables (kO kI : K) (kadd kmul ksub : K -> K -> K) (kopp : K -> K) (kdiv : K -> K -> K) (kinv : K -> K).
Hypothesis Kfth : field_theory kO kI kadd kmul ksub kopp kdiv kinv (@eq K).
Hypothesis keq_dec : forall x y : K, {x = y} + {x <> y}.

Declare Scope k_scope.
Delimit Scope k_scope with K.
Local Open Scope k_scope.
Notation "0" := kO : k_scope.
Notation "1" := kI : k_scope.
Notation "2" := (kadd kI kI) : k_scope.
Notation "3" := (kadd kI (kadd kI kI)) : k_scope.
Infix "+" := kadd : k_scope.
Infix "*" := kmul : k_scope.
Infix "-" := ksub : k_scope.
Infix "/" := kdiv : k_scope.
Notation "- x" := (kopp x) : k_scope.

Add Field Kfield : Kfth.

Variables A B : K.
Hypothesis two_nz : 2 <> 0.
(* no point of order 2: the cubic has no root in K *)
Hypothesis no2 : forall x, x*x*x + A*x + B <> 0.

Definition pt : Type := option (K * K).

Definition on (P : pt) : Prop :=
  match P with None => True | Some (x, y) => y*y = x*x*x + A*x + B end.

Definition neg (P : pt) : pt :=
  match P with None => None | Some (x, y) => Some (x, 0 - y) end.

Definition keqb (x y : K) : bool := if keq_dec x y then true else false.
Definition peqb (P Q : pt) : bool :=
  match P, Q with
  | None, None => true
  | Some (x1, y1), Some (x2, y2) => keqb x1 x2 && keqb y1 y2
  | _, _ => false
  end.

Definition tan_pt (x1 y1 : K) : K * K :=
  let s := (3 * (x1*x1) + A) / (2 * y1) in
  let xr := s*s - 2*x1 in
  let yr := ((0 - s) * xr + s * x1) - y1 in (xr, yr).

Definition chord_pt (x1 y1 x2 y2 : K) : K * K :=
  let s := (y2 - y1) / (x2 - x1) in
  let xr := (s*s - x1) - x2 in
  let yr := ((0 - s) * xr + s * x1) - y1 in (xr, yr).

Definition add (P Q : pt) : pt :=
  match P, Q with
  | None, _ => Q
  | _, None => P
  | Some (x1, y1), Some (x2, y2) =>
    if peqb P Q then Some (tan_pt x1 y1)
    else if peqb P (neg Q) then None
    else Some (chord_pt x1 y1 x2 y2)
  end.

(* ---------- field facts ---------- *)
Lemma keqb_eq x y : keqb x y = true <-> x = y.
Proof. unfold keqb. destruct (keq_dec x y); split; congruence. Qed.

Lemma peqb_eq P Q : peqb P Q = true <-> P = Q.
Proof.
  destruct P as [[x1 y1]|], Q as [[x2 y2]|]; simpl; try (split; congruence).
  rewrite andb_true_iff, !keqb_eq. split; [intros [-> ->]; reflexivity | intros E; inversion E; auto].
Qed.

Lemma sub_nz x y : x <> y -> y - x <> 0.
Proof. intros N E. apply N. transitivity (y - (y - x)); [ring | rewrite E; ring]. Qed.

Lemma sub_eq x y : x - y = 0 -> x = y.
Proof. intros E. transitivity (y + (x - y)); [ring | rewrite E; ring]. Qed.

Lemma mul_eq_0 x y : x * y = 0 -> x = 0 \/ y = 0.
Proof.
  intros E. destruct (keq_dec x 0) as [|N]; [now left|right].
  transitivity ((x * y) / x); [field; exact N | rewrite E; field; exact N].
Qed.

Lemma mul_nz x y : x <> 0 -> y <> 0 -> x * y <> 0.
Proof. intros Hx Hy E. destruct (mul_eq_0 _ _ E); auto. Qed.

Lemma sq_eq x y : x*x = y*y -> x = y \/ x = 0 - y.
Proof.
  intros E. assert (E' : (x - y) * (x + y) = 0) by (transitivity (x*x - y*y); [ring | rewrite E; ring]).
  destruct (mul_eq_0 _ _ E') as [H|H]; [left; now apply sub_eq | right].
  transitivity ((x + y) - y); [ring | rewrite H; ring].
Qed.

Lemma on_y_nz x y : on (Some (x, y)) -> y <> 0.
Proof. simpl. intros H E. apply (no2 x). rewrite <- H, E. ring. Qed.

Lemma two_y_nz x y : on (Some (x, y)) -> 2 * y <> 0.
Proof. intros H. apply mul_nz; [exact two_nz | now apply (on_y_nz x)]. Qed.

Lemma y_ne_neg x y : on (Some (x, y)) -> y <> 0 - y.
Proof.
  intros H E. apply (two_y_nz x y H). transitivity (y - (0 - y)); [ring | rewrite <- E; ring].
Qed.

Lemma same_x x y1 y2 : on (Some (x, y1)) -> on (Some (x, y2)) -> y2 = y1 \/ y2 = 0 - y1.
Proof. simpl. intros H1 H2. apply sq_eq. now rewrite H1, H2. Qed.

(* ---------- neg ---------- *)
Lemma neg_on P : on P -> on (neg P).
Proof. destruct P as [[x y]|]; simpl; [|auto]. intros H. rewrite <- H. ring. Qed.

Lemma neg_neg P : neg (neg P) = P.
Proof. destruct P as [[x y]|]; simpl; [|auto]. do 2 f_equal. ring. Qed.

Lemma neg_inj P Q : neg P = neg Q -> P = Q.
Proof. intros E. rewrite <- (neg_neg P), E. apply neg_neg. Qed.

(* ---------- case analysis of add on two affine curve points ---------- *)
Inductive add_case (x1 y1 x2 y2 : K) : pt -> Prop :=
| AC_opp : x1 = x2 -> y2 = 0 - y1 -> y1 <> y2 -> add_case x1 y1 x2 y2 None
| AC_tan : x1 = x2 -> y1 = y2 -> add_case x1 y1 x2 y2 (Some (tan_pt x1 y1))
| AC_chord : x1 <> x2 -> add_case x1 y1 x2 y2 (Some (chord_pt x1 y1 x2 y2)).

Lemma add_cases x1 y1 x2 y2 : on (Some (x1, y1)) -> on (Some (x2, y2)) ->
  add_case x1 y1 x2 y2 (add (Some (x1, y1)) (Some (x2, y2))).
Proof.
  intros H1 H2. unfold add.
  destruct (peqb (Some (x1, y1)) (Some (x2, y2))) eqn:E1.
  { apply peqb_eq in E1. inversion E1; subst. now apply AC_tan. }
  destruct (peqb (Some (x1, y1)) (neg (Some (x2, y2)))) eqn:E2.
  { apply peqb_eq in E2. simpl in E2. inversion E2; subst.
    apply AC_opp; [reflexivity | ring | ]. intros E. 
    apply (y_ne_neg x2 y2 H2). symmetry. exact E. }
  apply AC_chord. intros ->.
  destruct (same_x _ _ _ H1 H2) as [->| ->].
  - assert (T : peqb (Some (x2, y1)) (Some (x2, y1)) = true) by now apply peqb_eq. congruence.
  - assert (T : peqb (Some (x2, y1)) (neg (Some (x2, 0 - y1))) = true).
    { apply peqb_eq. simpl. do 2 f_equal. ring. } congruence.
Qed.

(* direct forms *)
Lemma add_tan x y : on (Some (x, y)) -> add (Some (x, y)) (Some (x, y)) = Some (tan_pt x y).
Proof.
  intros H. unfold add. assert (T : peqb (Some (x, y)) (Some (x, y)) = true) by now apply peqb_eq.
  now rewrite T.
Qed.

Lemma add_chord x1 y1 x2 y2 : x1 <> x2 ->
  add (Some (x1, y1)) (Some (x2, y2)) = Some (chord_pt x1 y1 x2 y2).
Proof.
  intros N. unfold add.
  destruct (peqb (Some (x1, y1)) (Some (x2, y2))) eqn:E1.
  { apply peqb_eq in E1. inversion E1; congruence. }
  destruct (peqb (Some (x1, y1)) (neg (Some (x2, y2)))) eqn:E2.
  { apply peqb_eq in E2. inversion E2; congruence. }
  reflexivity.
Qed.

Lemma add_O_l P : add None P = P.
Proof. reflexivity. Qed.
Lemma add_O_r P : add P None = P.
Proof. destruct P as [[x y]|]; reflexivity. Qed.

Lemma add_neg_r P : on P -> add P (neg P) = None.
Proof.
  destruct P as [[x y]|]; [|reflexivity]. intros H.
  assert (H' := neg_on _ H). simpl neg in *.
  destruct (add_cases x y x (0 - y) H H') as [_ _ _| _ E | N]; [reflexivity | | congruence].
  exfalso. now apply (y_ne_neg x y H).
Qed.

(* ---------- coordinates lemmas (field computations) ---------- *)
Lemma tan_on x y : on (Some (x, y)) -> on (Some (tan_pt x y)).
Proof.
  intros H. assert (Hy := on_y_nz _ _ H). simpl in H.
  assert (HB : B = y*y - x*x*x - A*x) by (rewrite H; ring).
  unfold tan_pt, on. rewrite HB. field. split; [exact Hy | exact two_nz].
Qed.

Lemma chord_on x1 y1 x2 y2 : on (Some (x1, y1)) -> on (Some (x2, y2)) -> x1 <> x2 ->
  on (Some (chord_pt x1 y1 x2 y2)).
Proof.
  simpl. intros H1 H2 Hx. assert (Hd := sub_nz _ _ Hx).
  assert (HB : B = y1*y1 - x1*x1*x1 - A*x1) by (rewrite H1; ring).
  assert (HA : A = (y2*y2 - y1*y1 - (x2*x2*x2 - x1*x1*x1)) / (x2 - x1)).
  { rewrite H2, H1. field. exact Hd. }
  rewrite HB. rewrite HA. field. exact Hd.
Qed.

Theorem add_on P Q : on P -> on Q -> on (add P Q).
Proof.
  destruct P as [[x1 y1]|], Q as [[x2 y2]|]; try (simpl; tauto).
  intros H1 H2. destruct (add_cases x1 y1 x2 y2 H1 H2) as [_ _ _| _ _ | N].
  - exact I.
  - now apply tan_on.
  - now apply chord_on.
Qed.

Lemma chord_comm x1 y1 x2 y2 : x1 <> x2 -> chord_pt x1 y1 x2 y2 = chord_pt x2 y2 x1 y1.
Proof.
  intros Hx. assert (Hd := sub_nz _ _ Hx). assert (Hd' := sub_nz _ _ (not_eq_sym Hx)).
  unfold chord_pt. f_equal; field; auto.
Qed.

Theorem add_comm P Q : on P -> on Q -> add P Q = add Q P.
Proof.
  destruct P as [[x1 y1]|], Q as [[x2 y2]|]; try reflexivity.
  intros H1 H2.
  destruct (add_cases x1 y1 x2 y2 H1 H2) as [E1 E2 E3| E1 E2 | N].
  - subst. destruct (add_cases x2 (0 - y1) x2 y1 H2 H1) as [_ _ _| _ E | N]; [reflexivity | | congruence].
    exfalso. now apply E3.
  - subst. now rewrite add_tan.
  - rewrite (add_chord x2 y2 x1 y1) by congruence. f_equal. now apply chord_comm.
Qed.

Lemma tan_neg x y : y <> 0 -> tan_pt x (0 - y) = (fst (tan_pt x y), 0 - snd (tan_pt x y)).
Proof.
  intros Hy. assert (Hy' : - y <> 0) by (intros E; apply Hy; transitivity (- - y); [ring | rewrite E; ring]).
  unfold tan_pt. simpl. f_equal; field; repeat split; auto; exact two_nz.
Qed.

Lemma chord_neg x1 y1 x2 y2 : x1 <> x2 ->
  chord_pt x1 (0 - y1) x2 (0 - y2) = (fst (chord_pt x1 y1 x2 y2), 0 - snd (chord_pt x1 y1 x2 y2)).
Proof.
  intros Hx. assert (Hd := sub_nz _ _ Hx). unfold chord_pt. simpl. f_equal; field; auto.
Qed.

Theorem neg_add P Q : on P -> on Q -> neg (add P Q) = add (neg P) (neg Q).
Proof.
  destruct P as [[x1 y1]|], Q as [[x2 y2]|]; try reflexivity.
  intros H1 H2. assert (H1' := neg_on _ H1). assert (H2' := neg_on _ H2).
  change (neg (Some (x1, y1))) with (Some (x1, 0 - y1)) in *.
  change (neg (Some (x2, y2))) with (Some (x2, 0 - y2)) in *.
  destruct (add_cases x1 y1 x2 y2 H1 H2) as [E1 E2 E3| E1 E2 | N].
  - subst. destruct (add_cases x2 (0 - y1) x2 (0 - (0 - y1)) H1' H2') as [_ _ _| _ E | N]; [reflexivity | | congruence].
    exfalso. apply E3. transitivity (0 - (0 - y1)); [ring|]. rewrite <- E. ring.
  - subst. rewrite add_tan by exact H1'.
    rewrite tan_neg by (eapply on_y_nz; eassumption). now destruct (tan_pt _ _).
  - rewrite add_chord by exact N.
    rewrite chord_neg by exact N. now destruct (chord_pt x1 y1 x2 y2).
Qed.

(* everything later files need, as one record (a single instantiation point) *)
Set Implicit Arguments.
Record base_laws : Prop := {
  bl_sub_nz : forall x y, x <> y -> y - x <> 0;
  bl_sub_eq : forall x y, x - y = 0 -> x = y;
  bl_mul_nz : forall x y, x <> 0 -> y <> 0 -> x * y <> 0;
  bl_on_y_nz : forall x y, on (Some (x, y)) -> y <> 0;
  bl_y_ne_neg : forall x y, on (Some (x, y)) -> y <> 0 - y;
  bl_same_x : forall x y1 y2, on (Some (x, y1)) -> on (Some (x, y2)) -> y2 = y1 \/ y2 = 0 - y1;
  bl_neg_on : forall P, on P -> on (neg P);
  bl_neg_neg : forall P, neg (neg P) = P;
  bl_add_cases : forall x1 y1 x2 y2, on (Some (x1, y1)) -> on (Some (x2, y2)) ->
     add_case x1 y1 x2 y2 (add (Some (x1, y1)) (Some (x2, y2)));
  bl_add_tan : forall x y, on (Some (x, y)) -> add (Some (x, y)) (Some (x, y)) = Some (tan_pt x y);
  bl_add_chord : forall x1 y1 x2 y2, x1 <> x2 ->
     add (Some (x1, y1)) (Some (x2, y2)) = Some (chord_pt x1 y1 x2 y2);
  bl_add_O_r : forall P, add P None = P;
  bl_add_neg_r : forall P, on P -> add P (neg P) = None;
  bl_tan_on : forall x y, on (Some (x, y)) -> on (Some (tan_pt x y));
  bl_chord_on : forall x1 y1 x2 y2, on (Some (x1, y1)) -> on (Some (x2, y2)) -> x1 <> x2 ->
     on (Some (chord_pt x1 y1 x2 y2));
  bl_add_on : forall P Q, on P -> on Q -> on (add P Q);
  bl_chord_comm : forall x1 y1 x2 y2, x1 <> x2 -> chord_pt x1 y1 x2 y2 = chord_pt x2 y2 x1 y1;
  bl_add_comm : forall P Q, on P -> on Q -> add P Q = add Q P;
  bl_tan_neg : forall x y, y <> 0 -> tan_pt x (0 - y) = (fst (tan_pt x y), 0 - snd (tan_pt x y));
  bl_neg_add : forall P Q, on P -> on Q -> neg (add P Q) = add (neg P) (neg Q);
}.
Unset Implicit Arguments.

Theorem base : base_laws.
Proof.
  constructor.
  - exact sub_nz. - exact sub_eq. - exact mul_nz. - exact on_y_nz. - exact y_ne_neg. - exact same_x.
  - exact neg_on. - exact neg_neg. - exact add_cases. - exact add_tan. - exact add_chord.
  - exact add_O_r. - exact add_neg_r. - exact tan_on. - exact chord_on. - exact add_on.
  - exact chord_comm. - exact add_comm. - exact tan_neg. - exact neg_add.
Qed.

End EC.
