(* The four generic associativity identities, as field computations on coordinates. *)
From Coq Require Import Field Ring Setoid Bool.
Require Import Bits.GL.ECBase Bits.GL.ECSpec.

Section EC.
Variable K : Type.
Variables (kO kI : K) (kadd kmul ksub : K -> K -> K) (kopp : K -> K) (kdiv : K -> K -> K) (kinv : K -> K).
Hypothesis Kfth : field_theory kO kI kadd kmul ksub kopp kdiv kinv (@eq K).
Hypothesis keq_dec : forall x y : K, {x = y} + {x <> y}.

Declare Scope k_scope.
Delimit Scope k_scope with K.
Local Open Scope k_scope.
Notation "0" := kO : k_scope.
Notation "1" := kI : k_scope.
Notation "2" := (kadd kI kI) : k_scope.
Notation "3" := (kadd kI (kadd kI kI)) : k_scope.
Infix "+" := kadd : k_scope.
Infix "*" := kmul : k_scope.
Infix "-" := ksub : k_scope.
Infix "/" := kdiv : k_scope.
Notation "- x" := (kopp x) : k_scope.

Add Field Kfield : Kfth.

Variables A B : K.
Hypothesis two_nz : 2 <> 0.
(* no point of order 2: the cubic has no root in K *)
Hypothesis no2 : forall x, x*x*x + A*x + B <> 0.

Notation pt := (ECBase.pt K).
Notation on := (ECBase.on K kadd kmul A B).
Notation neg := (ECBase.neg K kO ksub).
Notation add := (ECBase.add K kO kI kadd kmul ksub kdiv keq_dec A).
Notation tan_pt := (ECBase.tan_pt K kO kI kadd kmul ksub kdiv A).
Notation chord_pt := (ECBase.chord_pt K kO kadd kmul ksub kdiv).
Let BL := base K kO kI kadd kmul ksub kopp kdiv kinv Kfth keq_dec A B two_nz no2.


(* side conditions of [field]: goal [X <> 0] from a hypothesis [N : Y <> 0] where X is +-Y or its numerator *)
Ltac close_by E :=
  match type of E with
  | ?Y = 0 => first [ transitivity Y; [ring | exact E]
                   | transitivity (- Y); [ring | rewrite E; ring] ]
  end.
Ltac nz_of N := let E := fresh "E" in intros E; apply N; close_by E.
Ltac nz_simple :=
  first [ assumption | exact two_nz
        | match goal with N : _ <> 0 |- _ <> 0 => solve [nz_of N] end ].
Ltac nz_frac N :=
  let E := fresh "E" in
  intros E; apply N; field_simplify_eq; [ close_by E | repeat split; nz_simple ].
Ltac nz_solve :=
  repeat split;
  first [ nz_simple
        | match goal with N : _ <> 0 |- _ <> 0 => solve [nz_frac N] end ].

Lemma spec3 x1 y1 x2 y2 : on (Some (x1, y1)) -> on (Some (x2, y2)) -> x1 <> x2 ->
  let S := chord_pt x1 y1 x2 y2 in
  snd S <> 0 -> x2 <> fst S ->
  let T := chord_pt x2 y2 (fst S) (snd S) in
  x1 <> fst T ->
  tan_pt (fst S) (snd S) = chord_pt x1 y1 (fst T) (snd T).
Proof.
  intros H1 H2 Hx S Hy N1 T N2.
  destruct (chord_params K kO kI kadd kmul ksub kopp kdiv kinv Kfth keq_dec A B two_nz no2 x1 y1 x2 y2 H1 H2 Hx) as (Ey & EA & _).
  apply (bl_sub_nz BL) in N1. apply (bl_sub_nz BL) in N2. revert N2. subst T. revert Hy N1. subst S.
  unfold ECBase.tan_pt, ECBase.chord_pt. cbn [fst snd].
  set (s := (y2 - y1) / (x2 - x1)) in *. clearbody s. subst y2. rewrite EA. clear EA H1 H2.
  intros Hy N1 N2.
  f_equal.
  - Time field. Time nz_solve.
  - Time field. Time nz_solve.
Time Qed.
Lemma spec4 x1 y1 : on (Some (x1, y1)) ->
  let D := tan_pt x1 y1 in
  snd D <> 0 -> x1 <> fst D ->
  let T := chord_pt x1 y1 (fst D) (snd D) in
  x1 <> fst T ->
  tan_pt (fst D) (snd D) = chord_pt x1 y1 (fst T) (snd T).
Proof.
  intros H1 D Hy N1 T N2. assert (Hy1 := bl_on_y_nz BL H1).
  destruct (tan_params K kO kI kadd kmul ksub kopp kdiv kinv Kfth keq_dec A B two_nz no2 x1 y1 H1) as (EA & _).
  apply (bl_sub_nz BL) in N1. apply (bl_sub_nz BL) in N2. revert N2. subst T. revert Hy N1. subst D.
  unfold ECBase.tan_pt, ECBase.chord_pt. cbn [fst snd].
  set (l := (3 * (x1*x1) + A) / (2 * y1)) in *. clearbody l. rewrite EA. clear EA H1.
  intros Hy N1 N2.
  f_equal.
  - Time field. Time nz_solve.
  - Time field. Time nz_solve.
Time Qed.

(* (P + P) + R = P + (P + R) *)
Lemma spec2 x1 y1 x3 y3 : on (Some (x1, y1)) -> on (Some (x3, y3)) -> x1 <> x3 ->
  let D := tan_pt x1 y1 in
  fst D <> x3 ->
  let T := chord_pt x1 y1 x3 y3 in
  x1 <> fst T ->
  chord_pt (fst D) (snd D) x3 y3 = chord_pt x1 y1 (fst T) (snd T).
Proof.
  intros H1 H3 Hx D N1 T N2. assert (Hy1 := bl_on_y_nz BL H1).
  destruct (tan_params K kO kI kadd kmul ksub kopp kdiv kinv Kfth keq_dec A B two_nz no2 x1 y1 H1) as (EA & EB).
  apply (bl_sub_nz BL) in Hx. apply (bl_sub_nz BL) in N1. apply (bl_sub_nz BL) in N2. revert N2. subst T. revert N1. subst D.
  unfold ECBase.tan_pt, ECBase.chord_pt. cbn [fst snd].
  simpl in H3. cbv zeta in EA, EB.
  set (l := (3 * (x1*x1) + A) / (2 * y1)) in *. clearbody l. rewrite EB in H3. rewrite EA in H3. clear EA EB H1.
  intros N1 N2.
  match goal with |- (?a, ?b) = (?c, ?d) => assert (Ex : a = c) end.
  { time "fse" field_simplify_eq; [ time "ring" ring [H3] | time "nz" nz_solve ]. }
  f_equal; [exact Ex|]. rewrite <- Ex.
  time "fse" field_simplify_eq; [ time "ring" ring [H3] | time "nz" nz_solve ].
Time Qed.

(* (P + Q) + R = P + (Q + R), four chords *)
Lemma spec1 x1 y1 x2 y2 x3 y3 : on (Some (x1, y1)) -> on (Some (x2, y2)) -> on (Some (x3, y3)) ->
  x1 <> x2 -> x2 <> x3 ->
  let S := chord_pt x1 y1 x2 y2 in
  fst S <> x3 ->
  let T := chord_pt x2 y2 x3 y3 in
  x1 <> fst T ->
  chord_pt (fst S) (snd S) x3 y3 = chord_pt x1 y1 (fst T) (snd T).
Proof.
  intros H1 H2 H3 Hx Hx23 S N1 T N2.
  destruct (chord_params K kO kI kadd kmul ksub kopp kdiv kinv Kfth keq_dec A B two_nz no2 x1 y1 x2 y2 H1 H2 Hx) as (Ey & EA & EB).
  apply (bl_sub_nz BL) in Hx23. apply (bl_sub_nz BL) in N1. apply (bl_sub_nz BL) in N2. revert N2. subst T. revert N1. subst S.
  unfold ECBase.chord_pt. cbn [fst snd].
  simpl in H3. cbv zeta in Ey, EA, EB.
  set (s := (y2 - y1) / (x2 - x1)) in *. clearbody s. subst y2. rewrite EB in H3. rewrite EA in H3. clear EA EB H1 H2.
  intros N1 N2.
  match goal with |- (?a, ?b) = (?c, ?d) => assert (Ex : a = c) end.
  { time "fse" field_simplify_eq; [ time "ring" ring [H3] | time "nz" nz_solve ]. }
  f_equal; [exact Ex|]. rewrite <- Ex.
  time "fse" field_simplify_eq; [ time "ring" ring [H3] | time "nz" nz_solve ].
Time Qed.

End EC.
