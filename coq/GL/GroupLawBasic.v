(* M1: the group laws other than associativity for the model's [padd] over Z mod p, p an arbitrary prime > 3,
   by transport from the abstract-field development (ECBase.v) along Z/pZ = FieldZp.Fp p.

   Finding: [padd] doubles with the tangent formula whenever P1 = P2, and the test P1 = -P2 comes AFTER it.
   For a point (x, 0) of order two, P = -P, so padd (x,0) (x,0) divides by 2*0; [fdiv _ 0] is 0 (0^(p-2) = 0)
   and the result is Some (-2x mod p, 0) instead of None.  Hence [curve_group] is FALSE for curves that have a
   point with y = 0, and the hypothesis [no_root] (the cubic x^3 + a x + b has no root mod p) is necessary.
   With it the discriminant condition is not needed as a separate hypothesis (a singular point of such a
   cubic would be a rational point with y = 0). *)
From Coq Require Import ZArith Znumtheory Zpow_facts Lia Bool Field.
Require Import Bits.Lib.Result Bits.Lib.Group Bits.Model.Ecmath Bits.Proofs.Ecmath.
Require Import Bits.GL.FermatZ Bits.GL.FieldZp Bits.GL.ECBase.
Local Open Scope Z_scope.

Section Transport.
  Variables p a b : Z.
  Hypothesis Pp : prime p.
  Hypothesis Hp : 3 < p.
  Hypothesis Ha : inF p a = true.
  Hypothesis Hb : inF p b = true.
  (* no point of order two: x^3 + a x + b has no root modulo p *)
  Hypothesis no_root : forall x, inF p x = true -> rhs p a b x <> 0.

  Lemma p2 : 2 < p. Proof. clear - Hp. lia. Qed.

  Notation K := (Fp p).
  Notation mk := (FieldZp.mk p).
  Notation val := (FieldZp.val p).
  Notation k0 := (f0 p).
  Notation k1 := (f1 p).
  Notation kadd := (fadd' p).
  Notation kmul := (fmul' p).
  Notation ksub := (fsub' p).
  Notation kopp := (fopp' p).
  Notation kdiv := (fdiv' p).
  Notation kinv := (finv' p).
  Notation kdec := (Fp_eq_dec p).
  Definition cA : K := mk a.
  Definition cB : K := mk b.
  Notation Eon := (ECBase.on K kadd kmul cA cB).
  Notation Eneg := (ECBase.neg K k0 ksub).
  Notation Eadd := (ECBase.add K k0 k1 kadd kmul ksub kdiv kdec cA).

  Definition toP (P : option (K * K)) : point :=
    match P with None => None | Some (x, y) => Some (val x, val y) end.
  Definition ofP (P : point) : option (K * K) :=
    match P with None => None | Some (x, y) => Some (mk x, mk y) end.

  (* ---- the field operations of the model are those of Fp ---- *)
  Lemma val_A : val cA = a.
  Proof. apply mk_small. now apply (inF_iff p). Qed.
  Lemma val_B : val cB = b.
  Proof. apply mk_small. now apply (inF_iff p). Qed.
  Lemma val_add x y : val (kadd x y) = fadd p (val x) (val y). Proof. reflexivity. Qed.
  Lemma val_sub x y : val (ksub x y) = fsub p (val x) (val y). Proof. reflexivity. Qed.
  Lemma val_mul x y : val (kmul x y) = fmul p (val x) (val y). Proof. reflexivity. Qed.
  Lemma val_div x y : val (kdiv x y) = fdiv p (val x) (val y).
  Proof. unfold fdiv, fpow. rewrite Zpow_mod_correct by lia. reflexivity. Qed.
  Lemma val_0 : val k0 = 0. Proof. reflexivity. Qed.
  Lemma val_2 : val (kadd k1 k1) = 2.
  Proof. rewrite <- (mk_2 p). apply mk_small. lia. Qed.
  Lemma val_3 : val (kadd k1 (kadd k1 k1)) = 3.
  Proof. rewrite <- (mk_3 p p2). apply mk_small. lia. Qed.
  Lemma val_2' : fadd p (val k1) (val k1) = 2. Proof. exact val_2. Qed.
  Lemma val_3' : fadd p (val k1) (fadd p (val k1) (val k1)) = 3. Proof. exact val_3. Qed.
  Lemma fpow2 x : fpow p x 2 = fmul p x x.
  Proof. unfold fpow, fmul. rewrite Zpow_mod_correct by lia. f_equal. ring. Qed.
  Lemma fpow3 x : fpow p x 3 = fmul p (fmul p x x) x.
  Proof. unfold fpow, fmul. rewrite Zpow_mod_correct by lia. rewrite Zmult_mod_idemp_l. f_equal. ring. Qed.
  Lemma fmul_comm x y : fmul p x y = fmul p y x.
  Proof. unfold fmul. now rewrite Z.mul_comm. Qed.

  Lemma inF_val x : inF p (val x) = true.
  Proof. apply (inF_iff p). apply val_range. exact p2. Qed.

  Lemma val_eqb x y : (val x =? val y) = ECBase.keqb K kdec x y.
  Proof.
    unfold ECBase.keqb. destruct (kdec x y) as [->|N]; [apply Z.eqb_refl|].
    apply Z.eqb_neq. intros E. apply N. now apply val_inj.
  Qed.

  Lemma toP_eqb P Q : point_eqb (toP P) (toP Q) = ECBase.peqb K kdec P Q.
  Proof.
    destruct P as [[x1 y1]|], Q as [[x2 y2]|]; try reflexivity. simpl. now rewrite !val_eqb.
  Qed.

  Lemma toP_neg P : pneg p (toP P) = toP (Eneg P).
  Proof. destruct P as [[x y]|]; reflexivity. Qed.

  Lemma toP_inj P Q : toP P = toP Q -> P = Q.
  Proof.
    destruct P as [[x1 y1]|], Q as [[x2 y2]|]; simpl; try congruence.
    intros E. inversion E. f_equal. f_equal; now apply val_inj.
  Qed.

  Theorem toP_add P Q : padd p a (toP P) (toP Q) = toP (Eadd P Q).
  Proof.
    destruct P as [[x1 y1]|], Q as [[x2 y2]|]; try reflexivity.
    unfold padd, ECBase.add. fold (toP (Some (x1, y1))). fold (toP (Some (x2, y2))).
    rewrite toP_neg, !toP_eqb.
    destruct (ECBase.peqb K kdec (Some (x1, y1)) (Some (x2, y2))).
    - unfold ECBase.tan_pt, toP. cbv zeta.
      repeat first [rewrite val_sub | rewrite val_add | rewrite val_mul | rewrite val_div].
      rewrite val_0, val_3', val_2', val_A, !fpow2. reflexivity.
    - destruct (ECBase.peqb K kdec (Some (x1, y1)) (Eneg (Some (x2, y2)))); [reflexivity|].
      unfold ECBase.chord_pt, toP. cbv zeta.
      repeat first [rewrite val_sub | rewrite val_add | rewrite val_mul | rewrite val_div].
      rewrite val_0, !fpow2. reflexivity.
  Qed.

  (* ---- curve membership ---- *)
  Lemma on_val x y : Eon (Some (x, y)) <-> fpow p (val y) 2 = rhs p a b (val x).
  Proof.
    unfold ECBase.on, rhs. rewrite fpow2, fpow3, (fmul_comm (val x) a). rewrite <- val_A at 1. rewrite <- val_B at 1.
    rewrite <- !val_mul, <- !val_add. split; [now intros -> | apply val_inj].
  Qed.

  Lemma on_to P : Eon P -> oncurve p a b (toP P).
  Proof.
    destruct P as [[x y]|]; [|exact (fun _ => I)]. intros H.
    split; [apply inF_val|]. split; [apply inF_val|]. now apply on_val.
  Qed.

  Lemma on_of P : oncurve p a b P -> Eon (ofP P) /\ toP (ofP P) = P.
  Proof.
    destruct P as [[x y]|]; [|split; [exact I|reflexivity]].
    intros (Hx & Hy & E). apply (inF_iff p) in Hx, Hy.
    assert (Vx : val (mk x) = x) by now apply mk_small.
    assert (Vy : val (mk y) = y) by now apply mk_small.
    split; [apply (proj2 (on_val (mk x) (mk y))); rewrite Vx, Vy; exact E | cbn [toP ofP]; now rewrite Vx, Vy].
  Qed.

  Lemma k_no2 : forall x : K, kadd (kadd (kmul (kmul x x) x) (kmul cA x)) cB <> k0.
  Proof.
    intros x E. apply (no_root (val x) (inF_val x)).
    apply (f_equal val) in E. rewrite !val_add, !val_mul, val_A, val_B, val_0 in E.
    unfold rhs. now rewrite fpow3, (fmul_comm (val x) a).
  Qed.

  Definition kBL := base K k0 k1 kadd kmul ksub kopp kdiv kinv (Fp_field p Pp p2) kdec cA cB
                         (two_nz p p2) k_no2.

  (* ---- the laws ---- *)
  Theorem padd_closed P Q : oncurve p a b P -> oncurve p a b Q -> oncurve p a b (padd p a P Q).
  Proof.
    intros HP HQ. destruct (on_of P HP) as [HP' <-]. destruct (on_of Q HQ) as [HQ' <-].
    rewrite toP_add. apply on_to. now apply (bl_add_on kBL).
  Qed.

  Theorem pneg_closed P : oncurve p a b P -> oncurve p a b (pneg p P).
  Proof.
    intros HP. destruct (on_of P HP) as [HP' <-]. rewrite toP_neg. apply on_to. now apply (bl_neg_on kBL).
  Qed.

  Theorem padd_comm P Q : oncurve p a b P -> oncurve p a b Q -> padd p a P Q = padd p a Q P.
  Proof.
    intros HP HQ. destruct (on_of P HP) as [HP' <-]. destruct (on_of Q HQ) as [HQ' <-].
    rewrite !toP_add. f_equal. now apply (bl_add_comm kBL).
  Qed.

  Theorem padd_neg_r P : oncurve p a b P -> padd p a P (pneg p P) = None.
  Proof.
    intros HP. destruct (on_of P HP) as [HP' <-]. rewrite toP_neg, toP_add.
    now rewrite (bl_add_neg_r kBL).
  Qed.

  Theorem padd_id_l P : padd p a None P = P.
  Proof. reflexivity. Qed.
  Theorem padd_id_r P : padd p a P None = P.
  Proof. destruct P as [[x y]|]; reflexivity. Qed.
  Theorem oncurve_id : oncurve p a b None.
  Proof. exact I. Qed.

  (* all fields of [group_laws] except g_assoc, in one statement *)
  Theorem group_laws_basic :
    oncurve p a b None /\
    (forall P Q, oncurve p a b P -> oncurve p a b Q -> oncurve p a b (padd p a P Q)) /\
    (forall P, oncurve p a b P -> oncurve p a b (pneg p P)) /\
    (forall P Q, oncurve p a b P -> oncurve p a b Q -> padd p a P Q = padd p a Q P) /\
    (forall P, padd p a None P = P) /\
    (forall P, padd p a P None = P) /\
    (forall P, oncurve p a b P -> padd p a P (pneg p P) = None).
  Proof.
    repeat split; auto using padd_closed, pneg_closed, padd_comm, padd_id_r, padd_neg_r.
  Qed.
End Transport.

(* the finding, as a theorem: a curve point with y = 0 breaks g_inv_r (and g_closed) of [padd] *)
Theorem padd_order2_wrong p a x : 3 < p -> inF p x = true ->
  padd p a (Some (x, 0)) (pneg p (Some (x, 0))) = Some (fsub p 0 (fmul p 2 x), 0).
Proof.
  intros Hp Hx. apply (inF_iff p) in Hx.
  unfold pneg, padd. assert (E0 : fsub p 0 0 = 0) by (unfold fsub; now rewrite Z.mod_0_l by lia).
  rewrite E0. cbn [point_eqb]. rewrite !Z.eqb_refl. cbn [andb]. cbv zeta.
  assert (Z2 : fmul p 2 0 = 0) by (unfold fmul; rewrite Z.mul_0_r; apply Z.mod_0_l; lia).
  assert (D0 : forall u, fdiv p u 0 = 0).
  { intros u. unfold fdiv, fpow, fmul. rewrite Zpow_mod_correct by lia.
    rewrite Z.pow_0_l by lia. rewrite Z.mod_0_l by lia. rewrite Z.mul_0_r. apply Z.mod_0_l. lia. }
  rewrite Z2, D0.
  assert (P0 : fpow p 0 2 = 0) by (unfold fpow; rewrite Zpow_mod_correct by lia; apply Z.mod_0_l; lia).
  rewrite P0, E0. 
  assert (M0 : forall u, fmul p 0 u = 0) by (intros u; unfold fmul; rewrite Z.mul_0_l; apply Z.mod_0_l; lia).
  rewrite !M0. 
  assert (A0 : fadd p 0 0 = 0) by (unfold fadd; apply Z.mod_0_l; lia).
  rewrite A0, E0. reflexivity.
Qed.

Print Assumptions group_laws_basic.
Print Assumptions padd_order2_wrong.
