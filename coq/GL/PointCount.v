(* Point counting without Hasse or Schoof: for a prime p > 3, a curve y^2 = x^3 + a x + b whose cubic has no
   root mod p, and a point G of order n (k*G <> infinity for 0 < k < n) with 2p + 1 < 3n, the group of curve
   points has exactly n elements, i.e. every curve point is a multiple of G and n*P = infinity for all P.
     1. the curve points are enumerated by a duplicate-free list [pts] (never computed);
     2. #pts <= 2p + 1: at most two y for every x (GL/Secp256k1FactsX.same_x_prime), plus infinity;
     3. #pts is odd: P |-> -P is an involution whose only fixed point is infinity (a fixed affine point has
        y = 0, a root of the cubic);
     4. H = {k*G : 0 <= k < n} is a subgroup with n elements; a subgroup of index < 3 in a group of odd order
        is everything (GL/FinCount.small_index_odd_order: Lagrange by hand for the cosets H, P+H, Q+H). *)
From Coq Require Import ZArith Znumtheory Zpow_facts Lia Bool List FinFun.
Require Import Bits.Lib.Result Bits.Lib.Group Bits.Lib.ModArith Bits.Model.Ecmath Bits.Proofs.Ecmath
  Bits.Proofs.Ecdsa.
Require Import Bits.GL.FinCount Bits.GL.Secp256k1Facts Bits.GL.Secp256k1FactsX.
Import ListNotations.
Local Open Scope Z_scope.
(* Proofs/Sec1.v (imported transitively) installs a global zify hook; this file does not rely on it *)
Ltac Zify.zify_post_hook ::= idtac.

Lemma point_dec (P Q : point) : {P = Q} + {P <> Q}.
Proof. repeat decide equality. Qed.

(* the integers 0 .. m-1 *)
Definition zr (m : Z) : list Z := map Z.of_nat (seq 0 (Z.to_nat m)).

Lemma in_zr m x : In x (zr m) <-> 0 <= x < m.
Proof.
  unfold zr. rewrite in_map_iff. split.
  - intros (k & <- & Hk). apply in_seq in Hk. lia.
  - intros H. exists (Z.to_nat x). split; [lia|]. apply in_seq. lia.
Qed.

Lemma zr_NoDup m : NoDup (zr m).
Proof. apply Injective_map_NoDup; [intros u v E; lia | apply seq_NoDup]. Qed.

Lemma zr_length m : length (zr m) = Z.to_nat m.
Proof. unfold zr. now rewrite map_length, seq_length. Qed.

Section Count.
  Variables p a b n : Z.
  Variable G : point.
  Hypothesis Pp : prime p.
  Hypothesis no_root : forall x, inF p x = true -> rhs p a b x <> 0.
  Hypothesis CF : curve_facts p a b n G.
  Hypothesis Small : 2 * p + 1 < 3 * n.

  Let Hp := cf_p _ _ _ _ _ CF.
  Let Ha := cf_a _ _ _ _ _ CF.
  Let Hb := cf_b _ _ _ _ _ CF.
  Let CG : group_laws point (oncurve p a b) (padd p a) None (pneg p) := cf_group _ _ _ _ _ CF.
  Let Hn := cf_n _ _ _ _ _ CF.
  Let HG := cf_G _ _ _ _ _ CF.

  (* ---------- 1. the list of all curve points ---------- *)
  Definition ys (x : Z) : list Z := filter (fun y => fpow p y 2 =? rhs p a b x) (zr p).
  Definition pts_x (x : Z) : list point := map (fun y => Some (x, y)) (ys x).
  Definition aff : list point := flat_map pts_x (zr p).
  Definition pts : list point := None :: aff.

  Lemma in_pts_x x P : In P (pts_x x) <-> exists y, P = Some (x, y) /\ 0 <= y < p /\ fpow p y 2 = rhs p a b x.
  Proof.
    unfold pts_x, ys. rewrite in_map_iff. split.
    - intros (y & <- & Hy). apply filter_In in Hy as [Hy E]. apply in_zr in Hy. apply Z.eqb_eq in E. now exists y.
    - intros (y & -> & Hy & E). exists y. split; [reflexivity|]. apply filter_In. split; [now apply in_zr|].
      now apply Z.eqb_eq.
  Qed.

  Lemma in_aff P : In P aff <-> P <> None /\ oncurve p a b P.
  Proof.
    unfold aff. rewrite in_flat_map. split.
    - intros (x & Hx & HP). apply in_zr in Hx. apply in_pts_x in HP as (y & -> & Hy & E).
      split; [discriminate|]. cbn [oncurve]. rewrite !(inF_iff p). auto.
    - intros [NP OP]. destruct P as [[x y]|]; [|congruence]. destruct OP as (Hx & Hy & E).
      apply (inF_iff p) in Hx, Hy. exists x. split; [now apply in_zr|]. apply in_pts_x. now exists y.
  Qed.

  Lemma in_pts P : In P pts <-> oncurve p a b P.
  Proof.
    unfold pts. cbn [In]. rewrite in_aff. split.
    - intros [<- | [_ H]]; [exact I | exact H].
    - intros H. destruct P; [right; split; [discriminate|exact H] | now left].
  Qed.

  Lemma pts_x_NoDup x : NoDup (pts_x x).
  Proof.
    unfold pts_x, ys. apply Injective_map_NoDup; [intros u v E; congruence|].
    apply NoDup_filter, zr_NoDup.
  Qed.

  Lemma aff_NoDup : NoDup aff.
  Proof.
    unfold aff. apply NoDup_flat_map; [apply zr_NoDup | intros; apply pts_x_NoDup |].
    intros x x' z _ _ H H'. apply in_pts_x in H as (y & -> & _). apply in_pts_x in H' as (y' & E & _). congruence.
  Qed.

  Lemma pts_NoDup : NoDup pts.
  Proof. unfold pts. constructor; [|exact aff_NoDup]. intros H. apply in_aff in H as [H _]. now apply H. Qed.

  (* ---------- 2. at most two points for every x ---------- *)
  Lemma pts_x_le2 x : 0 <= x < p -> (length (pts_x x) <= 2)%nat.
  Proof.
    intros Ix. destruct (pts_x x) as [|P0 l] eqn:E; [cbn; lia|]. rewrite <- E.
    assert (H0 : In P0 (pts_x x)) by (rewrite E; now left).
    apply in_pts_x in H0 as (y0 & -> & Hy0 & E0).
    apply (NoDup_two (Some (x, y0)) (Some (x, fsub p 0 y0))); [apply pts_x_NoDup|].
    intros z Hz. apply in_pts_x in Hz as (y & -> & Hy & Ey).
    assert (O0 : oncurve p a b (Some (x, y0))) by (cbn [oncurve]; rewrite !(inF_iff p); auto).
    assert (O1 : oncurve p a b (Some (x, y))) by (cbn [oncurve]; rewrite !(inF_iff p); auto).
    destruct (same_x_prime p a b Pp Hp Ha Hb x y0 y O0 O1) as [-> | ->]; auto.
  Qed.

  Lemma aff_length : (length aff <= 2 * Z.to_nat p)%nat.
  Proof. unfold aff. rewrite <- (zr_length p). apply flat_map_length_le2. intros x Hx. apply pts_x_le2. now apply in_zr. Qed.

  (* ---------- 3. the number of affine points is even ---------- *)
  Lemma p_odd : ~ (2 | p).
  Proof. intros D. destruct (prime_divisors p Pp 2 D) as [E|[E|[E|E]]]; lia. Qed.

  Lemma pneg_no_fixed P : In P aff -> pneg p P <> P.
  Proof.
    intros H. apply in_aff in H as [NP OP]. destruct P as [[x y]|]; [|congruence]. clear NP.
    destruct OP as (Hx & Hy & E). cbn [pneg]. intros F. assert (Fy : fsub p 0 y = y) by congruence. clear F.
    apply (inF_iff p) in Hy. unfold fsub in Fy.
    destruct (Z.eq_dec y 0) as [->|Ny].
    - apply (no_root x Hx). rewrite <- E. unfold fpow. rewrite Zpow_mod_correct by lia.
      rewrite Z.pow_0_l by lia. apply Z.mod_0_l. lia.
    - apply p_odd. exists y.
      pose proof (Z.div_mod (0 - y) p ltac:(lia)) as D. rewrite Fy in D.
      assert ((0 - y) / p = -1) by nia. lia.
  Qed.

  Lemma aff_even : exists m, length aff = (2 * m)%nat.
  Proof.
    apply (invol_even (pneg p) (length aff) aff eq_refl aff_NoDup).
    - intros P H. apply in_aff in H as [NP OP]. apply in_aff. split.
      + destruct P as [[x y]|]; [discriminate|congruence].
      + now apply (g_inv_closed _ _ _ _ _ CG).
    - intros P H. apply in_aff in H as [_ OP]. now apply (inv_inv _ _ _ _ _ CG).
    - exact pneg_no_fixed.
  Qed.

  (* ---------- 4. the subgroup generated by G ---------- *)
  Definition Hl : list point := map (fun k => smul p a k G) (zr n).

  Lemma in_Hl Q : In Q Hl <-> exists d, 0 <= d < n /\ Q = smul p a d G.
  Proof.
    unfold Hl. rewrite in_map_iff. split.
    - intros (d & <- & Hd). apply in_zr in Hd. now exists d.
    - intros (d & Hd & ->). exists d. split; [reflexivity|now apply in_zr].
  Qed.

  Lemma smul_lt_neq j k : 0 <= j < k -> k < n -> smul p a j G <> smul p a k G.
  Proof.
    intros Hj Hk E.
    assert (Vj : oncurve p a b (smul p a j G)) by (apply (smul_oncurve p a b CG); auto; lia).
    assert (Vd : oncurve p a b (smul p a (k - j) G)) by (apply (smul_oncurve p a b CG); auto; lia).
    apply (cf_min _ _ _ _ _ CF (k - j)); [lia|].
    apply (op_cancel_l _ _ _ _ _ CG (smul p a j G)); auto; [exact I|].
    rewrite <- (smul_add p a b CG) by (auto; lia). rewrite (g_id_r _ _ _ _ _ CG).
    replace (j + (k - j)) with k by ring. now symmetry.
  Qed.

  Lemma Hl_NoDup : NoDup Hl.
  Proof.
    unfold Hl. apply NoDup_map_inj_on; [apply zr_NoDup|].
    intros j k Hj Hk E. apply in_zr in Hj, Hk.
    destruct (Z.lt_trichotomy j k) as [L|[L|L]]; [|exact L|].
    - exfalso. apply (smul_lt_neq j k); auto; lia.
    - exfalso. apply (smul_lt_neq k j); auto; lia.
  Qed.

  Lemma Hl_length : length Hl = Z.to_nat n.
  Proof. unfold Hl. now rewrite map_length, zr_length. Qed.

  Lemma Hl_V Q : In Q Hl -> oncurve p a b Q.
  Proof. intros H. apply in_Hl in H as (d & Hd & ->). apply (smul_oncurve p a b CG); auto; lia. Qed.

  Lemma Hl_op Q R : In Q Hl -> In R Hl -> In (padd p a Q R) Hl.
  Proof.
    intros H1 H2. apply in_Hl in H1 as (j & Hj & ->). apply in_Hl in H2 as (k & Hk & ->). apply in_Hl.
    exists ((j + k) mod n). split; [apply Z.mod_pos_bound; lia|].
    rewrite (smul_mod p a b n G CF) by lia. symmetry. apply (smul_add p a b CG); auto; lia.
  Qed.

  Lemma Hl_inv Q : In Q Hl -> In (pneg p Q) Hl.
  Proof.
    intros H1. apply in_Hl in H1 as (j & Hj & ->). apply in_Hl.
    exists ((- j) mod n). split; [apply Z.mod_pos_bound; lia|].
    symmetry. apply (smul_neg p a b n G CF). lia.
  Qed.

  (* ---------- the group of curve points is generated by G ---------- *)
  Theorem curve_generated : forall P, oncurve p a b P -> exists d, 0 <= d < n /\ P = smul p a d G.
  Proof.
    intros P OP. apply in_Hl.
    apply (small_index_odd_order point (oncurve p a b) (padd p a) None (pneg p) CG point_dec Hl pts
             Hl_NoDup Hl_V Hl_op Hl_inv pts_NoDup); auto.
    - intros Q. apply in_pts.
    - intros Q. apply in_pts.
    - destruct aff_even as [m Hm]. exists m. unfold pts. cbn [length]. rewrite Hm. lia.
    - unfold pts. cbn [length]. rewrite Hl_length. pose proof aff_length. lia.
  Qed.

  Theorem curve_cofactor_one : forall P, oncurve p a b P -> smul p a n P = None.
  Proof.
    intros P OP. destruct (curve_generated P OP) as (d & Hd & ->).
    rewrite (smul_mul p a b CG) by (auto; lia). rewrite Z.mul_comm.
    rewrite <- (smul_mul p a b CG) by (auto; lia). rewrite (cf_order _ _ _ _ _ CF).
    apply (smul_None p a b CG). lia.
  Qed.

  (* the exact number of points, for the record: pts is a duplicate-free enumeration of the curve *)
  Theorem curve_card : length pts = Z.to_nat n.
  Proof.
    rewrite <- Hl_length. apply Nat.le_antisymm.
    - apply NoDup_incl_length; [exact pts_NoDup|]. intros Q HQ. apply in_pts in HQ. apply in_Hl.
      now apply curve_generated.
    - apply NoDup_incl_length; [exact Hl_NoDup|]. intros Q HQ. apply in_pts. now apply Hl_V.
  Qed.
End Count.

Print Assumptions curve_generated.
Print Assumptions curve_cofactor_one.
Print Assumptions curve_card.
