(* curve_facts_x (Proofs/EcdsaNonce.v): two curve points with the same x are equal or opposite - proved for
   every prime field; "G generates every curve point" needs the group order (#E = N, point counting) and
   stays an explicit premise. *)
From Coq Require Import ZArith Znumtheory Zpow_facts Lia Bool List.
Require Import Bits.Lib.Result Bits.Lib.Group Bits.Lib.ModArith Bits.Model.Ecmath Bits.Proofs.Ecmath
  Bits.Proofs.Ecdsa Bits.Proofs.EcdsaNonce Bits.Spec.Secp256k1.
Require Import Bits.GL.FermatZ Bits.GL.FieldZp Bits.GL.ECBase Bits.GL.GroupLawBasic Bits.GL.Secp256k1Order.
Local Open Scope Z_scope.

Theorem same_x_prime p a b : prime p -> 3 < p -> inF p a = true -> inF p b = true ->
  forall x y1 y2, oncurve p a b (Some (x, y1)) -> oncurve p a b (Some (x, y2)) ->
  y2 = y1 \/ y2 = fsub p 0 y1.
Proof.
  intros Pp Hp Ha Hb x y1 y2 H1 H2.
  destruct (on_of p a b Hp Ha Hb _ H1) as [K1 _]. destruct (on_of p a b Hp Ha Hb _ H2) as [K2 _].
  destruct H1 as (_ & R1 & _), H2 as (_ & R2 & _). apply (inF_iff p) in R1, R2.
  cbn [ofP] in K1, K2.
  destruct (same_x (Fp p) (f0 p) (f1 p) (fadd' p) (fmul' p) (fsub' p) (fopp' p) (fdiv' p) (finv' p)
              (Fp_field p Pp (p2 p Hp)) (Fp_eq_dec p) (cA p a) (cB p b) _ _ _ K1 K2) as [E|E];
    apply (f_equal (val p)) in E.
  - left. now rewrite !mk_small in E.
  - right. rewrite mk_small in E by exact R2. rewrite E.
    change (val p (fsub' p (f0 p) (mk p y1))) with (fsub p 0 (val p (mk p y1))).
    now rewrite mk_small.
Qed.

Theorem secp256k1_curve_facts_x : prime P ->
  (forall Q, oncurve P 0 7 Q -> exists d, 0 <= d < N /\ Q = smul P 0 d G) ->
  curve_facts_x P 0 7 N G.
Proof.
  intros Pp Gen. constructor; [|exact Gen].
  exact (same_x_prime P 0 7 Pp P_gt3 inF_a inF_b).
Qed.

Print Assumptions same_x_prime.
Print Assumptions secp256k1_curve_facts_x.
