(* M3, part 1: group laws and N*G = infinity for secp256k1 (see Secp256k1Facts.v).
   - the group laws: GroupLawAssoc.curve_group_of_prime; "no point of order two" because -7 is a cubic
     non-residue mod P (one modular exponentiation, checked by vm_compute);
   - N*G = infinity: checked addition by addition against a certificate of the 446 slopes (OrderCert.v), so
     that no modular inversion is computed; a slope s with s*d = n (mod p), d <> 0 IS the quotient [fdiv n d]
     in a prime field;
   - k*G <> infinity for 0 < k < N: N prime and the scalar-multiplication lemmas of Lib/Group.v;
   - inverses modulo N: Fermat. *)
From Coq Require Import ZArith Znumtheory Zpow_facts Lia Bool List.
Require Import Bits.Lib.Result Bits.Lib.Group Bits.Lib.ModArith Bits.Model.Ecmath Bits.Proofs.Ecmath
  Bits.Proofs.Ecdsa Bits.Spec.Secp256k1.
Require Import Bits.GL.FermatZ Bits.GL.FieldZp Bits.GL.ECBase Bits.GL.GroupLawBasic Bits.GL.GroupLawAssoc Bits.GL.OrderCert.
Import ListNotations.
Local Open Scope Z_scope.

(* ---------- certified scalar multiplication, generic in the prime field ---------- *)
Section Cert.
  Variables p a : Z.
  Hypothesis Pp : prime p.
  Hypothesis Hp : 3 < p.

  Lemma fdiv_unique s n d : inF p s = true -> inF p d = true -> d <> 0 -> fmul p s d = n -> fdiv p n d = s.
  Proof.
    intros Hs Hd Nd E. apply (inF_iff p) in Hs, Hd. subst n.
    unfold fdiv, fpow, fmul. rewrite Zpow_mod_correct by lia.
    rewrite Zmult_mod_idemp_l, Zmult_mod_idemp_r.
    replace (s * d * d ^ (p - 2)) with (s * (d * d ^ (p - 2))) by ring.
    rewrite Zmult_mod. rewrite (@fermat_inv_Z p d Pp) by (rewrite ?Z.mod_small; lia).
    rewrite Z.mul_1_r, Z.mod_mod by lia. apply Z.mod_small. lia.
  Qed.

  Definition slope_ok (s n d : Z) : bool := inF p s && inF p d && negb (d =? 0) && (fmul p s d =? n).

  Lemma slope_ok_div s n d : slope_ok s n d = true -> fdiv p n d = s.
  Proof.
    unfold slope_ok. rewrite !andb_true_iff, negb_true_iff, Z.eqb_neq, Z.eqb_eq.
    intros [[[H1 H2] H3] H4]. now apply fdiv_unique.
  Qed.

  (* [padd] with the slope supplied and checked instead of computed *)
  Definition cadd (s : Z) (P1 P2 : point) : option point :=
    match P1, P2 with
    | None, _ => Some P2
    | _, None => Some P1
    | Some (x1, y1), Some (x2, y2) =>
      if point_eqb P1 P2 then
        if slope_ok s (fadd p (fmul p 3 (fpow p x1 2)) a) (fmul p 2 y1) then
          let xr := fsub p (fpow p s 2) (fmul p 2 x1) in
          let yr := fsub p (fadd p (fmul p (fsub p 0 s) xr) (fmul p s x1)) y1 in
          Some (Some (xr, yr))
        else None
      else if point_eqb P1 (pneg p P2) then Some None
      else
        if slope_ok s (fsub p y2 y1) (fsub p x2 x1) then
          let xr := fsub p (fsub p (fpow p s 2) x1) x2 in
          let yr := fsub p (fadd p (fmul p (fsub p 0 s) xr) (fmul p s x1)) y1 in
          Some (Some (xr, yr))
        else None
    end.

  Lemma cadd_ok s P1 P2 R : cadd s P1 P2 = Some R -> padd p a P1 P2 = R.
  Proof.
    destruct P1 as [[x1 y1]|]; [|cbn [cadd padd]; congruence].
    destruct P2 as [[x2 y2]|]; [|cbn [cadd padd]; congruence].
    unfold cadd, padd.
    destruct (point_eqb (Some (x1, y1)) (Some (x2, y2))).
    - destruct (slope_ok s _ _) eqn:E; [|discriminate]. apply slope_ok_div in E.
      cbv zeta. rewrite E. congruence.
    - destruct (point_eqb (Some (x1, y1)) (pneg p (Some (x2, y2)))); [congruence|].
      destruct (slope_ok s _ _) eqn:E; [|discriminate]. apply slope_ok_div in E.
      cbv zeta. rewrite E. congruence.
  Qed.

  Fixpoint csmul_pos (k : positive) (G : point) (sl : list Z) : option (point * list Z) :=
    match k with
    | xH => Some (G, sl)
    | xO k' =>
      match csmul_pos k' G sl with
      | Some (r, s :: sl') =>
        match cadd s r r with Some d => Some (d, sl') | None => None end
      | _ => None
      end
    | xI k' =>
      match csmul_pos k' G sl with
      | Some (r, s1 :: s2 :: sl') =>
        match cadd s1 r r with
        | Some d => match cadd s2 d G with Some e => Some (e, sl') | None => None end
        | None => None
        end
      | _ => None
      end
    end.

  Lemma csmul_pos_ok k G : forall sl R sl', csmul_pos k G sl = Some (R, sl') ->
    dbl_add_pos point (padd p a) None k G = R.
  Proof.
    induction k as [k IH|k IH|]; intros sl R sl' H; cbn [csmul_pos dbl_add_pos] in *.
    - destruct (csmul_pos k G sl) as [[r [|s1 [|s2 sl2]]]|] eqn:E; try discriminate.
      destruct (cadd s1 r r) as [d|] eqn:E1; [|discriminate].
      destruct (cadd s2 d G) as [e|] eqn:E2; [|discriminate].
      injection H as <- _. rewrite (IH _ _ _ E). apply cadd_ok in E1, E2. now rewrite E1, E2.
    - destruct (csmul_pos k G sl) as [[r [|s1 sl2]]|] eqn:E; try discriminate.
      destruct (cadd s1 r r) as [d|] eqn:E1; [|discriminate].
      injection H as <- _. rewrite (IH _ _ _ E). apply cadd_ok in E1. now rewrite E1.
    - injection H as <- _. destruct G as [[x y]|]; reflexivity.
  Qed.
End Cert.

(* ---------- secp256k1 ---------- *)
Notation P := Secp256k1.p.
Notation N := Secp256k1.n.
Notation G := (Some (Gx, Gy)).

Lemma P_gt3 : 3 < P. Proof. reflexivity. Qed.
Lemma N_gt3 : 3 < N. Proof. reflexivity. Qed.

(* x^3 + 7 has no root modulo P: -7 is not a cube because (-7)^((P-1)/3) <> 1 *)
Lemma secp256k1_no_root : prime P -> forall x, inF P x = true -> rhs P 0 7 x <> 0.
Proof.
  intros Pp x Hx E. apply (inF_iff P) in Hx.
  unfold rhs, fadd, fmul, fpow in E. rewrite Zpow_mod_correct in E by (intro Z0; discriminate Z0).
  rewrite Z.mul_0_r, Z.mod_0_l, Z.add_0_r in E by (intro Z0; discriminate Z0).
  assert (B : 0 <= x ^ 3 mod P < P) by (apply Z.mod_pos_bound; reflexivity).
  rewrite Z.mod_mod in E by (intro Z0; discriminate Z0).
  set (t := x ^ 3 mod P) in *.
  assert (Et : t = P - 7).
  { assert (D : (P | t + 7)) by (apply Zmod_divide; [intro Z0; discriminate Z0 | exact E]).
    destruct D as [q Hq]. assert (P7 : 7 < P) by reflexivity.
    assert (q = 1) by nia. subst q. lia. }
  assert (Hx0 : x mod P <> 0).
  { intros X0. rewrite Z.mod_small in X0 by exact Hx. subst x.
    unfold t in Et. rewrite Z.pow_0_l, Z.mod_0_l in Et by (try lia; intro Z0; discriminate Z0).
    discriminate Et. }
  assert (F := @fermat_Z P x Pp Hx0).
  assert (K3 : P - 1 = 3 * ((P - 1) / 3)) by reflexivity.
  rewrite K3 in F. rewrite Z.pow_mul_r in F by (try lia; discriminate).
  rewrite Zpower_mod in F by reflexivity. fold t in F. rewrite Et in F.
  rewrite <- Zpow_mod_correct in F by (intro Z0; discriminate Z0).
  assert (C : Zpow_mod (P - 7) ((P - 1) / 3) P <> 1) by (vm_compute; discriminate).
  exact (C F).
Time Qed.


Lemma inF_a : inF P 0 = true. Proof. reflexivity. Qed.
Lemma inF_b : inF P 7 = true. Proof. reflexivity. Qed.

Theorem secp256k1_curve_group : prime P -> curve_group P 0 7.
Proof.
  intros Pp. apply (curve_group_of_prime P 0 7 Pp P_gt3 inF_a inF_b (secp256k1_no_root Pp)).
Qed.

Lemma G_oncurve : oncurve P 0 7 G.
Proof. vm_compute. repeat split. Qed.

(* N*G = infinity, by the slope certificate *)
Theorem secp256k1_order : prime P -> smul P 0 N G = None.
Proof.
  intros Pp. unfold smul, Secp256k1.n, dbl_add.
  apply (csmul_pos_ok P 0 Pp P_gt3 _ G order_slopes None []).
  vm_compute. reflexivity.
Time Qed.


Print Assumptions secp256k1_curve_group.
Print Assumptions secp256k1_order.
