(* M3: curve_facts for secp256k1 from the primality of P and N only.
   - the group laws: GroupLawAssoc.curve_group_of_prime; "no point of order two" because -7 is a cubic
     non-residue mod P (one modular exponentiation, checked by vm_compute)            [Secp256k1Order.v];
   - N*G = infinity: checked addition by addition against a certificate of the 446 slopes (OrderCert.v), so
     that no modular inversion is computed                                             [Secp256k1Order.v];
   - k*G <> infinity for 0 < k < N: N prime and the scalar-multiplication lemmas of Lib/Group.v;
   - inverses modulo N: Fermat. *)
From Coq Require Import ZArith Znumtheory Zpow_facts Lia Bool List.
Require Import Bits.Lib.Result Bits.Lib.Group Bits.Lib.ModArith Bits.Model.Ecmath Bits.Proofs.Ecmath
  Bits.Proofs.Ecdsa Bits.Spec.Secp256k1.
Require Import Bits.GL.FermatZ Bits.GL.Secp256k1Order.
Import ListNotations.
Local Open Scope Z_scope.

(* ---------- generic in the curve and the order: an element of prime order n generates n points ---------- *)
Section PrimeOrder.
  Variables p a b n : Z.
  Variable g : point.
  Hypothesis CG : curve_group p a b.
  Hypothesis Pn : prime n.
  Hypothesis Hn : 3 < n.
  Hypothesis Hg : oncurve p a b g.
  Hypothesis Hg0 : g <> None.
  Hypothesis order : smul p a n g = None.

  Lemma smul_None j : 0 <= j -> smul p a j None = None.
  Proof.
    intros Hj. unfold smul. rewrite (dbl_add_spec _ _ _ _ _ CG) by (auto; exact I). apply (nmul_e _ _ _ _ _ CG).
  Qed.

  Lemma smul_1 : smul p a 1 g = g.
  Proof. unfold smul. destruct g as [[x y]|]; reflexivity. Qed.

  Theorem prime_order_min k : 0 < k < n -> smul p a k g <> None.
  Proof.
    intros Hk E.
    set (u := k ^ (n - 2) mod n).
    assert (Hu : 0 <= u < n) by (apply Z.mod_pos_bound; lia).
    assert (Inv : (u * k) mod n = 1).
    { unfold u. rewrite Zmult_mod_idemp_l, Z.mul_comm. apply (@fermat_inv_Z n k Pn); [lia|].
      rewrite Z.mod_small; lia. }
    assert (Huk : 0 <= u * k) by (apply Z.mul_nonneg_nonneg; lia).
    assert (E1 : smul p a (u * k) g = None).
    { rewrite <- (smul_mul p a b CG) by (auto; lia). rewrite E. apply smul_None. lia. }
    assert (E2 : smul p a (u * k) g = g).
    { assert (M := dbl_add_mod point (oncurve p a b) (padd p a) None (pneg p) CG n g ltac:(lia) Hg order (u * k) Huk).
      fold (smul p a ((u * k) mod n) g) in M. fold (smul p a (u * k) g) in M.
      rewrite Inv in M. rewrite <- M. apply smul_1. }
    rewrite E1 in E2. apply Hg0. now symmetry.
  Qed.

  Theorem prime_order_inv s : 0 < s < n -> (s * Zpow_mod s (n - 2) n) mod n = 1.
  Proof.
    intros Hs. rewrite Zpow_mod_correct by lia. rewrite Zmult_mod_idemp_r.
    apply (@fermat_inv_Z n s Pn); [lia|]. rewrite Z.mod_small; lia.
  Qed.
End PrimeOrder.

Lemma G_not_None : G <> None. Proof. discriminate. Qed.

(* ---------- the premise of the ECDSA proofs, from primality alone ---------- *)
Theorem secp256k1_curve_facts : prime P -> prime N -> curve_facts P 0 7 N G.
Proof.
  intros Pp Pn. constructor.
  - exact P_gt3.
  - exact inF_a.
  - exact inF_b.
  - exact (secp256k1_curve_group Pp).
  - exact N_gt3.
  - exact G_oncurve.
  - exact (secp256k1_order Pp).
  - exact (prime_order_min P 0 7 N G (secp256k1_curve_group Pp) Pn N_gt3 G_oncurve G_not_None (secp256k1_order Pp)).
  - exact (prime_order_inv N Pn N_gt3).
Qed.

Print Assumptions secp256k1_curve_facts.
