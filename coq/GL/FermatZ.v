(* Fermat's little theorem for Coq.ZArith.Znumtheory.prime, transported from MathComp's
   [fermat_little] (ssreflect/binomial.v) without ever computing on a big nat. *)
From mathcomp Require Import ssreflect ssrfun ssrbool ssrnat eqtype div prime binomial.
From mathcomp Require Import zify.
From Coq Require Import ZArith Znumtheory Zpow_facts Lia.

Set Implicit Arguments.
Unset Strict Implicit.
Unset Printing Implicit Defensive.

Lemma of_nat_expn a n : Z.of_nat (expn a n) = (Z.of_nat a ^ Z.of_nat n)%Z.
Proof.
elim: n => [|n IH] //.
rewrite expnS Nat2Z.inj_succ Z.pow_succ_r; last by lia.
by rewrite -IH; lia.
Qed.

Lemma of_nat_modn m d : (0 < d)%nat -> Z.of_nat (modn m d) = (Z.of_nat m mod Z.of_nat d)%Z.
Proof.
move=> d0. have E := divn_eq m d. have L := ltn_pmod m d0.
apply: (Z.mod_unique_pos _ _ (Z.of_nat (divn m d))); first by lia.
by rewrite {1}E; lia.
Qed.

Lemma prime_nat_of_Z p : Znumtheory.prime p -> prime.prime (Z.to_nat p).
Proof.
case=> p1 Hrel. apply/primeP; split; first by lia.
move=> d /dvdnP [k Hk].
have d0 : (0 < d)%nat by case: d Hk => [|d] //; rewrite muln0; lia.
have dle : (d <= Z.to_nat p)%nat by rewrite Hk; case: k Hk => [|k] Hk; [lia | rewrite mulSn; lia].
case: (ltnP d (Z.to_nat p)) => [dlt|dge]; last by apply/orP; right; apply/eqP; lia.
apply/orP; left; apply/eqP.
have /Hrel G : (1 <= Z.of_nat d < p)%Z by lia.
have D1 : (Z.of_nat d | Z.of_nat d)%Z by exists 1%Z; lia.
have D2 : (Z.of_nat d | p)%Z by exists (Z.of_nat k); lia.
case: G => _ _ /(_ _ D1 D2) /Z.divide_1_r_nonneg.
lia.
Qed.

Open Scope Z_scope.

Lemma fermat_pow_Z p a : Znumtheory.prime p -> 0 <= a -> (a ^ p) mod p = a mod p.
Proof.
move=> Pp a0. have p1 : 1 < p by case: Pp.
have H := fermat_little (Z.to_nat a) (prime_nat_of_Z Pp).
have p0 : (0 < Z.to_nat p)%nat by lia.
have := f_equal Z.of_nat H.
by rewrite !of_nat_modn // of_nat_expn !Z2Nat.id; lia.
Qed.

Theorem fermat_Z p a : Znumtheory.prime p -> a mod p <> 0 -> a ^ (p - 1) mod p = 1.
Proof.
move=> Pp anz. have p1 : 1 < p by case: Pp.
rewrite Zpower_mod; last by lia.
set a0 := a mod p. have Ha0 : 0 <= a0 < p by apply: Z.mod_pos_bound; lia.
have F := @fermat_pow_Z p a0 Pp (proj1 Ha0).
have E : a0 ^ p = a0 * a0 ^ (p - 1).
  by rewrite -[X in _ = X]Z.pow_succ_r; [congr (_ ^ _); lia | lia].
have D : (p | a0 * (a0 ^ (p - 1) - 1)).
  apply: Zmod_divide; first by lia.
  have -> : a0 * (a0 ^ (p - 1) - 1) = a0 ^ p - a0 by rewrite E; ring.
  by rewrite Zminus_mod F Z.sub_diag Z.mod_0_l; lia.
case: (prime_mult p Pp _ _ D) => [D1|D1].
- have : a0 = 0.
    by apply Zdivide_mod in D1; rewrite Z.mod_small in D1; lia.
  by rewrite /a0; lia.
- apply Zdivide_mod in D1.
  have -> : a0 ^ (p - 1) = (a0 ^ (p - 1) - 1) + 1 by ring.
  by rewrite Zplus_mod D1 Z.add_0_l Z.mod_mod ?Z.mod_small; lia.
Qed.
Print Assumptions fermat_Z.

(* the form used for inverses: x * x^(p-2) = 1 (mod p) *)
Theorem fermat_inv_Z p a : Znumtheory.prime p -> 2 < p -> a mod p <> 0 -> (a * a ^ (p - 2)) mod p = 1.
Proof.
move=> Pp p2 anz. rewrite -(fermat_Z Pp anz).
have -> : p - 1 = Z.succ (p - 2) by lia.
by rewrite Z.pow_succ_r; lia.
Qed.
Print Assumptions fermat_inv_Z.
