(* Bonus: the square-root premises [sqrt_facts] (Proofs/Sec1.v), [sec1_facts] and [lift_facts]
   (Proofs/SchnorrSign.v) for every prime p = 3 (mod 4), and for secp256k1 without premises. *)
From Coq Require Import ZArith Znumtheory Zpow_facts Lia Bool List.
Require Import Bits.Lib.Result Bits.Model.Ecmath Bits.Proofs.Ecmath Bits.Proofs.Sec1 Bits.Proofs.SchnorrSign
  Bits.Spec.Secp256k1.
Require Import Bits.GL.FermatZ Bits.GL.Secp256k1Order Bits.GL.Secp256k1Primes.
Local Open Scope Z_scope.
(* Proofs/Sec1.v installs a global zify hook; this file does not rely on it *)
Ltac Zify.zify_post_hook ::= idtac.

Section Sqrt.
  Variable p : Z.
  Hypothesis Pp : prime p.
  Hypothesis Hp : 3 < p.
  Hypothesis H4 : p mod 4 = 3.

  Let k := (p + 1) / 4.
  Lemma p_4k : p + 1 = 4 * k.
  Proof.
    unfold k. pose proof (Z.div_mod (p + 1) 4 ltac:(lia)) as D.
    assert (M : (p + 1) mod 4 = 0) by (rewrite Zplus_mod, H4; reflexivity). lia.
  Qed.
  Lemma k_pos : 0 < k. Proof. pose proof p_4k. lia. Qed.

  Lemma pow_sqrt y : 0 <= y < p -> ((y ^ 2 mod p) ^ k mod p) ^ 2 mod p = y ^ 2 mod p.
  Proof.
    intros Hy. pose proof p_4k as E. pose proof k_pos as K.
    rewrite <- Zpower_mod by lia. rewrite <- Z.pow_mul_r by lia.
    rewrite <- Zpower_mod by lia. rewrite <- Z.pow_mul_r by lia.
    replace (2 * (k * 2)) with ((p - 1) + 2) by lia.
    destruct (Z.eq_dec y 0) as [->|Ny].
    - rewrite !Z.pow_0_l by lia. reflexivity.
    - rewrite Z.pow_add_r by lia. rewrite Zmult_mod.
      rewrite (@fermat_Z p y Pp) by (rewrite Z.mod_small; lia).
      rewrite Z.mul_1_l. apply Z.mod_mod. lia.
  Qed.

  Lemma sq_roots y z : 0 <= y < p -> 0 <= z < p -> y ^ 2 mod p = z ^ 2 mod p ->
    z = y \/ z = (p - y) mod p.
  Proof.
    intros Hy Hz E.
    assert (D : (p | (z - y) * (z + y))).
    { apply Zmod_divide; [lia|]. replace ((z - y) * (z + y)) with (z ^ 2 - y ^ 2) by ring.
      rewrite Zminus_mod, E, Z.sub_diag. apply Z.mod_0_l. lia. }
    destruct (prime_mult p Pp _ _ D) as [[c Hc]|[c Hc]].
    - left. assert (c = 0) by nia. lia.
    - assert (C : c = 0 \/ c = 1) by nia. destruct C as [-> | ->]; [left; lia|].
      right. rewrite Z.mod_small; lia.
  Qed.

  Theorem sqrt_facts_of_prime : sqrt_facts p.
  Proof.
    constructor; [exact Hp | exact H4 |].
    intros y Hy w. subst w. unfold fpow, fmul, fsub. rewrite Zpow_mod_correct by lia. fold k.
    rewrite <- (Z.pow_2_r y). set (w := (y ^ 2 mod p) ^ k mod p).
    assert (B : 0 <= w < p) by (apply Z.mod_pos_bound; lia).
    destruct (sq_roots y w Hy B) as [E|E].
    - symmetry. exact (pow_sqrt y Hy).
    - now left.
    - right. rewrite E. replace (p - y) with (0 - y + 1 * p) by ring. apply Z.mod_add. lia.
  Qed.

  Theorem lift_facts_of_prime : lift_facts p.
  Proof.
    constructor.
    - pose proof (Z.div_mod p 4 ltac:(lia)) as D. rewrite H4 in D.
      rewrite D. replace (4 * (p / 4) + 3) with (1 + (2 * (p / 4) + 1) * 2) by ring.
      rewrite Z.mod_add by lia. reflexivity.
    - intros y Hy. cbv zeta. fold k. now apply pow_sqrt.
    - intros y z Hy Hz E. now apply sq_roots.
  Qed.

  Lemma prime_divide_pow r e : 0 <= e -> (p | r ^ e) -> (p | r).
  Proof.
    intros He. pattern e. apply natlike_ind; [| |exact He].
    - rewrite Z.pow_0_r. intros D. apply Z.divide_1_r_nonneg in D; lia.
    - intros x Hx IH. rewrite Z.pow_succ_r by lia. intros D.
      destruct (prime_mult p Pp _ _ D); auto.
  Qed.

  Theorem sec1_facts_of_prime a b : inF p a = true -> inF p b = true -> p <= 2 ^ 256 ->
    (forall x, inF p x = true -> rhs p a b x <> 0) -> sec1_facts p a b.
  Proof.
    intros Ha Hb Hw NR. constructor; auto; [exact sqrt_facts_of_prime|].
    intros x Hx E. fold k in E. unfold fpow in E. rewrite Zpow_mod_correct in E by lia.
    assert (D : (p | rhs p a b x)).
    { apply (prime_divide_pow _ k); [pose proof k_pos; lia|]. apply Zmod_divide; [lia | exact E]. }
    assert (R : 0 <= rhs p a b x < p) by (unfold rhs, fadd; apply Z.mod_pos_bound; lia).
    apply (NR x); [apply (inF_iff p); exact Hx|].
    destruct D as [c Hc]. assert (c = 0) by nia. lia.
  Qed.
End Sqrt.

Lemma P_mod4 : Secp256k1.p mod 4 = 3. Proof. reflexivity. Qed.

Theorem secp256k1_sqrt_facts : sqrt_facts Secp256k1.p.
Proof. exact (sqrt_facts_of_prime _ prime_P P_gt3 P_mod4). Qed.

Theorem secp256k1_lift_facts : lift_facts Secp256k1.p.
Proof. exact (lift_facts_of_prime _ prime_P P_gt3 P_mod4). Qed.

Theorem secp256k1_sec1_facts : sec1_facts Secp256k1.p 0 7.
Proof.
  apply (sec1_facts_of_prime _ prime_P P_gt3 P_mod4 0 7 inF_a inF_b).
  - intros H. discriminate H.
  - exact (secp256k1_no_root prime_P).
Qed.

Print Assumptions sqrt_facts_of_prime.
Print Assumptions secp256k1_sqrt_facts.
Print Assumptions secp256k1_lift_facts.
Print Assumptions secp256k1_sec1_facts.
