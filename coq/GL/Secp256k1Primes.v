(* M4: P and N of secp256k1 are prime (Znumtheory.prime), by the certificate chain of PrimeCerts.v checked
   in the kernel with vm_compute against the Pocklington checker, hence curve_facts without premises. *)
From Coq Require Import ZArith Znumtheory Lia List Bool.
Require Import Bits.Lib.Result Bits.Lib.Group Bits.Model.Ecmath Bits.Proofs.Ecmath Bits.Proofs.Ecdsa
  Bits.Spec.Secp256k1.
Require Import Bits.GL.Pocklington Bits.GL.PrimeCerts Bits.GL.Secp256k1Order Bits.GL.Secp256k1Facts.
Import ListNotations.
Local Open Scope Z_scope.

Definition secp_primes := Eval vm_compute in
  match check_all [] secp_certs with Some l => l | None => [] end.

Lemma secp_certs_ok : check_all [] secp_certs = Some secp_primes.
Proof. vm_compute. reflexivity. Qed.

Lemma secp_primes_prime : Forall prime secp_primes.
Proof. exact (check_all_sound secp_certs [] secp_primes (Forall_nil _) secp_certs_ok). Qed.

Theorem prime_P : prime Secp256k1.p.
Proof.
  assert (H := secp_primes_prime). rewrite Forall_forall in H. apply H. apply memb_In. vm_compute. reflexivity.
Qed.

Theorem prime_N : prime Secp256k1.n.
Proof.
  assert (H := secp_primes_prime). rewrite Forall_forall in H. apply H. apply memb_In. vm_compute. reflexivity.
Qed.

Theorem secp256k1_curve_facts_closed : curve_facts Secp256k1.p 0 7 Secp256k1.n (Some (Gx, Gy)).
Proof. exact (secp256k1_curve_facts prime_P prime_N). Qed.

Theorem secp256k1_curve_group_closed : curve_group Secp256k1.p 0 7.
Proof. exact (secp256k1_curve_group prime_P). Qed.

Print Assumptions prime_P.
Print Assumptions prime_N.
Print Assumptions secp256k1_curve_facts_closed.
