(* Associativity of chord-and-tangent addition (context of ECBase.v): P + Q - Q = P, cancellation,
   the degenerate cases by group reasoning, the generic cases from ECSpecAssoc.v. *)
From Coq Require Import Field Ring Setoid Bool.
Require Import Bits.GL.ECBase Bits.GL.ECSpec Bits.GL.ECSpecAssoc.

Section EC.
Variable K : Type.
Variables (kO kI : K) (kadd kmul ksub : K -> K -> K) (kopp : K -> K) (kdiv : K -> K -> K) (kinv : K -> K).
Hypothesis Kfth : field_theory kO kI kadd kmul ksub kopp kdiv kinv (@eq K).
Hypothesis keq_dec : forall x y : K, {x = y} + {x <> y}.

Declare Scope k_scope.
Delimit Scope k_scope with K.
Local Open Scope k_scope.
Notation "0" := kO : k_scope.
Notation "1" := kI : k_scope.
Notation "2" := (kadd kI kI) : k_scope.
Notation "3" := (kadd kI (kadd kI kI)) : k_scope.
Infix "+" := kadd : k_scope.
Infix "*" := kmul : k_scope.
Infix "-" := ksub : k_scope.
Infix "/" := kdiv : k_scope.
Notation "- x" := (kopp x) : k_scope.

Add Field Kfield : Kfth.

Variables A B : K.
Hypothesis two_nz : 2 <> 0.
(* no point of order 2: the cubic has no root in K *)
Hypothesis no2 : forall x, x*x*x + A*x + B <> 0.

Notation pt := (ECBase.pt K).
Notation on := (ECBase.on K kadd kmul A B).
Notation neg := (ECBase.neg K kO ksub).
Notation add := (ECBase.add K kO kI kadd kmul ksub kdiv keq_dec A).
Notation tan_pt := (ECBase.tan_pt K kO kI kadd kmul ksub kdiv A).
Notation chord_pt := (ECBase.chord_pt K kO kadd kmul ksub kdiv).
Let BL := base K kO kI kadd kmul ksub kopp kdiv kinv Kfth keq_dec A B two_nz no2.


Local Notation tan_chord_back := (ECSpec.tan_chord_back K kO kI kadd kmul ksub kopp kdiv kinv Kfth keq_dec A B two_nz no2).
Local Notation chord_x_eq2 := (ECSpec.chord_x_eq2 K kO kI kadd kmul ksub kopp kdiv kinv Kfth keq_dec A B two_nz no2).
Local Notation chord_chord_back := (ECSpec.chord_chord_back K kO kI kadd kmul ksub kopp kdiv kinv Kfth keq_dec A B two_nz no2).
Local Notation chord_tan_back := (ECSpec.chord_tan_back K kO kI kadd kmul ksub kopp kdiv kinv Kfth keq_dec A B two_nz no2).
Local Notation spec1 := (ECSpecAssoc.spec1 K kO kI kadd kmul ksub kopp kdiv kinv Kfth keq_dec A B two_nz no2).
Local Notation spec2 := (ECSpecAssoc.spec2 K kO kI kadd kmul ksub kopp kdiv kinv Kfth keq_dec A B two_nz no2).
Local Notation spec3 := (ECSpecAssoc.spec3 K kO kI kadd kmul ksub kopp kdiv kinv Kfth keq_dec A B two_nz no2).
Local Notation spec4 := (ECSpecAssoc.spec4 K kO kI kadd kmul ksub kopp kdiv kinv Kfth keq_dec A B two_nz no2).
Local Notation tan_x_eq := (ECSpec.tan_x_eq K kO kI kadd kmul ksub kopp kdiv kinv Kfth A).

Lemma add_O_l P : add None P = P.
Proof. reflexivity. Qed.

Lemma pt_eq_dec (P Q : pt) : {P = Q} + {P <> Q}.
Proof.
  destruct P as [[x1 y1]|], Q as [[x2 y2]|]; try (right; discriminate); [|left; reflexivity].
  destruct (keq_dec x1 x2) as [->|N]; [|right; congruence].
  destruct (keq_dec y1 y2) as [->|N]; [left; reflexivity|right; congruence].
Qed.

Lemma neg_swap P Q : P = neg Q -> Q = neg P.
Proof. intros ->. symmetry. apply (bl_neg_neg BL). Qed.

(* ---------- P + Q - Q = P ---------- *)
Theorem add_sub_id P Q : on P -> on Q -> add (add P Q) (neg Q) = P.
Proof.
  destruct P as [[x1 y1]|], Q as [[x2 y2]|]; intros H1 H2.
  - assert (H2n := bl_neg_on BL _ H2).
    change (neg (Some (x2, y2))) with (Some (x2, 0 - y2)) in *.
    destruct (bl_add_cases BL H1 H2) as [E1 E2 E3 | E1 E2 | N].
    + subst. rewrite add_O_l. do 2 f_equal. ring.
    + subst. assert (HD := bl_tan_on BL H1).
      assert (T0 := tan_x_eq x2 y2).
      assert (T1 := tan_chord_back x2 y2 H1).
      assert (T2 := bl_tan_neg BL x2 (bl_on_y_nz BL H1)).
      destruct (tan_pt x2 y2) as [x3 y3]. cbn [fst snd] in *.
      destruct (bl_add_cases BL HD H2n) as [F1 F2 F3 | F1 F2 | N].
      * exfalso. apply F3. now apply T0.
      * subst. rewrite T2. do 2 f_equal. ring.
      * f_equal. now apply T1.
    + assert (HS := bl_chord_on BL H1 H2 N).
      assert (C0 := chord_x_eq2 x1 y1 x2 y2 N).
      assert (C1 := chord_chord_back x1 y1 x2 y2 N).
      assert (C2 := chord_tan_back x1 y1 x2 y2 H1 H2 N).
      destruct (chord_pt x1 y1 x2 y2) as [x3 y3]. cbn [fst snd] in *.
      destruct (bl_add_cases BL HS H2n) as [F1 F2 F3 | F1 F2 | N'].
      * exfalso. apply F3. now apply C0.
      * subst. f_equal. now apply C2.
      * f_equal. now apply C1.
  - now rewrite !(bl_add_O_r BL).
  - rewrite add_O_l. now apply (bl_add_neg_r BL).
  - reflexivity.
Qed.

Lemma add_cancel_r P Q R : on P -> on Q -> on R -> add P R = add Q R -> P = Q.
Proof.
  intros HP HQ HR E. rewrite <- (add_sub_id P R HP HR), <- (add_sub_id Q R HQ HR). now rewrite E.
Qed.

Lemma add_id_unique P R : on P -> on R -> add P R = P -> R = None.
Proof.
  intros HP HR E. rewrite <- (add_sub_id R P HR HP).
  rewrite (bl_add_comm BL R P HR HP), E. now apply (bl_add_neg_r BL).
Qed.

Lemma add_neg_l P : on P -> add (neg P) P = None.
Proof.
  intros HP. rewrite (bl_add_comm BL) by (auto; now apply (bl_neg_on BL)). now apply (bl_add_neg_r BL).
Qed.

(* P + (-P + R) = R *)
Lemma add_neg_add P R : on P -> on R -> add P (add (neg P) R) = R.
Proof.
  intros HP HR. assert (HN := bl_neg_on BL _ HP).
  rewrite (bl_add_comm BL (neg P) R) by auto.
  rewrite (bl_add_comm BL P) by (auto; now apply (bl_add_on BL)).
  rewrite <- (bl_neg_neg BL P) at 2. now apply add_sub_id.
Qed.

Lemma no_self_neg x y : on (Some (x, y)) -> Some (x, y) <> neg (Some (x, y)).
Proof. intros H E. inversion E. now apply (bl_y_ne_neg BL H). Qed.

(* ---------- generic cases ---------- *)
(* (P + P) + R = P + (P + R) *)
Lemma assoc_dbl x1 y1 x3 y3 : on (Some (x1, y1)) -> on (Some (x3, y3)) -> x1 <> x3 ->
  let P := Some (x1, y1) in let R := Some (x3, y3) in
  R <> neg (add P P) -> add P R <> neg P ->
  add (add P P) R = add P (add P R).
Proof.
  intros H1 H3 Hx P R ND NT. subst P R.
  rewrite (bl_add_tan BL H1) in *. rewrite (bl_add_chord BL y1 y3 Hx) in *.
  assert (HD := bl_tan_on BL H1). assert (HT := bl_chord_on BL H1 H3 Hx).
  assert (S4 := spec4 x1 y1 H1). assert (S2 := spec2 x1 y1 x3 y3 H1 H3 Hx).
  cbv zeta in S4, S2.
  assert (AI := add_id_unique (Some (x1, y1)) (Some (x3, y3)) H1 H3).
  rewrite (bl_add_chord BL y1 y3 Hx) in AI.
  destruct (tan_pt x1 y1) as [x4 y4] eqn:ED. destruct (chord_pt x1 y1 x3 y3) as [x5 y5] eqn:ET.
  cbn [fst snd] in *.
  destruct (bl_add_cases BL H1 HT) as [F1 F2 F3 | F1 F2 | N5].
  - exfalso. apply NT. subst. reflexivity.
  - subst. discriminate AI. reflexivity.
  - destruct (bl_add_cases BL HD H3) as [G1 G2 G3 | G1 G2 | N4].
    + exfalso. apply ND. subst. reflexivity.
    + subst x4 y4. f_equal. rewrite ET in S4. cbn [fst snd] in S4. apply S4; auto.
      now apply (bl_on_y_nz BL HD).
    + f_equal. apply S2; auto.
Qed.

(* (P + Q) + (P + Q) = P + (Q + (P + Q)) *)
Lemma assoc_mid x1 y1 x2 y2 : on (Some (x1, y1)) -> on (Some (x2, y2)) -> x1 <> x2 ->
  let P := Some (x1, y1) in let Q := Some (x2, y2) in
  forall x3 y3, add P Q = Some (x3, y3) -> x2 <> x3 ->
  forall x5 y5, add Q (Some (x3, y3)) = Some (x5, y5) -> x1 <> x5 ->
  add (add P Q) (Some (x3, y3)) = add P (add Q (Some (x3, y3))).
Proof.
  intros H1 H2 Hx P Q x3 y3 ES N23 x5 y5 ET N15. subst P Q.
  rewrite ES, ET. assert (HS := bl_chord_on BL H1 H2 Hx).
  rewrite (bl_add_chord BL y1 y2 Hx) in ES.
  assert (ES' : chord_pt x1 y1 x2 y2 = (x3, y3)) by congruence. clear ES. rename ES' into ES.
  rewrite (bl_add_chord BL y2 y3 N23) in ET.
  assert (ET' : chord_pt x2 y2 x3 y3 = (x5, y5)) by congruence. clear ET. rename ET' into ET.
  rewrite ES in HS.
  rewrite (bl_add_tan BL HS). rewrite (bl_add_chord BL y1 y5 N15). f_equal.
  assert (S3 := spec3 x1 y1 x2 y2 H1 H2 Hx). cbv zeta in S3.
  rewrite ES in S3. cbn [fst snd] in S3. rewrite ET in S3. cbn [fst snd] in S3.
  apply S3; auto. now apply (bl_on_y_nz BL HS).
Qed.

(* both outer additions are chords or one of them is a doubling; x1 <> x2, x2 <> x3 *)
Lemma assoc_chords x1 y1 x2 y2 x3 y3 :
  on (Some (x1, y1)) -> on (Some (x2, y2)) -> on (Some (x3, y3)) -> x1 <> x2 -> x2 <> x3 ->
  let P := Some (x1, y1) in let Q := Some (x2, y2) in let R := Some (x3, y3) in
  R <> neg (add P Q) -> add Q R <> neg P ->
  add (add P Q) R = add P (add Q R).
Proof.
  intros H1 H2 H3 N12 N23 P Q R ND1 ND2. subst P Q R.
  assert (AM1 := assoc_mid x1 y1 x2 y2 H1 H2 N12).
  assert (AM2 := assoc_mid x3 y3 x2 y2 H3 H2 (not_eq_sym N23)).
  assert (S1 := spec1 x1 y1 x2 y2 x3 y3 H1 H2 H3 N12 N23).
  assert (SI1 := add_sub_id (Some (x2, y2)) (Some (x1, y1)) H2 H1). assert (SI2 := add_sub_id (Some (x2, y2)) (Some (x3, y3)) H2 H3).
  assert (CQP := bl_add_comm BL (Some (x2, y2)) (Some (x1, y1)) H2 H1). assert (CRQ := bl_add_comm BL (Some (x3, y3)) (Some (x2, y2)) H3 H2).
  assert (HS := bl_add_on BL (Some (x1, y1)) (Some (x2, y2)) H1 H2). assert (HT := bl_add_on BL (Some (x2, y2)) (Some (x3, y3)) H2 H3).
  cbv zeta in AM1, AM2, S1.
  assert (ES : add (Some (x1, y1)) (Some (x2, y2)) = Some (chord_pt x1 y1 x2 y2)) by (apply (bl_add_chord BL); exact N12).
  assert (ET : add (Some (x2, y2)) (Some (x3, y3)) = Some (chord_pt x2 y2 x3 y3)) by (apply (bl_add_chord BL); exact N23).
  destruct (chord_pt x1 y1 x2 y2) as [x4 y4]. destruct (chord_pt x2 y2 x3 y3) as [x5 y5].
  cbn [fst snd] in S1.
  rewrite ES, ET in *.
  destruct (bl_add_cases BL HS H3) as [F1 F2 F3 | F1 F2 | N43].
  { exfalso. apply ND1. subst. reflexivity. }
  - (* (Some (x1, y1)) + (Some (x2, y2)) = (Some (x3, y3)) *)
    subst x4 y4.
    destruct (bl_add_cases BL H1 HT) as [G1 G2 G3 | G1 G2 | N15].
    { exfalso. apply ND2. subst. reflexivity. }
    + (* and (Some (x2, y2)) + (Some (x3, y3)) = (Some (x1, y1)): impossible *)
      subst x5 y5.
      exfalso. apply (no_self_neg x2 y2 H2).
      rewrite CQP in SI1.
      assert (E : neg (Some (x2, y2)) = Some (x2, y2)).
      { transitivity (neg (add (Some (x3, y3)) (neg (Some (x1, y1))))); [now rewrite SI1|].
        rewrite (bl_neg_add BL (Some (x3, y3)) (neg (Some (x1, y1)))) by (auto; now apply (bl_neg_on BL)).
        rewrite (bl_neg_neg BL). rewrite (bl_add_comm BL) by (auto; now apply (bl_neg_on BL)). exact SI2. }
      symmetry. exact E.
    + rewrite <- (bl_add_tan BL HS), <- (bl_add_chord BL y1 y5 N15), <- ET. apply (AM1 x3 y3 eq_refl N23 x5 y5 ET N15).
  - destruct (bl_add_cases BL H1 HT) as [G1 G2 G3 | G1 G2 | N15].
    { exfalso. apply ND2. subst. reflexivity. }
    + (* (Some (x2, y2)) + (Some (x3, y3)) = (Some (x1, y1)): mirror image of the previous case *)
      subst x5 y5.
      assert (M := AM2 x1 y1 CRQ (not_eq_sym N12) x4 y4 CQP (not_eq_sym N43)).
      rewrite CRQ, CQP in M. rewrite (bl_add_tan BL H1) in M.
      rewrite (bl_add_chord BL y3 y4 (not_eq_sym N43)) in M.
      rewrite (bl_chord_comm BL y4 y3 N43). symmetry. exact M.
    + f_equal.
      apply S1; auto.
Qed.

Lemma xy_cases x1 y1 x2 y2 : on (Some (x1, y1)) -> on (Some (x2, y2)) ->
  (x1 = x2 /\ y2 = 0 - y1) \/ (x1 = x2 /\ y1 = y2) \/ x1 <> x2.
Proof.
  intros H1 H2. destruct (bl_add_cases BL H1 H2); [left | right; left | right; right]; auto.
Qed.

Theorem add_assoc P Q R : on P -> on Q -> on R -> add (add P Q) R = add P (add Q R).
Proof.
  intros HP HQ HR.
  destruct P as [[x1 y1]|]; [|reflexivity].
  destruct Q as [[x2 y2]|]; [|reflexivity].
  destruct R as [[x3 y3]|]; [|now rewrite !(bl_add_O_r BL)].
  assert (HNP := bl_neg_on BL (Some (x1, y1)) HP). assert (HNQ := bl_neg_on BL (Some (x2, y2)) HQ). assert (HNR := bl_neg_on BL (Some (x3, y3)) HR).
  assert (HS := bl_add_on BL (Some (x1, y1)) (Some (x2, y2)) HP HQ). assert (HT := bl_add_on BL (Some (x2, y2)) (Some (x3, y3)) HQ HR).
  destruct (pt_eq_dec (Some (x2, y2)) (neg (Some (x1, y1)))) as [E|NPQ].
  { rewrite E. rewrite (bl_add_neg_r BL (Some (x1, y1)) HP). rewrite add_O_l. symmetry. now apply add_neg_add. }
  destruct (pt_eq_dec (Some (x3, y3)) (neg (Some (x2, y2)))) as [E|NQR].
  { rewrite E. rewrite add_sub_id by auto. rewrite (bl_add_neg_r BL (Some (x2, y2)) HQ). now rewrite (bl_add_O_r BL). }
  destruct (pt_eq_dec (Some (x3, y3)) (neg (add (Some (x1, y1)) (Some (x2, y2))))) as [E|ND1].
  { rewrite E. rewrite (bl_add_neg_r BL _ HS).
    rewrite (bl_neg_add BL (Some (x1, y1)) (Some (x2, y2)) HP HQ).
    rewrite (bl_add_comm BL (Some (x2, y2))) by (auto; now apply (bl_add_on BL)).
    rewrite <- (bl_neg_neg BL (Some (x2, y2))) at 2. rewrite add_sub_id by auto.
    symmetry. now apply (bl_add_neg_r BL). }
  destruct (pt_eq_dec (add (Some (x2, y2)) (Some (x3, y3))) (neg (Some (x1, y1)))) as [E|ND2].
  { rewrite E. rewrite (bl_add_neg_r BL (Some (x1, y1)) HP).
    apply neg_swap in E. rewrite (bl_neg_add BL (Some (x2, y2)) (Some (x3, y3)) HQ HR) in E.
    rewrite E. rewrite (bl_add_comm BL (neg (Some (x2, y2))) (neg (Some (x3, y3)))) by auto.
    rewrite <- (bl_neg_neg BL (Some (x2, y2))) at 2. rewrite add_sub_id by auto.
    now apply add_neg_l. }
  destruct (xy_cases x1 y1 x2 y2 HP HQ) as [[F1 F2] | [[F1 F2] | N12]].
  { exfalso. apply NPQ.  subst. reflexivity. }
  - (* (Some (x1, y1)) = (Some (x2, y2)) *)
    destruct (xy_cases x2 y2 x3 y3 HQ HR) as [[G1 G2] | [[G1 G2] | N23]].
    { exfalso. apply NQR.  subst. reflexivity. }
    + subst. apply (bl_add_comm BL); auto.
    + subst x2 y2.
      apply (assoc_dbl x1 y1 x3 y3 HP HR N23 ND1 ND2).
  - destruct (xy_cases x2 y2 x3 y3 HQ HR) as [[G1 G2] | [[G1 G2] | N23]].
    { exfalso. apply NQR.  subst. reflexivity. }
    + (* (Some (x2, y2)) = (Some (x3, y3)) *)
      subst x3 y3.
      assert (D1 : (Some (x1, y1)) <> neg (add (Some (x2, y2)) (Some (x2, y2)))) by (intros E; apply ND2; now apply neg_swap).
      assert (D2 : add (Some (x2, y2)) (Some (x1, y1)) <> neg (Some (x2, y2))).
      { intros E. apply ND1. apply neg_swap. rewrite <- E. apply (bl_add_comm BL); auto. }
      assert (M := assoc_dbl x2 y2 x1 y1 HQ HP (not_eq_sym N12) D1 D2). cbv zeta in M.
      rewrite (bl_add_comm BL (add (Some (x1, y1)) (Some (x2, y2))) (Some (x2, y2))) by auto.
      rewrite (bl_add_comm BL (Some (x1, y1)) (Some (x2, y2))) by auto. rewrite <- M.
      apply (bl_add_comm BL); auto.
    + apply (assoc_chords x1 y1 x2 y2 x3 y3 HP HQ HR N12 N23 ND1 ND2).
Qed.

End EC.
Print Assumptions add_assoc.
