(* M4: Pocklington's criterion (square-free version) with a boolean checker for chained certificates.
   n > 1, F = q1 * ... * qk (distinct primes), F | n - 1, n <= F^2, and for every qi a witness ai with
   ai^(n-1) = 1 (mod n) and gcd (ai^((n-1)/qi) - 1, n) = 1   ==>   n is prime. *)
From Coq Require Import ZArith Znumtheory Zpow_facts Lia List Bool.
Require Import Bits.GL.FermatZ.
Import ListNotations.
Local Open Scope Z_scope.

(* ---------- prime divisors ---------- *)
Lemma prime_divisor n : 1 < n -> exists p, prime p /\ (p | n).
Proof.
  intros Hn. assert (H0 : 0 <= n) by lia. revert Hn. pattern n. apply Z_lt_induction; [|exact H0].
  clear n H0. intros n IH Hn.
  destruct (prime_dec n) as [Pn|Nn]; [exists n; split; [exact Pn|apply Z.divide_refl]|].
  destruct (not_prime_divide n Hn Nn) as (d & Hd & Dd).
  destruct (IH d ltac:(lia) ltac:(lia)) as (p & Pp & Dp).
  exists p. split; [exact Pp|]. now apply Z.divide_trans with d.
Qed.

Lemma small_prime_divisor n : 1 < n -> ~ prime n -> exists p, prime p /\ (p | n) /\ p * p <= n.
Proof.
  intros Hn Nn. destruct (not_prime_divide n Hn Nn) as (d & Hd & [c Hc]).
  assert (Hc1 : 1 < c) by nia.
  assert (W : exists m, 1 < m /\ (m | n) /\ m * m <= n).
  { destruct (Z.le_ge_cases d c).
    - exists d. split; [lia|]. split; [exists c; lia | nia].
    - exists c. split; [lia|]. split; [exists d; lia | nia]. }
  destruct W as (m & Hm & Dm & Sm).
  destruct (prime_divisor m Hm) as (p & Pp & Dp).
  exists p. split; [exact Pp|]. split; [now apply Z.divide_trans with m|].
  assert (p <= m) by (apply Z.divide_pos_le; [lia | exact Dp]).
  pose proof (prime_ge_2 p Pp). nia.
Qed.

(* ---------- exponents e with a^e = 1 (mod m) are closed under gcd ---------- *)
Lemma pow_gcd_1 m a : 1 < m -> forall s j k, 0 <= j -> 0 <= k -> j + k <= s ->
  a ^ j mod m = 1 -> a ^ k mod m = 1 -> a ^ Z.gcd j k mod m = 1.
Proof.
  intros Hm s. assert (Hs : 0 <= s \/ s < 0) by lia. destruct Hs as [Hs|Hs]; [|intros; lia].
  revert s Hs. apply (Z_lt_induction (fun s => forall j k, 0 <= j -> 0 <= k -> j + k <= s ->
     a ^ j mod m = 1 -> a ^ k mod m = 1 -> a ^ Z.gcd j k mod m = 1)).
  intros s IH j k Hj Hk Hjk Ej Ek.
  destruct (Z.eq_dec j 0) as [->|Nj]; [rewrite Z.gcd_0_l, Z.abs_eq by lia; exact Ek|].
  destruct (Z.eq_dec k 0) as [->|Nk]; [rewrite Z.gcd_0_r, Z.abs_eq by lia; exact Ej|].
  assert (Sub : forall u v, 0 < v <= u -> a ^ u mod m = 1 -> a ^ v mod m = 1 -> a ^ (u - v) mod m = 1).
  { intros u v Huv Eu Ev. replace u with ((u - v) + v) in Eu by lia.
    rewrite Z.pow_add_r in Eu by lia. rewrite Zmult_mod, Ev, Z.mul_1_r, Z.mod_mod in Eu by lia. exact Eu. }
  destruct (Z.le_ge_cases k j).
  - rewrite (Z.gcd_comm j k), <- (Z.gcd_sub_diag_r k j).
    apply (IH (s - 1) ltac:(lia) k (j - k)); try lia; auto. apply Sub; auto; lia.
  - rewrite <- (Z.gcd_sub_diag_r j k).
    apply (IH (s - 1) ltac:(lia) j (k - j)); try lia; auto. apply Sub; auto; lia.
Qed.

Lemma pow_mult_1 m a g t : 1 < m -> 0 <= g -> 0 <= t -> a ^ g mod m = 1 -> a ^ (g * t) mod m = 1.
Proof.
  intros Hm Hg Ht E. rewrite Z.pow_mul_r by lia. rewrite Zpower_mod by lia. rewrite E.
  rewrite Z.pow_1_l by lia. apply Z.mod_1_l. lia.
Qed.

Lemma mod_mod_divide x n p : 0 < p -> (p | n) -> (x mod n) mod p = x mod p.
Proof.
  intros Hp [c ->]. destruct (Z.eq_dec c 0) as [->|Nc].
  - now rewrite Z.mul_0_l, Zmod_0_r.
  - rewrite (Z.div_mod x (c * p)) at 2 by lia.
    replace (c * p * (x / (c * p)) + x mod (c * p)) with (x mod (c * p) + (c * (x / (c * p))) * p) by ring.
    now rewrite Z.mod_add by lia.
Qed.

(* ---------- the core step: q | p - 1 for every prime divisor p of n ---------- *)
Lemma pock_step n p q a : 1 < n -> prime p -> (p | n) -> prime q -> (q | n - 1) ->
  a ^ (n - 1) mod n = 1 -> Z.gcd (a ^ ((n - 1) / q) mod n - 1) n = 1 -> (q | p - 1).
Proof.
  intros Hn Pp Dp Pq Dq E1 E2.
  pose proof (prime_ge_2 p Pp) as Hp. pose proof (prime_ge_2 q Pq) as Hq.
  set (M := (n - 1) / q) in *.
  assert (HM : n - 1 = q * M) by (apply Zdivide_Zdiv_eq; [lia | exact Dq]).
  assert (HM0 : 0 <= M) by nia.
  assert (F1 : a ^ (n - 1) mod p = 1).
  { rewrite <- (mod_mod_divide _ n p) by (auto; lia). rewrite E1. apply Z.mod_1_l. lia. }
  assert (F2 : a ^ M mod p <> 1).
  { intros F. assert (D : (p | a ^ M mod n - 1)).
    { apply Zmod_divide; [lia|]. rewrite Zminus_mod, mod_mod_divide, F by (auto; lia).
      rewrite Z.mod_1_l by lia. reflexivity. }
    assert (D1 : (p | 1)) by (rewrite <- E2; now apply Z.gcd_greatest).
    apply Z.divide_1_r_nonneg in D1; lia. }
  assert (Na : a mod p <> 0).
  { intros Z0. rewrite Zpower_mod, Z0, Z.pow_0_l, Z.mod_0_l in F1 by lia. discriminate. }
  assert (F3 := @fermat_Z p a Pp Na).
  set (g := Z.gcd (n - 1) (p - 1)).
  assert (Fg : a ^ g mod p = 1) by (apply (pow_gcd_1 p a ltac:(lia) (n - 1 + (p - 1))); auto; lia).
  assert (Hg0 : 0 <= g) by apply Z.gcd_nonneg.
  destruct (Zdivide_dec q g) as [Dg|Ng].
  - apply Z.divide_trans with g; [exact Dg | apply Z.gcd_divide_r].
  - exfalso. apply F2.
    assert (R : rel_prime g q) by (apply rel_prime_sym; now apply prime_rel_prime).
    assert (DgM : (g | M)).
    { apply Gauss with q; [|exact R]. rewrite <- HM. apply Z.gcd_divide_l. }
    destruct DgM as [t Ht].
    assert (g <> 0) by (intros G0; apply Ng; rewrite G0; apply Z.divide_0_r).
    assert (0 <= t) by nia.
    rewrite Ht, Z.mul_comm. apply pow_mult_1; auto; lia.
Qed.

(* ---------- products of distinct primes ---------- *)
Definition prod (l : list Z) : Z := fold_right Z.mul 1 l.

Lemma prod_pos l : Forall prime l -> 0 < prod l.
Proof.
  induction 1 as [|q l Pq _ IH]; simpl; [lia|]. pose proof (prime_ge_2 q Pq). nia.
Qed.

Lemma in_prod_divide q l : In q l -> (q | prod l).
Proof.
  induction l as [|x l IH]; simpl; [tauto|]. intros [->|H].
  - exists (prod l). ring.
  - apply Z.divide_trans with (prod l); [auto | exists x; ring].
Qed.

Lemma prime_divide_prod q l : prime q -> Forall prime l -> (q | prod l) -> In q l.
Proof.
  intros Pq. induction 1 as [|x l Px _ IH]; simpl; intros D.
  - apply Z.divide_1_r_nonneg in D; pose proof (prime_ge_2 q Pq); lia.
  - destruct (prime_mult q Pq _ _ D) as [D1|D1]; [left; symmetry; now apply prime_div_prime | right; auto].
Qed.

Lemma prod_divides l m : NoDup l -> Forall prime l -> Forall (fun q => (q | m)) l -> (prod l | m).
Proof.
  induction 1 as [|q l Nq _ IH]; simpl; intros HP HD; [apply Z.divide_1_l|].
  inversion HP as [|? ? Pq HP']; subst. inversion HD as [|? ? Dq HD']; subst.
  destruct (IH HP' HD') as [c Hc].
  assert (R : rel_prime q (prod l)).
  { apply prime_rel_prime; [exact Pq|]. intros D. apply Nq. now apply prime_divide_prod. }
  assert (Dc : (q | c)).
  { apply Gauss with (prod l); [|exact R]. rewrite Z.mul_comm, <- Hc. exact Dq. }
  destruct Dc as [c' ->]. exists c'. rewrite Hc. ring.
Qed.

(* ---------- Pocklington ---------- *)
Theorem pocklington n (wit : list (Z * Z)) : 1 < n ->
  NoDup (map fst wit) -> Forall prime (map fst wit) ->
  (prod (map fst wit) | n - 1) -> n <= prod (map fst wit) * prod (map fst wit) ->
  (forall q a, In (q, a) wit ->
     a ^ (n - 1) mod n = 1 /\ Z.gcd (a ^ ((n - 1) / q) mod n - 1) n = 1) ->
  prime n.
Proof.
  intros Hn ND HP HF Hsq HW. destruct (prime_dec n) as [Pn|Nn]; [exact Pn|exfalso].
  destruct (small_prime_divisor n Hn Nn) as (p & Pp & Dp & Sp).
  pose proof (prime_ge_2 p Pp) as Hp.
  assert (DF : (prod (map fst wit) | p - 1)).
  { apply prod_divides; auto. apply Forall_forall. intros q Hq.
    apply in_map_iff in Hq as ([q' a] & <- & Hin). simpl.
    destruct (HW q' a Hin) as [E1 E2].
    assert (Pq : prime q') by (rewrite Forall_forall in HP; apply HP; apply in_map_iff; now exists (q', a)).
    apply (pock_step n p q' a); auto.
    apply Z.divide_trans with (prod (map fst wit)); [|exact HF].
    apply in_prod_divide. apply in_map_iff. now exists (q', a). }
  pose proof (prod_pos _ HP) as F0.
  assert (prod (map fst wit) <= p - 1) by (apply Z.divide_pos_le; [lia | exact DF]).
  nia.
Qed.

(* ---------- small primes by trial division ---------- *)
Fixpoint trial_loop (fuel : nat) (d n : Z) : bool :=
  match fuel with
  | O => false
  | S f => if n <? d * d then true else if n mod d =? 0 then false else trial_loop f (d + 1) n
  end.
Definition trial (n : Z) : bool := (1 <? n) && trial_loop 2000 2 n.

Lemma trial_loop_sound fuel : forall d n, 1 < n -> 2 <= d ->
  (forall e, 2 <= e < d -> ~ (e | n)) -> trial_loop fuel d n = true -> prime n.
Proof.
  induction fuel as [|f IH]; intros d n Hn Hd Hnd; simpl; [discriminate|].
  destruct (Z.ltb_spec n (d * d)) as [L|L].
  - intros _. destruct (prime_dec n) as [Pn|Nn]; [exact Pn|exfalso].
    destruct (small_prime_divisor n Hn Nn) as (p & Pp & Dp & Sp).
    pose proof (prime_ge_2 p Pp). apply (Hnd p); [nia | exact Dp].
  - destruct (Z.eqb_spec (n mod d) 0) as [E|E]; [discriminate|].
    apply IH; auto; try lia. intros e He. destruct (Z.eq_dec e d) as [->|Ne]; [|apply Hnd; lia].
    intros D. apply E. now apply Zdivide_mod.
Qed.

Lemma trial_sound n : trial n = true -> prime n.
Proof.
  unfold trial. rewrite andb_true_iff, Z.ltb_lt. intros [Hn H].
  apply (trial_loop_sound 2000 2 n); auto; lia.
Qed.

(* ---------- certificates ---------- *)
Inductive cert : Type := CSmall (n : Z) | CPock (n : Z) (wit : list (Z * Z)).
Definition cert_n (c : cert) : Z := match c with CSmall n => n | CPock n _ => n end.

Definition memb (x : Z) (l : list Z) : bool := existsb (Z.eqb x) l.
Fixpoint nodupb (l : list Z) : bool :=
  match l with [] => true | x :: l' => negb (memb x l') && nodupb l' end.

Lemma memb_In x l : memb x l = true -> In x l.
Proof. unfold memb. rewrite existsb_exists. intros (y & Hy & E). apply Z.eqb_eq in E. now subst. Qed.

Lemma nodupb_NoDup l : nodupb l = true -> NoDup l.
Proof.
  induction l as [|x l IH]; simpl; [constructor|]. rewrite andb_true_iff, negb_true_iff.
  intros [H1 H2]. constructor; [|auto]. intros Hin.
  assert (memb x l = true); [|congruence]. unfold memb. apply existsb_exists. exists x. split; [exact Hin|apply Z.eqb_refl].
Qed.

Definition check_wit (n : Z) (qa : Z * Z) : bool :=
  let (q, a) := qa in
  (Zpow_mod a (n - 1) n =? 1) && (Z.gcd (Zpow_mod a ((n - 1) / q) n - 1) n =? 1).

Definition check_one (known : list Z) (c : cert) : bool :=
  match c with
  | CSmall n => trial n
  | CPock n wit =>
    let qs := map fst wit in
    let F := prod qs in
    (1 <? n) && nodupb qs && forallb (fun q => memb q known) qs &&
    ((n - 1) mod F =? 0) && (n <=? F * F) && forallb (check_wit n) wit
  end.

Lemma check_one_sound known c : Forall prime known -> check_one known c = true -> prime (cert_n c).
Proof.
  intros HK. destruct c as [n|n wit]; simpl; [apply trial_sound|].
  rewrite !andb_true_iff, Z.ltb_lt, Z.eqb_eq, Z.leb_le, !forallb_forall.
  intros [[[[[Hn ND] HM] HD] HS] HW].
  assert (HP : Forall prime (map fst wit)).
  { apply Forall_forall. intros q Hq. rewrite Forall_forall in HK. apply HK. apply memb_In. now apply HM. }
  apply (pocklington n wit); auto.
  - now apply nodupb_NoDup.
  - apply Zmod_divide; [pose proof (prod_pos _ HP); lia | exact HD].
  - intros q a Hin. specialize (HW _ Hin). unfold check_wit in HW.
    rewrite andb_true_iff, !Z.eqb_eq, !Zpow_mod_correct in HW by lia. exact HW.
Qed.

Fixpoint check_all (known : list Z) (cs : list cert) : option (list Z) :=
  match cs with
  | [] => Some known
  | c :: cs' => if check_one known c then check_all (cert_n c :: known) cs' else None
  end.

Theorem check_all_sound cs : forall known known', Forall prime known ->
  check_all known cs = Some known' -> Forall prime known'.
Proof.
  induction cs as [|c cs IH]; simpl; intros known known' HK H.
  - injection H as <-. exact HK.
  - destruct (check_one known c) eqn:E; [|discriminate].
    apply (IH _ _ (Forall_cons _ (check_one_sound known c HK E) HK) H).
Qed.

Print Assumptions pocklington.
Print Assumptions check_all_sound.
