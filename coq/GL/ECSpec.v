(* Coordinate-level field computations for the group law (see ECBase.v for the context):
   the "third point" lemmas behind P + Q - Q = P, and the four generic associativity identities. *)
From Coq Require Import Field Ring Setoid Bool.
Require Import Bits.GL.ECBase.

Section EC.
Variable K : Type.
Variables (kO kI : K) (kadd kmul ksub : K -> K -> K) (kopp : K -> K) (kdiv : K -> K -> K) (kinv : K -> K).
Hypothesis Kfth : field_theory kO kI kadd kmul ksub kopp kdiv kinv (@eq K).
Hypothesis keq_dec : forall x y : K, {x = y} + {x <> y}.

Declare Scope k_scope.
Delimit Scope k_scope with K.
Local Open Scope k_scope.
Notation "0" := kO : k_scope.
Notation "1" := kI : k_scope.
Notation "2" := (kadd kI kI) : k_scope.
Notation "3" := (kadd kI (kadd kI kI)) : k_scope.
Infix "+" := kadd : k_scope.
Infix "*" := kmul : k_scope.
Infix "-" := ksub : k_scope.
Infix "/" := kdiv : k_scope.
Notation "- x" := (kopp x) : k_scope.

Add Field Kfield : Kfth.

Variables A B : K.
Hypothesis two_nz : 2 <> 0.
(* no point of order 2: the cubic has no root in K *)
Hypothesis no2 : forall x, x*x*x + A*x + B <> 0.

Notation pt := (ECBase.pt K).
Notation on := (ECBase.on K kadd kmul A B).
Notation neg := (ECBase.neg K kO ksub).
Notation add := (ECBase.add K kO kI kadd kmul ksub kdiv keq_dec A).
Notation tan_pt := (ECBase.tan_pt K kO kI kadd kmul ksub kdiv A).
Notation chord_pt := (ECBase.chord_pt K kO kadd kmul ksub kdiv).
Let BL := base K kO kI kadd kmul ksub kopp kdiv kinv Kfth keq_dec A B two_nz no2.

(* side conditions of [field]: the goal [X <> 0] from a hypothesis [N : Y <> 0] with X = +-Y *)
Ltac nz_of N :=
  let E := fresh "E" in
  intros E; apply N;
  first [ rewrite <- E; ring
        | match type of E with ?Y = _ => transitivity (- Y); [ring | rewrite E; ring] end ].

(* ---- the slope as a free parameter: A, B (and y2) become polynomials ---- *)
Lemma chord_params x1 y1 x2 y2 : on (Some (x1, y1)) -> on (Some (x2, y2)) -> x1 <> x2 ->
  let s := (y2 - y1) / (x2 - x1) in
  y2 = y1 + s * (x2 - x1) /\
  A = s * (y1 + (y1 + s * (x2 - x1))) - (x1*x1 + x1*x2 + x2*x2) /\
  B = y1*y1 - x1*x1*x1 - (s * (y1 + (y1 + s * (x2 - x1))) - (x1*x1 + x1*x2 + x2*x2)) * x1.
Proof.
  simpl. intros H1 H2 Hx. assert (Hd := bl_sub_nz BL Hx).
  assert (E2 : y2 = y1 + (y2 - y1) / (x2 - x1) * (x2 - x1)) by (field; exact Hd).
  assert (EA : A = (y2 - y1) / (x2 - x1) * (y1 + (y1 + (y2 - y1) / (x2 - x1) * (x2 - x1))) - (x1*x1 + x1*x2 + x2*x2)).
  { rewrite <- E2.
    transitivity (((y2*y2 - y1*y1) - (x2*x2*x2 - x1*x1*x1)) / (x2 - x1)); [rewrite H2, H1|]; field; exact Hd. }
  split; [exact E2|]. split; [exact EA|].
  rewrite <- EA. rewrite H1. ring.
Qed.

Lemma tan_params x1 y1 : on (Some (x1, y1)) ->
  let l := (3 * (x1*x1) + A) / (2 * y1) in
  A = 2 * y1 * l - 3 * (x1*x1) /\
  B = y1*y1 - x1*x1*x1 - (2 * y1 * l - 3 * (x1*x1)) * x1.
Proof.
  intros H1. assert (Hy := bl_on_y_nz BL H1). simpl in H1. simpl.
  assert (EA : A = 2 * y1 * ((3 * (x1*x1) + A) / (2 * y1)) - 3 * (x1*x1)).
  { field. split; [exact Hy | exact two_nz]. }
  split; [exact EA|]. rewrite <- EA. rewrite H1. ring.
Qed.

(* ---- P + Q - Q = P, coordinate lemmas ---- *)
Lemma tan_x_eq x y : fst (tan_pt x y) = x -> snd (tan_pt x y) = 0 - y.
Proof.
  unfold ECBase.tan_pt. cbn [fst snd]. intros E. rewrite E. ring.
Qed.

Lemma chord_x_eq1 x1 y1 x2 y2 : fst (chord_pt x1 y1 x2 y2) = x1 -> snd (chord_pt x1 y1 x2 y2) = 0 - y1.
Proof.
  unfold ECBase.chord_pt. cbn [fst snd]. intros E. rewrite E. ring.
Qed.

Lemma chord_x_eq2 x1 y1 x2 y2 : x1 <> x2 ->
  fst (chord_pt x1 y1 x2 y2) = x2 -> snd (chord_pt x1 y1 x2 y2) = 0 - y2.
Proof.
  intros Hx. rewrite (bl_chord_comm BL y1 y2 Hx). apply chord_x_eq1.
Qed.

Lemma tan_chord_back x1 y1 : on (Some (x1, y1)) ->
  fst (tan_pt x1 y1) <> x1 ->
  chord_pt (fst (tan_pt x1 y1)) (snd (tan_pt x1 y1)) x1 (0 - y1) = (x1, y1).
Proof.
  intros H1 N. assert (Hy := bl_on_y_nz BL H1). apply (bl_sub_nz BL) in N. revert N.
  unfold ECBase.tan_pt, ECBase.chord_pt. cbn [fst snd].
  set (l := (3 * (x1*x1) + A) / (2 * y1)). clearbody l. intros N.
  f_equal; field; nz_of N.
Qed.

Lemma chord_chord_back x1 y1 x2 y2 : x1 <> x2 ->
  fst (chord_pt x1 y1 x2 y2) <> x2 ->
  chord_pt (fst (chord_pt x1 y1 x2 y2)) (snd (chord_pt x1 y1 x2 y2)) x2 (0 - y2) = (x1, y1).
Proof.
  intros Hx N. assert (Hd := bl_sub_nz BL Hx). apply (bl_sub_nz BL) in N. revert N.
  unfold ECBase.chord_pt. cbn [fst snd].
  assert (Ey : y2 = y1 + (y2 - y1) / (x2 - x1) * (x2 - x1)) by (field; exact Hd).
  set (s := (y2 - y1) / (x2 - x1)) in *. clearbody s. subst y2. intros N.
  f_equal; field; nz_of N.
Qed.

Lemma chord_tan_back x1 y1 x2 y2 : on (Some (x1, y1)) -> on (Some (x2, y2)) -> x1 <> x2 ->
  fst (chord_pt x1 y1 x2 y2) = x2 ->
  tan_pt x2 (0 - y2) = (x1, y1).
Proof.
  intros H1 H2 Hx E. assert (Hy := bl_on_y_nz BL H2).
  destruct (chord_params x1 y1 x2 y2 H1 H2 Hx) as (Ey & EA & _).
  revert E Hy. unfold ECBase.tan_pt, ECBase.chord_pt. cbn [fst snd].
  set (s := (y2 - y1) / (x2 - x1)) in *. clearbody s. intros E Hy.
  assert (E1 : x1 = s*s - 2*x2) by (transitivity (s*s - x2 - (s*s - x1 - x2)); [ring | rewrite E; ring]).
  rewrite EA. rewrite Ey in Hy |- *. clear EA E Ey H1 H2 Hx. subst x1.
  assert (Hy' : - (y1 + s * (x2 - (s * s - 2 * x2))) <> 0).
  { intros E. apply Hy. transitivity (- - (y1 + s * (x2 - (s * s - 2 * x2)))); [ring | rewrite E; ring]. }
  f_equal; field; repeat split; try exact two_nz; try assumption.
Qed.

End EC.
