(* The prime field Z/pZ as a type with Leibniz equality ({z | z mod p = z}), its field theory
   (inverse = Fermat power x^(p-2)), and decidable equality. No axioms. *)
From Coq Require Import ZArith Znumtheory Zpow_facts Lia Field Bool Eqdep_dec.
Require Import Bits.GL.FermatZ.
Local Open Scope Z_scope.

Section Fp.
  Variable p : Z.
  Definition inr (z : Z) : bool := (z mod p =? z).
  Definition Fp : Type := { z : Z | inr z = true }.

  Lemma inr_mod z : inr (z mod p) = true.
  Proof.
    unfold inr. apply Z.eqb_eq. destruct (Z.eq_dec p 0) as [->|N]; [now rewrite !Zmod_0_r | now apply Z.mod_mod].
  Qed.

  Definition mk (z : Z) : Fp := exist _ (z mod p) (inr_mod z).
  Definition val (x : Fp) : Z := proj1_sig x.

  Definition f0 : Fp := mk 0.
  Definition f1 : Fp := mk 1.
  Definition fadd' (x y : Fp) : Fp := mk (val x + val y).
  Definition fsub' (x y : Fp) : Fp := mk (val x - val y).
  Definition fmul' (x y : Fp) : Fp := mk (val x * val y).
  Definition fopp' (x : Fp) : Fp := mk (- val x).
  Definition finv' (x : Fp) : Fp := mk (val x ^ (p - 2)).
  Definition fdiv' (x y : Fp) : Fp := fmul' x (finv' y).

  Hypothesis Pp : prime p.
  Hypothesis p2 : 2 < p.

  Lemma val_inj x y : val x = val y -> x = y.
  Proof.
    destruct x as [x Hx], y as [y Hy]. simpl. intros E. subst y.
    f_equal. apply UIP_dec. apply bool_dec.
  Qed.

  Lemma val_mk z : val (mk z) = z mod p.
  Proof. reflexivity. Qed.

  Lemma val_range x : 0 <= val x < p.
  Proof.
    destruct x as [x Hx]. simpl. unfold inr in Hx. apply Z.eqb_eq in Hx. rewrite <- Hx.
    apply Z.mod_pos_bound. lia.
  Qed.

  Lemma val_mod x : val x mod p = val x.
  Proof. apply Z.mod_small. apply val_range. Qed.

  Lemma mk_val x : mk (val x) = x.
  Proof. apply val_inj. rewrite val_mk. apply val_mod. Qed.

  Lemma mk_small z : 0 <= z < p -> val (mk z) = z.
  Proof. intros. rewrite val_mk. now apply Z.mod_small. Qed.

  Lemma mk_eq z1 z2 : z1 mod p = z2 mod p -> mk z1 = mk z2.
  Proof. intros E. apply val_inj. now rewrite !val_mk. Qed.

  Lemma mk_mod z : mk (z mod p) = mk z.
  Proof. apply mk_eq. apply Z.mod_mod. lia. Qed.

  Lemma Fp_eq_dec (x y : Fp) : {x = y} + {x <> y}.
  Proof.
    destruct (Z.eq_dec (val x) (val y)) as [E|N]; [left; now apply val_inj | right; congruence].
  Qed.

  Ltac modpush :=
    rewrite ?Zplus_mod_idemp_l, ?Zplus_mod_idemp_r, ?Zmult_mod_idemp_l, ?Zmult_mod_idemp_r,
            ?Zminus_mod_idemp_l, ?Zminus_mod_idemp_r.

  Ltac fp_ring := unfold f0, f1, fadd', fsub', fmul', fopp'; apply mk_eq; rewrite ?val_mk;
    modpush; f_equal; ring.

  Lemma Fp_ring : ring_theory f0 f1 fadd' fmul' fsub' fopp' (@eq Fp).
  Proof.
    constructor.
    - intros x. rewrite <- (mk_val x) at 2. fp_ring.
    - intros x y. fp_ring.
    - intros x y z. fp_ring.
    - intros x. rewrite <- (mk_val x) at 2. fp_ring.
    - intros x y. fp_ring.
    - intros x y z. fp_ring.
    - intros x y z. fp_ring.
    - intros x y. fp_ring.
    - intros x. fp_ring.
  Qed.

  Lemma Fp_field : field_theory f0 f1 fadd' fmul' fsub' fopp' fdiv' finv' (@eq Fp).
  Proof.
    constructor.
    - exact Fp_ring.
    - intros E. apply (f_equal val) in E. unfold f0, f1 in E. rewrite !val_mk in E.
      rewrite Z.mod_1_l, Z.mod_0_l in E; lia.
    - reflexivity.
    - intros x Hx. apply val_inj. unfold fmul', finv', f1. rewrite !val_mk. modpush.
      rewrite Z.mul_comm. rewrite Z.mod_1_l by lia. apply fermat_inv_Z; auto.
      rewrite val_mod. intros E. apply Hx. apply val_inj. unfold f0. rewrite val_mk, Z.mod_0_l by lia. exact E.
  Qed.

  (* small constants *)
  Lemma mk_2 : mk 2 = fadd' f1 f1.
  Proof. unfold fadd', f1. apply mk_eq. rewrite !val_mk. modpush. reflexivity. Qed.
  Lemma mk_3 : mk 3 = fadd' f1 (fadd' f1 f1).
  Proof. unfold fadd', f1. apply mk_eq. rewrite !val_mk, !Z.mod_1_l by lia. simpl (1 + 1). rewrite (Z.mod_small 2 p) by lia. reflexivity. Qed.
  Lemma two_nz : fadd' f1 f1 <> f0.
  Proof.
    rewrite <- mk_2. intros E. apply (f_equal val) in E. unfold f0 in E. rewrite !val_mk in E.
    rewrite Z.mod_small, Z.mod_0_l in E; lia.
  Qed.
End Fp.
Print Assumptions Fp_field.

