(* Elementary finite counting over duplicate-free lists (nothing here is ever computed: the lists have about
   2^256 elements and only their abstract lengths are compared):
   - a fixed-point-free involution lives on a list of even length;
   - length of a [flat_map] whose fibres have at most two elements;
   - "Lagrange by hand" for a commutative group given by [Lib/Group.group_laws]: a subgroup H (a list) of a
     finite group E (a list) with #E odd and #E < 3 #H is the whole group. *)
From Coq Require Import ZArith List Lia Arith.
Require Import Bits.Lib.Group.
Import ListNotations.

  Lemma NoDup_app2 {A} (l1 l2 : list A) : NoDup l1 -> NoDup l2 -> (forall x, In x l1 -> ~ In x l2) -> NoDup (l1 ++ l2).
  Proof.
    intros N1 N2 D. induction N1 as [|x l1 Hx N1 IH]; [exact N2|]. cbn [app]. constructor.
    - intros I. apply in_app_or in I as [I|I]; [now apply Hx|]. apply (D x); [now left|exact I].
    - apply IH. intros y Hy. apply D. now right.
  Qed.

  Lemma NoDup_map_inj_on {A B} (f : A -> B) (l : list A) : NoDup l ->
    (forall x y, In x l -> In y l -> f x = f y -> x = y) -> NoDup (map f l).
  Proof.
    intros N. induction N as [|x l Hx N IH]; intros I; cbn [map]; constructor.
    - intros J. apply in_map_iff in J as (y & E & Hy). apply Hx.
      rewrite (I x y); [exact Hy|now left|now right|now symmetry].
    - apply IH. intros u v Hu Hv. apply I; now right.
  Qed.

  Lemma NoDup_flat_map {A B} (f : A -> list B) (l : list A) : NoDup l ->
    (forall x, In x l -> NoDup (f x)) ->
    (forall x y z, In x l -> In y l -> In z (f x) -> In z (f y) -> x = y) -> NoDup (flat_map f l).
  Proof.
    intros N. induction N as [|x l Hx N IH]; intros F D; cbn [flat_map]; [constructor|].
    apply NoDup_app2.
    - apply F. now left.
    - apply IH; [intros; apply F; now right|]. intros u v z Hu Hv. apply D; now right.
    - intros z Hz J. apply in_flat_map in J as (y & Hy & Jz).
      apply Hx. rewrite (D x y z); auto; [now left|now right].
  Qed.

  Lemma flat_map_length_le2 {A B} (f : A -> list B) (l : list A) :
    (forall x, In x l -> length (f x) <= 2) -> length (flat_map f l) <= 2 * length l.
  Proof.
    induction l as [|x l IH]; intros F; cbn [flat_map length]; [lia|].
    rewrite app_length. pose proof (F x (or_introl eq_refl)).
    assert (length (flat_map f l) <= 2 * length l) by (apply IH; intros; apply F; now right). lia.
  Qed.

  Lemma NoDup_two {A} (u v : A) (l : list A) : NoDup l -> (forall z, In z l -> z = u \/ z = v) -> length l <= 2.
  Proof.
    intros N I. change 2 with (length [u; v]). apply NoDup_incl_length; [exact N|].
    intros z Hz. destruct (I z Hz) as [-> | ->]; cbn; auto.
  Qed.

  (* a fixed-point-free involution of a duplicate-free list pairs its elements up *)
  Lemma invol_even {A} (f : A -> A) : forall k (l : list A), length l = k -> NoDup l ->
    (forall x, In x l -> In (f x) l) -> (forall x, In x l -> f (f x) = x) -> (forall x, In x l -> f x <> x) ->
    exists m, length l = 2 * m.
  Proof.
    induction k as [k IH] using lt_wf_ind. intros l Hk N C I F.
    destruct l as [|x l']; [exists 0; reflexivity|].
    assert (Hx : In x (x :: l')) by now left.
    assert (Nx : ~ In x l') by (inversion N; assumption).
    assert (N' : NoDup l') by (inversion N; assumption).
    assert (Hfx : In (f x) l').
    { destruct (C x Hx) as [E|J]; [|exact J]. exfalso. apply (F x Hx). now symmetry. }
    destruct (in_split _ _ Hfx) as (l1 & l2 & El). subst l'.
    assert (N2 := NoDup_remove_1 _ _ _ N'). assert (Nfx := NoDup_remove_2 _ _ _ N').
    assert (Sub : forall y, In y (l1 ++ l2) -> In y (x :: l1 ++ f x :: l2)).
    { intros y Hy. right. apply in_or_app. apply in_app_or in Hy as [Hy|Hy]; [now left|right; now right]. }
    assert (C2 : forall y, In y (l1 ++ l2) -> In (f y) (l1 ++ l2)).
    { intros y Hy. assert (Hy' := Sub y Hy).
      destruct (C y Hy') as [E|J].
      + exfalso. apply Nfx. rewrite E. now rewrite (I y Hy').
      + apply in_app_or in J as [J|[E|J]]; [apply in_or_app; now left| |apply in_or_app; now right].
        exfalso. apply Nx. assert (y = x) by (rewrite <- (I y Hy'), <- (I x Hx); now f_equal).
        subst y. apply in_or_app. apply in_app_or in Hy as [Hy|Hy]; [now left|right; now right]. }
    assert (Lt : length (l1 ++ l2) < k).
    { rewrite <- Hk. cbn [length]. rewrite !app_length. cbn [length]. lia. }
    destruct (IH (length (l1 ++ l2)) Lt (l1 ++ l2) eq_refl N2 C2) as [m Hm].
    - intros y Hy. apply I. now apply Sub.
    - intros y Hy. apply F. now apply Sub.
    - exists (S m). cbn [length]. rewrite app_length in *. cbn [length]. lia.
  Qed.

(* ---------- a subgroup of index < 3 of a group of odd order is the whole group ---------- *)
Section Index.
  Variable T : Type.
  Variable V : T -> Prop.
  Variable op : T -> T -> T.
  Variable e : T.
  Variable inv : T -> T.
  Hypothesis GL : group_laws T V op e inv.
  Hypothesis dec : forall x y : T, {x = y} + {x <> y}.

  Variables Hl El : list T.
  Hypothesis HN : NoDup Hl.
  Hypothesis HV : forall x, In x Hl -> V x.
  Hypothesis Hop : forall x y, In x Hl -> In y Hl -> In (op x y) Hl.
  Hypothesis Hinv : forall x, In x Hl -> In (inv x) Hl.
  Hypothesis EN : NoDup El.
  Hypothesis EV : forall x, V x -> In x El.
  Hypothesis EV' : forall x, In x El -> V x.

  Definition coset (x : T) : list T := map (op x) Hl.

  Lemma coset_V x y : V x -> In y (coset x) -> V y.
  Proof. intros Vx I. apply in_map_iff in I as (h & <- & Hh). apply GL; auto. Qed.

  Lemma coset_length x : length (coset x) = length Hl.
  Proof. apply map_length. Qed.

  Lemma coset_NoDup x : V x -> NoDup (coset x).
  Proof.
    intros Vx. apply NoDup_map_inj_on; [exact HN|].
    intros u v Hu Hv E. apply (op_cancel_l T V op e inv GL x); auto.
  Qed.

  (* x a = y b with a, b in H puts x into the coset of y *)
  Lemma coset_rel x y a b : V x -> V y -> In a Hl -> In b Hl -> op x a = op y b -> In x (coset y).
  Proof.
    intros Vx Vy Ha Hb E.
    assert (Va := HV a Ha). assert (Vb := HV b Hb). assert (Via := g_inv_closed _ _ _ _ _ GL a Va).
    assert (X : x = op (op x a) (inv a)).
    { rewrite (g_assoc _ _ _ _ _ GL) by auto. rewrite (g_inv_r _ _ _ _ _ GL) by auto. now rewrite (g_id_r _ _ _ _ _ GL). }
    rewrite X, E, (g_assoc _ _ _ _ _ GL) by auto. apply in_map. apply Hop; auto.
  Qed.

  (* x a = b with a, b in H puts x into H *)
  Lemma coset_H x a b : V x -> In a Hl -> In b Hl -> op x a = b -> In x Hl.
  Proof.
    intros Vx Ha Hb E.
    assert (Va := HV a Ha). assert (Via := g_inv_closed _ _ _ _ _ GL a Va).
    assert (X : x = op (op x a) (inv a)).
    { rewrite (g_assoc _ _ _ _ _ GL) by auto. rewrite (g_inv_r _ _ _ _ _ GL) by auto. now rewrite (g_id_r _ _ _ _ _ GL). }
    rewrite X, E. apply Hop; auto.
  Qed.

  Lemma H_coset_disjoint x z : V x -> ~ In x Hl -> In z Hl -> ~ In z (coset x).
  Proof.
    intros Vx Nx Hz J. apply in_map_iff in J as (h & E & Hh). apply Nx. exact (coset_H x h z Vx Hh Hz E).
  Qed.

  Lemma coset_coset_disjoint x y z : V x -> V y -> ~ In y (coset x) -> In z (coset x) -> ~ In z (coset y).
  Proof.
    intros Vx Vy Ny Jx Jy. apply in_map_iff in Jx as (h & E & Hh). apply in_map_iff in Jy as (k & F & Hk).
    apply Ny. apply (coset_rel y x k h); auto. congruence.
  Qed.

  Theorem small_index_odd_order :
    (exists m, length El = 2 * m + 1) -> length El < 3 * length Hl -> forall x, V x -> In x Hl.
  Proof.
    intros [m Odd] Small x Vx.
    destruct (in_dec dec x Hl) as [I|Nx]; [exact I|]. exfalso.
    assert (Cover : forall y, V y -> In y (Hl ++ coset x)).
    { intros y Vy. apply in_or_app.
      destruct (in_dec dec y Hl) as [I|Ny]; [now left|].
      destruct (in_dec dec y (coset x)) as [I|Nyx]; [now right|]. exfalso.
      assert (N3 : NoDup (Hl ++ coset x ++ coset y)).
      { apply NoDup_app2; [exact HN| |].
        - apply NoDup_app2; [now apply coset_NoDup|now apply coset_NoDup|].
          intros z. now apply coset_coset_disjoint.
        - intros z Hz J. apply in_app_or in J as [J|J].
          + exact (H_coset_disjoint x z Vx Nx Hz J).
          + exact (H_coset_disjoint y z Vy Ny Hz J). }
      assert (L : length (Hl ++ coset x ++ coset y) <= length El).
      { apply NoDup_incl_length; [exact N3|]. intros z Hz. apply EV.
        apply in_app_or in Hz as [Hz|Hz]; [now apply HV|].
        apply in_app_or in Hz as [Hz|Hz]; [exact (coset_V x z Vx Hz)|exact (coset_V y z Vy Hz)]. }
      rewrite !app_length, !coset_length in L. lia. }
    assert (N2 : NoDup (Hl ++ coset x)).
    { apply NoDup_app2; [exact HN|now apply coset_NoDup|]. intros z Hz. now apply H_coset_disjoint. }
    assert (L1 : length (Hl ++ coset x) <= length El).
    { apply NoDup_incl_length; [exact N2|]. intros z Hz. apply EV.
      apply in_app_or in Hz as [Hz|Hz]; [now apply HV|exact (coset_V x z Vx Hz)]. }
    assert (L2 : length El <= length (Hl ++ coset x)).
    { apply NoDup_incl_length; [exact EN|]. intros z Hz.
      exact (Cover z (EV' z Hz)). }
    rewrite app_length, coset_length in L1, L2. lia.
  Qed.
End Index.
