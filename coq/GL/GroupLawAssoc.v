(* M2: associativity of the model's [padd] over Z mod p for an arbitrary prime p > 3 and any curve
   y^2 = x^3 + a x + b without a point of order two, hence [curve_group p a b] (all of [group_laws]). *)
From Coq Require Import ZArith Znumtheory Zpow_facts Lia Bool Field.
Require Import Bits.Lib.Result Bits.Lib.Group Bits.Model.Ecmath Bits.Proofs.Ecmath.
Require Import Bits.GL.FermatZ Bits.GL.FieldZp Bits.GL.ECBase Bits.GL.ECAssoc Bits.GL.GroupLawBasic.
Local Open Scope Z_scope.

Section Assoc.
  Variables p a b : Z.
  Hypothesis Pp : prime p.
  Hypothesis Hp : 3 < p.
  Hypothesis Ha : inF p a = true.
  Hypothesis Hb : inF p b = true.
  Hypothesis no_root : forall x, inF p x = true -> rhs p a b x <> 0.

  Theorem padd_assoc P Q R : oncurve p a b P -> oncurve p a b Q -> oncurve p a b R ->
    padd p a (padd p a P Q) R = padd p a P (padd p a Q R).
  Proof.
    intros HP HQ HR.
    destruct (on_of p a b Hp Ha Hb P HP) as [HP' <-].
    destruct (on_of p a b Hp Ha Hb Q HQ) as [HQ' <-].
    destruct (on_of p a b Hp Ha Hb R HR) as [HR' <-].
    rewrite !(toP_add p a b Hp Ha Hb). f_equal.
    apply (add_assoc (Fp p) (f0 p) (f1 p) (fadd' p) (fmul' p) (fsub' p) (fopp' p) (fdiv' p) (finv' p)
             (Fp_field p Pp (p2 p Hp)) (Fp_eq_dec p) (cA p a) (cB p b) (two_nz p (p2 p Hp))
             (k_no2 p a b Hp Ha Hb no_root)); assumption.
  Qed.

  Theorem curve_group_of_prime : curve_group p a b.
  Proof.
    destruct (group_laws_basic p a b Pp Hp Ha Hb no_root) as (G1 & G2 & G3 & G4 & G5 & G6 & G7).
    constructor; auto. exact padd_assoc.
  Qed.
End Assoc.

Print Assumptions padd_assoc.
Print Assumptions curve_group_of_prime.
