#!/usr/bin/env python3
"""Writes /verif/MANIFEST.json from the table below (kept by hand)."""
import json, os
V = os.path.dirname(os.path.dirname(os.path.abspath(__file__)))

CLAIMED = {
    "C07": {
        "text": "Machine-checked proof (Coq 8.16.1): for ALL byte strings base58decode(base58encode b) = b, for all accepted "
                "strings re-encoding returns the string, base58decode accepts exactly alphabet strings (KeyError otherwise), "
                "and Base58Check accepts exactly strings whose last 4 decoded bytes are the HASH256 prefix of the payload - for an "
                "arbitrary 32-byte hash function.  The model is tied to /repo on every run by the regenerated alphabet table "
                "(Gen = Spec theorem) and by a differential run of the extracted model against base58.py on boundary classes.",
        "note": "Theorems are about the hand-written Gallina model of base58.py; sha256 is an arbitrary function (hypothesis: 32-byte "
                "output). Trusted: Coq kernel, extraction (ExtrOcamlBasic, ExtrOcamlZBigInt), harness, hashlib.",
        "technique": "Coq proof (radix-conversion lemmas, induction) + checked model/code correspondence",
        "design": "DESIGN.md section 8 / C07",
    },
    "C03": {
        "text": "Machine-checked proof (Coq 8.16.1) about the executable model of ecmath.py: for every curve satisfying the explicit premise "
                "curve_facts (group laws of chord-and-tangent addition, order n), point_add never fails on curve points and returns the group "
                "sum, MSB-first double-and-add equals k-fold addition for EVERY k >= 0, (j+k)P = jP+kP, j(kP) = (jk)P, kG = (k mod n)G, nG = "
                "identity; private keys are exactly the 32-byte strings in [1,n-1]; key generation is in range for every draw of the random "
                "source. The premise is PROVED by kernel computation over all points/triples for y^2=x^3+7 over F_43, F_79, F_67, and the same "
                "generic code is run against the Python re-targeted to those curves (all points, all scalars to 2n+1) and on secp256k1 boundary "
                "scalars against the extracted model, an independent implementation and OpenSSL.",
        "note": "PARTIAL for secp256k1 itself: the group laws and the primality of n are a hypothesis of the theorems (classical facts whose Coq "
                "proofs are not installed), not proved here; everything code-shaped (formulas, case split, loop, range checks, encodings) is "
                "proved. secrets.randbelow is scripted. Trusted: Coq kernel, extraction, harness, OpenSSL as an extra oracle.",
        "technique": "Coq proof (abstract group theory + kernel-computed small-curve instances) + checked model/code correspondence",
        "design": "DESIGN.md section 8 / C03, section 4.5-4.6",
    },
    "C01": {
        "text": "Machine-checked proof (Coq 8.16.1) about the executable model of ecmath.sign/verify and utils.der_encode_sig/der_decode_sig/sig: "
                "for EVERY list of random draws, key in [1,n-1] and digest (any integer, incl. >= n) a returned signature has r in [1,n-1], "
                "s in [1,n/2], verifies with the library verifier, which accepts exactly the textbook ECDSA equation, r = x(kG) mod n for a "
                "consumed non-zero draw k, and two signatures sharing r come from draws equal up to sign (no dependence on key/message); DER "
                "is strict per BIP66 (transcribed), minimal and decodes back for all 1 <= r,s < 2^256; the sighash suffix equals the flag in "
                "both modes. Premise curve_facts(_x) is proved by computation on three small curves and assumed for secp256k1. Correspondence: "
                "scripted randbelow on secp256k1 (boundary keys/digests/draws, digests solved so that s hits n/2, n/2+1, 1, n-1), OpenSSL as "
                "independent verifier, and the Python re-targeted to the small curves over all (key, digest, nonce).",
        "note": "PARTIAL for secp256k1: group law/primality are hypotheses (proved on small curves). sha256 arbitrary. The clause 'verifies "
                "under compressed and uncompressed public key through sig_verify' is decided by correspondence + C14's SEC1 round trip. "
                "Trusted: Coq kernel, extraction, harness, hashlib, OpenSSL as extra oracle.",
        "technique": "Coq proof (group theory + modular arithmetic + DER/BIP66 lemmas) + checked model/code correspondence",
        "design": "DESIGN.md section 8 / C01",
    },
    "C02": {
        "text": "Machine-checked proof (Coq 8.16.1) about the model of ecmath.verify / utils.sig_verify / utils.point / ensure_sig_low_s: for "
                "a curve point Q, verify returns True exactly when r,s in [1,n-1] and x(z/s G + r/s Q) mod n = r (textbook equation, "
                "transcribed), it NEVER returns a falsy success for any input (every other case raises), out-of-range r/s raise "
                "AssertionError; sig_verify says OK exactly when the DER part decodes to (r,s), the key is a valid SEC1 point and the "
                "equation holds for HASH256(msg||flag) (arbitrary hash) - so any alteration is accepted only if the altered tuple "
                "satisfies the equation; (r, n-s) is accepted iff (r, s) is; the low-S helper returns strict BIP66 DER with the same r and "
                "the low representative of s. Correspondence: valid signatures with bit flips, range boundaries, s->n-s, digests >= n, "
                "crafted infinity sums, malformed keys/DER, OpenSSL verdicts on secp256k1; ALL tuples sampled/enumerated on small curves.",
        "note": "PARTIAL for secp256k1: curve_facts(_x) are hypotheses there (proved by computation on the small curves). sha256 "
                "arbitrary. Trusted: Coq kernel, extraction, harness, hashlib, OpenSSL as extra oracle.",
        "technique": "Coq proof (iff with the textbook verification equation, modular arithmetic, DER/BIP66) + checked correspondence",
        "design": "DESIGN.md section 8 / C02",
    },
    "C10": {
        "text": "Machine-checked proof (Coq 8.16.1), all at full strength for an arbitrary 32-byte hash and any duplicate-free 2048-word "
                "list: entropy of 16/20/24/28/32 bytes gives 12/15/18/21/24 list words (other lengths ValueError) and equals the BIP39 "
                "bit-string spec; to_entropy(mnemonic(e)) = e (also at the string level through join/split); a sentence of valid length is "
                "accepted IFF all words are in the list and the checksum bits equal the leading bits of sha256(entropy); among sentences with "
                "the same entropy bits exactly one is accepted; accepted sentences are exactly the images of calculate_mnemonic_phrase; "
                "every other sentence raises (ValueError/AssertionError); the seed is the PBKDF2 call of the standard. The 2048-word list "
                "is regenerated from the code on every run (length, NoDup, a-z proved by computation; SHA-256 digest of english.txt "
                "checked). Correspondence: Trezor vectors, all lengths/patterns, 2048 last-word sweep (exactly 128 accepted), whitespace "
                "and NFKD classes, independent Python reference with its own PBKDF2.",
        "note": "sha256, pbkdf2 and NFKD are oracles (arbitrary functions in the theorems; hashlib/unicodedata at run time); the seed "
                "clause is definitional in Coq and decided by the correspondence against an independent PBKDF2. Trusted: Coq kernel, "
                "extraction, harness.",
        "technique": "Coq proof (radix/bit-list algebra, checksummed bijection) + regenerated word list + checked correspondence",
        "design": "DESIGN.md section 8 / C10",
    },
    "C11": {
        "text": "Machine-checked proof (Coq 8.16.1): for every well-formed transaction, input index, amount < 2^64, scriptCode, version, "
                "locktime and each of the six standard sighash types, the model of bip143.witness_message (slicing the serialised inputs "
                "exactly as the Python does) returns byte-for-byte the BIP143 preimage written from the BIP (hashPrevouts/hashSequence/"
                "hashOutputs zeroing rules, SINGLE out of range = 32 zero bytes, selected outpoint/amount/sequence) for an arbitrary hash "
                "function. SIGHASH constants are regenerated from the code and proved equal to the BIP's. Correspondence: full 8x8xindex"
                "x6 product, boundaries, BIP143 vectors, implementation vs model vs spec vs an independent Python reference.",
        "note": "Theorems are about the hand-written model of witness_message/txin/txout/outpoint; sha256 arbitrary. Non-standard sighash "
                "bytes (outside the property) are documented as deviating. Trusted: Coq kernel, extraction, harness, hashlib.",
        "technique": "Coq proof (refinement of the code model to a BIP143 spec) + checked model/code correspondence",
        "design": "DESIGN.md section 8 / C11",
    },
}

NOT_YET = {}

ALL = ["C%02d" % i for i in range(1, 21)]


def main():
    checks = []
    for pid in ALL:
        if pid not in CLAIMED:
            continue
        c = CLAIMED[pid]
        checks.append({
            "property_id": pid,
            "quick_cmd": "./check %s --tier quick" % pid,
            "thorough_cmd": "./check %s --tier thorough" % pid,
            "evidence_file": "/verif/evidence/%s.json" % pid,
            "replay_cmd_template": "./check %s --replay {path}" % pid,
            "engine": "coq-proof+correspondence",
            "level_claimed": {"category": "proof", "text": c["text"], "design_ref": c["design"]},
            "level_note": c["note"],
            "technique": c["technique"],
        })
    na = [{"property_id": p, "reason": NOT_YET.get(p, "not claimed yet: model and theorems under construction (see DESIGN.md section 10)")}
          for p in ALL if p not in CLAIMED]
    m = {
        "version": 1,
        "setup_cmd": "make -C /verif setup",
        "hooks": {
            "guard": "BITS_VERIF",
            "enable": "none needed: every interception is done harness-side by assignment to module attributes of the imported bits modules (no hook commits in /repo)",
            "baseline_off_cmd": "cd /repo && /venv/bin/python -m pytest -ra -q -p no:cacheprovider --timeout=900 --continue-on-collection-errors",
            "source_commits": [],
            "add_only": True,
        },
        "engines": [{
            "name": "coq-proof+correspondence", "path": "/verif/check",
            "serves_properties": [c["property_id"] for c in checks],
            "kind_free_text": "Coq 8.16.1 theorems about executable Gallina models (coq/), tables regenerated from /repo by "
                              "harness/gen_tables.py, models extracted to OCaml (bin/modelrun_cXX) and run against /repo's Python "
                              "on generated inputs (harness/), failing-input search + replay",
        }],
        "checks": checks,
        "not_applicable": na,
        "notes": "See DESIGN.md. KNOWN_FINDINGS.txt lists known/fixed findings.",
    }
    json.dump(m, open(os.path.join(V, "MANIFEST.json"), "w"), indent=1)


if __name__ == "__main__":
    main()
