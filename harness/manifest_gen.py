#!/usr/bin/env python3
"""Writes /verif/MANIFEST.json from the table below (kept by hand)."""
import json, os
V = os.path.dirname(os.path.dirname(os.path.abspath(__file__)))

CLAIMED = {
    "C07": {
        "text": "Machine-checked proof (Coq 8.16.1): for ALL byte strings base58decode(base58encode b) = b, for all accepted "
                "strings re-encoding returns the string, base58decode accepts exactly alphabet strings (KeyError otherwise), "
                "and Base58Check accepts exactly strings whose last 4 decoded bytes are the HASH256 prefix of the payload - for an "
                "arbitrary 32-byte hash function.  The model is tied to /repo on every run by the regenerated alphabet table "
                "(Gen = Spec theorem) and by a differential run of the extracted model against base58.py on boundary classes.",
        "note": "Theorems are about the hand-written Gallina model of base58.py; sha256 is an arbitrary function (hypothesis: 32-byte "
                "output). Trusted: Coq kernel, extraction (ExtrOcamlBasic, ExtrOcamlZBigInt), harness, hashlib.",
        "technique": "Coq proof (radix-conversion lemmas, induction) + checked model/code correspondence",
        "design": "DESIGN.md section 8 / C07",
    },
    "C03": {
        "text": "Machine-checked proof (Coq 8.16.1) about the executable model of ecmath.py: for every curve satisfying the explicit premise "
                "curve_facts (group laws of chord-and-tangent addition, order n), point_add never fails on curve points and returns the group "
                "sum, MSB-first double-and-add equals k-fold addition for EVERY k >= 0, (j+k)P = jP+kP, j(kP) = (jk)P, kG = (k mod n)G, nG = "
                "identity; private keys are exactly the 32-byte strings in [1,n-1]; key generation is in range for every draw of the random "
                "source. The premise is PROVED by kernel computation over all points/triples for y^2=x^3+7 over F_43, F_79, F_67, and the same "
                "generic code is run against the Python re-targeted to those curves (all points, all scalars to 2n+1) and on secp256k1 boundary "
                "scalars against the extracted model, an independent implementation and OpenSSL.",
        "note": "No curve premise is left for secp256k1 (Props/Secp256k1.v, Props/Secp256k1Inst.v: C03_*_secp256k1). Noted while proving the "
                "generic law: point_add is wrong on points of order two (doubling is tested before P = -P), which no curve of odd order "
                "such as secp256k1 has (GL/GroupLawBasic.v: padd_order2_wrong). secrets.randbelow/token_bytes/randbits is scripted. Trusted: Coq kernel, extraction, harness, OpenSSL as an extra oracle.",
        "technique": "Coq proof (abstract group theory, generic Weierstrass group law + primality certificates for secp256k1, kernel-computed small-curve instances) + checked model/code correspondence",
        "design": "DESIGN.md section 8 / C03, section 4.5-4.6",
    },
    "C01": {
        "text": "Machine-checked proof (Coq 8.16.1) about the executable model of ecmath.sign/verify and utils.der_encode_sig/der_decode_sig/sig: "
                "for EVERY list of random draws, key in [1,n-1] and digest (any integer, incl. >= n) a returned signature has r in [1,n-1], "
                "s in [1,n/2], verifies with the library verifier, which accepts exactly the textbook ECDSA equation, r = x(kG) mod n for a "
                "consumed non-zero draw k, and two signatures sharing r come from draws equal up to sign (no dependence on key/message); DER "
                "is strict per BIP66 (transcribed), minimal and decodes back for all 1 <= r,s < 2^256; the sighash suffix equals the flag in "
                "both modes. Premise curve_facts is PROVED for secp256k1 itself in coq/GL + Props/Secp256k1.v (generic group law of short Weierstrass curves over prime fields, Pocklington primality certificates for p and n, n*G = infinity by a checked slope certificate, square-root facts for p = 3 mod 4; closed under the global context) and by exhaustive kernel computation on three small curves; curve_facts_x (equal x means equal or opposite; G generates every curve point, i.e. the curve has exactly n points) is PROVED for secp256k1 too (GL/PointCount.v: elementary counting argument, no Hasse bound), so no curve premise is left. Correspondence: "
                "scripted randbelow on secp256k1 (boundary keys/digests/draws, digests solved so that s hits n/2, n/2+1, 1, n-1), OpenSSL as "
                "independent verifier, and the Python re-targeted to the small curves over all (key, digest, nonce).",
        "note": "The curve premises (group law, primality of p and n, order of G, square roots) are discharged for secp256k1 in Props/Secp256k1.v; `G generates every curve point` (used by the nonce-collision theorem) is a theorem as well (Props/Secp256k1.v: secp256k1_generated, secp256k1_point_count; instance C01_r_collision_needs_repeat_secp256k1). sha256 arbitrary. The wrapper clause (sig -> sig_verify 'OK' "
                "under the compressed and the uncompressed key, both message modes) is proved too, under sec1_facts (square roots mod p). "
                "Trusted: Coq kernel, extraction, harness, hashlib, OpenSSL as extra oracle.",
        "technique": "Coq proof (group theory + modular arithmetic + DER/BIP66 lemmas) + checked model/code correspondence",
        "design": "DESIGN.md section 8 / C01",
    },
    "C02": {
        "text": "Machine-checked proof (Coq 8.16.1) about the model of ecmath.verify / utils.sig_verify / utils.point / ensure_sig_low_s: for "
                "a curve point Q, verify returns True exactly when r,s in [1,n-1] and x(z/s G + r/s Q) mod n = r (textbook equation, "
                "transcribed), it NEVER returns a falsy success for any input (every other case raises), out-of-range r/s raise "
                "AssertionError; sig_verify says OK exactly when the DER part decodes to (r,s), the key is a valid SEC1 point and the "
                "equation holds for HASH256(msg||flag) (arbitrary hash) - so any alteration is accepted only if the altered tuple "
                "satisfies the equation; (r, n-s) is accepted iff (r, s) is; the low-S helper returns strict BIP66 DER with the same r and "
                "the low representative of s. Correspondence: valid signatures with bit flips, range boundaries, s->n-s, digests >= n, "
                "crafted infinity sums, malformed keys/DER, OpenSSL verdicts on secp256k1; ALL tuples sampled/enumerated on small curves.",
        "note": "curve_facts is discharged for secp256k1 in Props/Secp256k1.v (coq/GL); curve_facts_x incl. `G generates every curve point` is a theorem there too (GL/PointCount.v; instance C02_malleated_s_secp256k1). sha256 "
                "arbitrary. Trusted: Coq kernel, extraction, harness, hashlib, OpenSSL as extra oracle.",
        "technique": "Coq proof (iff with the textbook verification equation, modular arithmetic, DER/BIP66) + checked correspondence",
        "design": "DESIGN.md section 8 / C02",
    },
    "C08": {
        "text": "Machine-checked proof (Coq 8.16.1): for every 20-byte hash and network the address to_bitcoin_address encodes maps through "
                "scriptpubkey to exactly the P2PKH / P2SH template committing to that hash (also for ANY accepted Base58Check string with "
                "one of the four version bytes and a 20-byte payload); every valid segwit address (all versions 0..16, all legal program "
                "lengths, upper case included) maps to OP_n <push program> (P2WPKH/P2WSH for v0); a valid SEC1 key in either form maps to "
                "<push key> OP_CHECKSIG; an address string is never taken for a key (unconditional); input that is none of the three is "
                "refused with ValueError and never mapped to a script - the dispatcher is characterised as one equation over the three "
                "decoders for every byte string, and every Ok result is a standard template. Version bytes, hrp list, length checks and "
                "the dispatch order are read from the Python source by ast on every run and proved equal to the spec. Correspondence: "
                "payload classes x networks x kinds, all 252 unknown version bytes, wrong payload lengths, malformed key buffers, "
                "addresses made only of Base58 characters, independent reference decoders.",
        "note": "The segwit theorems carry the explicit premise that the address is not also checksum-valid Base58Check (dispatcher "
                "order; discharged by theorem whenever the address contains 0 or l; otherwise a 2^-32 coincidence for a real hash). 'Valid "
                "SEC1 key' is relative to C14's sec1_facts (proved on small curves and, in Props/Secp256k1.v, for secp256k1). Reuses the C06/C07/C13/C14 "
                "models. Trusted: Coq kernel, extraction, harness, hashlib.",
        "technique": "Coq proof (composition of the Base58/Bech32/SEC1/script theorems, total characterisation of the dispatcher) + ast-generated constants + correspondence",
        "design": "DESIGN.md section 8 / C08",
    },
    "C09": {
        "text": "Machine-checked proof (Coq 8.16.1): for every parent key k in [1,n-1], chain code and non-hardened index, N(CKDpriv) = "
                "CKDpub(N(parent)) whenever both succeed and they fail together (I_L >= n, k_i = 0 / K_i = infinity characterised exactly); "
                "hardened indices from a public key raise ValueError; CKDpriv/CKDpub/master-key generation equal the BIP32 spec written from "
                "the BIP; path derivation equals the step-wise derivation (path_compose, including error classes) and every field of every "
                "derived extended key (key, chain code, depth, fingerprint, child number, version) equals the spec's; serialisation "
                "round-trips and deserialisation accepts EXACTLY the payloads BIP32 declares valid (78 bytes, known version, key type "
                "matches version, 1 <= k < n / on-curve compressed point, zero parent data at depth 0, checksum). Versions, 2^31, the "
                "master-key order literal and the HMAC key are regenerated (= Spec). Correspondence: BIP32 vector sets 1-5, seeds 16..64 "
                "bytes, paths to depth 8 over boundary indices, field mutations of 78-byte payloads, small curves reaching the failure "
                "branches, independent Python BIP32.",
        "note": "Also modelled beyond the statement (Props/C09Ext.v, closed): wallet/hd.py derive_child (raises for every argument on the code as it is; its body = one derive_from_path step) and the HD class (root keys = serialised to_master_key(to_seed(..)) and its neutered key). curve_facts and sqrt_facts are premises of the generic theorems, discharged for secp256k1 in Props/Secp256k1.v (coq/GL) and on the small curves. hmac_sha512, "
                "sha256, ripemd160 arbitrary with the right output lengths. Paths restricted to ASCII. Trusted: Coq kernel, extraction, "
                "harness, hashlib/hmac.",
        "technique": "Coq proof (group-homomorphism algebra, refinement to a BIP32 spec, codec accept-iff) + regenerated constants + correspondence",
        "design": "DESIGN.md section 8 / C09",
    },
    "C10": {
        "text": "Machine-checked proof (Coq 8.16.1), all at full strength for an arbitrary 32-byte hash and any duplicate-free 2048-word "
                "list: entropy of 16/20/24/28/32 bytes gives 12/15/18/21/24 list words (other lengths ValueError) and equals the BIP39 "
                "bit-string spec; to_entropy(mnemonic(e)) = e (also at the string level through join/split); a sentence of valid length is "
                "accepted IFF all words are in the list and the checksum bits equal the leading bits of sha256(entropy); among sentences with "
                "the same entropy bits exactly one is accepted; accepted sentences are exactly the images of calculate_mnemonic_phrase; "
                "every other sentence raises (ValueError/AssertionError); the seed is the PBKDF2 call of the standard. The 2048-word list "
                "is regenerated from the code on every run (length, NoDup, a-z proved by computation; SHA-256 digest of english.txt "
                "checked). Correspondence: Trezor vectors, all lengths/patterns, 2048 last-word sweep (exactly 128 accepted), whitespace "
                "and NFKD classes, independent Python reference with its own PBKDF2.",
        "note": "Also: first use of the module under an aborted load of english.txt and under two threads (the word list must never be observed half-loaded). sha256, pbkdf2 and NFKD are oracles (arbitrary functions in the theorems; hashlib/unicodedata at run time); the seed "
                "clause is definitional in Coq and decided by the correspondence against an independent PBKDF2. Trusted: Coq kernel, "
                "extraction, harness.",
        "technique": "Coq proof (radix/bit-list algebra, checksummed bijection) + regenerated word list + checked correspondence",
        "design": "DESIGN.md section 8 / C10",
    },
    "C04": {
        "text": "Machine-checked proof (Coq 8.16.1) for an arbitrary hash: for every well-formed transaction t and EVERY trailing byte string, "
                "tx_deser(ser t ++ rest) returns leftover = rest, txid = HASH256(serialisation without marker/flag/witness, with the "
                "transaction's own sequence numbers), wtxid = HASH256(complete serialisation), raw = exactly the transaction's bytes; "
                "for non-witness transactions txid = wtxid; the reported record and leftover do not depend on what follows "
                "(ids_independent_of_trailing: two different trailing buffers give the same record); the parser always consumes at least "
                "one byte. Correspondence: the C05 transaction grammar x trailing buffers (empty, single bytes that do / do not occur in "
                "the tx, the tx's own last 4 bytes, a second tx, a copy of itself) x sequences {0, fffffffe, ffffffff, random}, "
                "independent Python serialiser + hashlib.",
        "note": "The check also drives integrations.mine_block (header commits to the consensus txids incl. the coinbase) and one-field-apart transaction pairs in one process. Theorems are about the hand-written model of tx.tx_deser / tx.tx (Model/Tx.v) shared with C05; wf_tx demands at least "
                "one input (a zero-input legacy encoding is indistinguishable from the segwit marker - shown by an Example). sha256 "
                "arbitrary. Trusted: Coq kernel, extraction, harness, hashlib.",
        "technique": "Coq proof (codec round trip with trailing bytes, id = hash of spec serialisation) + correspondence",
        "design": "DESIGN.md section 8 / C04",
    },
    "C05": {
        "text": "Machine-checked proof (Coq 8.16.1): CompactSize - compact_size_uint equals the reference encoding on [0, 2^64-1], is the "
                "shortest encoding (1/3/5/9 bytes at the thresholds 253, 2^16, 2^32), round-trips with any trailing bytes and refuses "
                "n < 0 and n >= 2^64 with ValueError; witness stacks (0..any items, any item length < 2^64, empty stack) round-trip with "
                "any trailing bytes and equal the BIP144 form; for every well-formed transaction (any version, locktime, values, "
                "sequences, script lengths, with or without witness, mixed empty stacks) and every trailing byte string, "
                "tx_deser(tx_ser t ++ rest) returns exactly the fields of t and leftover = rest, and re-serialising the parsed fields "
                "reproduces the original bytes; the parsers never run out of fuel. Constants regenerated (= Spec). Correspondence: "
                "grammar with counts crossing 253, script/witness lengths {0,1,75,76,252,253,255,256,65535,65536}, exhaustive "
                "CompactSize on [0, 2^16+2] (thorough) and around every 2^k, BIP143 example transactions, independent Python codec.",
        "note": "Theorems are about the hand-written models of tx.py, utils.compact_size_uint/parse_compact_size_uint and the witness "
                "mode of script()/decode_script(); wf_tx requires at least one input and in-range field widths; the witness model covers "
                "data items. sha256 arbitrary. Trusted: Coq kernel, extraction, harness.",
        "technique": "Coq proof (verified codec combinators: prefix law, shortest-encoding, round trip) + regenerated constants + correspondence",
        "design": "DESIGN.md section 8 / C05",
    },
    "C06": {
        "text": "Machine-checked proof (Coq 8.16.1), full strength: for every byte string s, the library's decode+validity check accepts s "
                "IFF the BIP173/BIP350 validity predicate transcribed from the BIPs does (decode_valid s = Ok r <-> spec_decode s = Some r: "
                "length, case, separator, charset, Bech32 checksum for v0 / Bech32m for v1-16, 5-to-8 regrouping with <5 zero padding bits, "
                "program length rules, hrp in {bc,tb,bcrt}); for every network, version 0..16 and allowed program the encoder output "
                "decodes back to (hrp, version, program), is <= 90 characters and is accepted; the checksum is sound by polymod linearity; "
                "is_segwit_addr / is_addr return a boolean for EVERY byte string (KeyError/IndexError/OverflowError proved unreachable). "
                "Charset, generators and constants are regenerated from the code and proved equal to the BIP's. Correspondence: all "
                "(network, version, length) triples, exhaustive 1-2 substitutions on short addresses, case/padding/constant/hrp classes, "
                "every byte in the version position, BIP vector lists, an independent reference codec.",
        "note": "Theorems are about the hand-written model of bip173.py/bip350.py and the segwit functions of utils.py; sha256 arbitrary "
                "(only in is_addr through Base58Check). CPython bytes.isupper/islower/lower/split modelled from documentation and "
                "exercised on every case. Trusted: Coq kernel, extraction, harness.",
        "technique": "Coq proof (N-bit-level polymod linearity, radix regrouping, iff with the BIP predicate) + regenerated constants + correspondence",
        "design": "DESIGN.md section 8 / C06",
    },
    "C12": {
        "text": "Machine-checked proof (Coq 8.16.1): for a 32-byte key in [1,n-1], any message and 32-byte aux the model of bip340.sign "
                "returns exactly the signature of the BIP340 default signing algorithm (transcribed from the BIP), 64 bytes, accepted by "
                "verify under the x-only public key; keys 0 / >= n raise ValueError, wrong key/aux lengths AssertionError; verify is SOUND "
                "for all byte strings (whatever it accepts the BIP's Verify accepts - wrong lengths, r >= p, s >= n, off-curve keys, odd-y "
                "R all rejected) and COMPLETE (accepts everything the BIP accepts) except on the path e = 0 mod n where the code raises "
                "TypeError (explicit premise; reachable only on small curves); lift_x equals the BIP's lift_x. Tag strings, lift_x "
                "literals and byte widths are read from the source by ast (= Spec). Correspondence: official vectors, keys incl. odd-y "
                "points, messages 0..1024 bytes, every single-bit flip of pk/msg/sig (thorough), boundary r/s, wrong lengths, exhaustive "
                "sweeps on three small curves, independent Python BIP340 reference.",
        "note": "curve_facts and lift_facts (square roots) are discharged for secp256k1 in Props/Secp256k1.v (coq/GL); `cofactor one` (the curve has "
                "exactly n points) is PROVED for secp256k1 as well (GL/PointCount.v, Props/Secp256k1.v: secp256k1_cofactor_is_one; instance C12_verify_iff_spec_secp256k1); the e = 0 (mod n) deviation needs a SHA-256 preimage to reach on secp256k1 and is reported in the evidence, "
                "not as a finding. sha256 arbitrary with 32-byte output. Trusted: Coq kernel, extraction, harness, hashlib.",
        "technique": "Coq proof (Schnorr algebra over the abstract group, refinement to a BIP340 spec) + ast-generated constants + correspondence",
        "design": "DESIGN.md section 8 / C12",
    },
    "C13": {
        "text": "Machine-checked proof (Coq 8.16.1), full strength: for every list of defined non-push opcode names and non-empty data "
                "items (< 2^32 bytes) script() produces the reference assembly and decode_script returns the same list up to aliases; every "
                "data item gets the shortest valid push (direct / PUSHDATA1 / 2 / 4) with an exact little-endian length; for every "
                "canonically encoded script re-assembling the disassembly returns the same bytes; decode_script always terminates; the "
                "witness-stack codec uses CompactSize count and lengths and round-trips with any trailing bytes; each of the 20 template "
                "builders emits exactly the template written from the developer guide / BIP16 / BIP141 for all argument sizes in the "
                "property's quantifier. The opcode table (117 names, INT_OP_MAP) is regenerated from the code and proved equal to the "
                "reference table. Correspondence: 109 generator classes (all opcodes, length boundaries, all m-of-n, signatures 8..73, "
                "scripts 1..600, stacks to 70000-byte items), independent Python assembler/disassembler.",
        "note": "Theorems are about the hand-written string-level model of script/utils.py (hex parsing, getattr dispatch, lenient slicing "
                "modelled as written); builders that hand-write one length byte carry the explicit premise 1..75 bytes (keys, signatures, "
                "hashes are inside it). Trusted: Coq kernel, extraction, harness.",
        "technique": "Coq proof (codec round trips, minimal-push optimality, template refinement) + regenerated opcode table + correspondence",
        "design": "DESIGN.md section 8 / C13",
    },
    "C14": {
        "text": "Machine-checked proof (Coq 8.16.1): SEC1 - for every curve point both encodings decode to it and re-encode to the same bytes; "
                "point() accepts EXACTLY the valid encodings (33 bytes 02/03 with x<p, x^3+7 a square, y of that parity; 65 bytes 04 with "
                "x,y<p on the curve) and rejects everything else with AssertionError/ValueError so is_point is total; WIF - round trip for "
                "3 networks x 8 types x any suffix, accepted iff checksum-valid Base58Check with a table version byte, encoder refuses "
                "invalid keys; ASN.1 parse/encode round trip on the one-byte-length domain; PEM - private keys (leading zeros kept) and both "
                "public forms round-trip and the DER bytes equal the RFC 5915 / RFC 5480 encodings written from the RFCs. WIF tables and "
                "OIDs regenerated from the code (= Spec). Correspondence: structured SEC1 candidates of all lengths 0..70, exhaustive x "
                "on small curves, WIF corruptions, PEM both ways against OpenSSL (python cryptography).",
        "note": "Also modelled beyond the statement (Props/C14Ext.v, closed): pem.decode_pem / encode_pem for any label (round trip under the base64 hypotheses, armor shape, refusals). The square-root facts (p = 3 mod 4, Euler criterion, no order-2 point) are the premise sec1_facts of the generic theorems; "
                "proved for secp256k1 in Props/Secp256k1.v (coq/GL/SqrtFacts.v) and by computation for p = 43, 79, 67; base64 is an oracle with the hypothesis decode(encode x) = x; "
                "OpenSSL interoperability is decided by the correspondence only. Trusted: Coq kernel, extraction, harness, OpenSSL.",
        "technique": "Coq proof (accept-iff with a SEC1 spec, codec round trips, RFC byte equality) + regenerated tables + correspondence",
        "design": "DESIGN.md section 8 / C14",
    },
    "C15": {
        "text": "Machine-checked proof (Coq 8.16.1), full strength for an arbitrary hash: for every non-empty list merkle_root equals "
                "Bitcoin's level-wise merkle root (last node of EVERY odd level duplicated), never runs out of fuel and needs "
                "ceil(log2 n) levels; the BIP34 height push is Core's CScript() << height, decodes back and is the minimal encoding "
                "(no shorter byte string decodes to h) for all heights; a coinbase has exactly one input spending the null outpoint, "
                "script = height push ++ data of at most 100 bytes (else error), claims by default exactly subsidy(h, 210000) (150 on "
                "regtest) and never more (an explicit larger reward is refused), and carries the BIP141 commitment output + reserved-"
                "value witness iff a commitment is supplied; header (80 bytes) and block serialisation round-trip with the transaction "
                "codec of C05/C04 (same header fields, transactions in order with their ids and raw bytes). Constants regenerated "
                "(= Spec). Correspondence: every list length 1..300 (2048 thorough), every halving boundary on both schedules, BIP34 "
                "boundaries, scripts 0..101 bytes, blocks of 1..50 generated transactions, mine_block assembly.",
        "note": "Also modelled beyond the statement (Props/C15Ext.v, closed): target_threshold (= mantissa*256^(e-3); = Bitcoin Core SetCompact exactly on the well-formed range, iff), difficulty, median_time (= Core's median-time-past from 12 blocks on), genesis block bytes. Theorems are about the hand-written models of blockchain.py / tx.coinbase_tx / coinbase_txin / integrations.mine_block "
                "assembly; heights above 2^33 are outside the correspondence (Python builds 2**halvings). Trusted: Coq kernel, "
                "extraction, harness, hashlib.",
        "technique": "Coq proof (refinement to level-wise merkle spec, CScriptNum minimality, codec round trip) + correspondence",
        "design": "DESIGN.md section 8 / C15, section 12",
    },
    "C16": {
        "text": "Machine-checked proof (Coq 8.16.1) about a byte-exact model of send_tx (value layer over IEEE binary64 as SpecFloat with a "
                "PrimFloat twin, message layer, assembly layer): inputs are a prefix of the reported unspents with exact outpoints, "
                "selection stops when the request is covered, outputs have the stated shape, and outputs + fee (+ sub-dust change) = inputs "
                "exactly (given the float-to-satoshi conversion is exact - now a THEOREM for every amount 0..21e14 sat a node can report, Props/C16Sat.v via Flocq - and the request is "
                "covered; both premises shown necessary); for every selected input, sighash flag, version, locktime and number of inputs "
                "the signed messages ARE the legacy / BIP143 sighash pre-images (C16_segwit_messages, C16_legacy_sig_message_spec, "
                "C16_legacy_messages; the SIGHASH_SINGLE-without-matching-output case is exactly the refusal) and every signature "
                "verifies (C16_*_signatures_valid, C16_sign_inputs_valid for all eight sender kinds, under curve_facts); C16_send_unlocks: the bytes send_tx returns are the serialisation of a well-formed transaction in which EVERY selected input's scriptSig items and witness stack satisfy the template-level validity predicate Spec.Sighash.unlocks (BIP16/141/143/147/66) for the output it spends - all eight kinds, any number of inputs, all six flags. The send_tx "
                "signing defects found earlier are repaired in /repo (7 fix: commits, KNOWN_FINDINGS.txt fixed: lines, regression seeds); "
                "no known finding remains. Correspondence: scripted UTXO source and "
                "nonces, eight sender kinds x recipient kinds x flags x versions x locktimes, independent consensus-level checker "
                "(own parser, legacy + BIP143 sighash, template unlock rules, OpenSSL ECDSA, exact Decimal arithmetic).",
        "note": "No general script interpreter (validity is relative to the standard templates); hypotheses left: request_covered, and pays_to (the node's reply lists outputs that pay to the sender's keys, exactly m keys in script order for m-of-n). Props/C16Sat.v depends on the standard library's classical-reals axioms (ClassicalDedekindReals.sig_not_dec, sig_forall_dec, functional_extensionality_dep, classic) through Flocq; every other theorem is closed. PrimFloat/Uint63 "
                "primitives appear in Print Assumptions of three examples. Trusted: Coq kernel, extraction, harness, OpenSSL.",
        "technique": "Coq proof (value conservation over binary64, legacy/BIP143 sighash refinement, signature validity under curve_facts) + extraction correspondence",
        "design": "DESIGN.md section 8 / C16",
    },
    "C17": {
        "text": "Machine-checked proof (Coq 8.16.1) over a socket model (stream + arbitrary schedule of positive chunk sizes): for every "
                "command of the table, payload <= MAX_SIZE, trailing bytes and EVERY fragmentation, recv_msg returns exactly (magic, command, "
                "payload), leaves exactly the trailing bytes (no over-read, so back-to-back messages never bleed) and uses at most 24+|p| "
                "recv calls; anything accepted has the expected magic, the declared length and checksum = HASH256(payload)[:4]; flipped "
                "magic/checksum are rejected (payload/length under the explicit no-32-bit-collision premise), a changed command field "
                "passes with the unchanged payload; if the stream ends early at ANY offset the call terminates with ConnectionError "
                "within |stream|+1 reads (no FuelE for any stream/schedule); version/ping/getheaders/inv/addr builders and parsers "
                "invert each other on everything the builders can produce. Magics, COMMANDS, sizes, inventory ids regenerated (= Spec). "
                "Correspondence: scripted socket with a call counter, all compositions of short streams, bit flips per region, EOF at "
                "every offset, payloads to 70000 bytes, codec fields over full ranges.",
        "note": "Also modelled beyond the statement (Props/C17Ext.v, closed): getblocks_payload and headers_payload with round-trip theorems. Real socket blocking/timeouts are not modelled (recv always returns). sha256 arbitrary with 32-byte output. The version "
                "PARSER deviates from the wire format outside what the library's own builder produces (binary IP fields, user agent >= 253 "
                "bytes, absent relay byte): stated as _refuted theorems, outside the property (built payloads). Trusted: Coq kernel, "
                "extraction, harness.",
        "technique": "Coq proof (induction on bytes still wanted over all chunk schedules, codec round trips) + regenerated tables + correspondence",
        "design": "DESIGN.md section 8 / C17",
    },
    "C18": {
        "text": "Machine-checked proof (Coq 8.16.1) over an interleaving model of Node.recv_loop (atomic steps: receive, handled-command "
                "test, handler send / enqueue): for ANY number of peers, ANY message programs and EVERY schedule that runs all threads to "
                "completion, the final queue restricted to peer p is exactly p's unhandled messages in sending order tagged p, sent(p) is a "
                "verack per version and a pong with the same nonce per ping in order and nothing else, the queue is a permutation of all "
                "unhandled messages (no loss, duplication or handled message left queued); the result is schedule independent; a complete "
                "schedule always exists. The pre-fix loop body (append, test, pop) is modelled too and REFUTED by a vm_compute witness "
                "(the race). The registered command list and handler behaviour are probed from the code on every run (= model). "
                "Correspondence: the real recv_loop bodies in real threads under a baton scheduler with scheduling points in "
                "harness-supplied deque/list objects and sendall; all schedules of 2x<=2 and 3x1 programs, sampled 3x3.",
        "note": "Scheduling points: the operations on the shared containers and sockets (exhaustive sweeps) AND, in `linesweep` cases, every source line of p2p.py (sys.settrace; uniform, skewed and bursty random interleavings). Assumes CPython GIL atomicity of deque.append/pop, `in` on a list and sendall on distinct sockets; thread start/stop, "
                "socket timeouts, exit_event and malformed frames (which kill a receive thread) are outside the model. Trusted: Coq "
                "kernel, extraction, harness scheduler.",
        "technique": "Coq proof (invariant over all interleavings, schedule independence, refutation of the racy body) + scheduled real-thread correspondence",
        "design": "DESIGN.md section 8 / C18",
    },
    "C19": {
        "text": "Machine-checked proof (Coq 8.16.1) over a file-store model (file number -> bytes, primitive trace Open/Write/Close): after "
                "ANY history of batches the concatenation of the files in numeric order = the previous content followed by one record "
                "magic||le32(len)||block per block in order, nothing else; no file exceeds the limit when every record fits; a new "
                "consecutively numbered file is started exactly when the next record does not fit; earlier content is only ever "
                "extended; truncating the primitive trace at ANY point leaves a byte prefix of the record stream with all earlier blocks "
                "intact; splitting a batch across restarts changes nothing; blkNNNNN.dat lexicographic order = numeric order below 100000 "
                "files. Correspondence: the real function in scratch directories with the limit scaled down, histories exhaustive over "
                "a size alphabet, pre-populated directories incl. 12 files, crash injection at every open/write/close.",
        "note": "Torn writes inside one write(), buffering/fsync and directory durability are below the model; premises: directory holds "
                "only blkNNNNN.dat files, fewer than 100000 (refuted beyond, stated), blocks < 4 GiB. Trusted: Coq kernel, extraction, "
                "harness.",
        "technique": "Coq proof (invariant over histories, prefix property of primitive traces, fixed-width radix order) + correspondence with crash injection",
        "design": "DESIGN.md section 8 / C19",
    },
    "C20": {
        "text": "Machine-checked proof (Coq 8.16.1): for every byte string and every pair of formats raw/hex/bin, converting and converting "
                "back returns the original bytes (empty string and leading zeros included, any whitespace line separator); hex/bin input "
                "with an odd nibble / non-multiple-of-8 bit count is zero left-padded and surrounding whitespace ignored; for every option "
                "and subcommand accepting it the effective value is CLI value if given, else config file value (TOML over JSON when TOML "
                "is supported), else the built-in default - proved for ANY option table under marks_explicit, and the table GENERATED from "
                "the real argparse tree on every run is proved to satisfy marks_explicit for every configurable option of every "
                "subcommand; unknown config keys are ignored. Correspondence: bits.__main__.main() in-process over the product of layers x "
                "options x 21 (sub)parsers with both TOML branches, conversions exhaustive to length 2-3 and random to 64 bytes.",
        "note": "argv tokenisation by argparse is not modelled (the command line is the list of (dest, value) pairs after the subcommand "
                "name); config files are modelled after parsing; int(s,2)/fromhex/str.strip modelled from CPython semantics incl. "
                "Unicode digits via an oracle. Trusted: Coq kernel, extraction, harness.",
        "technique": "Coq proof (radix round trips, precedence refinement) + option table regenerated by parser introspection + correspondence",
        "design": "DESIGN.md section 8 / C20",
    },
    "C11": {
        "text": "Machine-checked proof (Coq 8.16.1): for every well-formed transaction, input index, amount < 2^64, scriptCode, version, "
                "locktime and each of the six standard sighash types, the model of bip143.witness_message (slicing the serialised inputs "
                "exactly as the Python does) returns byte-for-byte the BIP143 preimage written from the BIP (hashPrevouts/hashSequence/"
                "hashOutputs zeroing rules, SINGLE out of range = 32 zero bytes, selected outpoint/amount/sequence) for an arbitrary hash "
                "function. SIGHASH constants are regenerated from the code and proved equal to the BIP's. Correspondence: full 8x8xindex"
                "x6 product, boundaries, BIP143 vectors, implementation vs model vs spec vs an independent Python reference.",
        "note": "The check also drives the library's own caller of witness_message (tx.send_tx on segwit senders), judged by an independent consensus-level reference. Theorems are about the hand-written model of witness_message/txin/txout/outpoint; sha256 arbitrary. Non-standard sighash "
                "bytes (outside the property) are documented as deviating. Trusted: Coq kernel, extraction, harness, hashlib.",
        "technique": "Coq proof (refinement of the code model to a BIP143 spec) + checked model/code correspondence",
        "design": "DESIGN.md section 8 / C11",
    },
}

NOT_YET = {}

ALL = ["C%02d" % i for i in range(1, 21)]


def main():
    checks = []
    for pid in ALL:
        if pid not in CLAIMED:
            continue
        c = CLAIMED[pid]
        checks.append({
            "property_id": pid,
            "quick_cmd": "/verif/check %s --tier quick" % pid,
            "thorough_cmd": "/verif/check %s --tier thorough" % pid,
            "evidence_file": "/verif/evidence/%s.json" % pid,
            "replay_cmd_template": "/verif/check %s --replay {path}" % pid,
            "engine": "coq-proof+correspondence",
            "level_claimed": {"category": "proof", "text": c["text"], "design_ref": c["design"]},
            "level_note": c["note"],
            "technique": c["technique"],
        })
    na = [{"property_id": p, "reason": NOT_YET.get(p, "not claimed yet: model and theorems under construction (see DESIGN.md section 10)")}
          for p in ALL if p not in CLAIMED]
    m = {
        "version": 1,
        "setup_cmd": "make -C /verif setup",
        "hooks": {
            "guard": "BITS_VERIF",
            "enable": "none needed: every interception is done harness-side by assignment to module attributes of the imported bits modules (no hook commits in /repo)",
            "baseline_off_cmd": "cd /repo && /venv/bin/python -m pytest -ra -q -p no:cacheprovider --timeout=900 --continue-on-collection-errors",
            "source_commits": [],
            "add_only": True,
        },
        "engines": [{
            "name": "coq-proof+correspondence", "path": "/verif/check",
            "serves_properties": [c["property_id"] for c in checks],
            "kind_free_text": "Coq 8.16.1 theorems about executable Gallina models (coq/), tables regenerated from /repo by "
                              "harness/gen_tables.py, models extracted to OCaml (bin/modelrun_cXX) and run against /repo's Python "
                              "on generated inputs (harness/), failing-input search + replay",
        }],
        "checks": checks,
        "not_applicable": na,
        "notes": "See DESIGN.md. KNOWN_FINDINGS.txt lists known/fixed findings.",
    }
    json.dump(m, open(os.path.join(V, "MANIFEST.json"), "w"), indent=1)


if __name__ == "__main__":
    main()
