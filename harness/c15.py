"""C15 - Blocks are well-formed: merkle root, coinbase rules, block round trip."""
import hashlib
from common import case, coq_bytes, coq_result, coq_lit

ID = "C15"
MAKE_TARGETS = ["Props/C15.v", "GenProps/CoinbaseGen.v", "Props/C15Ext.v", "GenProps/BlockchainGen.v"]
GEN_TABLES = ["CoinbaseGen", "BlockchainGen"]
# further Props files whose `Print Assumptions` blocks belong to this check (common.build_obligations)
ASSUMPTION_FILES = ["Props/C15Ext.v"]
CASE_TIMEOUT = 60.0
ASSUMPTIONS = [
    "sha256 is an arbitrary function in every theorem (hashlib answers it at run time)",
    "BIP34 theorems are proved for 0 <= height < 2^599 (a direct push of at most 75 bytes); the property needs < 2^31",
    "coinbase_tx's argument witness_merkle_root_hash is placed verbatim after 6a24aa21a9ed: it must be the BIP141 "
    "commitment hash (as mine_block passes it: hash256(witness root || reserved value), theorem C15_commitment_bip141), "
    "not the bare witness merkle root the parameter name suggests",
    "block_roundtrip uses the transaction codec of C05/C04 (Model/Tx.v, theorem tx_roundtrip) and is also proved for any "
    "parser satisfying the codec law; block_deser's fuel theorem assumes the parser consumes >= 1 byte per transaction",
    "negative block heights (outside the quantifier) are modelled as an error of unspecified class",
    "the functions are pure: histories of calls (op `seq`) are judged call by call by the history-free model, with every "
    "mutable object the library returned emptied in place by the harness right after it was copied; `bits blockchain "
    "[0] [--decode] [-H]` and `bits mine --limit 1` (RPC stubbed) are judged by the model of the library call they wrap",
    "modelled, not verified: blockchain.py (merkle_root, block_header, block_ser, block_header_deser, block_deser), "
    "tx.py (coinbase_txin, coinbase_tx and the serialisers they call), the block-assembly lines of integrations.mine_block "
    "(RPC, clock and nonce search stubbed/not modelled)",
    "extension (Props/C15Ext.v; outside the property statement): blockchain.target_threshold is modelled for every byte "
    "string - an int, or for exponent < number of mantissa bytes the FLOAT Python computes, carried as its exact ratio; "
    "it is Bitcoin Core's SetCompact exactly for exponent >= 3, sign bit clear, value < 2^256 (theorem "
    "C15_ext_target_agrees_iff; sign bit, overflow and small exponents are _refuted examples, not violations)",
    "extension: blockchain.difficulty is modelled for integer targets: Python's int / int is the binary64 nearest to the exact "
    "quotient (ties to even, gradual underflow, OverflowError at 2^1024, ZeroDivisionError), carried as the float's exact "
    "ratio; the tie branch of the rounding is unreachable through difficulty (max_target / target is never a tie)",
    "extension: integrations.median_time is modelled over a chain of block times served by a stubbed RPC layer "
    "(getblockcount/getblockhash/getblock); it is Core's median time past for chains of >= 12 blocks and for the genesis "
    "block alone, not below (C15_ext_median_time_short_chain_refuted: genesis never collected, even counts averaged)",
    "extension: blockchain.genesis_coinbase_tx / genesis_block are modelled from the models of the functions they call; "
    "the model's answer is the published genesis block for every hash function whose value on the coinbase is the "
    "published txid (hashlib's is: checked on every run)",
]
FILLER = {"merkle-rand", "height-rand", "hdr-rand", "nbits-rand", "mtp-rand", "difficulty-rand"}
COQ_PRELUDE = []

# ------------------------------------------------------------------------------------------------
# independent references (hashlib only; nothing from bits)
# ------------------------------------------------------------------------------------------------
RESERVED = b"\x00" * 32
NULL32 = b"\x00" * 32
COMMIT_HDR = bytes.fromhex("6a24aa21a9ed")


def h256(b):
    return hashlib.sha256(hashlib.sha256(b).digest()).digest()


def ref_merkle(ids):
    """developer reference: pair adjacent nodes of every level, an unpaired last node with itself"""
    assert ids
    level = list(ids)
    while len(level) > 1:
        nxt = []
        for i in range(0, len(level), 2):
            a = level[i]
            b = level[i + 1] if i + 1 < len(level) else level[i]
            nxt.append(h256(a + b))
        level = nxt
    return level[0]


def ref_subsidy(h, interval):
    k = h // interval
    return 0 if k >= 64 else (50 * 100000000) >> k


def ref_scriptnum(n):
    """CScriptNum::serialize for n >= 0"""
    if n == 0:
        return b""
    out = bytearray()
    a = n
    while a:
        out.append(a & 0xFF)
        a >>= 8
    if out[-1] & 0x80:
        out.append(0)
    return bytes(out)


def ref_push_int(n):
    """CScript() << n  for n >= 0"""
    if n == 0:
        return b"\x00"
    if 1 <= n <= 16:
        return bytes([0x50 + n])
    d = ref_scriptnum(n)
    assert len(d) < 76
    return bytes([len(d)]) + d


def ref_varint(n):
    if n < 253:
        return bytes([n])
    if n <= 0xFFFF:
        return b"\xfd" + n.to_bytes(2, "little")
    if n <= 0xFFFFFFFF:
        return b"\xfe" + n.to_bytes(4, "little")
    return b"\xff" + n.to_bytes(8, "little")


def rd_varint(b, o):
    f = b[o]
    if f < 253:
        return f, o + 1
    k = {253: 2, 254: 4, 255: 8}[f]
    if o + 1 + k > len(b):
        raise ValueError("truncated varint")
    return int.from_bytes(b[o + 1:o + 1 + k], "little"), o + 1 + k


def rd(b, o, n):
    if o + n > len(b):
        raise ValueError("truncated")
    return b[o:o + n], o + n


def ref_parse_tx(b, o=0):
    """independent parser (BIP144): returns dict and the offset after the transaction"""
    start = o
    ver, o = rd(b, o, 4)
    segwit = False
    if b[o:o + 2] == b"\x00\x01":
        segwit = True
        o += 2
    body_start = o
    n, o = rd_varint(b, o)
    ins = []
    for _ in range(n):
        prev, o = rd(b, o, 36)
        l, o = rd_varint(b, o)
        s, o = rd(b, o, l)
        q, o = rd(b, o, 4)
        ins.append((prev[:32], int.from_bytes(prev[32:], "little"), s, q))
    n, o = rd_varint(b, o)
    outs = []
    for _ in range(n):
        v, o = rd(b, o, 8)
        l, o = rd_varint(b, o)
        s, o = rd(b, o, l)
        outs.append((int.from_bytes(v, "little"), s))
    body_end = o
    wits = None
    if segwit:
        wits = []
        for _ in ins:
            k, o = rd_varint(b, o)
            st = []
            for _ in range(k):
                l, o = rd_varint(b, o)
                d, o = rd(b, o, l)
                st.append(d)
            wits.append(st)
    lt, o = rd(b, o, 4)
    raw = b[start:o]
    stripped = ver + b[body_start:body_end] + lt
    return {"version": int.from_bytes(ver, "little"), "ins": ins, "outs": outs, "wits": wits,
            "locktime": int.from_bytes(lt, "little"), "raw": raw, "txid": h256(stripped), "wtxid": h256(raw)}, o


def ser_tx(version, ins, outs, locktime, wits=None):
    """independent serialiser used by the generators"""
    out = version.to_bytes(4, "little")
    if wits is not None:
        out += b"\x00\x01"
    out += ref_varint(len(ins))
    for (txid, vout, script, seq) in ins:
        out += txid + vout.to_bytes(4, "little") + ref_varint(len(script)) + script + seq
    out += ref_varint(len(outs))
    for (value, spk) in outs:
        out += value.to_bytes(8, "little") + ref_varint(len(spk)) + spk
    if wits is not None:
        for st in wits:
            out += ref_varint(len(st))
            for d in st:
                out += ref_varint(len(d)) + d
    return out + locktime.to_bytes(4, "little")


def ref_setcompact(c):
    """Bitcoin Core arith_uint256::SetCompact on a 32-bit compact number: (value mod 2^256, negative, overflow)"""
    size = c >> 24
    word = c & 0x007fffff
    if size <= 3:
        word >>= 8 * (3 - size)
        value = word
    else:
        value = (word << (8 * (size - 3))) & ((1 << 256) - 1)
    negative = word != 0 and (c & 0x00800000) != 0
    overflow = word != 0 and (size > 34 or (word > 0xff and size > 33) or (word > 0xffff and size > 32))
    return (value, negative, overflow)


def ref_mtp(chain):
    """Bitcoin Core GetMedianTimePast: the block and up to ten ancestors, sorted, element count // 2"""
    w = sorted(chain[-11:])
    return w[len(w) // 2]


GENESIS = bytes.fromhex(
    "0100000000000000000000000000000000000000000000000000000000000000000000003ba3edfd7a7b12b27ac72c3e67768f617fc81bc3888a5132"
    "3a9fb8aa4b1e5e4a29ab5f49ffff001d1dac2b7c01010000000100000000000000000000000000000000000000000000000000000000000000"
    "00ffffffff4d04ffff001d0104455468652054696d65732030332f4a616e2f32303039204368616e63656c6c6f72206f6e206272696e6b206f"
    "66207365636f6e64206261696c6f757420666f722062616e6b73ffffffff0100f2052a01000000434104678afdb0fe5548271967f1a67130b7"
    "105cd6a828e03909a67962e0ea1f61deb649f6bc3f4cef38c4f35504e51ec112de5c384df7ba0b8d578a4c702b6bf11d5fac00000000")
assert hashlib.sha256(hashlib.sha256(GENESIS[:80]).digest()).digest()[::-1].hex() == \
    "000000000019d6689c085ae165831e934ff763ae46a2a6c172b3f1b60a8ce26f"


# ------------------------------------------------------------------------------------------------
# implementation adaptors (run inside the worker)
# ------------------------------------------------------------------------------------------------
def _hdr_tuple(d):
    return (d["version"], bytes.fromhex(d["prev_blockheaderhash"]), bytes.fromhex(d["merkle_root_hash"]),
            d["nTime"], bytes.fromhex(d["nBits"]), d["nNonce"])


def _tx_tuple(d):
    ins = [(bytes.fromhex(i["txid"]), i["vout"], bytes.fromhex(i["scriptsig"]), bytes.fromhex(i["sequence"]))
           for i in d["txins"]]
    outs = [(o["value"], bytes.fromhex(o["scriptpubkey"])) for o in d["txouts"]]
    wits = None
    if "witnesses" in d:
        wits = [[bytes.fromhex(x) for x in st] for st in d["witnesses"]]
    return (bytes.fromhex(d["txid"]), bytes.fromhex(d["wtxid"]), bytes.fromhex(d["raw"]), d["version"], ins, outs,
            wits, d["locktime"])


def _wreck(v, depth=0):
    """what remains of a library result after this harness has copied what it needs: every mutable container the library
    handed out is emptied in place (innermost first).  A cache / module-level template that hands the SAME objects to a
    later caller then answers that caller with the wrecked value (a consumer editing a returned dict in place - flipping
    txid to RPC byte order, popping "raw", clearing "txouts" - does a milder version of the same)."""
    if depth > 8:
        return
    try:
        if isinstance(v, dict):
            for x in list(v.values()):
                _wreck(x, depth + 1)
            v.clear()
        elif isinstance(v, (list, bytearray)):
            if isinstance(v, list):
                for x in v:
                    _wreck(x, depth + 1)
            v.clear()
        elif isinstance(v, tuple):
            for x in v:
                _wreck(x, depth + 1)
    except Exception:
        pass


def _merkle_root(l):
    import bits.blockchain as m
    before = [bytes(x) for x in l]
    r = m.merkle_root(l)            # the caller's own list object goes to the library (common.py's @reuselist variant)
    assert [bytes(x) for x in l] == before, "merkle_root modified its argument"
    out = bytes(r) if isinstance(r, (bytearray, memoryview)) else r
    _wreck(r)
    return out


def _coinbase_txin(cs, seq, h):
    import bits.tx as t
    return t.coinbase_txin(cs, sequence=seq, block_height=h)


def _coinbase_tx(cs, spk, reward, h, regtest, wroot):
    import bits.tx as t
    return t.coinbase_tx(cs, spk, block_reward=reward, block_height=h, regtest=regtest, witness_merkle_root_hash=wroot)


def _block_header(v, p, m, t, b, n):
    import bits.blockchain as bc
    return bc.block_header(v, p, m, t, b, n)


def _block_header_deser(b):
    import bits.blockchain as bc
    d = bc.block_header_deser(b)
    out = _hdr_tuple(d)
    _wreck(d)
    return out


def _block_ser(h, txs):
    import bits.blockchain as bc
    before = [bytes(x) for x in txs]
    r = bc.block_ser(h, txs)
    assert [bytes(x) for x in txs] == before, "block_ser modified its argument"
    return r


def _block_deser(b):
    import bits.blockchain as bc
    d = bc.block_deser(b)
    try:
        assert set(d) == {"version", "prev_blockheaderhash", "merkle_root_hash", "nTime", "nBits", "nNonce", "txns"}, sorted(d)
        return (_hdr_tuple(d), [_tx_tuple(t) for t in d["txns"]])
    finally:
        _wreck(d)


def _genesis_block():
    import bits.blockchain as bc
    return bc.genesis_block()


def _genesis_coinbase_tx():
    import bits.blockchain as bc
    return bc.genesis_coinbase_tx()


def _target_threshold(nbits):
    """an int, or - where Python's 256 ** negative makes the product a float - the float's exact ratio (num, den)"""
    import bits.blockchain as bc
    r = bc.target_threshold(nbits)
    if isinstance(r, float):
        return tuple(r.as_integer_ratio())
    assert isinstance(r, int) and not isinstance(r, bool), type(r)
    return r


def _difficulty(target, network):
    """the float as its exact ratio; network None = the default argument"""
    import bits.blockchain as bc
    r = bc.difficulty(target) if network is None else bc.difficulty(target, network)
    assert isinstance(r, float), type(r)
    return tuple(r.as_integer_ratio())


def _median_time(chain):
    """bits.integrations.median_time with the RPC layer replaced by a node whose best chain has the block times
    `chain` (by height); a height outside the chain is refused as bitcoind refuses it"""
    import bits.integrations as integ
    import bits.rpc
    chain = list(chain)

    def rpc(name, *args, **kw):
        if name == "getblockcount":
            return len(chain) - 1
        if name == "getblockhash":
            h = args[0]
            if not (isinstance(h, int) and 0 <= h < len(chain)):
                raise RuntimeError("Block height out of range")
            return "%064x" % (h + 0xb10c)
        if name == "getblock":
            h = int(args[0], 16) - 0xb10c
            return {"hash": args[0], "height": h, "time": chain[h], "mediantime": -1, "nTx": 1}
        raise RuntimeError("unexpected rpc " + name)

    old = bits.rpc.rpc_method
    bits.rpc.rpc_method = rpc
    try:
        r = integ.median_time()
    finally:
        bits.rpc.rpc_method = old
    assert isinstance(r, int) and not isinstance(r, bool), type(r)
    return r


def _mine_block_assemble(spk, height, regtest, raws, via_cli=False):
    """bits.integrations.mine_block (or `bits mine --limit 1`) with the RPC layer and scriptpubkey() replaced; returns the
    coinbase transaction and the merkle root of the block it submits"""
    import bits.integrations as integ
    import bits.rpc
    import bits.script
    sub = {}
    raws = [bytes(x) for x in raws]
    txids = ["%064x" % i for i in range(len(raws))]

    def rpc(name, *args, **kw):
        if name == "getdifficulty":
            return 4.656542373906925e-10 if regtest else 1.0
        if name == "getblockcount":
            return height
        if name == "getblockhash":
            return "%064x" % (args[0] + 7)
        if name == "getblock":
            return {"time": 1600000000, "bits": "207fffff", "hash": "ab" * 32}
        if name == "getrawmempool":
            return list(txids)
        if name == "getrawtransaction":
            return raws[txids.index(args[0])].hex()
        if name == "submitblock":
            sub["block"] = bytes.fromhex(args[0])
            return None
        raise RuntimeError("unexpected rpc " + name)

    if via_cli:
        import cli
        r = cli.run_main(["mine", "--recv-addr", "recv-addr", "--limit", "1"],
                         stubs={"bits.rpc.rpc_method": rpc, "bits.script.scriptpubkey": lambda addr: bytes(spk)})
        if r["exc"] is not None or r["exit"] not in (None, 0) or (isinstance(r["ret"], str) and r["ret"].startswith("ERROR")):
            raise RuntimeError("bits mine refused: %r %r" % (r["exc"], r["ret"]))
        if b"1 blocks mined" not in r["out"]:
            raise CliMalformed("bits mine --limit 1 did not report one mined block: %r" % r["out"][:80])
    else:
        old = (bits.rpc.rpc_method, bits.script.scriptpubkey)
        bits.rpc.rpc_method = rpc
        bits.script.scriptpubkey = lambda addr: bytes(spk)
        try:
            integ.mine_block(b"recv-addr")
        finally:
            bits.rpc.rpc_method, bits.script.scriptpubkey = old
    blk = sub["block"]
    n, o = rd_varint(blk, 80)
    assert n == len(raws) + 1, "transaction count of the submitted block"
    tail = b"".join(raws)
    assert blk.endswith(tail), "mempool transactions are not the tail of the block"
    cb = blk[o:len(blk) - len(tail)]
    hdr = blk[:80]
    assert hdr[:4] == (4).to_bytes(4, "little") and hdr[4:36] == bytes.fromhex("ab" * 32)[::-1]
    assert int.from_bytes(h256(hdr), "little") <= 0x7fffff << (8 * 29), "proof of work of the submitted block"
    return (cb, hdr[36:68])


def _seq(steps):
    """a history of calls in ONE process, every library result wrecked as soon as it has been copied (the wrappers do
    that): each answer must be the one a fresh call gives.  steps = [[op, [args...]], ...]"""
    out = []
    for op, args in steps:
        try:
            out.append(["ok", IMPL[op](*args)])
        except Exception as e:
            if getattr(e, "harness_violation", False):
                raise
            out.append(["err", None])
    return out


from cliutil import fmt_in as _fmt_in, fmt_out as _fmt_out, result as _cli_result, CliMalformed   # noqa: E402


def _cli_json(out):
    import json
    import os
    nl = os.linesep.encode()
    if not out.endswith(nl) or out.count(nl) != 1:
        raise CliMalformed("JSON output is not one newline-terminated line")
    return json.loads(out.decode("utf-8"))


def _cli_block_decode(b, fmt, header_only, via="stdin"):
    """`bits blockchain --decode [-H] -1 fmt` on a block: the JSON it prints, in the canonical form of block_deser /
    block_header_deser"""
    import cliutil
    argv = ["blockchain", "--decode"] + (["--header-only"] if header_only else []) + ["-1", fmt]
    d = _cli_json(_cli_result(cliutil.run(argv, _fmt_in(b, fmt), via)))
    return _hdr_tuple(d) if header_only else (_hdr_tuple(d), [_tx_tuple(t) for t in d["txns"]])


def _cli_genesis(fmt, header_only, decode, via="stdout"):
    """`bits blockchain 0 [-H] [--decode] -0 fmt`"""
    import cliutil
    argv = ["blockchain", "0"] + (["--header-only"] if header_only else []) + (["--decode"] if decode else []) + ["-0", fmt]
    out = _cli_result(cliutil.run(argv, b"", "stdin+out" if via == "file" else "stdin"))
    if decode:
        d = _cli_json(out)
        return _hdr_tuple(d) if header_only else (_hdr_tuple(d), [_tx_tuple(t) for t in d["txns"]])
    return _fmt_out(out, fmt)


IMPL = {
    "seq": _seq,
    "cli_block_decode": _cli_block_decode,
    "cli_genesis": _cli_genesis,
    "cli_mine_block_assemble": lambda spk, h, rt, raws: _mine_block_assemble(spk, h, rt, raws, via_cli=True),
    "merkle_root": _merkle_root,
    "coinbase_txin": _coinbase_txin,
    "coinbase_tx": _coinbase_tx,
    "block_header": _block_header,
    "block_header_deser": _block_header_deser,
    "block_ser": _block_ser,
    "block_deser": _block_deser,
    "genesis_block": _genesis_block,
    "mine_block_assemble": _mine_block_assemble,
    "genesis_coinbase_tx": _genesis_coinbase_tx,
    "target_threshold": _target_threshold,
    "difficulty": _difficulty,
    "median_time": _median_time,
}


GENESIS_FIELDS = [1, NULL32, GENESIS[36:68], int.from_bytes(GENESIS[68:72], "little"), GENESIS[72:76],
                  int.from_bytes(GENESIS[76:80], "little")]


def model_call(c):
    op, a = c["op"], c["args"]
    if op == "genesis_block":     # the model of the function itself (Model/Genesis.v); the oracle compares with the published block
        return ("c15_genesis_block", [])
    if op == "seq":               # a sequence of model calls (common.model_eval): the model has no history
        return [model_call({"op": o, "args": list(x)}) for (o, x) in a[0]]
    if op == "cli_block_decode":  # judged by the model of the library call the subcommand wraps (canon picks the header)
        return ("c15_block_deser", [a[0]])
    if op == "cli_genesis":
        if a[2]:
            return ("c15_block_deser", [GENESIS])
        return ("c15_block_header", GENESIS_FIELDS) if a[1] else ("c15_block_ser", [GENESIS[:80], [GENESIS[81:]]])
    if op == "cli_mine_block_assemble":
        return ("c15_mine_block_assemble", a)
    if op == "difficulty":        # str -> its ASCII bytes; None = the default argument "mainnet"
        return ("c15_difficulty", [a[0], b"mainnet" if a[1] is None else a[1].encode("utf-8", "surrogatepass")])
    return ("c15_" + op, a)


def canon(c, v):
    """--header-only prints block_header_deser(header) AFTER block_deser(block) succeeded: of the model's
    (header, txns) only the header is compared"""
    hdr_only = (c["op"] == "cli_block_decode" and c["args"][2]) or (c["op"] == "cli_genesis" and c["args"][1] and c["args"][2])
    if hdr_only and isinstance(v, (list, tuple)) and len(v) == 2 and isinstance(v[0], (list, tuple)):
        return v[0]
    return v


# ------------------------------------------------------------------------------------------------
# generators
# ------------------------------------------------------------------------------------------------
_IDS = None


def ids(n, salt=0):
    global _IDS
    if _IDS is None:
        _IDS = [hashlib.sha256(b"id%d" % i).digest() for i in range(4200)]
    return _IDS[salt:salt + n]


HEIGHT_BOUNDS = [0, 1, 2, 15, 16, 17, 18, 126, 127, 128, 129, 254, 255, 256, 257, 32766, 32767, 32768, 32769, 65535, 65536,
                 2 ** 23 - 1, 2 ** 23, 2 ** 23 + 1, 2 ** 24 - 1, 2 ** 24, 2 ** 31 - 2, 2 ** 31 - 1]
HEIGHT_BEYOND = [2 ** 31, 2 ** 32 - 1, 2 ** 32, 2 ** 39 - 1, 2 ** 39, 2 ** 63 - 1, 2 ** 63, 2 ** 64, 2 ** 599 - 1, 2 ** 599,
                 2 ** 791 - 1, 2 ** 791, 2 ** 2039 - 1, 2 ** 2039, 2 ** 2040]
SPK = bytes.fromhex("76a914000102030405060708090a0b0c0d0e0f1011121388ac")


def halving_heights():
    out = []
    for k in range(0, 67):
        for d in (-1, 0, 1):
            for iv in (210000, 150, 2016):
                if iv == 2016 and k > 3:      # 2016 is not a halving interval: a few multiples suffice
                    continue
                h = k * iv + d
                if h >= 0:
                    out.append(h)
    return sorted(set(out))


def gen_tx(rng, segwit):
    nin = rng.choice([1, 1, 1, 2, 3])
    nout = rng.choice([0, 1, 1, 2, 3])
    ins = [(rng.randbytes(32), rng.choice([0, 1, 2, 0xFFFFFFFF, rng.randrange(2 ** 32)]),
            rng.randbytes(rng.choice([0, 0, 1, 23, 72, 107, 252, 253, 300])), rng.choice([b"\xff" * 4, b"\xfe\xff\xff\xff", rng.randbytes(4)]))
           for _ in range(nin)]
    outs = [(rng.choice([0, 1, 546, 5000000000, 2 ** 64 - 1, rng.randrange(2 ** 51)]), rng.randbytes(rng.choice([0, 22, 23, 25, 34, 67])))
            for _ in range(nout)]
    wits = None
    if segwit:
        wits = [[rng.randbytes(rng.choice([0, 1, 32, 33, 71, 72, 252, 253])) for _ in range(rng.choice([0, 1, 2, 2, 3]))]
                for _ in ins]
    return ser_tx(rng.choice([1, 2, 0, 2 ** 32 - 1]), ins, outs, rng.choice([0, 0, 499999999, 2 ** 32 - 1]), wits)


def gen_cases(rng, tier):
    T = tier == "thorough"
    out = []
    # ---- fixed corpus ----
    out.append(case("corpus-genesis", "genesis_block"))
    out.append(case("corpus-genesis", "block_deser", GENESIS))
    out.append(case("corpus-genesis", "block_header_deser", GENESIS[:80]))
    out.append(case("corpus-genesis", "merkle_root", [h256(GENESIS[81:])]))
    # ---- merkle: every length ----
    maxlen = 2048 if T else 300
    for n in range(1, maxlen + 1):
        cls = "merkle-len1" if n == 1 else ("merkle-pow2" if n & (n - 1) == 0 else
                                           ("merkle-odd-level" if any(((n + (1 << k) - 1) >> k) % 2 and ((n + (1 << k) - 1) >> k) > 1
                                                                      for k in range(1, 12)) else "merkle-even-levels"))
        out.append(case(cls, "merkle_root", ids(n, n % 97)))
    for n in (2049, 2050, 4095, 4096, 4097) if T else (2047, 2048):
        out.append(case("merkle-large", "merkle_root", ids(n)))
    out.append(case("merkle-empty", "merkle_root", [], strict=True))
    for n in (2, 3, 5, 6, 7, 12):      # repeated ids (the CVE-2012-2459 shapes) and ids of other widths
        l = ids(n)
        out.append(case("merkle-dup", "merkle_root", l + [l[-1]]))
        out.append(case("merkle-dup", "merkle_root", [l[0]] * n))
        out.append(case("merkle-width", "merkle_root", [x[:rng.randrange(0, 33)] for x in l]))
    for _ in range(60 if T else 15):
        n = rng.randrange(1, 40)
        out.append(case("merkle-rand", "merkle_root", [rng.randbytes(32) for _ in range(n)]))
    # ---- heights: BIP34 push and subsidy ----
    hs = [(h, "height-bip34-boundary") for h in HEIGHT_BOUNDS]
    hs += [(h, "height-halving-boundary") for h in halving_heights()]
    hs += [(h, "height-beyond-int32") for h in HEIGHT_BEYOND]
    hs += [(h, "height-negative") for h in (-1, -2, -16, -17, -150, -210000, -2 ** 31)]
    if T:
        hs += [(h, "height-sweep") for h in range(0, 70001)]
    else:
        hs += [(h, "height-sweep") for h in range(0, 320)]
        hs += [(rng.randrange(320, 70001), "height-sweep") for _ in range(200)]
    hs += [(rng.randrange(70001, 2 ** 31), "height-rand") for _ in range(2000 if T else 150)]
    wr = ids(1, 4000)[0]
    for h, cls in hs:
        strict = h >= 0
        out.append(case(cls, "coinbase_txin", b"", b"\xff" * 4, h, strict=strict))
        if h > 2 ** 33:
            # coinbase_tx computes 2**(h // interval): beyond ~2^33 that integer has gigabytes (MemoryError in Python,
            # an idealised unbounded integer in the model) -- resource limits are not modelled, heights < 2^31 are
            continue
        if cls == "height-sweep" and T and h % 7:
            out.append(case(cls, "coinbase_tx", b"", b"\x51", None, h, bool(h & 1), None, strict=strict))
            continue
        for regtest in (False, True):
            out.append(case(cls, "coinbase_tx", b"bits", SPK, None, h, regtest, None, strict=strict))
        out.append(case(cls, "coinbase_tx", b"", SPK, None, h, bool(h & 1), wr, strict=strict))
    # ---- explicit rewards around the subsidy ----
    for h in [0, 1, 149, 150, 151, 209999, 210000, 210001, 420000, 4950, 9450, 9600, 6930000, 13230000, 13440000, 2 ** 31 - 1]:
        for regtest in (False, True):
            s = ref_subsidy(h, 150 if regtest else 210000)
            for r in sorted({s - 1, s, s + 1, 0, 1, 5000000000, 5000000001, 2 * s, s // 2}):
                out.append(case("reward-vs-subsidy", "coinbase_tx", b"x", SPK, r, h, regtest, None, strict=True))
    for r in [0, 1, 5000000000, 5000000001, 21 * 10 ** 14, 2 ** 63 - 1, 2 ** 63, 2 ** 64 - 1, 2 ** 64, -1, -5000000000]:
        out.append(case("reward-no-height", "coinbase_tx", b"x", SPK, r, None, False, None, strict=True))
        out.append(case("reward-range", "coinbase_tx", b"x", SPK, r, 0, False, wr, strict=True))
    out.append(case("reward-none", "coinbase_tx", b"x", SPK, None, None, False, None, strict=True))
    out.append(case("reward-none", "coinbase_tx", b"x", SPK, None, None, True, wr, strict=True))
    # ---- script length 0..101 (and a few longer), with prefixes of 0..5 bytes ----
    for L in list(range(0, 103)) + [110, 252, 253, 300]:
        s = rng.randbytes(L)
        for h in (None, 0, 16, 17, 128, 32768, 2 ** 23, 2 ** 31 - 1):
            if h is not None and not (93 <= L <= 101) and L not in (0, 1, 50):
                continue
            cls = "script-len-%s" % ("le100" if L + (0 if h is None else len(ref_push_int(h))) <= 100 else "gt100")
            out.append(case(cls, "coinbase_txin", s, rng.choice([b"\xff" * 4, b"\x00" * 4, rng.randbytes(4)]), h, strict=True))
            out.append(case(cls, "coinbase_tx", s, SPK, 1 if h is None else None, h, False, None, strict=True))
            if L in (0, 50, 96, 97, 98, 99, 100, 101):
                out.append(case(cls, "coinbase_tx", s, SPK, 1 if h is None else None, h, True, wr, strict=True))
    for seq in (b"", b"\x00", b"\xff" * 5):
        out.append(case("sequence-width", "coinbase_txin", b"abc", seq, 5, strict=True))
    # ---- witness root argument / scriptPubKey sizes ----
    for w in [None, b"", b"\x00", b"\x00" * 32, wr, wr[:31], wr + b"\x00", rng.randbytes(71), rng.randbytes(72), rng.randbytes(251),
              rng.randbytes(252), rng.randbytes(300), rng.randbytes(65532), rng.randbytes(65600)]:
        cls = "wroot-none" if w is None else ("wroot-empty" if w == b"" else ("wroot-32" if len(w) == 32 else "wroot-other-len"))
        for h, r in ((None, 7), (500, None)):
            out.append(case(cls, "coinbase_tx", b"cb", SPK, r, h, True, w, strict=True))
    for L in (0, 1, 25, 252, 253, 65535, 65536):
        out.append(case("spk-len", "coinbase_tx", b"cb", rng.randbytes(L), None, 1, False, None if L % 2 else wr, strict=True))
    # ---- headers ----
    def hdr_args(v=None, p=None, m=None, t=None, b=None, n=None):
        return [rng.randrange(2 ** 32) if v is None else v, rng.randbytes(32) if p is None else p,
                rng.randbytes(32) if m is None else m, rng.randrange(2 ** 32) if t is None else t,
                rng.randbytes(4) if b is None else b, rng.randrange(2 ** 32) if n is None else n]
    for _ in range(400 if T else 60):
        a = hdr_args()
        out.append(case("hdr-rand", "block_header", *a))
        out.append(case("hdr-rand", "block_header_deser", rng.randbytes(80)))
    for x in (0, 1, 2 ** 31, 2 ** 32 - 1):
        for k in ("v", "t", "n"):
            out.append(case("hdr-int-boundary", "block_header", *hdr_args(**{k: x})))
    for x in (-1, 2 ** 32, 2 ** 64):
        for k in ("v", "t", "n"):
            out.append(case("hdr-int-overflow", "block_header", *hdr_args(**{k: x}), strict=True))
    for k, L in (("p", 31), ("p", 33), ("m", 0), ("b", 3), ("b", 5)):
        out.append(case("hdr-field-width", "block_header", *hdr_args(**{k: rng.randbytes(L)})))
    for L in (0, 1, 79, 81, 160):
        out.append(case("hdr-deser-len", "block_header_deser", rng.randbytes(L), strict=True))
    # ---- blocks ----
    nblocks = list(range(1, 51)) if T else [1, 2, 3, 4, 5, 8, 17, 33, 50]
    for n in nblocks:
        for mode in ("legacy", "segwit", "mixed"):
            txs = [gen_tx(rng, mode == "segwit" or (mode == "mixed" and rng.random() < 0.5)) for _ in range(n)]
            hdr = rng.randbytes(80)
            out.append(case("block-ser", "block_ser", hdr, txs))
            blk = hdr + ref_varint(len(txs)) + b"".join(txs)
            out.append(case("block-%s" % mode, "block_deser", blk, txs=[t.hex() for t in txs]))
    # the same transaction twice in a row / the block's tail re-occurring inside an earlier transaction: a parser that
    # locates "the consumed bytes" by searching for the leftover gets raw and ids wrong exactly here
    for mode in ("legacy", "segwit"):
        t1, t2 = gen_tx(rng, mode == "segwit"), gen_tx(rng, mode == "segwit")
        for txs in ([t1, t1], [t1, t1, t1], [t2, t1, t1], [t1, t2, t1, t2]):
            hdr = rng.randbytes(80)
            out.append(case("block-repeated-tx", "block_deser", hdr + ref_varint(len(txs)) + b"".join(txs), txs=[t.hex() for t in txs]))
    big = [gen_tx(rng, i % 2 == 0) for i in range(300 if T else 253)]
    out.append(case("block-count-fd", "block_ser", rng.randbytes(80), big))
    out.append(case("block-count-fd", "block_deser", rng.randbytes(80) + ref_varint(len(big)) + b"".join(big), txs=[t.hex() for t in big]))
    # malformed blocks
    txs = [gen_tx(rng, i % 2 == 1) for i in range(3)]
    good = rng.randbytes(80) + b"\x03" + b"".join(txs)
    out.append(case("block-bad-count", "block_deser", good[:80] + b"\x02" + good[81:], strict=True))
    out.append(case("block-bad-count", "block_deser", good[:80] + b"\x04" + good[81:], strict=True))
    out.append(case("block-bad-count", "block_deser", good[:80] + b"\xfd\x03\x00" + good[81:]))
    out.append(case("block-empty-txs", "block_deser", good[:81 - 1] + b"\x00"))
    out.append(case("block-empty-txs", "block_ser", good[:80], []))
    out.append(case("block-no-count", "block_deser", good[:80], strict=True))
    out.append(case("block-short-header", "block_deser", good[:40], strict=True))
    for cut in (1, 2, 4, 5, 10, len(txs[2]) - 1, len(txs[2]) + 3):
        out.append(case("block-truncated", "block_deser", good[:len(good) - cut]))
    for extra in (b"\x00", b"\x01\x00\x00\x00", rng.randbytes(9), rng.randbytes(60)):
        out.append(case("block-trailing", "block_deser", good + extra))
    for _ in range(80 if T else 20):
        i = rng.randrange(81, len(good))
        out.append(case("block-mutated", "block_deser", good[:i] + bytes([good[i] ^ (1 << rng.randrange(8))]) + good[i + 1:]))
    # ---- mine_block assembly (regtest and mainnet difficulty) ----
    for n in ([0, 1, 2, 3, 4, 5, 6, 9] if not T else list(range(0, 14)) + [31, 32, 33]):
        for mode in ("legacy", "segwit", "mixed"):
            if n == 0 and mode != "legacy":
                continue
            txs = [gen_tx(rng, mode == "segwit" or (mode == "mixed" and i == n - 1)) for i in range(n)]
            h = rng.choice([0, 15, 16, 100, 148, 149, 150, 299, 209998, 209999, 210000, 32766, 32767])
            out.append(case("mine-%s" % mode, "mine_block_assemble", SPK, h, rng.random() < 0.6, txs))
    # ---- histories: several calls in one process, the earlier (library) results mutated in place in between; every
    #      answer is judged by the (history-free) model ----
    sq = []      # reported first: a replay of a history is self-contained, a single call that only fails after others is not

    def blk(hdr, txs):
        return hdr + ref_varint(len(txs)) + b"".join(txs)
    for k in range(6 if T else 3):
        for mode in ("legacy", "segwit", "mixed"):
            txs = [gen_tx(rng, mode == "segwit" or (mode == "mixed" and i % 2 == 1)) for i in range(rng.choice([1, 2, 3, 5]))]
            h1, h2 = rng.randbytes(80), rng.randbytes(80)
            b1 = blk(h1, txs)
            sq.append(case("seq-block-twice", "seq", [["block_deser", [b1]], ["block_deser", [b1]], ["block_deser", [b1]]]))
            # the same transactions under another header (a re-mined block) / a block that shares only a tail or a head
            sq.append(case("seq-block-rehdr", "seq", [["block_deser", [b1]], ["block_deser", [blk(h2, txs)]],
                                                       ["block_header_deser", [h1]], ["block_header_deser", [h1]]]))
            sq.append(case("seq-block-shared-tail", "seq", [["block_deser", [blk(h1, txs + txs[-1:])]],
                                                             ["block_deser", [blk(h2, txs[-1:])]],
                                                             ["block_deser", [blk(h1, txs[-1:] + txs)]]]))
            sq.append(case("seq-deser-ser-deser", "seq", [["block_deser", [b1]], ["block_ser", [h1, txs]], ["block_deser", [b1]],
                                                           ["block_ser", [h2, txs[:1]]]]))
            sq.append(case("seq-mine-deser", "seq", [["mine_block_assemble", [SPK, 200 + k, True, txs]], ["block_deser", [b1]],
                                                      ["mine_block_assemble", [SPK, 200 + k, True, txs]],
                                                      ["mine_block_assemble", [SPK, 201 + k, False, txs[:1]]]]))
            sq.append(case("seq-bad-then-good", "seq", [["block_deser", [b1[:-3]]], ["block_deser", [b1]], ["block_deser", [b1 + b"\x00"]],
                                                         ["block_deser", [b1]]]))
    sq.append(case("seq-genesis", "seq", [["genesis_block", []], ["block_deser", [GENESIS]], ["genesis_block", []],
                                           ["block_deser", [GENESIS]], ["block_header_deser", [GENESIS[:80]]]]))
    for n in (1, 2, 3, 5, 6, 7, 12):
        l = ids(n, 3 * n)
        sq.append(case("seq-merkle", "seq", [["merkle_root", [l]], ["merkle_root", [l]], ["merkle_root", [l[:-1] or l]],
                                              ["merkle_root", [l + l[-1:]]], ["merkle_root", [l]]]))
    for h in (0, 16, 17, 128, 150, 209999, 210000, 32768):
        a = [b"cb", SPK, None, h, False, None]
        sq.append(case("seq-coinbase", "seq", [["coinbase_tx", a], ["coinbase_tx", a], ["coinbase_tx", a[:4] + [True, None]],
                                                ["coinbase_tx", a[:4] + [False, wr]], ["coinbase_tx", a],
                                                ["coinbase_tx", [b"cb", SPK, 1, h, False, None]],
                                                ["coinbase_txin", [b"cb", b"\xff" * 4, h]], ["coinbase_txin", [b"cb", b"\xff" * 4, h + 1]],
                                                ["coinbase_txin", [b"cb", b"\x00" * 4, h]], ["coinbase_txin", [b"x" * 99, b"\xff" * 4, h]],
                                                ["coinbase_txin", [b"cb", b"\xff" * 4, h]]]))
    # ---- the command line: `bits blockchain [0] [--decode] [-H]`, `bits mine --limit 1` ----
    cli_blocks = []
    for mode in ("legacy", "segwit", "mixed"):
        for n in ((1, 2, 4) if not T else (1, 2, 3, 4, 7, 20)):
            txs = [gen_tx(rng, mode == "segwit" or (mode == "mixed" and i % 2 == 0)) for i in range(n)]
            cli_blocks.append(("ok-" + mode, blk(rng.randbytes(80), txs)))
    cli_blocks.append(("genesis", GENESIS))
    cli_blocks.append(("truncated", good[:-2]))
    cli_blocks.append(("bad-count", good[:80] + b"\x02" + good[81:]))
    cli_blocks.append(("short-header", good[:60]))
    cli_blocks.append(("trailing", good + b"\x00"))
    for name, b in cli_blocks:
        for fmt in ("hex", "raw", "bin"):
            for ho in (False, True):
                via = rng.choice(["stdin", "file"])
                out.append(case("cli-decode-%s%s" % (name.split("-")[0], "-hdr" if ho else ""), "cli_block_decode", b, fmt, ho, via))
    for fmt in ("hex", "raw", "bin"):
        for ho in (False, True):
            for dec in (False, True):
                out.append(case("cli-genesis", "cli_genesis", fmt, ho, dec, "file" if (ho and not dec) else "stdout"))
    for n in (0, 1, 3):
        for mode in ("legacy", "segwit"):
            txs = [gen_tx(rng, mode == "segwit") for _ in range(n)]
            out.append(case("cli-mine-%s" % mode, "cli_mine_block_assemble", SPK, rng.choice([0, 16, 149, 150, 209999]), n % 2 == 1, txs))
    out += gen_ext_cases(rng, T)
    return out[:4] + sq + out[4:]


NBITS_MANTISSAS = [(0, "m0"), (1, "small"), (0xff, "small"), (0x100, "mid"), (0xffff, "mid"), (0x10000, "big"), (0x123456, "big"),
                   (0x7fffff, "big"), (0x800000, "signbit"), (0x800001, "signbit"), (0x923456, "signbit"), (0xffffff, "signbit")]


def _eclass(e):
    return "e%d" % e if e <= 4 else ("e5-32" if e <= 32 else ("e%d" % e if e <= 34 else "e35plus"))


def gen_ext_cases(rng, T):
    """target_threshold / median_time / genesis_coinbase_tx (Props/C15Ext.v): every branch boundary of the models"""
    out = []
    out.append(case("corpus-genesis", "genesis_coinbase_tx"))
    # ---- nBits: every exponent 0..36 (float below 3, Core's overflow rules at 33/34/35) x mantissa classes ----
    for e in list(range(0, 37)) + [100, 128, 254, 255]:
        for m, mc in NBITS_MANTISSAS:
            out.append(case("nbits-%s-%s" % (_eclass(e), mc), "target_threshold", bytes([e]) + m.to_bytes(3, "big"), strict=True))
        for _ in range(3 if T else 1):
            m = rng.randrange(1 << 24)
            out.append(case("nbits-%s-%s" % (_eclass(e), "signbit" if m >> 23 else "rand"), "target_threshold",
                            bytes([e]) + m.to_bytes(3, "big")))
    for h in ("1d00ffff", "207fffff", "1b0404cb", "17034219", "1c00ffff", "01123456", "02123456", "03123456", "04123456",
              "05009234", "20123456", "04923456", "01fedcba", "ff123456", "00923456", "01803456", "02800056", "03800000",
              "04800000", "01003456", "02008000"):
        out.append(case("nbits-known", "target_threshold", bytes.fromhex(h), strict=True))
    # other lengths: no exponent byte (0..3 bytes), several exponent bytes
    for b in (b"", b"\x00", b"\x01", b"\xff", b"\x00\x00", b"\x01\x02", b"\x00\x00\x00", b"\x01\x02\x03", b"\xff\xff\xff"):
        out.append(case("nbits-len-%d" % len(b), "target_threshold", b, strict=True))
    for eb in (b"\x00\x00", b"\x00\x02", b"\x00\x03", b"\x00\x04", b"\x01\x00", b"\x01\x03", b"\x00\x00\x1d", b"\x02\x00",
               b"\x00\x00\x00\x00\x03"):
        for m in (0, 1, 0x00ffff, 0x800000):
            out.append(case("nbits-len-%d" % (len(eb) + 3), "target_threshold", eb + m.to_bytes(3, "big"), strict=True))
    for _ in range(400 if T else 60):
        out.append(case("nbits-rand", "target_threshold", rng.randbytes(4)))
    # ---- difficulty: MAX_TARGET / target as a correctly rounded float; network names; zero / negative / huge targets ----
    MT, MTR = 0xFFFF << 208, 0x7FFFFF << 232
    for net in (None, "mainnet", "testnet", "regtest"):
        mx = MTR if net == "regtest" else MT
        for t, cls in [(mx, "difficulty-one"), (1, "difficulty-max"), (2, "difficulty-max"), (3, "difficulty-inexact"), (mx - 1, "difficulty-inexact"),
                       (mx + 1, "difficulty-inexact"), (mx * 2, "difficulty-below-one"), (mx * 3, "difficulty-below-one"),
                       (0x0404cb << 192, "difficulty-known"), (0x034219 << 160, "difficulty-known"), (0, "difficulty-zero-target"),
                       (-1, "difficulty-negative"), (-mx, "difficulty-negative"), (-3 * mx, "difficulty-negative"),
                       (mx << 1021, "difficulty-normal-edge"), (mx << 1022, "difficulty-normal-edge"), ((mx << 1022) + 1, "difficulty-subnormal"),
                       (mx << 1023, "difficulty-subnormal"), (3 * mx << 1060, "difficulty-subnormal"), (mx << 1074, "difficulty-subnormal"),
                       ((mx << 1075) - 1, "difficulty-subnormal"), (mx << 1075, "difficulty-underflow-zero"), ((mx << 1075) + 1, "difficulty-subnormal"),
                       (mx << 1076, "difficulty-underflow-zero"), (0x123456 << (8 * 252), "difficulty-underflow-zero")]:
            out.append(case(cls, "difficulty", t, net, strict=True))
        for _ in range(40 if T else 8):
            out.append(case("difficulty-rand", "difficulty", rng.randrange(1, 1 << rng.choice([8, 64, 200, 224, 256, 300])), net))
        for e in range(3, 35):
            m = rng.randrange(1, 1 << 23)
            out.append(case("difficulty-of-nbits", "difficulty", m << (8 * (e - 3)), net))
    for net in ("signet", "", "MAINNET", "main", "regtest ", "mainnet\x00", "r\xe9gtest"):
        out.append(case("difficulty-unknown-network", "difficulty", MT, net, strict=True))
        out.append(case("difficulty-unknown-network", "difficulty", 0, net, strict=True))
    # ---- median time: chains of 0..14 (+ longer) blocks; sorted, unsorted, duplicates, negative, huge ----
    def mclass(n):
        if n <= 1:
            return "mtp-empty" if n == 0 else "mtp-height0"
        k = min(n - 1, 11)
        return "mtp-full-window" if n >= 12 else ("mtp-short-odd-count" if k % 2 else "mtp-short-even-count")
    t0 = 1231006505
    for n in list(range(0, 16)) + [20, 23, 50] + ([100, 1000] if T else []):
        mono = [t0 + 600 * i + rng.randrange(-300, 300) for i in range(n)]
        out.append(case(mclass(n) + "-sorted", "median_time", sorted(mono), strict=True))
        for _ in range(6 if T else 3):
            l = list(mono)
            rng.shuffle(l)
            out.append(case(mclass(n) + "-unsorted", "median_time", l, strict=True))
        if n:
            d = [rng.choice([7, 7, 8, 9, 9, 9, 10]) for _ in range(n)]
            out.append(case(mclass(n) + "-dups", "median_time", d, strict=True))
            out.append(case(mclass(n) + "-dups", "median_time", [5] * n, strict=True))
            out.append(case(mclass(n) + "-signs", "median_time", [rng.choice([-1, 1]) * rng.randrange(0, 50) for _ in range(n)], strict=True))
            out.append(case(mclass(n) + "-wide", "median_time", [rng.randrange(-2 ** 70, 2 ** 70) for _ in range(n)], strict=True))
            out.append(case(mclass(n) + "-parity", "median_time", [2 * rng.randrange(0, 9) + (i & 1) for i in range(n)], strict=True))
            # an early block later than the tip / the tip earlier than everything (window edge: heights n-11 and n-12)
            e = list(mono)
            e[0] = mono[-1] + 10 ** 6
            if n > 12:
                e[n - 12] = mono[-1] + 10 ** 6
                e[n - 11] = mono[0] - 10 ** 6
            out.append(case(mclass(n) + "-edge", "median_time", e, strict=True))
    for _ in range(300 if T else 40):
        n = rng.randrange(1, 16)
        out.append(case("mtp-rand", "median_time", [rng.randrange(0, 30) for _ in range(n)]))
    return out


# ------------------------------------------------------------------------------------------------
# the literal property on the implementation
# ------------------------------------------------------------------------------------------------
def _call(f, *a):
    try:
        return ("ok", f(*a))
    except BaseException as e:  # noqa
        return ("err", type(e).__name__ + ": " + str(e)[:80])


def _check_coinbase(raw, cs, spk, reward, h, regtest, wroot):
    """C15's coinbase clause on a transaction the implementation returned"""
    try:
        d, o = ref_parse_tx(raw)
    except Exception as e:
        return "coinbase transaction does not parse as a transaction: %r" % (e,)
    if o != len(raw):
        return "bytes after the coinbase transaction"
    if len(d["ins"]) != 1:
        return "coinbase has %d inputs, not exactly one" % len(d["ins"])
    txid, vout, script, seq = d["ins"][0]
    if txid != NULL32 or vout != 0xFFFFFFFF:
        return "coinbase input does not spend the null outpoint (32 zero bytes, index 0xffffffff): %s:%d" % (txid.hex(), vout)
    if len(script) > 100:
        return "coinbase script of %d bytes exceeds 100" % len(script)
    if h is not None and 0 <= h < 2 ** 31:
        p = ref_push_int(h)
        if script[:len(p)] != p:
            return "coinbase script %s does not start with the minimally encoded height %d (%s)" % (script[:8].hex(), h, p.hex())
        if script != p + cs:
            return "coinbase script is not height push + coinbase_script"
    elif h is None and script != cs:
        return "coinbase script differs from the given script"
    if not d["outs"]:
        return "coinbase has no output"
    value, spk_ = d["outs"][0]
    if spk_ != spk:
        return "first output does not pay to the given scriptPubKey"
    if h is not None and h >= 0:
        sub = ref_subsidy(h, 150 if regtest else 210000)
        if reward is None and value != sub:
            return "default claim %d at height %d (regtest=%s) is not the subsidy %d" % (value, h, regtest, sub)
        if value > sub:
            return "coinbase claims %d, more than the subsidy %d of height %d (regtest=%s)" % (value, sub, h, regtest)
    if reward is not None and value != reward:
        return "coinbase claims %d, not the given reward %d" % (value, reward)
    commits = [s for (_, s) in d["outs"] if s[:1] == b"\x6a" and COMMIT_HDR[2:] in s[:10]]
    supplied = bool(wroot)
    if supplied:
        if len(d["outs"]) != 2 or len(commits) != 1 or d["outs"][1] != (0, commits[0]):
            return "witness root supplied but the outputs are not [payout, (0, commitment)]"
        if len(wroot) == 32 and commits[0] != COMMIT_HDR + wroot:
            return "commitment output %s is not 6a24aa21a9ed + the supplied commitment hash" % commits[0].hex()
        if not commits[0].endswith(COMMIT_HDR[2:] + wroot):
            return "commitment output does not carry aa21a9ed + the supplied value"
        if d["wits"] != [[RESERVED]]:
            return "witness root supplied but the coinbase witness is not the single 32-byte reserved value"
    else:
        if len(d["outs"]) != 1 or commits:
            return "no witness root supplied but a second/commitment output is present"
        if d["wits"] is not None:
            return "no witness root supplied but the coinbase is serialised with witness data"
    if d["version"] != 1 or d["locktime"] != 0 or seq != b"\xff" * 4:
        return "coinbase version/locktime/sequence are not 1/0/ffffffff"
    return None


def prop_oracle(c):
    op, a = c["op"], c["args"]
    if op == "seq":
        # run the history, then every step must (still) satisfy the property's statement for its own input
        got = _seq(a[0])
        for i, (o, x) in enumerate(a[0]):
            e = prop_oracle({"op": o, "args": list(x), "cls": c.get("cls")})
            if e:
                return "call %d of the history [%s], %s: %s" % (i + 1, ", ".join(s[0] for s in a[0]), o, e)
        again = _seq(a[0])
        if again != got:
            return "the same history of calls answers differently when repeated"
        return None
    if op in ("cli_block_decode", "cli_genesis", "cli_mine_block_assemble"):
        # the subcommand must say what the library function says (which the clauses below judge)
        if op == "cli_block_decode":
            lib = _call(_block_deser, a[0])
            if lib[0] == "ok" and a[2]:
                lib = ("ok", lib[1][0])
            sub = {"op": "block_deser", "args": [a[0]]}
        elif op == "cli_genesis":
            lib = _call(_block_deser, GENESIS) if a[2] else ("ok", GENESIS[:80] if a[1] else GENESIS)
            if a[2] and a[1] and lib[0] == "ok":
                lib = ("ok", lib[1][0])
            sub = {"op": "genesis_block", "args": []}
        else:
            lib = _call(_mine_block_assemble, *a)
            sub = {"op": "mine_block_assemble", "args": a}
        got = _call(IMPL[op], *a)
        norm_ = lambda v: [norm_(x) for x in v] if isinstance(v, (list, tuple)) else v  # noqa
        if got[0] != lib[0] or (got[0] == "ok" and norm_(got[1]) != norm_(lib[1])):
            return "`bits %s` answers %s, the library function %s" % ("mine" if "mine" in op else "blockchain",
                                                                      str(got)[:120], str(lib)[:120])
        return prop_oracle(dict(sub, cls=c.get("cls")))
    if op == "merkle_root":
        if not a[0]:
            return None
        r = _call(_merkle_root, a[0])
        want = ref_merkle(a[0])
        if r != ("ok", want):
            return "merkle_root of %d ids = %s, Bitcoin's merkle root is %s" % (len(a[0]), r[1].hex() if r[0] == "ok" else r[1], want.hex())
        return None
    if op == "coinbase_txin":
        cs, seq, h = a
        if h is not None and not (0 <= h < 2 ** 31):
            # outside the quantified heights only the unconditional clauses apply: null outpoint, <= 100 bytes
            r = _call(_coinbase_txin, cs, seq, h)
            if r[0] == "ok":
                t = r[1]
                if t[:36] != NULL32 + b"\xff" * 4:
                    return "coinbase input does not spend the null outpoint"
                n, o = rd_varint(t, 36)
                if n > 100 or len(t) != o + n + len(seq):
                    return "coinbase script of %d bytes exceeds 100" % n
            return None
        script = (ref_push_int(h) if h is not None else b"") + cs
        r = _call(_coinbase_txin, cs, seq, h)
        if len(script) > 100:
            return None if r[0] == "err" else "coinbase script of %d bytes accepted (limit 100)" % len(script)
        want = NULL32 + b"\xff" * 4 + ref_varint(len(script)) + script + seq
        if r != ("ok", want):
            return "coinbase_txin(height=%r) = %s, expected null outpoint + minimally encoded height + script: %s" % (
                h, r[1].hex() if r[0] == "ok" else r[1], want.hex())
        return None
    if op == "coinbase_tx":
        cs, spk, reward, h, regtest, wroot = a
        if h is not None and not (0 <= h < 2 ** 31):
            r = _call(_coinbase_tx, *a)
            if r[0] == "ok":
                try:
                    d, _ = ref_parse_tx(r[1])
                except Exception as e:
                    return "coinbase transaction does not parse: %r" % (e,)
                if len(d["ins"]) != 1 or d["ins"][0][0] != NULL32 or d["ins"][0][1] != 0xFFFFFFFF:
                    return "coinbase does not have exactly one input spending the null outpoint"
                if len(d["ins"][0][2]) > 100:
                    return "coinbase script of %d bytes exceeds 100" % len(d["ins"][0][2])
            return None
        r = _call(_coinbase_tx, *a)
        script_len = len(cs) + (len(ref_push_int(h)) if h is not None else 0)
        sub = ref_subsidy(h, 150 if regtest else 210000) if h is not None else None
        value = reward if reward is not None else sub
        must_fail = script_len > 100 or (h is not None and reward is not None and reward > sub) or value is None \
            or not (0 <= value < 2 ** 64)
        if r[0] == "err":
            if must_fail or (wroot and len(wroot) > 0xFFFFFFFF):
                return None
            return "coinbase_tx refused a valid request: " + r[1]
        if must_fail:
            return "coinbase_tx accepted a request it must refuse (script %d bytes, reward %r, subsidy %r)" % (script_len, reward, sub)
        return _check_coinbase(r[1], cs, spk, reward, h, regtest, wroot)
    if op == "block_header":
        v, p, m, t, b, n = a
        if not (all(0 <= x < 2 ** 32 for x in (v, t, n)) and len(p) == 32 and len(m) == 32 and len(b) == 4):
            return None
        r = _call(_block_header, *a)
        want = v.to_bytes(4, "little") + p + m + t.to_bytes(4, "little") + b + n.to_bytes(4, "little")
        if r != ("ok", want):
            return "block_header is not the 80-byte header of its fields"
        r2 = _call(_block_header_deser, want)
        if r2 != ("ok", (v, p, m, t, b, n)):
            return "block_header_deser(block_header(fields)) != fields: %r" % (r2,)
        return None
    if op == "block_header_deser":
        b = a[0]
        r = _call(_block_header_deser, b)
        if len(b) != 80:
            return None if r[0] == "err" else "block_header_deser accepted %d bytes" % len(b)
        if r[0] != "ok":
            return "block_header_deser refused an 80-byte header: " + r[1]
        if _call(_block_header, *r[1]) != ("ok", b):
            return "block_header(block_header_deser(h)) != h"
        return None
    if op in ("block_ser", "block_deser", "genesis_block"):
        if op == "block_ser":
            hdr, txs = a
            if len(hdr) != 80:
                return None
        elif op == "genesis_block":
            r = _call(_genesis_block)
            if r != ("ok", GENESIS):
                return "genesis_block() is not the genesis block"
            hdr, txs = GENESIS[:80], [GENESIS[81:]]
        else:
            if "txs" not in c:
                # arbitrary bytes: the round trip clause applies when they are a well-formed block
                try:
                    blk = a[0]
                    n, o = rd_varint(blk, 80)
                    txs = []
                    while o < len(blk):
                        d, o2 = ref_parse_tx(blk, o)
                        if not d["ins"]:
                            return None
                        txs.append(blk[o:o2])
                        o = o2
                    if n != len(txs) or len(blk) < 81:
                        return None
                    hdr = blk[:80]
                except Exception:
                    return None
            else:
                hdr, txs = a[0][:80], [bytes.fromhex(x) for x in c["txs"]]
        blk = _call(_block_ser, hdr, txs)
        want_blk = hdr + ref_varint(len(txs)) + b"".join(txs)
        if blk != ("ok", want_blk):
            return "block_ser is not header + count + transactions"
        r = _call(_block_deser, want_blk)
        if r[0] != "ok":
            return "block_deser(block_ser(header, %d txs)) raised %s" % (len(txs), r[1])
        hd, ptx = r[1]
        want_hd = (int.from_bytes(hdr[:4], "little"), hdr[4:36], hdr[36:68], int.from_bytes(hdr[68:72], "little"), hdr[72:76],
                   int.from_bytes(hdr[76:], "little"))
        if tuple(hd) != want_hd:
            return "block_deser returns other header fields than serialised"
        if len(ptx) != len(txs):
            return "block_deser returns %d transactions, %d were serialised" % (len(ptx), len(txs))
        for i, (p, raw) in enumerate(zip(ptx, txs)):
            d, _ = ref_parse_tx(raw)
            if p[2] != raw:
                return "transaction %d: raw bytes differ" % i
            if p[0] != d["txid"]:
                return "transaction %d: txid %s is not hash256 of the serialisation without witness %s" % (i, p[0].hex(), d["txid"].hex())
            if p[1] != d["wtxid"]:
                return "transaction %d: wtxid is not hash256(raw)" % i
            if (p[3], [tuple(x) for x in p[4]], [tuple(x) for x in p[5]], p[6], p[7]) != \
                    (d["version"], d["ins"], d["outs"], d["wits"], d["locktime"]):
                return "transaction %d: fields differ" % i
        return None
    if op == "mine_block_assemble":
        spk, h, regtest, raws = a
        r = _call(_mine_block_assemble, *a)
        if r[0] != "ok":
            return "mine_block failed on well-formed mempool transactions: " + r[1]
        cb, mr = r[1]
        ds = [ref_parse_tx(x)[0] for x in raws]
        need = any(d["wits"] is not None for d in ds)
        commit = h256(ref_merkle([NULL32] + [d["wtxid"] for d in ds]) + RESERVED) if need else None
        e = _check_coinbase(cb, b"bits", spk, None, h + 1, regtest, commit)
        if e:
            return "mine_block coinbase: " + e
        want = ref_merkle([ref_parse_tx(cb)[0]["txid"]] + [d["txid"] for d in ds])
        if mr != want:
            return "mine_block header merkle root %s is not the merkle root of the block's txids %s" % (mr.hex(), want.hex())
        return None
    # ---- extension (Props/C15Ext.v): the standards' statements on the ranges where the theorems say they hold ----
    if op == "genesis_coinbase_tx":
        r = _call(_genesis_coinbase_tx)
        if r != ("ok", GENESIS[81:]):
            return "genesis_coinbase_tx() is not the coinbase transaction of the published genesis block"
        if h256(GENESIS[81:]) != GENESIS[36:68]:
            return "harness: hash256 of the published coinbase is not the published merkle root"
        return None
    if op == "target_threshold":
        b = a[0]
        r = _call(_target_threshold, b)
        if r[0] != "ok":
            return "target_threshold refused %s: %s" % (b.hex(), r[1])
        if len(b) != 4:
            return None
        c = int.from_bytes(b, "big")
        e, m = c >> 24, c & 0xffffff
        value, neg, ovf = ref_setcompact(c)
        if e >= 3:
            if r[1] != m * 256 ** (e - 3):
                return "target_threshold(%s) = %r is not mantissa * 256^(exponent-3) (developer reference)" % (b.hex(), r[1])
            if not (c & 0x00800000) and not ovf and (neg or r[1] != value or not (0 <= r[1] < 2 ** 256)):
                return "target_threshold(%s) = %r differs from Bitcoin Core SetCompact %r" % (b.hex(), r[1], value)
        return None
    if op == "difficulty":
        t, net = a
        if net not in (None, "mainnet", "testnet", "regtest"):
            r = _call(_difficulty, t, net)
            return None if r[0] == "err" else "difficulty accepted the unknown network %r" % (net,)
        if t == 0:
            return None
        from fractions import Fraction
        r = _call(_difficulty, t, net)
        if r[0] != "ok":
            return "difficulty(%d, %r) failed: %s" % (t, net, r[1])
        got = Fraction(*r[1])
        exact = Fraction((0x7FFFFF << 232) if net == "regtest" else (0xFFFF << 208), t)
        # within half a unit in the last place of a binary64 (2^-53 relative; absolute 2^-1075 in the subnormal range)
        if abs(got - exact) > max(abs(exact) / 2 ** 53, Fraction(1, 2 ** 1075)):
            return "difficulty(%d, %r) = %s is not the float nearest to max_target / target" % (t, net, got)
        return None
    if op == "median_time":
        chain = a[0]
        if not chain:
            return None
        r = _call(_median_time, chain)
        if r[0] != "ok":
            return "median_time failed on a chain of %d blocks: %s" % (len(chain), r[1])
        if not (min(chain) <= r[1] <= max(chain)):
            return "median_time %r is outside the block times [%d, %d]" % (r[1], min(chain), max(chain))
        n = len(chain)
        if (n >= 12 or n == 1) and r[1] != ref_mtp(chain):
            return "median_time of a chain of %d blocks is %r, Bitcoin Core's median time past is %r" % (n, r[1], ref_mtp(chain))
        k = min(n - 1, 11)
        if k >= 2:      # the same blocks in the window in another order: the same median
            w = chain[n - k:]
            for alt in (chain[:n - k] + w[::-1], chain[:n - k] + w[1:] + w[:1]):
                if _call(_median_time, alt) != r:
                    return "median_time changes when the last %d block times are permuted" % k
        return None
    return None


def extra_checks(ctx):
    """(1) the property oracle is evaluated on a sample of every generator class (not only on disagreements);
       (2) the extracted SPECIFICATIONS agree with the independent Python references of this module."""
    out = []
    impl, model, rng = ctx["impl"], ctx["model"], ctx["rng"]
    T = ctx["tier"] == "thorough"
    import random
    r2 = random.Random("C15-oracle-%s" % ctx["tier"])
    cases = gen_cases(r2, "quick")
    per = {}
    n = 0
    for c in cases:
        k = (c["cls"], c["op"])
        lim = 40 if c["cls"].startswith(("merkle", "height-bip34", "height-halving", "reward", "script-len", "wroot", "nbits-known", "mtp-", "difficulty-")) else 12
        if T:
            lim *= 3
        if per.get(k, 0) >= lim:
            continue
        per[k] = per.get(k, 0) + 1
        v = impl.oracle(c, timeout=120)
        n += 1
        if v is not None:
            from common import case_to_json
            out.append({"kind": "input", "case": case_to_json(c), "observed": "property oracle: " + str(v),
                        "expected": "the property's literal statement holds", "oracle": v, "failing_input_found": True})
            if len(out) >= 3:
                break
    ctx["stats"].setdefault("extra", {})["oracle_evaluations"] = n
    if model is not None:
        bad = 0
        m = 0
        for h in HEIGHT_BOUNDS + halving_heights()[:80] + [r2.randrange(2 ** 31) for _ in range(200)]:
            for iv in (210000, 150):
                m += 1
                if model.call("c15_spec_subsidy", [h, iv]) != ("ok", ref_subsidy(h, iv)):
                    bad += 1
            m += 1
            if model.call("c15_spec_push_int", [h]) != ("ok", ref_push_int(h)):
                bad += 1
        for k in list(range(1, 40)) + [63, 64, 65, 100, 255, 256, 257]:
            m += 1
            l = ids(k, k)
            if model.call("c15_spec_merkle", [l]) != ("ok", ref_merkle(l)):
                bad += 1
        # Bitcoin Core's SetCompact as extracted from Spec/Target.v against the Python transcription above
        cs = [(e << 24) | mm for e in list(range(0, 37)) + [255] for mm, _ in NBITS_MANTISSAS] + [r2.randrange(2 ** 32) for _ in range(300)]
        for cc in cs:
            m += 1
            if model.call("c15_spec_setcompact", [cc]) != ("ok", ref_setcompact(cc)):
                bad += 1
        ctx["stats"]["extra"]["spec_vs_python_reference"] = m
        if bad:
            out.append({"kind": "obligation", "obligation": "harness:spec-vs-reference",
                        "detail": "%d extracted specification values differ from the Python reference" % bad})
    return out


def shrink(c):
    a = c["args"]
    if c["op"] == "merkle_root":
        l = a[0]
        for cand in (l[:len(l) // 2], l[1:], l[:-1]):
            if cand and len(cand) < len(l):
                c2 = dict(c)
                c2["args"] = [cand]
                yield c2
    elif c["op"] in ("coinbase_tx", "coinbase_txin"):
        i = 3 if c["op"] == "coinbase_tx" else 2
        h = a[i]
        if isinstance(h, int) and h > 0:
            for cand in (h // 2, h - 1):
                c2 = dict(c)
                c2["args"] = a[:i] + [cand] + a[i + 1:]
                yield c2
        if a[0]:
            c2 = dict(c)
            c2["args"] = [a[0][:len(a[0]) // 2]] + a[1:]
            yield c2


def coq_equation(c, mr):
    op, a = c["op"], c["args"]
    if op == "seq" or op.startswith("cli_"):
        return None
    o = lambda v: "None" if v is None else "(Some %s)" % coq_lit(v)  # noqa
    if op == "merkle_root" and len(a[0]) <= 9:
        return "c15_merkle_root sha256 %s = %s" % (coq_lit(a[0]), coq_result(mr))
    if op == "coinbase_txin" and len(a[0]) <= 110 and (a[2] is None or abs(a[2]) < 2 ** 64):
        return "c15_coinbase_txin %s %s %s = %s" % (coq_bytes(a[0]), coq_bytes(a[1]), o(a[2]), coq_result(mr))
    if op == "coinbase_tx" and len(a[0]) <= 110 and len(a[1]) <= 40 and (a[5] is None or len(a[5]) <= 80) \
            and (a[3] is None or abs(a[3]) < 2 ** 64):
        # (c15_coinbase_tx is the [floordiv_pow2_fast] instance, so large heights are cheap in vm_compute as well)
        return "c15_coinbase_tx %s %s %s %s %s %s = %s" % (coq_bytes(a[0]), coq_bytes(a[1]), o(a[2]), o(a[3]), coq_lit(a[4]),
                                                            o(a[5]), coq_result(mr))
    if op == "target_threshold" and mr[0] == "ok" and len(a[0]) <= 8 and (not isinstance(mr[1], int) or mr[1] < 2 ** 4096):
        v = mr[1]
        rhs = "Bits.Model.Target.PInt %s" % coq_lit(v) if isinstance(v, int) else \
            "Bits.Model.Target.PFloat %s %s" % (coq_lit(v[0]), coq_lit(v[1]))
        return "c15_target_threshold %s = %s" % (coq_bytes(a[0]), rhs)
    if op == "difficulty" and abs(a[0]) < 2 ** 600 and (a[1] is None or a[1].isascii()):
        rhs = "Err %s" % mr[1] if mr[0] == "err" else "Ok (Bits.Model.Target.PFloat %s %s)" % (coq_lit(mr[1][0]), coq_lit(mr[1][1]))
        return "c15_difficulty %s %s = %s" % (coq_lit(a[0]), coq_bytes((a[1] or "mainnet").encode()), rhs)
    if op == "median_time" and len(a[0]) <= 30:
        return "c15_median_time %s = %s" % (coq_lit(list(a[0])), coq_result(mr))
    if op == "genesis_coinbase_tx":
        return "c15_genesis_coinbase_tx = %s" % coq_result(mr)
    if op == "genesis_block":
        return "c15_genesis_block sha256 = %s" % coq_result(mr)
    if op == "block_header":
        return "c15_block_header (c15_mk_header %s) = %s" % (" ".join(coq_lit(x) for x in a), coq_result(mr))
    if op == "block_header_deser" and len(a[0]) <= 160:
        rhs = "Err %s" % mr[1] if mr[0] == "err" else "Ok (c15_mk_header %s)" % " ".join(coq_lit(x) for x in mr[1])
        return "c15_block_header_deser %s = %s" % (coq_bytes(a[0]), rhs)
    return None


# ops whose answer must not depend on the concrete bytes-like type of their arguments (they agree on the pinned tree;
# tools/bytearray_probe.py); common.py re-runs a sample of their cases with bytearray arguments
BYTEARRAY_OPS = {'target_threshold', 'coinbase_tx', 'block_header', 'block_ser', 'coinbase_txin', 'block_deser', 'block_header_deser', 'mine_block_assemble'}
MEMORYVIEW_OPS = {'target_threshold', 'block_header_deser', 'block_header', 'coinbase_tx', 'block_deser', 'mine_block_assemble', 'coinbase_txin'}
