"""C17 - P2P wire: framing survives fragmentation, detects corruption, terminates at EOF; payload codecs invert.

Implementation side: bits.p2p.recv_msg over a duck-typed scripted socket (recv(n) hands out min(n, next scripted
chunk, remaining) bytes, b"" at EOF; a call counter raises the worker's CaseTimeout after `fuel` calls so that
non-termination is an observable Timeout = the model's FuelE), bits.p2p.msg_ser and the payload builders/parsers.
Model side: coq/Model/P2pFrame.v, P2pCodec.v (extracted)."""
import hashlib
import itertools
import struct
import sys
from common import case, coq_bytes, coq_lit, coq_result, norm as common_norm

ID = "C17"
MAKE_TARGETS = ["Props/C17.v", "GenProps/P2pGen.v", "Props/C17Ext.v", "GenProps/P2pExtGen.v"]
GEN_TABLES = ["P2pGen", "P2pExtGen"]
# further Props files whose `Print Assumptions` blocks belong to this check (common.build_obligations)
ASSUMPTION_FILES = ["Props/C17Ext.v"]
CASE_TIMEOUT = 30.0
ASSUMPTIONS = [
    "sha256 is an arbitrary function with 32-byte output in the framing theorems (hashlib answers it at run time)",
    "explicit hypothesis of C17_flip_payload_rejected / C17_flip_length_rejected: no 32-bit checksum collision "
    "between the transmitted payload and the bytes actually taken as payload",
    "Node.recv_loop (op recv_loop_eof) is exercised on the implementation only: the real loop body in a thread on a "
    "scripted peer that closes the connection; the required outcome (pings answered, loop ENDS) is computed by the "
    "harness from the reference framing, not by the Coq model",
    "tables read at call time: sessions that register entries in INVENTORY_TYPE_ID / COMMANDS / the parse_<command>_payload "
    "namespace at run time are compared with Model/P2pTables.v applied to the extended tables (reference tables + the "
    "registered entries, dict/list semantics computed by the harness)",
    "module state: sessions of set_magic_start_bytes / recv_msg / msg_ser calls sharing MAGIC_START_BYTES are compared with "
    "Model/P2pSession.v (a refused call leaves the global unchanged); network names are ASCII-lowercased in the model",
    "the receive path is run under the interpreter's default recursion limit (1000), not the worker's raised one",
    "socket model: recv(n) returns min(n, scheduled chunk, remaining) bytes and b'' at end of stream; blocking, "
    "timeouts and errors of real sockets are not modelled",
    "fragmentation theorems assume positive chunk sizes; termination (C17_recv_msg_terminates) holds for every schedule",
    "version parser theorem premises: ASCII-decodable address fields, user agent < 253 bytes, relay byte present "
    "(each shown necessary by a _refuted theorem; see findings)",
    "str arguments (command, inventory type name) are ASCII; dict results are compared as tuples, hex strings as bytes",
    "modelled, not verified: src/bits/p2p.py (recv_msg, msg_ser, *_payload builders and parse_*_payload parsers, "
    "parse_payload, inventory, network_ip_addr)",
    "extension (Props/C17Ext.v): getblocks_payload and headers_payload are modelled (Model/P2pCodecExt.v); the module has no "
    "parser for either message, so getblocks round-trips through the repo's parse_getheaders_payload (same layout) and "
    "headers through the reference receiver of Spec/P2pHeaders.v (extracted, compared with this module's Python "
    "reference); headers_payload's count is an independent, unchecked argument (two _refuted theorems, not violations)",
]
FILLER = {"frag-random-small"}

# ---- values from the protocol references (NOT read from the repo) ----
MAGIC = {"mainnet": bytes.fromhex("f9beb4d9"), "testnet": bytes.fromhex("0b110907"), "regtest": bytes.fromhex("fabfb5da")}
MAIN = MAGIC["mainnet"]
SPEC_COMMANDS = [b"version", b"verack", b"addr", b"inv", b"getdata", b"getblocks", b"getheaders", b"tx", b"block",
                 b"headers", b"getaddr", b"submitorder", b"checkorder", b"reply", b"alert", b"ping", b"pong"]
MAX_SIZE = 0x02000000
INV_TYPES = {"MSG_TX": 1, "MSG_BLOCK": 2, "MSG_FILTERED_BLOCK": 3, "MSG_CMPCT_BLOCK": 4,
             "MSG_WITNESS_TX": 0x40000001, "MSG_WITNESS_BLOCK": 0x40000002}
ASCII_IP = b"::ffff:127.0.0.1"
BIN_IP = bytes(10) + b"\xff\xff\x7f\x00\x00\x01"
UA = b"/bits:0.1.0/"


def h4(p):
    return hashlib.sha256(hashlib.sha256(p).digest()).digest()[:4]


def spec_ser(magic, cmd, payload):
    return magic + cmd + b"\0" * (12 - len(cmd)) + struct.pack("<I", len(payload)) + h4(payload) + payload


def spec_cs(n):
    if n < 253:
        return bytes([n])
    if n <= 0xFFFF:
        return b"\xfd" + struct.pack("<H", n)
    if n <= 0xFFFFFFFF:
        return b"\xfe" + struct.pack("<I", n)
    return b"\xff" + struct.pack("<Q", n)


def spec_version(pv, sv, ts, rs, rip, rport, tsv, tip, tport, nonce, ua, sh, relay):
    out = (struct.pack("<I", pv) + struct.pack("<Q", sv) + struct.pack("<Q", ts) + struct.pack("<Q", rs) + rip
           + struct.pack(">H", rport) + struct.pack("<Q", tsv) + tip + struct.pack(">H", tport)
           + struct.pack("<Q", nonce) + spec_cs(len(ua)) + ua + struct.pack("<I", sh))
    if relay is not None:
        out += bytes([relay])
    return out


def _spec_parse_inv(raw, types=None):
    """reference decoding of a well-formed inv payload (count as CompactSize, then count 36-byte entries of known
    type, nothing else); None if it is not one"""
    if not raw:
        return None
    b0 = raw[0]
    width = {253: 2, 254: 4, 255: 8}.get(b0, 0)
    if len(raw) < 1 + width:
        return None
    count = int.from_bytes(raw[1:1 + width], "little") if width else b0
    body = raw[1 + width:]
    if len(body) != 36 * count:
        return None
    rev = {v: k for k, v in (INV_TYPES if types is None else types).items()}
    items = []
    for i in range(count):
        tid = struct.unpack("<I", body[36 * i:36 * i + 4])[0]
        if tid not in rev:
            return None
        items.append((rev[tid], body[36 * i + 4:36 * i + 36]))
    return (count, items)


def ref_recv(magic, stream):
    """reference receiver over the whole stream: ('ok', m, c, p, rest) | ('conn',) | ('value',)"""
    if len(stream) < 24:
        return ("conn",)
    n = struct.unpack("<I", stream[16:20])[0]
    if len(stream) < 24 + n:
        return ("conn",)
    p = stream[24:24 + n]
    if stream[20:24] != h4(p) or stream[:4] != magic:
        return ("value",)
    return ("ok", stream[:4], stream[4:16].rstrip(b"\0"), p, stream[24 + n:])


# ---------------------------------------------------------------------------------------------------------
# implementation adaptor (runs in the worker)
# ---------------------------------------------------------------------------------------------------------
def _p2p():
    import bits.p2p as m
    return m


class ScriptedSocket:
    def __init__(self, stream, sched, bound):
        # a socket hands out bytes objects, whatever buffer type the harness keeps the scripted stream in
        self.data, self.pos, self.sched, self.i, self.calls, self.bound = bytes(stream), 0, list(sched), 0, 0, bound

    def recv(self, n, *flags):
        self.calls += 1
        if self.calls > self.bound:
            # more recv calls than the budget: observable as a Timeout (= the model's FuelE)
            raise sys.modules["__main__"].CaseTimeout()
        lim = n
        if self.i < len(self.sched):
            lim = min(n, self.sched[self.i])
        self.i += 1
        k = max(0, min(lim, len(self.data) - self.pos))
        out = self.data[self.pos:self.pos + k]
        self.pos += k
        return out


class _default_recursion:
    """the receive path runs under the interpreter's DEFAULT recursion limit (the worker raises it for other reasons):
    how many fragments a message may arrive in must not depend on the depth of the Python stack"""

    def __enter__(self):
        self.old = sys.getrecursionlimit()
        sys.setrecursionlimit(1000)

    def __exit__(self, *a):
        sys.setrecursionlimit(self.old)


def _with_magic(magic, f):
    m = _p2p()
    saved = m.MAGIC_START_BYTES
    m.MAGIC_START_BYTES = magic
    try:
        with _default_recursion():
            return f(m)
    finally:
        m.MAGIC_START_BYTES = saved


def impl_magic_session(cur, steps):
    """a sequence of calls sharing the module global MAGIC_START_BYTES (initially `cur`):
    (0, name) / (1, non-string) set_magic_start_bytes; (2, fuel, stream, sched) recv_msg on a fresh scripted socket;
    (3, command, payload) msg_ser with the global as start string.  A call that raises is 'refused'."""
    m = _p2p()
    saved = m.MAGIC_START_BYTES
    m.MAGIC_START_BYTES = cur
    outs = []
    try:
        with _default_recursion():
            for st in steps:
                try:
                    if st[0] in (0, 1):
                        outs.append(m.set_magic_start_bytes(st[1]))
                    elif st[0] == 2:
                        sk = ScriptedSocket(st[2], st[3], st[1])
                        a, c, p = m.recv_msg(sk)
                        outs.append((a, c, p, sk.data[sk.pos:]))
                    else:
                        outs.append(m.msg_ser(m.MAGIC_START_BYTES, st[1], st[2]))
                except Exception:
                    outs.append("refused")
        return (outs, m.MAGIC_START_BYTES)
    finally:
        m.MAGIC_START_BYTES = saved


def impl_recv_msg(fuel, magic, stream, sched):
    def run(m):
        s = ScriptedSocket(stream, sched, fuel)
        a, c, p = m.recv_msg(s)
        return (a, c, p, stream[s.pos:], s.calls)
    return _with_magic(magic, run)


def impl_recv_msgs(k, fuel, magic, stream, sched):
    def run(m):
        s = ScriptedSocket(stream, sched, fuel)
        out = []
        for _ in range(k):
            s.calls = 0
            out.append(tuple(m.recv_msg(s)))
        return (out, stream[s.pos:])
    return _with_magic(magic, run)


def impl_msg_ser_big(n):
    r = _p2p().msg_ser(MAIN, b"block", bytes(n))
    return (len(r), hashlib.sha256(r).hexdigest())


def big_payload(n):
    """n deterministic, non-constant bytes, cheap to build"""
    blk = bytes(range(1, 252))
    return (blk * (n // len(blk) + 1))[:n]


def big_stream(n, declared, follow=True):
    """independently framed message: n payload bytes present, `declared` in the length field, then a small ping"""
    p = big_payload(n)
    st = MAIN + b"block" + b"\0" * 7 + struct.pack("<I", declared) + h4(p) + p
    return st + (spec_ser(MAIN, b"ping", bytes(range(8))) + b"\x7e" if follow else b""), p


def impl_recv_msg_big(n, declared, chunk):
    """receive a message with an n-byte payload (length field = declared) in chunks of `chunk` bytes (0 = as asked),
    then the small message that follows: [command, len(payload), sha256(payload), [2nd command, 2nd payload], bytes left]"""
    def run(m):
        stream, _ = big_stream(n, declared)
        s = ScriptedSocket(stream, [24] + ([chunk] * (len(stream) // chunk + 2) if chunk else []), 10 ** 6)
        a, c, p = m.recv_msg(s)
        first = [c.hex(), len(p), hashlib.sha256(p).hexdigest()]
        del p
        a2, c2, p2 = m.recv_msg(s)
        return first + [[c2.hex(), p2.hex()], len(stream) - s.pos]
    return _with_magic(MAIN, run)


def expected_recv_msg_big(n, declared):
    if declared != n:
        return ("err", "ConnE")          # the stream ends before the declared length: any error, never a result
    return ("ok", [b"block".hex(), n, hashlib.sha256(big_payload(n)).hexdigest(), [b"ping".hex(), bytes(range(8)).hex()], 1])


def _version_tuple(d):
    ua = d.get("user_agent")
    return (d["protocol_version"], d["services"], d["timestamp"], d["addr_recv_services"],
            d["addr_recv_ip_addr"].encode("ascii"), d["addr_recv_port"], d["addr_trans_services"],
            d["addr_trans_ip_addr"].encode("ascii"), d["addr_trans_port"], d["nonce"], d["user_agent_bytes"],
            ua, d["start_height"], d.get("relay"))


def _getheaders_tuple(d):
    hs = d.get("block_header_hashes")
    return (d["protocol_version"], d["hash_count"], None if hs is None else [bytes.fromhex(h) for h in hs],
            bytes.fromhex(d["stop_hash"]))


def _inv_tuple(d):
    return (d["count"], [(i["type_id"], bytes.fromhex(i["hash"])) for i in d["inventory"]])


def _addr_list(d):
    return [(a["time"], a["services"], a["ip_addr"], a["port"]) for a in d["addrs"]]


def _stub_time(ts, f):
    import types
    m = _p2p()
    saved = m.time
    m.time = types.SimpleNamespace(time=lambda: ts)
    try:
        return f(m)
    finally:
        m.time = saved


def impl_version_payload(ts, sh, rp, tp, pv, sv, relay):
    return _stub_time(ts, lambda m: m.version_payload(sh, rp, tp, protocol_version=pv, services=sv, relay=relay))


def impl_version_rt(ts, sh, rp, tp, pv, sv, relay):
    p = impl_version_payload(ts, sh, rp, tp, pv, sv, relay)
    return (p, _version_tuple(_p2p().parse_version_payload(p)))


def impl_ping_rt(nonce):
    m = _p2p()
    p = m.ping_payload(nonce)
    return (p, m.parse_ping_payload(p)["nonce"])


def impl_getheaders_rt(pv, hc, hs, stop):
    m = _p2p()
    p = m.getheaders_payload(pv, hc, hs, stop)
    return (p, _getheaders_tuple(m.parse_getheaders_payload(p)))


def impl_getblocks_payload(hs, pv):
    m = _p2p()
    return m.getblocks_payload(hs) if pv is None else m.getblocks_payload(hs, pv)


def impl_getblocks_rt(hs, pv):
    m = _p2p()
    before = [bytes(h) for h in hs]
    p = impl_getblocks_payload(hs, pv)
    assert [bytes(h) for h in hs] == before, "getblocks_payload modified its argument"
    return (p, _getheaders_tuple(m.parse_getheaders_payload(p)))


def ref_parse_headers(p):
    """reference receiver of a `headers` payload (developer reference): CompactSize count <= 2000, then count entries of an
    80-byte header and a zero transaction count, nothing after them; None = not a headers message"""
    if not p:
        return None
    w = {0xfd: 2, 0xfe: 4, 0xff: 8}.get(p[0], 0)
    if len(p) < 1 + w:
        return None
    n = int.from_bytes(p[1:1 + w], "little") if w else p[0]
    if n > 2000:
        return None
    o, out = 1 + w, []
    for _ in range(n):
        if len(p) - o < 81 or p[o + 80] != 0:
            return None
        out.append(p[o:o + 80])
        o += 81
    return out if o == len(p) else None


def impl_headers_rt(count, hs):
    p = _p2p().headers_payload(count, hs)
    return (p, ref_parse_headers(p))


def impl_inv_rt(count, items):
    m = _p2p()
    invs = [m.inventory(t, h) for (t, h) in items]
    p = m.inv_payload(count, invs)
    return (p, _inv_tuple(m.parse_inv_payload(p)))


def impl_addr_rt(count, addrs):
    m = _p2p()
    ser = [m.network_ip_addr(t, sv, ip, port) for (t, sv, ip, port) in addrs]
    p = m.addr_payload(count, ser)
    return (p, _addr_list(m.parse_addr_payload(p)))


def impl_parse_payload(command, payload):
    return _canon_parsed(command, _p2p().parse_payload(command, payload))


def _canon_parsed(command, r):
    if r is None:
        return None
    name = command.decode("ascii")
    conv = {"version": _version_tuple, "ping": lambda d: d["nonce"], "getheaders": _getheaders_tuple,
            "feefilter": lambda d: d["feerate"], "sendcmpct": lambda d: (d["announce"], d["version"]),
            "inv": _inv_tuple, "addr": _addr_list}
    return (name, conv[name](r))


class LoopSocket(ScriptedSocket):
    """scripted peer socket for Node.recv_loop: after `bound` recv calls the loop is declared non-terminating; the
    thread's exit_event is then set and TimeoutError raised so that the real loop can be stopped"""

    def __init__(self, stream, sched, bound, stop):
        ScriptedSocket.__init__(self, stream, sched, bound)
        self.sent, self.closed, self.overrun, self.stop = [], False, False, stop

    def recv(self, n, *flags):
        self.calls += 1
        if self.calls > self.bound:
            self.overrun = True
            self.stop()
            raise TimeoutError("scripted socket: recv budget exhausted")
        self.calls -= 1          # ScriptedSocket.recv counts the call itself
        return ScriptedSocket.recv(self, n, *flags)

    def sendall(self, b, *flags):
        self.sent.append(bytes(b))

    def close(self):
        self.closed = True


def impl_recv_loop_eof(magic, frames, tail, sched):
    """the REAL Node.recv_loop in a thread, on a peer that sends the frames (+ a cut-off tail) and closes.
    outcome: [how the loop ended, frames sent back (hex), queue [(peer, command hex, parsed payload)], bytes read]"""
    import threading
    from common import enc

    def run(m):
        stream = b"".join(spec_ser(magic, c, p) for c, p in frames) + tail
        node = m.Node()                                      # __init__ opens no socket
        th = m.PeerThread()                                  # carries exit_event (the body runs in our own thread)
        sock = LoopSocket(stream, sched, len(stream) + 8, th.exit_event.set)
        node._peer_sockets[0], node._peer_data[0], node._peer_threads[0] = sock, {}, th
        end = []

        def body():
            try:
                node.recv_loop(0)
                end.append("exit")
            except BaseException as e:   # noqa: the peer thread would die with this exception
                from common import err_kind
                end.append(err_kind(e))

        t = threading.Thread(target=body, daemon=True)
        t.start()
        t.join(10)
        if t.is_alive():                                     # spinning without even calling recv
            th.exit_event.set()
            t.join(5)
            how = "Timeout"
        else:
            how = "Timeout" if sock.overrun else end[0]
        queue = [[pn, c.hex(), enc(_canon_parsed(c, pl))] for (pn, c, pl) in list(node._msg_queue)]
        return [how, [x.hex() for x in sock.sent], queue, sock.pos]
    return _with_magic(magic, run)


def expected_recv_loop_eof(magic, frames, tail):
    """what the property requires: every complete frame is handled (ping -> pong with the same nonce, version ->
    verack, anything else queued with its parsed payload), then the closed connection ENDS the loop with
    ConnectionError"""
    from common import enc
    sent, queue = [], []
    for c, p in frames:
        if c == b"ping":
            sent.append(spec_ser(magic, b"pong", p).hex())
        elif c == b"version":
            sent.append(spec_ser(magic, b"verack", b"").hex())
        elif c != b"verack":
            queue.append([0, c.hex(), enc(_spec_parsed(c, p))])
    return ["ConnE", sent, queue, sum(24 + len(p) for _, p in frames) + len(tail)]


def _spec_parsed(c, p):
    if c == b"inv":
        return ("inv", _spec_parse_inv(p))
    if c == b"addr":
        n = p[0]
        return ("addr", [(int.from_bytes(p[1 + 30 * i:5 + 30 * i], "little"), p[5 + 30 * i:13 + 30 * i],
                          p[13 + 30 * i:29 + 30 * i], int.from_bytes(p[29 + 30 * i:31 + 30 * i], "big")) for i in range(n)])
    return None      # pong, tx, ...: no parser in the library


def effective_tables(extra_inv, extra_cmds):
    """the tables as the reference defines them plus the entries registered at run time (dict / list semantics)"""
    d = dict(INV_TYPES)
    for k, v in extra_inv:
        d[k] = v
    return list(d.items()), list(SPEC_COMMANDS) + list(extra_cmds)


def impl_table_session(extra_inv, extra_cmds, aliases, steps):
    """register entries in the module-level tables the codecs read at call time (INVENTORY_TYPE_ID, COMMANDS, and
    parse_<command>_payload functions in the module namespace), run the steps, then unregister them again.
    One ["ok", value] / ["err", None] per step."""
    m = _p2p()
    saved_inv = dict(m.INVENTORY_TYPE_ID)
    saved_cmds = list(m.COMMANDS)
    saved_magic = m.MAGIC_START_BYTES
    added_attrs = []
    alias = {a: b for a, b in aliases}
    out = []
    try:
        for k, v in extra_inv:
            m.INVENTORY_TYPE_ID[k] = v
        for c in extra_cmds:
            m.COMMANDS.append(c)
        for new, old in aliases:
            name = "parse_%s_payload" % new.decode("ascii")
            if not hasattr(m, name):
                setattr(m, name, getattr(m, "parse_%s_payload" % old.decode("ascii")))
                added_attrs.append(name)
        with _default_recursion():
            for st in steps:
                try:
                    if st[0] == "inv_rt":
                        v = impl_inv_rt(st[1], st[2])
                    elif st[0] == "inventory":
                        v = m.inventory(st[1], st[2])
                    elif st[0] == "parse_inventory":
                        d = m.parse_inventory(st[1])
                        v = (d["type_id"], bytes.fromhex(d["hash"]))
                    elif st[0] == "ser_recv":
                        _, magic, cmd, payload, rest, sched = st
                        fr = m.msg_ser(magic, cmd, payload)
                        stream = bytes(fr) + bytes(rest)
                        m.MAGIC_START_BYTES = magic
                        sk = ScriptedSocket(stream, sched, len(stream) + 3)
                        a, c, p = m.recv_msg(sk)
                        v = (fr, (a, c, p, stream[sk.pos:], sk.calls))
                    elif st[0] == "parse_inv":
                        v = _inv_tuple(m.parse_payload(b"inv", st[1]))
                    elif st[0] == "parse":
                        target = alias.get(st[1], st[1])
                        v = _canon_parsed(target, m.parse_payload(st[1], st[2]))
                    else:
                        raise RuntimeError("unknown step %r" % (st[0],))
                    out.append(["ok", v])
                except Exception:
                    out.append(["err", None])
        return out
    finally:
        m.MAGIC_START_BYTES = saved_magic
        m.INVENTORY_TYPE_ID.clear()
        m.INVENTORY_TYPE_ID.update(saved_inv)
        m.COMMANDS[:] = saved_cmds
        for name in added_attrs:
            delattr(m, name)


def table_session_model_calls(c):
    extra_inv, extra_cmds, aliases, steps = c["args"]
    tbl, cmds = effective_tables(extra_inv, extra_cmds)
    alias = {bytes(a): bytes(b) for a, b in aliases}
    calls = []
    for st in steps:
        if st[0] == "inv_rt":
            calls.append(("c17_inv_rt_in", [tbl, st[1], st[2]]))
        elif st[0] == "inventory":
            calls.append(("c17_inventory_in", [tbl, st[1], st[2]]))
        elif st[0] == "parse_inventory":
            calls.append(("c17_parse_inventory_in", [tbl, st[1]]))
        elif st[0] == "parse_inv":
            calls.append(("c17_parse_inv_payload_in", [tbl, st[1]]))
        elif st[0] == "ser_recv":
            _, magic, cmd, payload, rest, sched = st
            calls.append(("c17_ser_recv_in", [cmds, 24 + len(cmd) + len(payload) + len(rest) + 40, magic, cmd, payload, rest, sched]))
        else:
            calls.append(("c17_parse_payload", [alias.get(bytes(st[1]), st[1]), st[2]]))
    return calls


def _pnia(d):
    return (d["time"], d["services"], d["ip_addr"], d["port"])


IMPL = {
    "msg_ser": lambda magic, c, p: _p2p().msg_ser(magic, c, p),
    "msg_ser_big": impl_msg_ser_big,
    "recv_msg_big": impl_recv_msg_big,
    "recv_msg": impl_recv_msg,
    "recv_msgs": impl_recv_msgs,
    "recv_loop_eof": impl_recv_loop_eof,
    "magic_session": impl_magic_session,
    "table_session": impl_table_session,
    "version_payload": impl_version_payload,
    "version_rt": impl_version_rt,
    "parse_version_payload": lambda b: _version_tuple(_p2p().parse_version_payload(b)),
    "ping_rt": impl_ping_rt,
    "parse_ping_payload": lambda b: _p2p().parse_ping_payload(b)["nonce"],
    "getheaders_rt": impl_getheaders_rt,
    "parse_getheaders_payload": lambda b: _getheaders_tuple(_p2p().parse_getheaders_payload(b)),
    "inv_rt": impl_inv_rt,
    "inventory": lambda t, h: _p2p().inventory(t, h),
    "parse_inventory": lambda b: (lambda d: (d["type_id"], bytes.fromhex(d["hash"])))(_p2p().parse_inventory(b)),
    "parse_inv_payload": lambda b: _inv_tuple(_p2p().parse_inv_payload(b)),
    "addr_rt": impl_addr_rt,
    "parse_network_ip_addr": lambda b: _pnia(_p2p().parse_network_ip_addr(b)),
    "parse_addr_payload": lambda b: _addr_list(_p2p().parse_addr_payload(b)),
    "parse_feefilter_payload": lambda b: _p2p().parse_feefilter_payload(b)["feerate"],
    "parse_sendcmpct_payload": lambda b: (lambda d: (d["announce"], d["version"]))(_p2p().parse_sendcmpct_payload(b)),
    "parse_payload": impl_parse_payload,
    "getblocks_payload": impl_getblocks_payload,
    "getblocks_rt": impl_getblocks_rt,
    "headers_payload": lambda count, hs: _p2p().headers_payload(count, hs),
    "headers_rt": impl_headers_rt,
}


def model_call(c):
    if c["op"] == "table_session":
        return table_session_model_calls(c)
    return ("c17_" + c["op"], c["args"])


# ---------------------------------------------------------------------------------------------------------
# generators
# ---------------------------------------------------------------------------------------------------------
def compositions_upto(n, max_cuts):
    """all ways to cut n bytes into chunks using at most max_cuts cut points"""
    for k in range(0, max_cuts + 1):
        for cuts in itertools.combinations(range(1, n), k):
            pts = (0,) + cuts + (n,)
            yield [pts[i + 1] - pts[i] for i in range(len(pts) - 1)]


def rand_sched(rng, total, parts):
    if total <= 1 or parts <= 1:
        return [max(total, 1)]
    cuts = sorted(set(rng.randrange(1, total) for _ in range(parts - 1)))
    pts = [0] + cuts + [total]
    return [pts[i + 1] - pts[i] for i in range(len(pts) - 1)]


def gen_cases(rng, tier):
    T = tier == "thorough"
    out = []

    def recv(cls, stream, sched, magic=MAIN, fuel=None, **kw):
        out.append(case(cls, "recv_msg", len(stream) + 3 if fuel is None else fuel, magic, stream, sched, **kw))

    pay8 = bytes(range(1, 9))
    ping = spec_ser(MAIN, b"ping", pay8)
    verack = spec_ser(MAIN, b"verack", b"")
    inv1 = spec_ser(MAIN, b"inv", b"\x01" + struct.pack("<I", 1) + bytes(32))

    # --- msg_ser: every command (bytes and str), payload sizes, rejected commands, MAX_SIZE boundary
    for cmd in SPEC_COMMANDS:
        out.append(case("ser-command", "msg_ser", MAIN, cmd, rng.randbytes(rng.randrange(0, 40)), strict=True))
        out.append(case("ser-command-str", "msg_ser", MAGIC["regtest"], cmd.decode(), b"", strict=True))
    for bad in [b"", b"foo", b"version\0", b"Version", b"ping ", b"averyverylongcommand", b"\xff", "txé", "pin"]:
        out.append(case("ser-bad-command", "msg_ser", MAIN, bad, b"abc", strict=True))
    for n in [0, 1, 2, 255, 256, 65535, 65536] + ([70000] if T else []):
        out.append(case("ser-size", "msg_ser", MAGIC["testnet"], b"block", rng.randbytes(n), strict=True))
    for mg in [b"", b"\x00", b"abcde"]:     # msg_ser does not check the start string
        out.append(case("ser-odd-magic", "msg_ser", mg, b"tx", b"\x01"))
    for n, exp in [(MAX_SIZE, "ok"), (MAX_SIZE + 1, "err"), (MAX_SIZE - 1, "ok")]:
        if exp == "ok":
            r = spec_ser(MAIN, b"block", bytes(n))
            expect = ("ok", [len(r), hashlib.sha256(r).hexdigest()])
        else:
            expect = ("err", "ValueE")
        out.append(case("ser-max-size", "msg_ser_big", n, expect=expect, strict=True))

    # --- receive side of the same boundary: a payload of exactly MAX_SIZE (which msg_ser builds) and MAX_SIZE - 1 bytes
    #     must be received intact, in big chunks, and the small message behind it must not bleed; a declared length
    #     beyond what the peer sends (MAX_SIZE + 1, 2^32 - 1, ...) must end in an error, never in a result
    MiB = 1 << 20
    bigs = [(MAX_SIZE, 8 * MiB), (MAX_SIZE, 0), (MAX_SIZE - 1, 0), (70000, 4096), (MAX_SIZE // 2, 16 * MiB)]
    if T:
        bigs += [(MAX_SIZE, 16 * MiB + 1), (MAX_SIZE, MiB), (MAX_SIZE - 1, 3 * MiB + 1), (MAX_SIZE - 2, 8 * MiB), (MAX_SIZE // 2 + 1, 0)]
    for n, chunk in bigs:
        out.append(case("recv-max-size", "recv_msg_big", n, n, chunk, expect=list(expected_recv_msg_big(n, n)), timeout=120))
    for n, declared in [(100, MAX_SIZE + 1), (100, 0xFFFFFFFF), (0, MAX_SIZE), (5000, MAX_SIZE - 1), (100, MAX_SIZE * 2)]:
        out.append(case("recv-declared-beyond-stream", "recv_msg_big", n, declared, 4096, timeout=120,
                        expect=list(expected_recv_msg_big(n, declared))))

    # --- every command of the table through ser -> recv, all three networks
    for i, cmd in enumerate(SPEC_COMMANDS):
        mg = list(MAGIC.values())[i % 3]
        p = rng.randbytes(i)
        st = spec_ser(mg, cmd, p) + rng.randbytes(i % 4)
        recv("frame-each-command", st, rand_sched(rng, len(st), 1 + i % 5), magic=mg)

    # --- every (bytes so far, chunk size) transition of the header loop and of the payload loop
    msg = ping
    for sofar in range(0, 24):
        for chunk in range(1, 24 - sofar + 2):     # incl. one chunk larger than what is still wanted
            sched = ([sofar] if sofar else []) + [chunk] + [1] * 40
            recv("frag-header-transition", msg + b"\xaa\xbb", sched)
    for sofar in range(0, 8):
        for chunk in range(1, 8 - sofar + 2):
            sched = [24] + ([sofar] if sofar else []) + [chunk] + [1] * 10
            recv("frag-payload-transition", msg + b"\xaa\xbb", sched)

    # --- all compositions (bounded number of cut points) of 1..3 back-to-back short messages
    m3 = [verack, spec_ser(MAIN, b"ping", b"\x07"), spec_ser(MAIN, b"tx", b"\x01\x02")]
    for k in (1, 2, 3):
        stream = b"".join(m3[:k]) + (b"" if k == 2 else b"\xee")
        cuts = (3 if k < 3 else 2) if T else (2 if k == 1 else 1)
        for comp in compositions_upto(len(stream), cuts):
            out.append(case("frag-compositions-%dmsg" % k, "recv_msgs", k, len(stream) + 3, MAIN, stream, comp))
    if T:
        stream = b"".join(m3)
        for comp in compositions_upto(len(stream), 3):
            if rng.random() < 0.25:
                out.append(case("frag-compositions-3msg-3cuts", "recv_msgs", 3, len(stream) + 3, MAIN, stream, comp))
    # all compositions (every subset of cut points) of a short payload, header in one piece / byte by byte
    for L in ((1, 2, 3, 5, 8, 10) if T else (1, 2, 3, 6)):
        p = rng.randbytes(L)
        st = spec_ser(MAIN, b"pong", p) + b"\x55"
        for comp in compositions_upto(L, L):
            recv("frag-payload-all-compositions", st, [24] + comp)
            if L <= 3:
                recv("frag-payload-all-compositions", st, [1] * 24 + comp)
    # byte by byte, whole, two halves, oversize chunks
    for st in (ping, verack, inv1, ping + verack + inv1):
        for sched in ([], [1] * len(st), [len(st) // 2] * 4, [10 ** 6] * 4, [23, 1, 1] + [3] * 30):
            recv("frag-shapes", st + b"\x00\x01", sched)

    # --- random chunkings, payloads up to 70000 bytes
    sizes = [0, 1, 2, 23, 24, 25, 255, 256, 257, 1000, 4096, 65535, 65536, 70000]
    reps = 6 if T else 1
    for n in sizes:
        for _ in range(reps):
            p = rng.randbytes(n)
            cmd = rng.choice(SPEC_COMMANDS)
            rest = rng.randbytes(rng.randrange(0, 30))
            st = spec_ser(MAIN, cmd, p) + rest
            parts = rng.randrange(1, 40 if n > 3000 else 120)
            recv("frag-random-large" if n >= 255 else "frag-random-small", st, rand_sched(rng, len(st), parts),
                 timeout=60)
    for _ in range(1500 if T else 200):
        p = rng.randbytes(rng.randrange(0, 60))
        st = spec_ser(MAIN, rng.choice(SPEC_COMMANDS), p) + rng.randbytes(rng.randrange(0, 5))
        recv("frag-random-small", st, rand_sched(rng, len(st), rng.randrange(1, len(st) + 1)))
    # random back-to-back sequences
    for _ in range(300 if T else 40):
        k = rng.randrange(1, 4)
        ms = [spec_ser(MAIN, rng.choice(SPEC_COMMANDS), rng.randbytes(rng.randrange(0, 30))) for _ in range(k)]
        st = b"".join(ms) + rng.randbytes(rng.randrange(0, 3))
        out.append(case("frag-back-to-back-random", "recv_msgs", k, len(st) + 3, MAIN, st,
                        rand_sched(rng, len(st), rng.randrange(1, 30))))

    # --- NUMBER of fragments one message arrives in (not only their sizes): a header/payload in 1 .. several thousand
    #     recv chunks, around the interpreter's default recursion limit
    many = [(990, 1), (1000, 1), (1010, 1), (1200, 1), (2500, 1), (5000, 2), (3000, 3)]
    if T:
        many += [(18000, 1), (20000, 3), (70000, 7), (70000, 64), (9000, 1)]
    for n, ch in many:
        p = rng.randbytes(n)
        st = spec_ser(MAIN, rng.choice(SPEC_COMMANDS), p) + rng.randbytes(rng.randrange(0, 9))
        recv("frag-many-chunks", st, [ch] * (len(st) // ch + 2), timeout=120)
        recv("frag-many-chunks", st, [24] + [ch] * (n // ch + 2), timeout=120)
    for nch in (10, 100, 500, 900, 1100, 2000):
        n = 4000
        st = spec_ser(MAIN, b"block", rng.randbytes(n))
        recv("frag-many-chunks", st, rand_sched(rng, len(st), nch), timeout=120)

    # --- the module global MAGIC_START_BYTES across sequences of calls: selections (valid, any case), REFUSED calls
    #     (unknown / malformed names, non-strings, msg_ser that raises, messages that are rejected) interleaved with
    #     normal use.  A refused call must leave no trace: what was selected before stays selected.
    valid = ["mainnet", "testnet", "regtest", "MainNet", "REGTEST", "tEsTnEt", "Mainnet"]
    invalid = ["", "main", "mainnet ", " mainnet", "bitcoin", "signet", "testnet3", "regtest\n", "mainnet\x00", "MAINNET2",
               "\uff4dainnet", "ma\u0131nnet", "MA\u0130NNET", "None", "main net", "test", "reg-test", "mainnett"]
    nonstr = [None, 5, 0, b"mainnet", ["mainnet"], True, b""]

    def net_of(name):
        return MAGIC[name.lower()]

    def frame_for(mg, fragmented=True):
        cmd = rng.choice(SPEC_COMMANDS)
        st = spec_ser(mg, cmd, rng.randbytes(rng.randrange(0, 20))) + rng.randbytes(rng.randrange(0, 3))
        return (2, len(st) + 3, st, rand_sched(rng, len(st), rng.randrange(1, 6)) if fragmented else [])

    def bad_step():
        r = rng.random()
        if r < 0.5:
            return (0, rng.choice(invalid))
        if r < 0.75:
            return (1, rng.choice(nonstr))
        return (3, rng.choice([b"", b"nope", b"PING", b"ping\0"]), b"x")

    def sess(cls, cur, steps):
        out.append(case(cls, "magic_session", cur, steps))

    for a in valid:
        for b in invalid:
            if T or rng.random() < 0.35:
                sess("state-select-refused-use", rng.choice(list(MAGIC.values())), [(0, a), (0, b), frame_for(net_of(a))])
        for b in nonstr:
            sess("state-select-refusedtype-use", MAIN, [(0, a), (1, b), frame_for(net_of(a)), (3, b"ping", bytes(8))])
    for b in invalid + nonstr:                       # refused first: the initial selection must survive
        for cur in MAGIC.values():
            if T or rng.random() < 0.5:
                step = (0, b) if isinstance(b, str) else (1, b)
                sess("state-refused-first", cur, [step, frame_for(cur), step, step, frame_for(cur, False)])
    for a in valid:                                  # reselect: the old network's frames are now rejected, the new one's pass
        for b in valid:
            if T or rng.random() < 0.4:
                sess("state-reselect", MAIN, [(0, a), frame_for(net_of(a)), (0, b), frame_for(net_of(a)), frame_for(net_of(b)),
                                              (3, b"verack", b"")])
    for cur in MAGIC.values():                       # refused msg_ser / rejected messages in between
        other = [x for x in MAGIC.values() if x != cur][0]
        bad_ck = bytearray(spec_ser(cur, b"ping", pay8)); bad_ck[21] ^= 1
        sess("state-rejected-message-then-use", cur, [frame_for(other), frame_for(cur), (2, 40, bytes(bad_ck), [5, 40]),
                                                       frame_for(cur), (2, 40, spec_ser(cur, b"ping", pay8)[:20], []),
                                                       frame_for(cur), (3, b"nope", b""), (3, b"ping", pay8), frame_for(cur)])
    for _ in range(600 if T else 120):
        cur = rng.choice(list(MAGIC.values()))
        state, steps = cur, []
        for _ in range(rng.randrange(1, 9)):
            r = rng.random()
            if r < 0.25:
                a = rng.choice(valid)
                steps.append((0, a))
                state = net_of(a)
            elif r < 0.55:
                steps.append(bad_step())
            elif r < 0.9:
                steps.append(frame_for(state if rng.random() < 0.8 else rng.choice(list(MAGIC.values()))))
            else:
                steps.append((3, rng.choice(SPEC_COMMANDS), rng.randbytes(rng.randrange(0, 9))))
        sess("state-random-session", cur, steps)

    # --- module-level tables the codecs read AT CALL TIME (INVENTORY_TYPE_ID, COMMANDS, parse_<command>_payload in the
    #     module namespace): an application registers an entry after import; everything the library can then build
    #     must be parsed back (old and new entries alike); afterwards the entry is removed again
    def h32():
        return rng.randbytes(32)
    inv_extras = [("MSG_WTX", 5), ("MSG_FILTERED_WITNESS_BLOCK", 0x40000003), ("MSG_ZERO", 0), ("MSG_MAX", 0xFFFFFFFF),
                  ("MSG_DSTX", 6), ("X", 0x20000001), ("MSG_TOO_BIG", 2 ** 32), ("MSG_NEG", -1), ("msg_lower", 9),
                  ("MSG_TX", 7), ("MSG_TX2", 1), ("MSG_\u00c4", 10)]
    for name, tid in inv_extras:
        old_names = list(INV_TYPES)
        steps = [("inventory", name, h32()), ("inv_rt", 1, [(name, h32())]), ("inv_rt", 1, [(name.lower(), h32())]),
                 ("inv_rt", 3, [(rng.choice(old_names), h32()), (name, h32()), (rng.choice(old_names), h32())]),
                 ("parse_inventory", struct.pack("<I", tid % 2 ** 32) + h32()),
                 ("parse_inventory", struct.pack("<I", 1) + h32()),
                 ("inv_rt", 2, [("MSG_TX", h32()), ("MSG_WITNESS_BLOCK", h32())]),
                 ("parse_inv", b"\x01" + struct.pack("<I", tid % 2 ** 32) + h32())]
        if not name.isascii():          # the model upper-cases ASCII only
            steps.pop(2)
        out.append(case("table-inventory-registered", "table_session", [(name, tid)], [], [], steps))
    out.append(case("table-inventory-registered", "table_session", [("MSG_WTX", 5), ("MSG_DSTX", 6)], [], [],
                    [("inv_rt", 2, [("MSG_DSTX", h32()), ("msg_wtx", h32())]), ("inv_rt", 254, [("MSG_WTX", h32())] * 254)]))
    out.append(case("table-nothing-registered", "table_session", [], [], [],
                    [("inv_rt", 1, [("MSG_WTX", h32())]), ("inv_rt", 1, [("MSG_TX", h32())]),
                     ("ser_recv", MAIN, b"sendheaders", b"", b"", []), ("ser_recv", MAIN, b"ping", pay8, b"z", [5, 40])]))
    cmd_extras = [b"sendheaders", b"wtxidrelay", b"feefilter", b"abcdefghijkl", b"x", b"sendcmpct", b"a\0b"]
    odd_cmds = [b"abcdefghijklm", b"cmd\0", b"", b"\0lead", b"verylongcommandname"]      # do not fit the 12-byte field / NUL
    for cmd in cmd_extras + odd_cmds:
        pl = rng.randbytes(rng.randrange(0, 20))
        total = 24 + max(0, len(cmd) - 12) + len(pl) + 2
        steps = [("ser_recv", MAIN, cmd, pl, b"\x01\x02", rand_sched(rng, total, rng.randrange(1, 6))),
                 ("ser_recv", MAGIC["regtest"], b"ping", pay8, b"", []),
                 ("ser_recv", MAIN, cmd, b"", b"", [1] * 40),
                 ("ser_recv", MAIN, cmd.upper() + b"!", b"", b"", [])]
        out.append(case("table-command-registered" if cmd in cmd_extras else "table-command-registered-odd", "table_session",
                        [], [cmd], [], steps))
    for new, old_, pl in ((b"pong", b"ping", pay8), (b"getdata", b"inv", b"\x01" + struct.pack("<I", 2) + bytes(32)),
                          (b"notfound", b"inv", b"\x00"), (b"getblocks", b"getheaders", struct.pack("<I", 70015) + b"\x00" + bytes(32)),
                          (b"tx", b"feefilter", bytes(8))):
        out.append(case("table-parser-registered", "table_session", [], [], [(new, old_)],
                        [("parse", new, pl), ("parse", old_, pl), ("parse", b"verack", b""), ("parse", new, pl + b"\xff" * 40)]))
    for _ in range(150 if T else 25):
        ex_i = rng.sample(inv_extras, rng.randrange(0, 3))
        ex_c = rng.sample(cmd_extras, rng.randrange(0, 3))
        pool_n = list(INV_TYPES) + [k for k, _ in ex_i] + ["MSG_WTX", "nope"]
        pool_c = SPEC_COMMANDS + ex_c + [b"sendheaders"]
        steps = []
        for _ in range(rng.randrange(1, 7)):
            if rng.random() < 0.5:
                n = rng.randrange(0, 4)
                steps.append(("inv_rt", n, [(rng.choice(pool_n), h32()) for _ in range(n)]))
            else:
                cmd = rng.choice(pool_c)
                pl = rng.randbytes(rng.randrange(0, 12))
                steps.append(("ser_recv", rng.choice(list(MAGIC.values())), cmd, pl, rng.randbytes(rng.randrange(0, 3)),
                              rand_sched(rng, 24 + len(pl), rng.randrange(1, 5))))
        out.append(case("table-random-session", "table_session", ex_i, ex_c, [], steps))

    # --- payloads that look like the wire format itself (a whole frame / a header / magics inside the payload, a payload
    #     equal to the bytes that follow it) and lists with repeated, normally distinct elements
    inner = spec_ser(MAIN, b"ping", pay8)
    for pl in (inner, inner + inner, MAIN, MAIN * 6, inner[:24], inner[:23], MAIN + b"ping".ljust(12, b"\0") + struct.pack("<I", 0) + h4(b""),
               spec_ser(MAGIC["regtest"], b"verack", b""), struct.pack("<I", 8) + h4(pay8), b"\0" * 24, spec_ser(MAIN, b"tx", inner)):
        for cmd in (b"tx", b"block"):
            st = spec_ser(MAIN, cmd, pl) + pl[:30]
            recv("payload-looks-like-frame", st, rand_sched(rng, len(st), rng.randrange(1, 9)))
            out.append(case("payload-looks-like-frame", "recv_msgs", 2, len(st) + 30, MAIN, spec_ser(MAIN, cmd, pl) + inner,
                            rand_sched(rng, len(st), rng.randrange(1, 9))))
    hh = rng.randbytes(32)
    for n in (2, 3, 253):
        out.append(case("repeated-elements", "inv_rt", n, [("MSG_TX", hh)] * n))
        out.append(case("repeated-elements", "getheaders_rt", 70015, n, [hh] * n, hh))
        out.append(case("repeated-elements", "addr_rt", n, [(7, bytes(8), BIN_IP, 8333)] * n))
    out.append(case("repeated-elements", "getheaders_rt", 70015, 2, [bytes(32), bytes(32)], bytes(32)))

    # --- call budget exactly sufficient / one short (Timeout must coincide with the model's FuelE)
    for sched, need in (([1] * 40, 32), ([24, 8], 2), ([5] * 10, 5 + 2), ([], 2)):
        for fuel in (need, need - 1, need + 1, 1, 0):
            recv("budget-tight", ping + b"\x99", sched, fuel=fuel)

    # --- single-bit flips per region (followed by another message so that a larger length finds bytes)
    base = spec_ser(MAIN, b"ping", pay8)
    follow = spec_ser(MAIN, b"verack", b"") + spec_ser(MAIN, b"ping", bytes(8))
    regions = [("magic", 0, 4), ("command", 4, 16), ("length", 16, 20), ("checksum", 20, 24), ("payload", 24, 32)]
    for name, lo, hi in regions:
        for bit in range(lo * 8, hi * 8):
            if not T and name in ("command", "payload") and bit % 3:
                continue
            b = bytearray(base)
            b[bit // 8] ^= 1 << (bit % 8)
            st = bytes(b) + follow
            recv("flip-" + name, st, rand_sched(rng, len(st), rng.randrange(1, 12)), strict=True)
    for name, lo, hi in regions:        # the same without following bytes: a larger length now meets EOF
        for bit in range(lo * 8, hi * 8, 1 if T else 5):
            b = bytearray(base)
            b[bit // 8] ^= 1 << (bit % 8)
            recv("flip-" + name + "-then-eof", bytes(b), rand_sched(rng, 32, rng.randrange(1, 6)), strict=True)
    # corruption of messages with an EMPTY payload (nothing to checksum but the checksum of b"" must still match), and
    # corruption that turns the declared length into 0 (the payload bytes then belong to the next message)
    for cmd in (b"verack", b"getaddr"):
        empty = spec_ser(MAIN, cmd, b"")
        for bit in range(0, 24 * 8):
            if not T and not (20 * 8 <= bit < 24 * 8) and bit % 4:
                continue
            b = bytearray(empty)
            b[bit // 8] ^= 1 << (bit % 8)
            st = bytes(b) + follow
            recv("flip-empty-payload-message", st, rand_sched(rng, len(st), rng.randrange(1, 8)), strict=True)
            if 20 * 8 <= bit < 24 * 8:
                recv("flip-empty-payload-message", bytes(b), [], strict=True)
    for L in (1, 2, 4, 8, 16, 256, 4096):            # a single bit flip makes the length 0
        p = rng.randbytes(L)
        z = bytearray(spec_ser(MAIN, b"ping" if L == 8 else b"tx", p))
        z[16:20] = b"\0\0\0\0"
        out.append(case("flip-length-to-zero", "recv_msgs", 2, len(z) + len(follow) + 3, MAIN, bytes(z) + follow, [],
                        strict=True))
        recv("flip-length-to-zero", bytes(z) + follow, rand_sched(rng, len(z), 3), strict=True)
    # wrong network magic, all pairs
    for a in MAGIC:
        for b_ in MAGIC:
            recv("magic-network-%s" % ("same" if a == b_ else "other"), spec_ser(MAGIC[a], b"ping", pay8),
                 rand_sched(rng, 32, 3), magic=MAGIC[b_], strict=True)
    # command field variants (outside the checksum): unknown, all NUL, NUL inside, no padding
    for cf in (b"\0" * 12, b"abcdefghijkl", b"a\0b\0\0\0\0\0\0\0\0\0", b"\0ping\0\0\0\0\0\0\0", b"\xff" * 12, b"VERSION\0\0\0\0\0"):
        st = MAIN + cf + struct.pack("<I", 8) + h4(pay8) + pay8
        recv("command-field-variant", st, rand_sched(rng, 32, 4), strict=True)
    # declared length huge / zero with payload bytes following
    for ln in (0, 1, 7, 9, 0xFFFFFFFF, MAX_SIZE + 1):
        st = MAIN + b"ping".ljust(12, b"\0") + struct.pack("<I", ln) + h4(pay8) + pay8
        recv("length-field-variant", st, [], strict=True)

    # --- EOF at every offset
    streams = [ping, verack] + ([ping + verack + inv1, inv1] if T else [])
    for st in streams:
        for k in range(len(st)):
            scheds = ([], [1] * 100, rand_sched(rng, max(k, 1), 4)) if (T or len(st) <= 32) else ([],)
            for sched in scheds:
                recv("eof-every-offset", st[:k], sched, strict=True)
    if T:
        st = ping + verack + inv1
        for k in range(len(st) + 1):
            out.append(case("eof-back-to-back", "recv_msgs", 3, len(st) + 3, MAIN, st[:k], rand_sched(rng, max(k, 1), 5),
                            strict=True))
    # non-positive scheduled chunk = an empty read in the middle = "closed by peer" for the code
    for sched in ([0], [24, 0], [10, 0, 5], [24, 4, 0], [-1], [5, -3]):
        recv("sched-empty-read", ping, sched, strict=True)

    # --- the node's receive path: Node.recv_loop on a peer that sends k frames and then closes the connection
    #     (at a message boundary, inside a header, inside a payload); the loop must END, after answering the pings
    inv_p = b"\x02" + struct.pack("<I", 1) + b"\x11" * 32 + struct.pack("<I", 0x40000002) + b"\x22" * 32
    addr_p = b"\x01" + struct.pack("<I", 7) + b"\x01" * 8 + BIN_IP + struct.pack(">H", 8333)
    vers_p = spec_version(70015, 1, 1700000000, 0, ASCII_IP, 8333, 1, ASCII_IP, 18444, 0, UA, 5, 1)
    menu = [(b"ping", pay8), (b"inv", inv_p), (b"verack", b""), (b"pong", bytes(8)), (b"ping", bytes(range(8, 16))),
            (b"addr", addr_p), (b"version", vers_p), (b"tx", b"\x01\x02\x03")]
    cut_src = spec_ser(MAIN, b"inv", inv_p)
    loops = []
    for k in range(0, 4):
        for cut, cname in ((0, "boundary"), (1, "mid-header"), (23, "mid-header"), (24, "mid-payload"), (30, "mid-payload"),
                           (len(cut_src) - 1, "mid-payload")):
            reps = (4 if T else 1)
            for _ in range(reps):
                fr = [rng.choice(menu) for _ in range(k)] if (k != 1 or rng.random() < 0.5) else [menu[0]]
                loops.append((cname, fr, cut_src[:cut]))
    loops.append(("boundary", [menu[0], menu[1]], b""))          # the coordinator's scenario: ping, inv, then EOF
    loops.append(("mid-payload", [menu[0]], cut_src[:30]))
    for cname, fr, tail in loops:
        total = sum(24 + len(p) for _, p in fr) + len(tail)
        for sched in ([], [1] * total, rand_sched(rng, max(total, 1), rng.randrange(1, 9))) if T else \
                (rng.choice([[], [1] * total, rand_sched(rng, max(total, 1), rng.randrange(1, 9))]),):
            for mg in ((MAIN, MAGIC["regtest"]) if T and not sched else (MAIN,)):
                fr2 = [(c, p) for c, p in fr]
                tail2 = tail if mg == MAIN else (mg + tail[4:] if len(tail) >= 4 else tail)
                out.append(case("loop-eof-" + cname, "recv_loop_eof", mg, fr2, tail2, sched,
                                expect=("ok", expected_recv_loop_eof(mg, fr2, tail2)), timeout=40))

    # ------------------------------------------------------------------------------------ codecs
    U32, U64, U16 = 2 ** 32, 2 ** 64, 2 ** 16
    base_v = dict(ts=1700000000, sh=5, rp=8333, tp=18444, pv=70015, sv=1, relay=True)

    def vcase(cls, **kw):
        d = dict(base_v)
        d.update(kw)
        out.append(case(cls, "version_rt", d["ts"], d["sh"], d["rp"], d["tp"], d["pv"], d["sv"], d["relay"]))

    vcase("version-base")
    vcase("version-relay-off", relay=False)
    for f, top in (("ts", U64), ("sh", U32), ("rp", U16), ("tp", U16), ("pv", U32), ("sv", U64)):
        for v in (0, 1, top - 1, top, -1, top // 2):
            vcase("version-field-in-range" if 0 <= v < top else "version-field-overflow", **{f: v})
    for _ in range(200 if T else 30):
        vcase("version-random", ts=rng.randrange(U64), sh=rng.randrange(U32), rp=rng.randrange(U16),
              tp=rng.randrange(U16), pv=rng.randrange(U32), sv=rng.randrange(U64), relay=rng.random() < 0.5)
    # the parser against reference encodings: user agent lengths, relay byte, address bytes
    def spec_v(ua=UA, relay=1, rip=ASCII_IP, tip=ASCII_IP, sh=100, nonce=7):
        return spec_version(70015, 1033, 1700000000, 1, rip, 8333, 1033, tip, 18444, nonce, ua, sh, relay)
    for n in (0, 1, 12, 100, 252):
        for relay in (0, 1):
            out.append(case("parse-version-ua-%s" % ("empty" if n == 0 else "short"), "parse_version_payload",
                            spec_v(ua=rng.randbytes(n), relay=relay, nonce=rng.randrange(U64)), strict=True))
    for n in (253, 254, 255, 300, 65535 if T else 1000):
        out.append(case("parse-version-ua-253plus", "parse_version_payload", spec_v(ua=b"A" * n), strict=True))
    out.append(case("parse-version-no-relay", "parse_version_payload", spec_v(relay=None), strict=True))
    out.append(case("parse-version-no-relay", "parse_version_payload", spec_v(ua=b"", relay=None), strict=True))
    out.append(case("parse-version-relay-other", "parse_version_payload", spec_v(relay=2), strict=True))
    out.append(case("parse-version-relay-other", "parse_version_payload", spec_v(ua=b"", relay=255), strict=True))
    out.append(case("parse-version-binary-ip", "parse_version_payload", spec_v(rip=BIN_IP), strict=True))
    out.append(case("parse-version-binary-ip", "parse_version_payload", spec_v(tip=BIN_IP), strict=True))
    good = spec_v()
    for k in range(len(good) + 1):
        out.append(case("parse-version-truncated", "parse_version_payload", good[:k], strict=True))
    out.append(case("parse-version-trailing", "parse_version_payload", good + b"\0", strict=True))
    out.append(case("parse-version-trailing", "parse_version_payload", spec_v(ua=b"") + b"\0", strict=True))
    for pre in (b"\xfd\x00\x00", b"\xfe\x00\x00\x00\x00", b"\xff" + bytes(8), b"\xfd\x03\x00"):   # non-minimal lengths
        out.append(case("parse-version-ua-nonminimal", "parse_version_payload",
                        good[:80] + pre + b"abc" + struct.pack("<I", 9) + b"\x01", strict=True))
    for _ in range(300 if T else 40):
        out.append(case("parse-version-random-bytes", "parse_version_payload", rng.randbytes(rng.randrange(0, 120))))

    # ping
    for n in (0, 1, 255, 256, U32 - 1, U32, U64 - 1, U64, -1, 2 ** 63):
        out.append(case("ping-in-range" if 0 <= n < U64 else "ping-overflow", "ping_rt", n, strict=True))
    for _ in range(100 if T else 20):
        out.append(case("ping-random", "ping_rt", rng.randrange(U64)))
    for L in range(0, 11):
        out.append(case("parse-ping-length", "parse_ping_payload", rng.randbytes(L)))

    # getheaders: hash counts crossing 252/253 (and 2^16 in the thorough tier)
    def hashes(n):
        return [rng.randbytes(32) for _ in range(n)]
    for n in [0, 1, 2, 3, 252, 253, 254, 255, 256, 300] + ([65535, 65536] if T else []):
        out.append(case("getheaders-count-%s" % ("le252" if n <= 252 else ("253plus" if n < 65536 else "65536plus")),
                        "getheaders_rt", 70015, n, hashes(n), rng.randbytes(32), timeout=120))
    for pv in (0, U32 - 1, U32, -1):
        out.append(case("getheaders-version-bound", "getheaders_rt", pv, 1, hashes(1), bytes(32), strict=True))
    for hc, n in ((0, 1), (1, 0), (2, 1), (1, 2), (253, 2), (-1, 1), (U64, 1), (U64 - 1, 1), (2 ** 40, 0)):
        out.append(case("getheaders-count-mismatch", "getheaders_rt", 70015, hc, hashes(n), bytes(32), strict=True))
    out.append(case("getheaders-odd-lengths", "getheaders_rt", 1, 2, [b"\x01" * 31, b"\x02" * 33], b"\x03" * 32))
    out.append(case("getheaders-odd-lengths", "getheaders_rt", 1, 1, [b"\x01" * 32], b"\x03" * 31))
    out.append(case("getheaders-odd-lengths", "getheaders_rt", 1, 1, [b"\x01" * 32], b"\x03" * 33, strict=True))
    gh = struct.pack("<I", 70015) + b"\x02" + bytes(range(64)) + b"\xaa" * 32
    for k in range(len(gh) + 2):
        out.append(case("parse-getheaders-truncated", "parse_getheaders_payload", (gh + b"\0\0")[:k], strict=True))
    for _ in range(200 if T else 30):
        out.append(case("parse-getheaders-random-bytes", "parse_getheaders_payload", rng.randbytes(rng.randrange(0, 80))))

    # getblocks (Props/C17Ext.v): hash counts crossing 252/253, the optional version argument, odd hash widths
    for n in [0, 1, 2, 3, 252, 253, 254, 255, 256, 300, 500, 501] + ([65535, 65536] if T else []):
        cls = "getblocks-count-%s" % ("0" if n == 0 else ("le252" if n <= 252 else ("253plus" if n < 65536 else "65536plus")))
        out.append(case(cls, "getblocks_rt", hashes(n), None, timeout=120))
        out.append(case(cls, "getblocks_rt", hashes(n), rng.choice([70015, 70016, 209, 31800, 60002]), timeout=120))
    for pv in (0, 1, U32 - 1, U32, -1, 2 ** 64):
        out.append(case("getblocks-version-%s" % ("in-range" if 0 <= pv < U32 else "overflow"), "getblocks_rt", hashes(2), pv, strict=True))
        out.append(case("getblocks-version-%s" % ("in-range" if 0 <= pv < U32 else "overflow"), "getblocks_payload", hashes(1), pv, strict=True))
    out.append(case("getblocks-default-version", "getblocks_payload", hashes(1), None, strict=True))
    out.append(case("getblocks-default-version", "getblocks_payload", [], None, strict=True))
    for hs in ([b"\x01" * 31], [b"\x01" * 33], [b"", b"\x02" * 64], [b"\x01" * 31, b"\x02" * 33], [b"\x05" * 16] * 2, [b""] * 3):
        out.append(case("getblocks-odd-lengths", "getblocks_rt", hs, 70015))
    hh = rng.randbytes(32)
    out.append(case("getblocks-repeated-hash", "getblocks_rt", [hh] * 5, None))
    out.append(case("getblocks-zero-hashes", "getblocks_rt", [bytes(32)] * 3, 70015))
    # headers: counts crossing 252/253 and the documented maximum 2000; count is an argument of its own
    def hdrs(n):
        return [rng.randbytes(80) for _ in range(n)]
    for n in [0, 1, 2, 3, 252, 253, 254, 255, 256, 1999, 2000, 2001] + ([65535, 65536] if T else []):
        cls = "headers-count-%s" % ("0" if n == 0 else ("le252" if n <= 252 else ("253to2000" if n <= 2000 else "gt2000")))
        out.append(case(cls, "headers_rt", n, hdrs(n), timeout=120))
    for c, n in ((0, 1), (1, 0), (2, 1), (1, 2), (253, 2), (252, 253), (2001, 0), (2000, 1), (65536, 1), (U32, 0), (U64 - 1, 1)):
        out.append(case("headers-count-mismatch", "headers_rt", c, hdrs(n), strict=True))
    for c in (-1, U64, 2 ** 70, -2 ** 63):
        out.append(case("headers-count-refused", "headers_rt", c, hdrs(1), strict=True))
        out.append(case("headers-count-refused", "headers_payload", c, [], strict=True))
    for L in (0, 1, 79, 81, 82, 160):
        out.append(case("headers-odd-lengths", "headers_rt", 1, [rng.randbytes(L)]))
        out.append(case("headers-odd-lengths", "headers_rt", 2, [rng.randbytes(80), rng.randbytes(L)]))
    out.append(case("headers-odd-lengths", "headers_rt", 2, [rng.randbytes(79), rng.randbytes(81)]))       # 162 bytes, misaligned
    out.append(case("headers-odd-lengths", "headers_rt", 2, [bytes(81), bytes(79)]))                        # zero bytes: reads back shifted
    hx = rng.randbytes(80)
    out.append(case("headers-repeated", "headers_rt", 3, [hx, hx, hx]))
    out.append(case("headers-payload", "headers_payload", 2, hdrs(2), strict=True))
    for cmd in (b"getblocks", b"headers"):      # no parser of their own in the module
        out.append(case("parse-payload-no-parser", "parse_payload", cmd, struct.pack("<I", 70015) + b"\x00" + bytes(32), strict=True))

    # inv: all inventory types, counts crossing 252/253
    names = list(INV_TYPES)
    for t in names:
        out.append(case("inv-each-type", "inv_rt", 1, [(t, rng.randbytes(32))], strict=True))
        out.append(case("inv-type-lower", "inv_rt", 1, [(t.lower(), rng.randbytes(32))], strict=True))
        out.append(case("inventory-each-type", "inventory", t.title(), rng.randbytes(32), strict=True))
    for t in ("MSG_WTX", "", "msg", "MSG_FILTERED_WITNESS_BLOCK", "1"):
        out.append(case("inv-unknown-type", "inv_rt", 1, [(t, bytes(32))], strict=True))
    for n in [0, 1, 2, 50, 252, 253, 254, 255, 256, 257, 500, 509, 510, 511] + ([65535, 65536, 65537] if T else []):
        items = [(rng.choice(names), rng.randbytes(32)) for _ in range(n)]
        out.append(case("inv-count-%s" % ("le252" if n <= 252 else "253plus"), "inv_rt", n, items, timeout=120))
    for c, n in ((0, 1), (1, 0), (2, 1), (1, 2), (253, 1), (-1, 1), (U64, 0), (U64 - 1, 1)):
        out.append(case("inv-count-mismatch", "inv_rt", c, [(names[i % 6], bytes([i]) * 32) for i in range(n)], strict=True))
    out.append(case("inv-odd-hash-length", "inv_rt", 1, [("MSG_TX", bytes(31))], strict=True))
    out.append(case("inv-odd-hash-length", "inv_rt", 2, [("MSG_TX", bytes(33)), ("MSG_BLOCK", bytes(31))], strict=True))
    for tid in (0, 5, 1 << 30, (1 << 30) | 3, 0xFFFFFFFF):
        out.append(case("parse-inventory-unknown-id", "parse_inventory", struct.pack("<I", tid) + bytes(32), strict=True))
    for L in (0, 35, 36, 37):
        out.append(case("parse-inventory-length", "parse_inventory", (struct.pack("<I", 1) + bytes(40))[:L], strict=True))
    one = struct.pack("<I", 2) + b"\x09" * 32
    for raw in (b"", b"\x00", b"\x01", b"\x01" + one, b"\x02" + one, b"\x01" + one + b"zz", b"\xfd\x01\x00" + one,
                b"\xfe\x01\x00\x00\x00" + one, b"\xff" + struct.pack("<Q", 1) + one, b"\xfd", b"\xfd\x01",
                b"\xff" + b"\xff" * 8 + one, b"\xfd\x00\x00"):
        out.append(case("parse-inv-raw", "parse_inv_payload", raw, strict=True))
    for _ in range(200 if T else 30):
        out.append(case("parse-inv-random-bytes", "parse_inv_payload", rng.randbytes(rng.randrange(0, 90))))

    # addr
    def entry():
        return (rng.randrange(U32), rng.randbytes(8), rng.choice([BIN_IP, rng.randbytes(16)]), rng.randrange(U16))
    for n in [0, 1, 2, 252, 253, 254, 255, 256, 257, 1000] + ([65535, 65536] if T else []):
        out.append(case("addr-count-%s" % ("le252" if n <= 252 else "253plus"), "addr_rt", n, [entry() for _ in range(n)],
                        timeout=120))
    for t, port in ((0, 0), (U32 - 1, U16 - 1), (U32, 1), (-1, 1), (1, U16), (1, -1)):
        out.append(case("addr-field-bound", "addr_rt", 1, [(t, bytes(8), BIN_IP, port)], strict=True))
    for sv, ip in ((bytes(7), BIN_IP), (bytes(9), BIN_IP), (bytes(8), bytes(15)), (bytes(8), bytes(17)), (b"", b"")):
        out.append(case("addr-odd-lengths", "addr_rt", 1, [(5, sv, ip, 8333)]))
    for c, n in ((0, 1), (1, 0), (3, 1), (1, 2), (-1, 1), (U64, 1), (300, 1)):
        out.append(case("addr-count-mismatch", "addr_rt", c, [entry() for _ in range(n)], strict=True))
    for L in (0, 1, 4, 12, 28, 29, 30, 31, 40):
        out.append(case("parse-network-ip-addr-length", "parse_network_ip_addr", rng.randbytes(L)))
    for raw in (b"", b"\x00", b"\x01", b"\x02" + bytes(30), b"\xfd\x01\x00" + bytes(30), b"\xfd", b"\xfe\x02\x00\x00\x00" + bytes(45)):
        out.append(case("parse-addr-raw", "parse_addr_payload", raw, strict=True))

    # feefilter / sendcmpct / parse_payload dispatch
    for L in (0, 7, 8, 9, 10):
        out.append(case("parse-feefilter-length", "parse_feefilter_payload", rng.randbytes(L), strict=True))
        out.append(case("parse-sendcmpct-length", "parse_sendcmpct_payload", rng.randbytes(L), strict=True))
    samples = {b"version": good, b"ping": bytes(8), b"getheaders": gh, b"feefilter": bytes(8), b"sendcmpct": bytes(9),
               b"inv": b"\x01" + one, b"addr": b"\x01" + bytes(30)}
    for cmd in SPEC_COMMANDS + [b"feefilter", b"sendcmpct", b"sendheaders", b"wtxidrelay", b"", b"inventory",
                                b"network_ip_addr", b"compact_size_uint", b"PING", b"ping\0"]:
        out.append(case("parse-payload-dispatch", "parse_payload", cmd, samples.get(cmd, b"\x01\x02"), strict=True))
        out.append(case("parse-payload-dispatch-empty", "parse_payload", cmd, b"", strict=True))
    for n in (252, 253, 254, 255, 256):
        body = b"".join(struct.pack("<I", INV_TYPES[rng.choice(names)]) + rng.randbytes(32) for _ in range(n))
        out.append(case("parse-payload-inv-count", "parse_payload", b"inv", spec_cs(n) + body, strict=True))
        out.append(case("parse-payload-addr-count", "parse_payload", b"addr", spec_cs(n) + rng.randbytes(30 * n), strict=True))
    out.append(case("parse-payload-nonascii-command", "parse_payload", b"pi\xffg", bytes(8), strict=True))
    return out


# ---------------------------------------------------------------------------------------------------------
# the literal property on the implementation
# ---------------------------------------------------------------------------------------------------------
def _run_recv(fuel, magic, stream, sched):
    m = _p2p()
    s = ScriptedSocket(stream, sched, fuel)
    saved = m.MAGIC_START_BYTES
    m.MAGIC_START_BYTES = magic
    try:
        try:
            with _default_recursion():
                r = ("ok",) + tuple(m.recv_msg(s))
        except ConnectionError:
            r = ("conn",)
        except ValueError:
            r = ("value",)
        except BaseException as e:   # budget exceeded (CaseTimeout) or any other exception
            r = ("timeout" if type(e).__name__ == "CaseTimeout" else "other:" + type(e).__name__,)
    finally:
        m.MAGIC_START_BYTES = saved
    return r, s


def _oracle_recv_once(fuel, magic, stream, sched, pos0=0):
    """returns (failure or None, bytes consumed, ok?)"""
    positive = all(c > 0 for c in sched)
    ref = ref_recv(magic, stream)
    r, s = _run_recv(fuel, magic, stream, sched)
    if fuel >= len(stream) + 1 and r[0] == "timeout":
        return ("recv_msg made more than |stream|+1 = %d recv calls without returning (does not terminate)"
                % (len(stream) + 1)), s.pos, False
    if r[0].startswith("other"):
        return "recv_msg raised %s (neither a result, ValueError nor ConnectionError)" % r[0][6:], s.pos, False
    if not positive:
        if r[0] == "ok" and (ref[0] != "ok" or r[1:] != ref[1:4]):
            return "accepted %r but the stream holds %r" % (r[1:], ref), s.pos, False
        return None, s.pos, r[0] == "ok"
    if ref[0] == "ok":
        need = 24 + len(ref[3])
        if fuel < need:
            return None, s.pos, r[0] == "ok"
        if r[0] != "ok":
            return "a well-formed message was not received: outcome %s" % r[0], s.pos, False
        if r[1:] != ref[1:4]:
            return "received %r, sent %r" % (r[1:], ref[1:4]), s.pos, False
        if stream[s.pos:] != ref[4]:
            return "socket left at offset %d, the message ends at %d (bytes of the next message consumed or left behind)" % (
                s.pos, len(stream) - len(ref[4])), s.pos, False
        if s.calls > need:
            return "%d recv calls for a message of %d bytes" % (s.calls, need), s.pos, False
        return None, s.pos, True
    if ref[0] == "conn":
        if fuel >= len(stream) + 1 and r[0] != "conn":
            return "peer closed the connection inside a message: expected ConnectionError, got %s" % (r[0],), s.pos, False
        return None, s.pos, False
    # ref value error (bad checksum / magic on a complete frame)
    if fuel >= len(stream) + 1 and r[0] != "value":
        return "corrupted message (checksum or magic mismatch) not rejected with ValueError: outcome %s %r" % (
            r[0], r[1:]), s.pos, False
    return None, s.pos, False


def _in(v, top):
    return isinstance(v, int) and 0 <= v < top


def prop_oracle(c):
    m = _p2p()
    op, a = c["op"], c["args"]
    if op == "recv_msg":
        return _oracle_recv_once(*a)[0]
    if op == "table_session":
        extra_inv, extra_cmds, aliases, steps = a
        tbl, cmds = effective_tables([tuple(x) for x in extra_inv], extra_cmds)
        ids = [v for _, v in tbl]
        usable = {k for k, v in tbl if k == k.upper() and k.isascii() and 0 <= v < 2 ** 32 and ids.count(v) == 1}
        got = impl_table_session(extra_inv, extra_cmds, aliases, steps)
        reg = "with %r registered in INVENTORY_TYPE_ID, %r in COMMANDS, parsers %r" % (extra_inv, extra_cmds, aliases)
        for i, (st, g) in enumerate(zip(steps, got)):
            if st[0] == "inv_rt":
                count, items = st[1], [tuple(x) for x in st[2]]
                if count == len(items) and all(t.upper() in usable and len(h) == 32 for t, h in items):
                    want = (count, [(t.upper(), h) for t, h in items])
                    if g[0] != "ok":
                        return "step %d: an inv payload the library BUILDS (%s) cannot be parsed back (%s)" % (
                            i, [t for t, _ in items], reg)
                    if (g[1][1][0], [tuple(x) for x in g[1][1][1]]) != want:
                        return "step %d: parse_inv_payload(inv_payload(...)) differs from the entries it was built from (%s)" % (i, reg)
            elif st[0] in ("parse_inv", "parse_inventory"):
                types = {k: v for k, v in tbl if k in usable}
                raw = st[1] if st[0] == "parse_inv" else b"\x01" + st[1]
                want = _spec_parse_inv(raw, types) if len(types) == len(tbl) else None
                if want is not None:
                    gv = None if g[0] != "ok" else (g[1] if st[0] == "parse_inv" else (1, [g[1]]))
                    if gv is None or (gv[0], [tuple(x) for x in gv[1]]) != want:
                        return "step %d: a well-formed inv entry of type %s (a type the library builds) is not parsed back: %s (%s)" % (
                            i, [t for t, _ in want[1]], "refused" if gv is None else gv, reg)
            elif st[0] == "ser_recv":
                _, magic, cmd, payload, rest, sched = st
                if cmd in cmds and 1 <= len(cmd) <= 12 and not cmd.endswith(b"\0") and all(x > 0 for x in sched):
                    if g[0] != "ok":
                        return "step %d: command %r is in COMMANDS but its message is not serialised/received (%s)" % (i, cmd, reg)
                    fr, r = g[1]
                    if fr != spec_ser(magic, cmd, payload) or tuple(r[:4]) != (magic, cmd, payload, rest):
                        return "step %d: message %r received as %r (%s)" % (i, (magic, cmd, payload), tuple(r[:3]), reg)
            elif st[0] == "parse" and any(bytes(n) == bytes(st[1]) for n, _ in aliases):
                target = [bytes(o) for n, o in aliases if bytes(n) == bytes(st[1])][0]
                try:
                    ref = ["ok", _canon_parsed(target, m.parse_payload(target, st[2]))]
                except Exception:
                    ref = ["err", None]
                if common_norm(g) != common_norm(ref):
                    return "step %d: parse_payload(%r) does not use the parser registered for it (%s)" % (i, st[1], reg)
        return None
    if op == "magic_session":
        cur, steps = a
        got, final = impl_magic_session(cur, steps)
        state, refused_before = bytes(cur), []
        for i, (st, g) in enumerate(zip(steps, got)):
            g = tuple(g) if isinstance(g, (list, tuple)) else g
            if st[0] in (0, 1):
                name = st[1]
                ok = isinstance(name, str) and name.lower() in MAGIC
                if ok:
                    want, state = True, MAGIC[name.lower()]
                else:
                    want = "refused"
                    refused_before.append("set_magic_start_bytes(%r)" % (name,))
                what = "set_magic_start_bytes(%r)" % (name,)
            elif st[0] == 2:
                ref = ref_recv(state, bytes(st[2]))
                want = tuple(ref[1:5]) if ref[0] == "ok" else "refused"
                what = "recv_msg of a %s message" % ("correctly framed (selected network)" if ref[0] == "ok" else "bad")
            else:
                want = spec_ser(state, st[1], st[2]) if st[1] in SPEC_COMMANDS else "refused"
                if want == "refused":
                    refused_before.append("msg_ser(%r)" % (st[1],))
                what = "msg_ser(MAGIC_START_BYTES, %r, ...)" % (st[1],)
            if g != want:
                return "call %d, %s: got %r, required %r (selected start string %s; refused calls so far: %s) - a refused " \
                       "call must leave no trace" % (i, what, g, want, state.hex(), ", ".join(refused_before) or "none")
        if final != state:
            return "MAGIC_START_BYTES is %r after the session, the last successful selection was %s" % (final, state.hex())
        return None
    if op == "recv_loop_eof":
        magic, frames, tail, sched = a
        frames = [tuple(f) for f in frames]
        got = impl_recv_loop_eof(magic, frames, tail, sched)
        want = expected_recv_loop_eof(magic, frames, tail)
        if got[0] == "Timeout":
            return "the peer closed the connection but Node.recv_loop keeps calling recv (more than |stream|+8 = %d " \
                   "calls): the receive path does not terminate" % (want[3] + 8)
        if got[0] == "exit" and want[0] == "ConnE":
            pass        # leaving the loop in an orderly way is as good as the ConnectionError
        elif got[0] != want[0]:
            return "Node.recv_loop ended with %s, expected %s" % (got[0], want[0])
        if got[1] != want[1]:
            return "replies sent before the connection closed: %r, required (pong per ping, verack per version): %r" % (
                got[1], want[1])
        if got[2] != want[2]:
            return "queued messages %r, required %r" % (got[2], want[2])
        return None
    if op == "recv_msgs":
        k, fuel, magic, stream, sched = a
        # literal statement: k back-to-back receives on one socket = the k messages of the stream, nothing bleeds
        pos, i = 0, 0
        s = ScriptedSocket(stream, sched, fuel)
        saved = m.MAGIC_START_BYTES
        m.MAGIC_START_BYTES = magic
        try:
            for _ in range(k):
                ref = ref_recv(magic, stream[pos:])
                s.calls = 0
                try:
                    with _default_recursion():
                        r = ("ok",) + tuple(m.recv_msg(s))
                except ConnectionError:
                    r = ("conn",)
                except ValueError:
                    r = ("value",)
                except BaseException as e:
                    r = ("timeout" if type(e).__name__ == "CaseTimeout" else "other:" + type(e).__name__,)
                if all(x > 0 for x in sched):
                    if r[0] != ref[0] or (r[0] == "ok" and r[1:] != ref[1:4]):
                        return "message %d: got %r, the stream holds %r" % (i, r[:4], ref[:4])
                    if r[0] == "ok" and stream[s.pos:] != ref[4]:
                        return "message %d: socket left at %d, message ends at %d" % (i, s.pos, len(stream) - len(ref[4]))
                elif r[0] == "timeout" and fuel >= len(stream) + 1:
                    return "does not terminate"
                if r[0] != "ok":
                    return None
                pos = s.pos
                i += 1
        finally:
            m.MAGIC_START_BYTES = saved
        return None
    if op == "msg_ser":
        magic, cmd, p = a
        cb = cmd.encode("ascii", "replace") if isinstance(cmd, str) else cmd
        try:
            r = m.msg_ser(magic, cmd, p)
        except ValueError:
            r = None
        if cb in SPEC_COMMANDS and len(p) <= MAX_SIZE:
            if r != spec_ser(magic, cb, p):
                return "msg_ser does not produce start|command|length|checksum|payload"
        elif r is not None:
            return "msg_ser accepted a command outside the table / an oversize payload"
        return None
    if op == "recv_msg_big":
        n, declared, chunk = a
        try:
            got = impl_recv_msg_big(n, declared, chunk)
        except ValueError as e:
            got = "ValueError: %s" % e
        except ConnectionError as e:
            got = "ConnectionError: %s" % e
        want = expected_recv_msg_big(n, declared)
        if want[0] == "ok":
            if isinstance(got, str):
                return "a correctly framed message with a %d-byte payload (MAX_SIZE = %d; msg_ser builds it) is refused: %s" % (
                    n, MAX_SIZE, got)
            if common_norm(got) != common_norm(want[1]):
                return "message with a %d-byte payload received as %r, sent %r" % (n, got, want[1])
        elif not isinstance(got, str):
            return "declared length %d but only %d payload bytes before EOF: recv_msg returned a message %r" % (declared, n, got[:3])
        return None
    if op == "msg_ser_big":
        n = a[0]
        try:
            r = m.msg_ser(MAIN, b"block", bytes(n))
        except ValueError:
            r = None
        if (n <= MAX_SIZE) != (r is not None):
            return "payload of %d bytes: accepted=%s, MAX_SIZE=%d" % (n, r is not None, MAX_SIZE)
        return None
    U32, U64, U16 = 2 ** 32, 2 ** 64, 2 ** 16
    if op == "parse_payload" and a[0] == b"inv":
        want = _spec_parse_inv(a[1])
        if want is None:
            return None
        got = impl_parse_payload(a[0], a[1])
        if got is None or (got[1][0], [tuple(x) for x in got[1][1]]) != want:
            return "parse_payload(b'inv', ...) does not return the %d entries of a well-formed inv payload" % want[0]
        return None
    if op == "parse_inv_payload":
        raw = a[0]
        want = _spec_parse_inv(raw)
        if want is None:
            return None
        got = _inv_tuple(m.parse_inv_payload(raw))
        if (got[0], [tuple(x) for x in got[1]]) != want:
            return "parse_inv_payload returned %r for a well-formed inv payload holding %r" % (got, want)
        return None
    if op == "version_rt":
        ts, sh, rp, tp, pv, sv, relay = a
        if not (_in(ts, U64) and _in(sh, U32) and _in(rp, U16) and _in(tp, U16) and _in(pv, U32) and _in(sv, U64)):
            return None
        p, t = impl_version_rt(*a)
        want = (pv, sv, ts, 0, ASCII_IP, rp, sv, ASCII_IP, tp, 0, len(UA), UA, sh, bool(relay))
        if t != want:
            return "parse_version_payload(version_payload(...)) = %r, built from %r" % (t, want)
        if p != spec_version(pv, sv, ts, 0, ASCII_IP, rp, sv, ASCII_IP, tp, 0, UA, sh, 1 if relay else 0):
            return "version_payload is not the reference layout"
        return None
    if op == "parse_version_payload" and c["cls"] in ("parse-version-ua-empty", "parse-version-ua-short"):
        # reference encoding with ASCII addresses, user agent < 253, relay present: must invert
        t = _version_tuple(m.parse_version_payload(a[0]))
        if spec_version(t[0], t[1], t[2], t[3], t[4], t[5], t[6], t[7], t[8], t[9], t[11] or b"", t[12],
                        None if t[13] is None else int(t[13])) != a[0] or t[10] != len(t[11] or b""):
            return "parsed fields do not re-encode to the payload"
        return None
    if op == "ping_rt":
        if not _in(a[0], U64):
            return None
        p, n = impl_ping_rt(a[0])
        return None if (n == a[0] and p == struct.pack("<Q", a[0])) else "parse_ping_payload(ping_payload(n)) = %r" % (n,)
    if op == "getheaders_rt":
        pv, hc, hs, stop = a
        if not (_in(pv, U32) and hc == len(hs) and all(len(h) == 32 for h in hs) and len(stop) == 32):
            return None
        p, t = impl_getheaders_rt(*a)
        want = (pv, hc, hs if hs else None, stop)
        if (t[0], t[1], t[2], t[3]) != want:
            return "parse_getheaders_payload(getheaders_payload(...)) differs: count %r, %d hashes, first %r" % (
                t[1], len(t[2] or []), (t[2] or [b""])[0][:4])
        if p != struct.pack("<I", pv) + spec_cs(hc) + b"".join(hs) + stop:
            return "getheaders_payload is not the reference layout"
        return None
    if op in ("getblocks_rt", "getblocks_payload"):
        hs, pv = a
        v = 70015 if pv is None else pv
        if not (_in(v, U32) and all(len(h) == 32 for h in hs)):
            return None
        want_p = struct.pack("<I", v) + spec_cs(len(hs)) + b"".join(hs) + bytes(32)
        if op == "getblocks_payload":
            return None if impl_getblocks_payload(hs, pv) == want_p else "getblocks_payload is not the reference layout"
        p, t = impl_getblocks_rt(hs, pv)
        if p != want_p:
            return "getblocks_payload is not the reference layout (version, count, hashes, zero stop hash)"
        if (t[0], t[1], t[2], t[3]) != (v, len(hs), hs if hs else None, bytes(32)):
            return "parse_getheaders_payload(getblocks_payload(...)) differs: version %r count %r, %d hashes" % (
                t[0], t[1], len(t[2] or []))
        return None
    if op == "headers_rt":
        count, hs = a
        if not (count == len(hs) and count <= 2000 and all(len(h) == 80 for h in hs)):
            return None
        p, back = impl_headers_rt(count, hs)
        if p != spec_cs(count) + b"".join(h + b"\x00" for h in hs):
            return "headers_payload is not the reference layout (count, 80-byte headers each followed by 0x00)"
        if back != hs:
            return "a reference receiver does not read back the %d headers headers_payload was given" % count
        return None
    if op == "inv_rt":
        count, items = a
        if not (count == len(items) and all(t.upper() in INV_TYPES and len(h) == 32 for t, h in items)):
            return None
        p, t = impl_inv_rt(*a)
        want = (count, [(x.upper(), h) for x, h in items])
        if (t[0], list(map(tuple, t[1]))) != want:
            return "parse_inv_payload(inv_payload(...)) differs from the entries it was built from"
        if p != spec_cs(count) + b"".join(struct.pack("<I", INV_TYPES[x.upper()]) + h for x, h in items):
            return "inv_payload is not the reference layout"
        return None
    if op == "addr_rt":
        count, addrs = a
        if not (count == len(addrs) and all(_in(t, U32) and len(sv) == 8 and len(ip) == 16 and _in(port, U16)
                                            for t, sv, ip, port in addrs)):
            return None
        p, t = impl_addr_rt(*a)
        if list(map(tuple, t)) != [tuple(x) for x in addrs]:
            return "parse_addr_payload(addr_payload(...)) differs from the entries it was built from"
        if p != spec_cs(count) + b"".join(struct.pack("<I", x[0]) + x[1] + x[2] + struct.pack(">H", x[3]) for x in addrs):
            return "addr_payload is not the reference layout"
        return None
    return None


# ---------------------------------------------------------------------------------------------------------
def shrink(c):
    if c["op"] == "recv_msg":
        fuel, magic, stream, sched = c["args"]
        for i in range(len(sched)):
            c2 = dict(c)
            c2["args"] = [fuel, magic, stream, sched[:i] + sched[i + 1:]]
            yield c2
        if sched:
            c2 = dict(c)
            c2["args"] = [fuel, magic, stream, []]
            yield c2
    elif c["op"] == "table_session":
        ei, ec, al, steps = c["args"]
        for i in range(len(steps)):
            c2 = dict(c)
            c2["args"] = [ei, ec, al, steps[:i] + steps[i + 1:]]
            yield c2
    elif c["op"] == "magic_session":
        cur, steps = c["args"]
        for i in range(len(steps)):
            c2 = dict(c)
            c2["args"] = [cur, steps[:i] + steps[i + 1:]]
            yield c2
        for i, st in enumerate(steps):
            if st[0] == 2 and st[3]:
                c2 = dict(c)
                c2["args"] = [cur, steps[:i] + [(2, st[1], st[2], [])] + steps[i + 1:]]
                yield c2
    elif c["op"] == "recv_loop_eof":
        magic, frames, tail, sched = c["args"]
        frames = [tuple(f) for f in frames]
        cands = [(frames[:i] + frames[i + 1:], tail, sched) for i in range(len(frames))]
        cands += [(frames, tail, [])] if sched else []
        cands += [(frames, b"", sched)] if tail else []
        for fr, tl, sc in cands:
            c2 = dict(c)
            c2["args"] = [magic, fr, tl, sc]
            c2["expect"] = ("ok", expected_recv_loop_eof(magic, fr, tl))
            yield c2
    elif c["op"] == "recv_msgs":
        k, fuel, magic, stream, sched = c["args"]
        for i in range(len(sched)):
            c2 = dict(c)
            c2["args"] = [k, fuel, magic, stream, sched[:i] + sched[i + 1:]]
            yield c2


def extra_checks(ctx):
    # the (bytes-so-far, chunk) transition classes and the bounded-cut compositions are complete enumerations
    ctx["stats"]["exhaustive"] = True
    ctx["stats"].setdefault("extra", {}).update({
        "exhaustive_scopes": "every (so-far, chunk) transition of the 24-byte header loop and of an 8-byte payload loop; "
                             "all compositions of payloads <= %d bytes; all cuttings with <= %d cut points of 1..3 "
                             "back-to-back messages; every single-bit flip of a 32-byte message%s; EOF at every offset"
                             % ((10, 3, "") if ctx["tier"] == "thorough" else (6, 2, " (header fully, command/payload every 3rd bit)"))})
    return _ext_checks(ctx)


def _ext_checks(ctx):
    """extension (Props/C17Ext.v): (1) the oracle (reference layout + read-back) on every getblocks/headers case, not only on
    disagreements; (2) the extracted reference receiver Spec/P2pHeaders.v against this module's Python reference"""
    import random
    from common import case_to_json
    out = []
    impl, model = ctx["impl"], ctx["model"]
    r2 = random.Random("C17-ext-%s" % ctx["tier"])
    n = 0
    for c in gen_cases(r2, "quick"):
        if c["op"] not in ("getblocks_rt", "getblocks_payload", "headers_rt"):
            continue
        v = impl.oracle(c, timeout=120)
        n += 1
        if v is not None:
            out.append({"kind": "input", "case": case_to_json(c), "observed": "property oracle: " + str(v),
                        "expected": "reference layout and read-back", "oracle": v, "failing_input_found": True})
            if len(out) >= 3:
                break
    ctx["stats"].setdefault("extra", {})["ext_oracle_evaluations"] = n
    if model is not None:
        bad = m = 0
        pays = []
        for k in (0, 1, 2, 3, 252, 253, 254, 2000, 2001):
            body = b"".join(r2.randbytes(80) + b"\x00" for _ in range(k))
            pays += [spec_cs(k) + body, spec_cs(k) + body + b"\x00", spec_cs(k) + body[:-1], spec_cs(k + 1) + body]
            if k:
                pays.append(spec_cs(k) + body[:80] + b"\x01" + body[81:])
        pays += [b"", b"\xfd", b"\xfd\x01", b"\xfd\x01\x00" + bytes(81), b"\xfe\x01\x00\x00\x00" + bytes(81), b"\xfe\x01\x00\x00",
                 b"\xff" + struct.pack("<Q", 1) + bytes(81), b"\xff" + b"\xff" * 8, b"\x01" + bytes(80), b"\x01" + bytes(82)]
        pays += [r2.randbytes(r2.randrange(0, 200)) for _ in range(60)]
        pays += [bytes([r2.randrange(0, 4)]) + bytes(r2.randrange(0, 330)) for _ in range(60)]
        for pl in pays:
            m += 1
            if model.call("c17_spec_parse_headers", [pl]) != ("ok", ref_parse_headers(pl)):
                bad += 1
        ctx["stats"]["extra"]["spec_vs_python_reference"] = m
        if bad:
            out.append({"kind": "obligation", "obligation": "harness:spec-vs-reference",
                        "detail": "%d answers of the extracted reference receiver differ from the Python reference" % bad})
    return out


def coq_equation(c, mr):
    """the same computation as a Coq term, for the vm_compute cross-check of the extraction"""
    op, a = c["op"], c["args"]
    if c.get("expect") is not None:
        return None
    if op == "msg_ser" and isinstance(a[1], bytes) and len(a[2]) <= 64:
        return "c17_msg_ser sha256 %s %s %s = %s" % (coq_bytes(a[0]), coq_bytes(a[1]), coq_bytes(a[2]), coq_result(mr))
    if op == "recv_msg" and len(a[2]) <= 80 and len(a[3]) <= 60:
        return "c17_recv_msg sha256 %s %s %s %s = %s" % (coq_lit(a[0]), coq_bytes(a[1]), coq_bytes(a[2]),
                                                         coq_lit([int(x) for x in a[3]]), coq_result(mr))
    if op == "recv_msgs" and len(a[3]) <= 80:
        return "c17_recv_msgs sha256 %s %s %s %s %s = %s" % (coq_lit(a[0]), coq_lit(a[1]), coq_bytes(a[2]), coq_bytes(a[3]),
                                                            coq_lit([int(x) for x in a[4]]), coq_result(mr, _lit_nested))
    if op == "ping_rt":
        return "c17_ping_rt %s = %s" % (coq_lit(a[0]), coq_result(mr))
    if op == "getblocks_payload" and len(a[0]) <= 4:
        return "c17_getblocks_payload %s %s = %s" % (coq_lit(list(a[0])), "None" if a[1] is None else "(Some %s)" % coq_lit(a[1]),
                                                      coq_result(mr))
    if op == "headers_payload" and len(a[1]) <= 4:
        return "c17_headers_payload %s %s = %s" % (coq_lit(a[0]), coq_lit(list(a[1])), coq_result(mr))
    if op == "headers_rt" and len(a[1]) <= 3 and mr[0] == "err":
        return "c17_headers_rt %s %s = Err %s" % (coq_lit(a[0]), coq_lit(list(a[1])), mr[1])
    if op in ("parse_ping_payload",) and len(a[0]) <= 16:
        return "c17_parse_ping_payload %s = %s" % (coq_bytes(a[0]), coq_lit(mr[1]))
    if op in ("parse_feefilter_payload",):
        return "c17_parse_feefilter_payload %s = %s" % (coq_bytes(a[0]), coq_result(mr))
    if op == "version_payload" or (op == "version_rt" and mr[0] == "err"):
        return "c17_version_payload %s %s %s %s %s %s %s = %s" % tuple(
            [coq_lit(x) for x in a] + [coq_result(mr) if op == "version_payload" else "Err " + mr[1]])
    if op == "parse_inventory" and mr[0] == "ok":
        return "c17_parse_inventory %s = Ok (%s, %s)" % (coq_bytes(a[0]), coq_bytes(mr[1][0].encode()), coq_bytes(mr[1][1]))
    if op == "parse_inventory":
        return "c17_parse_inventory %s = Err %s" % (coq_bytes(a[0]), mr[1])
    return None


def _lit_nested(v):
    """(list of triples, rest) -> Coq literal"""
    ms, rest = v
    return "([" + "; ".join("(%s, %s, %s)" % (coq_bytes(m), coq_bytes(cc), coq_bytes(p)) for m, cc, p in ms) + "], " + coq_bytes(rest) + ")"


# ops whose answer must not depend on the concrete bytes-like type of their arguments (they agree on the pinned tree;
# tools/bytearray_probe.py); common.py re-runs a sample of their cases with bytearray arguments
BYTEARRAY_OPS = {'getblocks_rt', 'headers_rt', 'parse_inv_payload', 'parse_getheaders_payload', 'recv_msgs', 'inventory', 'parse_payload', 'parse_feefilter_payload', 'getheaders_rt', 'parse_sendcmpct_payload', 'parse_network_ip_addr', 'parse_ping_payload', 'recv_msg', 'parse_inventory', 'parse_version_payload', 'parse_addr_payload'}
MEMORYVIEW_OPS = {'getblocks_rt', 'parse_feefilter_payload', 'recv_msgs', 'parse_inv_payload', 'parse_addr_payload', 'inventory', 'parse_sendcmpct_payload', 'recv_msg', 'parse_inventory', 'parse_ping_payload', 'getheaders_rt', 'parse_network_ip_addr', 'parse_getheaders_payload'}
