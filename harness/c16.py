"""C16 - the send utility conserves value and produces validly signed transactions.

One operation, `send`: bits.tx.send_tx run against a SCRIPTED UTXO source (bits.rpc.rpc_method replaced inside the worker)
with scripted signing nonces (secrets.randbelow replaced inside the worker); the value is the raw transaction.

args (positional, the same list goes to the implementation and - re-shaped by model_call - to the extracted Coq model):
   0 sender_addr      bytes   public key | base58 address | segwit address | raw scriptPubKey
   1 recipient_addr   bytes
   2 change_addr      bytes | None
   3 sender_keys      [bytes] the repo's extended WIF strings ([] = unsigned)
   4 sighash_flag     int | None
   5 send_fraction    (m, e)  the binary64 m * 2**e
   6 miner_fee        int
   7 version          int
   8 locktime         int
   9 total_amount     (m, e)  the node's "total_amount" (BTC, binary64)
  10 unspents         [(txid: 32 bytes as the node prints them, vout, (m, e) amount in BTC, scriptPubKey bytes)]
  11 draws            [int]   values returned by secrets.randbelow, in order
  12 recipient_spk    bytes | None   INDEPENDENT reference script of the recipient (c16ref.address_script); None = not an address
  13 change_spk       bytes | None   same for change_addr, or for the sender when no change address is given

The property (prop_oracle) is evaluated by an independent checker (c16ref): strict parse, inputs among the reported UTXOs with
their exact satoshi values, recipient / change outputs, conservation, and per-input template-level consensus validity with
independently computed legacy / BIP143 signature hashes and OpenSSL ECDSA.
"""
import os
import random
import sys
from fractions import Fraction

sys.path.insert(0, os.path.dirname(os.path.abspath(__file__)))
from common import case, case_to_json, coq_bytes, coq_lit  # noqa: E402
import c16ref as R  # noqa: E402

ID = "C16"
MAKE_TARGETS = ["Props/C16.v", "Props/C16Sat.v"]
ASSUMPTION_FILES = ["Props/C16Sat.v"]   # sat_exact closed through Flocq: classical-reals axioms of the standard library
GEN_TABLES = []
CASE_TIMEOUT = 120.0
FILLER = {"filler"}
FLAGS = [0x01, 0x02, 0x03, 0x81, 0x82, 0x83]
SEGWIT_KINDS = ("p2wpkh", "p2wsh", "p2sh-p2wpkh", "p2sh-p2wsh")
LEGACY_KINDS = ("p2pk", "p2pkh", "multisig", "p2sh")
SECP_N = 0xFFFFFFFFFFFFFFFFFFFFFFFFFFFFFFFEBAAEDCE6AF48A03BBFD25E8CD0364141

ASSUMPTIONS = [
    "the node is replaced by a scripted scantxoutset result whose total_amount is the exact sum of the reported amounts "
    "(bitcoind computes both in integer satoshis and prints 8 decimals); amounts are binary64 values of 8-decimal strings",
    "validity is TEMPLATE-LEVEL in the correspondence (c16ref.unlocks for P2PK, P2PKH, bare multisig, P2SH-multisig, P2WPKH, "
    "P2WSH-multisig and the two P2SH-wrapped witness programs: independent legacy / BIP143 sighash + OpenSSL ECDSA), and at the "
    "SIGNATURE level in Coq (every signature is DER||flag and ecmath.verify-valid for the consensus sighash of its input); "
    "neither is a full script interpreter",
    "sat_exact (round(a*1e8) = satoshis a for every 8-decimal amount a <= 21e6 BTC) is checked by the correspondence on boundary "
    "amounts and stated as a hypothesis of the conservation theorems; it is not proved in Coq (needs a Flocq error analysis)",
    "binary64 arithmetic in the model is Coq's SpecFloat (the IEEE 754 specification PrimFloat is axiomatised against); the "
    "PrimFloat twins of the value-layer functions are compared with it by vm_compute on every run (coq_equation)",
    "'requested amount' = the correctly rounded double product send_fraction * total (in satoshis) truncated to an integer",
    "sha256 / ripemd160 are arbitrary functions in the theorems (hashlib answers them at run time); secp256k1 signing uses "
    "Model/Ecmath.sign_with with the scripted nonces; curve_facts (C01) is an explicit premise of the validity theorems",
    "SIGHASH_SINGLE on a non-witness input without a matching output (more inputs than outputs): the consensus digest is the "
    "constant 1, utils.sig cannot sign it; send_tx refuses with ValueError and the check accepts exactly that refusal",
    "a recipient / change address that is neither a public key nor an address is not a supported kind: refusal is required",
    "bits.script.scriptpubkey and bits.is_point / is_addr are not modelled here (C08 / C14 / C07 / C06): the model takes them "
    "as functions, instantiated at run time by the harness' independent address decoder",
    "modelled, not verified: tx.send_tx, tx.legacy_sig_message and what they call (wif_decode, keys.pub, script(), the script "
    "templates, bip143.witness_message, utils.sig); rpc.py is not modelled (scripted source)",
]

# ------------------------------------------------------------------------------------------------
# scenario construction (harness side; uses only c16ref)
# ------------------------------------------------------------------------------------------------
WIF_OFFSET = {"p2pkh": 0, "p2wpkh": 1, "p2sh-p2wpkh": 2, "p2pk": 3, "multisig": 4, "p2sh": 5, "p2wsh": 6, "p2sh-p2wsh": 7}
OFFSET_KIND = {v: k for k, v in WIF_OFFSET.items()}
NETS = {"mainnet": dict(wif=0x80, p2pkh=0x00, p2sh=0x05, hrp="bc"),
        "testnet": dict(wif=0xEF, p2pkh=0x6F, p2sh=0xC4, hrp="tb"),
        "regtest": dict(wif=0xEF, p2pkh=0x6F, p2sh=0xC4, hrp="bcrt")}


def wif(key_int, kind, net, data=b""):
    return R.b58check_enc(bytes([NETS[net]["wif"] + WIF_OFFSET[kind]]) + key_int.to_bytes(32, "big") + data)


def sender(kind, keys, m=1, net="regtest", compressed=True, signing=None):
    """-> (sender_addr, scriptPubKey of the sender's outputs, [WIF keys in signing order])
    keys: private keys (ints) of ALL n public keys; signing: indices of the m keys that sign (default: the first m)"""
    N = NETS[net]
    pks = [R.pub_of(k, compressed if kind in ("p2pk", "p2pkh", "multisig", "p2sh") else True) for k in keys]
    signing = list(range(m)) if signing is None else signing
    if kind == "p2pk":
        return pks[0], R.spk_p2pk(pks[0]), [wif(keys[0], kind, net, b"\x01" if compressed else b"")]
    if kind == "p2pkh":
        h = R.h160(pks[0])
        return R.b58check_enc(bytes([N["p2pkh"]]) + h), R.spk_p2pkh(h), [wif(keys[0], kind, net, b"\x01" if compressed else b"")]
    if kind == "p2wpkh":
        h = R.h160(pks[0])
        return R.segwit_enc(N["hrp"], 0, h), R.spk_witness(0, h), [wif(keys[0], kind, net)]
    if kind == "p2sh-p2wpkh":
        redeem = R.spk_witness(0, R.h160(pks[0]))
        h = R.h160(redeem)
        return R.b58check_enc(bytes([N["p2sh"]]) + h), R.spk_p2sh(h), [wif(keys[0], kind, net)]
    ms = R.spk_multisig(m, pks)
    ws = [wif(keys[i], kind, net, ms) for i in signing]
    if kind == "multisig":
        return ms, ms, ws
    if kind == "p2sh":
        h = R.h160(ms)
        return R.b58check_enc(bytes([N["p2sh"]]) + h), R.spk_p2sh(h), ws
    if kind == "p2wsh":
        h = R.sha256(ms)
        return R.segwit_enc(N["hrp"], 0, h), R.spk_witness(0, h), ws
    if kind == "p2sh-p2wsh":
        redeem = R.spk_witness(0, R.sha256(ms))
        h = R.h160(redeem)
        return R.b58check_enc(bytes([N["p2sh"]]) + h), R.spk_p2sh(h), ws
    raise KeyError(kind)


def recipient(rkind, rng, net="regtest"):
    N = NETS[net]
    k = rng.randrange(1, SECP_N)
    if rkind == "pubkey":
        return R.pub_of(k, True)
    if rkind == "pubkey-uncompressed":
        return R.pub_of(k, False)
    if rkind == "p2pkh":
        return R.b58check_enc(bytes([N["p2pkh"]]) + rng.randbytes(20))
    if rkind == "p2sh":
        return R.b58check_enc(bytes([N["p2sh"]]) + rng.randbytes(20))
    if rkind == "p2wpkh":
        return R.segwit_enc(N["hrp"], 0, rng.randbytes(20))
    if rkind == "p2wsh":
        return R.segwit_enc(N["hrp"], 0, rng.randbytes(32))
    if rkind == "p2tr":
        return R.segwit_enc(N["hrp"], 1, rng.randbytes(32))
    if rkind == "raw":
        return b"\x6a" + R.push(rng.randbytes(rng.randrange(1, 20)))      # OP_RETURN <data>: a raw script
    raise KeyError(rkind)


def scenario(cls, sender_addr, recipient_addr, change_addr, keys, flag, fraction, fee, version, locktime, utxos, draws,
             total=None, **extra):
    """utxos: [(txid32, vout, satoshis, spk)]; total: satoshis reported as total_amount (default: the exact sum)"""
    tot = sum(u[2] for u in utxos) if total is None else total
    uns = [(u[0], u[1], R.f2me(R.sat_to_float(u[2])), u[3]) for u in utxos]
    rs = R.address_script(recipient_addr)
    chs = R.change_script(sender_addr, change_addr)
    return case(cls, "send", sender_addr, recipient_addr, change_addr, list(keys), flag, R.f2me(fraction), fee, version, locktime,
                R.f2me(R.sat_to_float(tot)), uns, list(draws), rs, chs, timeout=CASE_TIMEOUT, **extra)


# ------------------------------------------------------------------------------------------------
# derived facts about a scenario (independent reference arithmetic) - used by the oracle and the KNOWN matchers
# ------------------------------------------------------------------------------------------------
def facts(a):
    """-> dict(kind, signed, sats, total, req, n_sel, sel_sum, flag, ...) from the args alone"""
    keys = a[3]
    kind = None
    if keys:
        p = R.b58check_dec(keys[0])
        if p is not None and len(p) >= 33:
            kind = OFFSET_KIND.get((p[0] - 0x80) if p[0] < 0xEF else (p[0] - 0xEF))
    sats = [R.float_to_sat(R.me2f(u[2])) for u in a[10]]
    total = R.float_to_sat(R.me2f(a[9]))
    frac = R.me2f(a[5])
    ok = total is not None and all(s is not None for s in sats) and len(sats) > 0
    d = dict(kind=kind, signed=bool(keys), flag=a[4], version=a[7], locktime=a[8], fee=a[6], sats=sats, total=total,
             frac=frac, wellformed=ok, vouts=[u[1] for u in a[10]], n_unspent=len(a[10]))
    if not ok:
        return d
    req = R.requested_amount(frac, total)
    acc, n_sel = 0, 0
    for s in sats:
        acc += s
        n_sel += 1
        if acc >= req:
            break
    d.update(req=req, n_sel=n_sel, sel_sum=acc, change=acc - req,
             n_out=1 + (1 if acc - req >= R.DUST else 0))
    d["outside"] = _outside(a, d)
    return d


def _outside(a, f):
    """why the scenario is OUTSIDE the property's quantifier (None = inside)"""
    if not (0.0 < f["frac"] <= 1.0):
        return "send fraction not in (0, 1]"
    if f["total"] != sum(f["sats"]):
        return "total_amount is not the sum of the reported amounts"
    if not (1 <= len(f["sats"]) <= 6) or any(s <= 0 for s in f["sats"]) or f["total"] > 21000000 * 100000000:
        return "UTXO set outside 1..6 positive amounts / above 21e6 BTC"
    if a[7] not in (1, 2) or not (0 <= a[8] < 2 ** 32) or a[6] < 0:
        return "version / locktime / fee out of range"
    if any(not (0 <= v < 2 ** 32) for v in f["vouts"]):
        return "output index out of range"
    if len({(bytes(u[0]), u[1]) for u in a[10]}) != len(a[10]):
        return "the same outpoint reported twice"
    if a[2] is not None and len(a[2]) == 0:
        return "empty change address"
    if a[3]:
        if a[4] not in FLAGS:
            return "signing without one of the six sighash flags"
        dec = [R.b58check_dec(k) for k in a[3]]
        if any(p is None or len(p) < 33 for p in dec):
            return "invalid WIF key"
        if len({p[0] for p in dec}) != 1 or len({p[33:] for p in dec}) != 1 or f["kind"] is None:
            return "keys of different / unknown type or data"
        if any(not (0 < int.from_bytes(p[1:33], "big") < SECP_N) for p in dec):
            return "private key out of range"
        if f["kind"] in ("p2pk", "p2pkh", "p2wpkh", "p2sh-p2wpkh"):
            if len(a[3]) != 1:
                return "single-key kind with %d keys" % len(a[3])
        else:
            k, d = R.classify(dec[0][33:])
            if k != "multisig" or d[0] != len(a[3]):
                return "redeem script is not an m-of-n multisig signed by exactly m keys"
            # OP_CHECKMULTISIG matches signatures to keys IN ORDER: the signing keys must be a subsequence of the script's keys
            # (a key the script lists twice may sign twice)
            pos = 0
            for pk in dec:
                kint = int.from_bytes(pk[1:33], "big")
                pubs = (R.pub_of(kint, True), R.pub_of(kint, False))
                while pos < len(d[1]) and d[1][pos] not in pubs:
                    pos += 1
                if pos == len(d[1]):
                    return "signing keys are not (in order) keys of the multisig script"
                pos += 1
    return None


# ------------------------------------------------------------------------------------------------
# implementation side (runs inside the worker)
# ------------------------------------------------------------------------------------------------
_CACHE = {}


def _run(a, fresh=False):
    """run bits.tx.send_tx on the scenario -> ("ok", raw, descriptors) | ("err", exception, descriptors)
    fresh=True (every IMPL call): really run the code; the property oracle may reuse the result of that run"""
    import bits
    import bits.rpc
    import bits.tx
    import curvectx
    key = repr(a)
    if key in _CACHE and not fresh:
        return _CACHE[key]
    (sender_addr, recipient_addr, change_addr, keys, flag, frac, fee, version, locktime, total, unspents, draws) = a[:12]
    txoutset = {
        "success": True, "txouts": 1000, "height": 200, "bestblock": "00" * 32,
        "unspents": [{"txid": bytes(u[0]).hex(), "vout": u[1], "scriptPubKey": bytes(u[3]).hex(), "desc": "",
                      "amount": R.me2f(u[2]), "coinbase": False, "height": 100 + i} for i, u in enumerate(unspents)],
        "total_amount": R.me2f(total),
    }
    calls = []

    def fake_rpc(method, *params, **kw):
        calls.append((method,) + tuple(params))
        return txoutset
    orig = bits.rpc.rpc_method
    bits.rpc.rpc_method = fake_rpc
    try:
        with curvectx.scripted_randbelow(draws):
            kwargs = dict(change_addr=change_addr, sender_keys=list(keys), sighash_flag=flag, send_fraction=R.me2f(frac),
                          miner_fee=fee, version=version, locktime=locktime, rpc_url="http://scripted")
            try:
                raw = bits.tx.send_tx(sender_addr, recipient_addr, **kwargs)
                res = ("ok", bytes(raw), calls)
            except Exception as e:  # noqa
                res = ("err", e, calls)
    finally:
        bits.rpc.rpc_method = orig
    if len(_CACHE) > 20000:
        _CACHE.clear()
    _CACHE[key] = res
    return res


def _send(*a):
    r = _run(list(a), fresh=True)
    if r[0] == "err":
        raise r[1]
    return r[1]


IMPL = {"send": _send}


# ------------------------------------------------------------------------------------------------
# the property, literally, on the implementation
# ------------------------------------------------------------------------------------------------
def _values_oracle(c):
    frac, total, amounts, fee = c["args"]
    sats = [R.float_to_sat(R.me2f(x)) for x in amounts]
    tot = R.float_to_sat(R.me2f(total))
    if tot is None or any(s is None for s in sats) or not sats:
        return None
    if not (0.0 < R.me2f(frac) <= 1.0) or tot != sum(sats) or any(x <= 0 for x in sats) or fee < 0:
        return None                     # outside the quantifier
    req = R.requested_amount(R.me2f(frac), tot)
    acc = n = 0
    for s in sats:
        acc += s
        n += 1
        if acc >= req:
            break
    want = (n, [req - fee] + ([acc - req] if acc - req >= R.DUST else []))
    try:
        got = _values(frac, total, amounts, fee)
    except Exception as e:  # noqa
        if req - fee < 0 or acc < req:
            return None
        return "send_tx raised %s: %s; the property requires %r" % (type(e).__name__, e, want)
    if req - fee < 0:
        return "a transaction was returned although the requested amount %d is below the fee %d" % (req, fee)
    if (got[0], list(got[1])) != want:
        return "(inputs, output values) = %r, the property requires %r (exact satoshis %r, requested %d, fee %d)" % (
            got, want, sats, req, fee)
    if acc < req:
        return "inputs %d do not cover the requested amount %d" % (acc, req)
    return None


def prop_oracle(c):
    if c["op"] == "values":
        return _values_oracle(c)
    a = c["args"]
    f = facts(a)
    if not f["wellformed"] or f["outside"]:
        return None                     # not a scenario of the property (malformed-* / outside-* classes: correspondence only)
    r = _run(a)
    calls = r[2]
    want_desc = '["%s"]' % R.descriptor(a[0])
    if len(calls) != 1 or calls[0][:2] != ("scantxoutset", "start") or calls[0][2] != want_desc:
        return "UTXO discovery does not ask for the sender's outputs: calls %r, expected scantxoutset start %s" % (calls, want_desc)
    rs, chs = a[12], a[13]
    if rs is None or (a[2] and R.address_script(a[2]) is None):
        # not a supported recipient / change kind (neither public key nor address): it must be refused, never mapped to a script
        if r[0] == "err":
            return None
        return "a transaction was built for a recipient / change address that is neither a public key nor an address"
    refusable = []
    if f["req"] - f["fee"] < 0:
        refusable.append("requested amount %d is below the fee %d" % (f["req"], f["fee"]))
    single_quirk = f["signed"] and f["kind"] in LEGACY_KINDS and (a[4] & 0x1F) == 3 and f["n_sel"] > f["n_out"]
    if r[0] == "err":
        if refusable:
            return None                 # nothing can be paid: refusing is the only correct behaviour
        if type(r[1]).__name__ == "DrawsExhausted":
            return None                 # the scripted nonce list of the harness ran dry: not a behaviour of send_tx
        if single_quirk and isinstance(r[1], ValueError):
            # SIGHASH_SINGLE on a non-witness input without a matching output: the consensus digest is the constant 1 (a
            # signature of it is valid for ANY transaction); utils.sig cannot express it and send_tx refuses
            return None
        return "send_tx raised %s: %s on a scenario of the property (kind %s, %d unspents, vouts %s)" % (
            type(r[1]).__name__, r[1], f["kind"], f["n_unspent"], f["vouts"])
    if refusable:
        return "send_tx returned a transaction although " + refusable[0]
    raw = r[1]
    try:
        t = R.parse_tx(raw)
    except R.Bad as e:
        return "returned bytes are not a valid transaction serialisation: %s" % e
    if t["version"] != a[7] or t["locktime"] != a[8]:
        return "version/locktime %d/%d, requested %d/%d" % (t["version"], t["locktime"], a[7], a[8])
    # ---- inputs: reported outputs of the sender, each at most once, exact values
    reported = {}
    for u, s in zip(a[10], f["sats"]):
        reported[(bytes(u[0])[::-1], u[1])] = (s, bytes(u[3]))
    seen = set()
    in_sum = 0
    spent = []
    for (txid, vout, _ss, _seq) in t["ins"]:
        if (txid, vout) not in reported:
            return "input %s:%d is not a reported output of the sender" % (txid[::-1].hex(), vout)
        if (txid, vout) in seen:
            return "input %s:%d spent twice" % (txid[::-1].hex(), vout)
        seen.add((txid, vout))
        in_sum += reported[(txid, vout)][0]
        spent.append(reported[(txid, vout)])
    # ---- outputs
    if rs is None:
        return "a transaction was built for a recipient that is neither a public key nor an address"
    req, fee = f["req"], f["fee"]
    outs = t["outs"]
    if not outs or outs[0] != (req - fee, rs):
        return "first output %r, the property requires (requested %d - fee %d = %d) to the recipient script %s" % (
            outs[:1], req, fee, req - fee, rs.hex())
    change = in_sum - req
    if change < 0:
        return "inputs (%d sat) do not cover the requested amount (%d sat)" % (in_sum, req)
    if change >= R.DUST:
        if chs is None:
            return "change of %d sat but no change script is derivable" % change
        if len(outs) != 2 or outs[1] != (change, chs):
            return "change of %d sat (>= dust) must be the second output to %s; outputs %r" % (change, chs.hex(), outs)
        burnt = 0
    else:
        if len(outs) != 1:
            return "sub-dust change %d must not create an output; outputs %r" % (change, outs)
        burnt = change
    if sum(o[0] for o in outs) + fee + burnt != in_sum:
        return "conservation: outputs %d + fee %d + sub-dust %d != inputs %d" % (sum(o[0] for o in outs), fee, burnt, in_sum)
    # ---- unlocking data
    if not f["signed"]:
        if t["wits"] is not None or any(i[2] for i in t["ins"]):
            return "unsigned transaction carries scriptSig / witness data"
        return None
    for j, (val, spk) in enumerate(spent):
        ok, why = R.unlocks(t, j, spk, val, a[4])
        if not ok:
            return "input %d (of %d; spends output index %d, kind %s, flag %#x, version %d, locktime %d, %d outputs) does not unlock " \
                   "its output: %s" % (j, len(spent), t["ins"][j][1], f["kind"], a[4], a[7], a[8], len(outs), "; ".join(why))
    return None


# ------------------------------------------------------------------------------------------------
# the value layer alone (cheap: thousands of cases): (number of inputs, output values) of an UNSIGNED send
#   args: send_fraction (m,e), total_amount (m,e), [amount (m,e)], miner_fee
# ------------------------------------------------------------------------------------------------
_V_SENDER = None


def _values(frac, total, amounts, fee):
    import bits
    import bits.rpc
    import bits.tx
    global _V_SENDER
    if _V_SENDER is None:
        h = bytes(range(20))
        _V_SENDER = (R.b58check_enc(b"\x6f" + h), R.spk_p2pkh(h), R.b58check_enc(b"\x6f" + bytes(range(20, 40))))
    s_addr, spk, rec = _V_SENDER
    txoutset = {"total_amount": R.me2f(total),
                "unspents": [{"txid": (i + 1).to_bytes(32, "big").hex(), "vout": i, "scriptPubKey": spk.hex(), "amount": R.me2f(x)}
                             for i, x in enumerate(amounts)]}
    orig = bits.rpc.rpc_method
    bits.rpc.rpc_method = lambda *p, **k: txoutset
    try:
        raw = bits.tx.send_tx(s_addr, rec, send_fraction=R.me2f(frac), miner_fee=fee, rpc_url="http://scripted")
    finally:
        bits.rpc.rpc_method = orig
    t = R.parse_tx(bytes(raw))
    return (len(t["ins"]), [o[0] for o in t["outs"]])


IMPL["values"] = _values


def values_case(cls, frac, total_sat, sats, fee, **kw):
    return case(cls, "values", R.f2me(frac), R.f2me(R.sat_to_float(total_sat)), [R.f2me(R.sat_to_float(s)) for s in sats], fee, **kw)


# ------------------------------------------------------------------------------------------------
# model side
# ------------------------------------------------------------------------------------------------
def _curve():
    from c03 import CURVES
    return CURVES["secp"]


def model_call(c):
    a = c["args"]
    if c["op"] == "values":
        return "c16_values", list(a)
    cv = _curve()
    other = a[2] if a[2] else a[0]
    table = [(a[1], R.address_script(a[1]), R.is_key_or_address(a[1])), (other, R.address_script(other), R.is_key_or_address(other))]
    return "c16_send", [cv["p"], cv["a"], cv["n"], cv["G"], a[0], a[1], a[2], a[3], a[4], a[5], a[6], a[7], a[8], a[9], a[10], a[11],
                        table]


def canon(c, v):
    if c["op"] == "values":
        return (v[0], list(v[1]))
    return bytes(v)


# in-Coq cross-check of the extraction AND of SpecFloat against the kernel's primitive floats (value layer only: a
# secp256k1 signature is out of reach of vm_compute)
COQ_PRELUDE = ["From Coq Require Import Floats.SpecFloat.",
               "Require Import Bits.Model.SendValue Bits.Model.SendPrim."]


def _coq_me(me):
    return "(%d)%%Z (%d)%%Z" % (me[0], me[1])


def coq_equation(c, mr):
    if c["op"] != "values":
        return None
    a = c["args"]
    amounts = "[" + "; ".join("sf_of_me " + _coq_me(x) for x in a[2]) + "]"
    pamounts = "[" + "; ".join("prim_of_me " + _coq_me(x) for x in a[2]) + "]"
    if mr[0] == "ok":
        rhs = "Ok ((%d)%%Z, [%s])" % (mr[1][0], "; ".join("(%d)%%Z" % v for v in mr[1][1]))
    else:
        rhs = "Err %s" % mr[1]
    return "(c16_values (sf_of_me %s) (sf_of_me %s) %s (%d)%%Z, send_values_prim (prim_of_me %s) (prim_of_me %s) %s (%d)%%Z) = (%s, %s)" % (
        _coq_me(a[0]), _coq_me(a[1]), amounts, a[3], _coq_me(a[0]), _coq_me(a[1]), pamounts, a[3], rhs, rhs)


# ------------------------------------------------------------------------------------------------
# known findings: none.  The six signing / change-script defects found by this check were repaired in /repo (fixed: lines of
# KNOWN_FINDINGS.txt; corpus/c16/*.json are regression inputs, seeded/revert-<commit> re-introduce each defect).  A raw-script
# RECIPIENT is not a supported kind (C08: data that is neither key nor address is refused): send_tx must refuse it.
# ------------------------------------------------------------------------------------------------
KNOWN = {}


# ------------------------------------------------------------------------------------------------
# generators
# ------------------------------------------------------------------------------------------------
COIN = 100000000
MAX_MONEY = 21000000 * COIN
BOUNDARY_SATS = [1, 2, 999, 1000, 1001, 29000000, 57000000, 113000000, 58000000, 115000000, 33333333, 99999999, COIN, COIN + 1,
                 4999999999, 5000000000, 123456789012, 2099999997690000, MAX_MONEY - 1, MAX_MONEY, 8999999999999999 // 9]
FRACTIONS = [1.0, 0.5, 0.25, 0.1, 0.3, 0.7, 0.9, 0.99, 0.999, 1e-3, 1e-8, 1 / 3, 2 / 3, 1.0 - 2 ** -53, 0.5 + 2 ** -53, 0.29, 0.57]
RECIPIENTS = ["pubkey", "pubkey-uncompressed", "p2pkh", "p2sh", "p2wpkh", "p2wsh", "p2tr"]


def _keys(rng, k=3):
    return [rng.randrange(1, SECP_N) for _ in range(k)]


def _draws(rng, k):
    return [rng.randrange(1, SECP_N) for _ in range(k)]


def _utxos(rng, vouts, sats, spk, same_txid=False):
    """same_txid: every output belongs to ONE funding transaction (same txid, different output indices)"""
    one = rng.randbytes(32)
    return [(one if same_txid else rng.randbytes(32), v, s, spk) for v, s in zip(vouts, sats)]


# 8-decimal amounts whose binary64 product a * 1e8 falls BELOW the integer (int() would lose a satoshi; round() is exact):
# 0.29, 0.57, 0.58, 1.13, 1.15, 4.35, 0.07 ... (computed here with plain floats, not with repo code)
INEXACT_SATS = [k for k in [29000000, 57000000, 58000000, 113000000, 115000000, 435000000, 7000000, 14000000, 28000000, 56000000,
                            1001, 1003, 2007, 4099, 8193, 16387, 1000003, 33333333, 99999999, 1234567, 20999999_99999999 // 7,
                            251, 253, 507, 1013, 2029, 4057]
                + list(range(100001, 100400, 2))
                if int(R.sat_to_float(k) * 1e8) != k]


def _send_case(rng, cls, kind, vouts, sats, frac=1.0, fee=1000, flag=1, version=1, locktime=0, m=2, nkeys=3, rk="p2wpkh",
               change="p2pkh", signed=True, compressed=True, net="regtest", signing=None, same_txid=False, key_pattern=None, **kw):
    keys = _keys(rng, nkeys if kind in ("multisig", "p2sh", "p2wsh", "p2sh-p2wsh") else 1)
    if key_pattern is not None:                 # e.g. [0, 1, 0]: the script lists key 0 twice
        keys = [keys[i] for i in key_pattern]
    want = kw.pop("commit_where", None)         # predicate on the sender's commitment (key hash / script hash): search keys
    if want is not None:
        for _ in range(6000):
            if want(_commitment(kind, keys, m, compressed)):
                break
            keys[-1] = rng.randrange(1, SECP_N)
        else:
            raise RuntimeError("c16: no key found for the requested commitment pattern")
    s_addr, spk, wifs = sender(kind, keys, m=m, net=net, compressed=compressed, signing=signing)
    rec = s_addr if rk == "sender" else recipient(rk, rng, net)
    ch = s_addr if change == "sender" else (recipient(change, rng, net) if change else None)
    nsig = len(vouts) * len(wifs)               # every selected input is signed by every key
    return scenario(cls, s_addr, rec, ch, wifs if signed else [], flag if signed else None, frac, fee, version, locktime,
                    _utxos(rng, vouts, sats, spk, same_txid), _draws(rng, nsig + 1) if signed else [], **kw)


def _commitment(kind, keys, m, compressed):
    """the hash the sender's locking script commits to: HASH160(pubkey), or HASH160 / SHA256 of the multisig script"""
    pks = [R.pub_of(k, compressed if kind in ("p2pk", "p2pkh", "multisig", "p2sh") else True) for k in keys]
    if kind in ("p2pk", "p2pkh", "p2wpkh", "p2sh-p2wpkh"):
        return R.h160(pks[0])
    ms = R.spk_multisig(m, pks)
    return R.sha256(ms) if kind in ("p2wsh", "p2sh-p2wsh") else R.h160(ms)


def _rand_sats(rng):
    r = rng.random()
    if r < 0.3:
        return rng.choice(BOUNDARY_SATS)
    if r < 0.6:
        return rng.randrange(1, 10 ** rng.randrange(1, 16))
    if r < 0.8:
        return rng.randrange(1, 100) * 10 ** rng.randrange(0, 13)
    return rng.randrange(1, MAX_MONEY // 6)


def _rand_frac(rng):
    r = rng.random()
    if r < 0.4:
        return rng.choice(FRACTIONS)
    if r < 0.7:
        return rng.randrange(1, 10 ** 6) / 10 ** 6
    x = rng.random()
    return x if x > 0 else 1.0


def gen_values(rng, n):
    out = []
    # (first, so that the generic variants of common.py - which sample the first accepted cases of an op - see amounts with many
    #  significant digits: a conversion that depends on ambient precision / rounding settings differs on exactly these)
    for s_ in (123456789012, 2099999997690000, 99999999, 33333333, 1234567891, 4999999999, 87654321):
        out.append(values_case("value-many-digits", 1.0, s_, [s_], 0))
        out.append(values_case("value-many-digits", 0.5, 2 * s_ + 1, [s_, s_ + 1], 1000))
    # every boundary amount alone (sat_exact), with every named fraction
    for s in BOUNDARY_SATS:
        for fr in (1.0, 0.5, 0.29, 1.0 - 2 ** -53):
            out.append(values_case("value-boundary-amount", fr, s, [s], 0))
    for fr in FRACTIONS:
        out.append(values_case("value-fraction", fr, 10, [10], 0))
        out.append(values_case("value-fraction", fr, 3 * COIN, [COIN, COIN, COIN], 1000))
        out.append(values_case("value-fraction", fr, MAX_MONEY, [MAX_MONEY], 1000))
    # the dust threshold: change 999 / 1000 / 1001, and fee = / > requested
    for d in (998, 999, 1000, 1001):
        out.append(values_case("value-dust-boundary", 1.0, COIN + d, [COIN + d], 0, ))
        out.append(values_case("value-dust-boundary", (COIN) / (COIN + d), COIN + d, [COIN + d], 0))
        out.append(values_case("value-dust-boundary", 0.5, 2 * d, [2 * d], 0))
    for fee in (0, 1, 999, 1000, 1001, COIN):
        out.append(values_case("value-fee-boundary", 1.0, 1000, [1000], fee))
        out.append(values_case("value-fee-boundary", 0.5, 2000, [1000, 1000], fee))
    # selection: stop exactly when covered
    for k in range(1, 7):
        sats = [COIN] * 6
        out.append(values_case("value-selection-exact", k / 6, 6 * COIN, sats, 1000))
        out.append(values_case("value-selection-exact", (k * COIN + 1) / (6 * COIN), 6 * COIN, sats, 1000))
        out.append(values_case("value-selection-exact", (k * COIN - 1) / (6 * COIN), 6 * COIN, sats, 1000))
    for _ in range(n):
        k = rng.randrange(1, 7)
        sats = [_rand_sats(rng) for _ in range(k)]
        while sum(sats) > MAX_MONEY:
            sats = [max(1, s // 2) for s in sats]
        fee = rng.choice([0, 1, 500, 1000, 1000, 1000, 5000, rng.randrange(0, 100000)])
        out.append(values_case("value-random", _rand_frac(rng), sum(sats), sats, fee))
    # outside the quantifier (fraction 0, > 1, negative, total not the sum): implementation and model must still agree
    out.append(values_case("value-outside-fraction", 0.0, COIN, [COIN], 0))
    out.append(values_case("value-outside-fraction", 1.5, COIN, [COIN], 0))
    out.append(values_case("value-outside-fraction", -0.5, COIN, [COIN], 0))
    out.append(values_case("value-outside-fraction", 2.0 ** 80, COIN, [COIN], 0))
    out.append(values_case("value-outside-total", 1.0, 3 * COIN, [COIN, COIN], 0))
    out.append(values_case("value-outside-total", 1.0, COIN, [COIN, COIN], 0))
    for c in out:
        c["in_domain"] = not c["cls"].startswith("value-outside")
    return out


def corpus_cases():
    """corpus/c16/*.json (the witnesses of the findings repaired in /repo); the reference scripts are recomputed"""
    import glob
    import json
    from common import case_from_json, VERIF
    out = []
    for path in sorted(glob.glob(os.path.join(VERIF, "corpus", "c16", "*.json"))):
        c = case_from_json(json.load(open(path)))
        a = list(c["args"])
        a[12] = R.address_script(a[1])
        a[13] = R.change_script(a[0], a[2])
        c["args"] = a
        c["cls"] = "corpus-" + os.path.basename(path)[:-5]
        c["timeout"] = CASE_TIMEOUT
        out.append(c)
    return out


def gen_cases(rng, tier):
    T = tier == "thorough"
    out = gen_values(rng, 6000 if T else 1200)
    A = out.append
    reps = 3 if T else 1
    for _ in range(reps):
        # ---- the sub-domain where the code is right: one input spending output 0, version 1, locktime 0 (segwit: every flag;
        #      legacy: ALL, ALL|ANYONECANPAY, and SINGLE(|ANYONECANPAY) with a single output)
        for kind in LEGACY_KINDS:
            for flag, frac in ((1, 0.5), (0x81, 1.0), (3, 1.0), (0x83, 1.0), (1, 1.0)) if T else ((1, 0.5), (0x81, 1.0), (3, 1.0)):
                A(_send_case(rng, "signed-ok-legacy", kind, [0], [_rand_sats(rng) + 3000], frac=frac, flag=flag,
                             m=rng.randrange(1, 4), rk=rng.choice(RECIPIENTS), compressed=rng.random() < 0.6))
            A(_send_case(rng, "signed-ok-legacy-vout", kind, [rng.randrange(1, 6)], [50 * COIN], frac=0.3, flag=1,
                         version=2, locktime=rng.choice([1, 499999999, 500000000, 0xFFFFFFFF])))
        for kind in SEGWIT_KINDS:
            for flag in (FLAGS if T else rng.sample(FLAGS, 3)):
                A(_send_case(rng, "signed-ok-segwit", kind, [0], [_rand_sats(rng) + 3000], frac=rng.choice([1.0, 0.5, 0.9]), flag=flag,
                             m=rng.randrange(1, 4), rk=rng.choice(RECIPIENTS)))
        # segwit, several inputs whose output index happens to equal their position, every unspent selected or harmless
        A(_send_case(rng, "signed-ok-segwit-multi", "p2wpkh", [0, 1], [COIN, COIN], frac=1.0, flag=1))
        A(_send_case(rng, "signed-ok-segwit-multi", "p2sh-p2wpkh", [0, 1, 0], [COIN, COIN, COIN], frac=0.5, flag=3))
        A(_send_case(rng, "signed-ok-segwit-multi", "p2wsh", [0, 1], [COIN, 2 * COIN], frac=0.9, flag=0x83, m=1, nkeys=2))
        # multisig signing subsets (order of the keys kept)
        A(_send_case(rng, "signed-ok-multisig-subset", "p2sh", [0], [COIN], m=2, nkeys=3, signing=[0, 2]))
        A(_send_case(rng, "signed-ok-multisig-subset", "p2wsh", [0], [COIN], m=2, nkeys=3, signing=[1, 2]))
        A(_send_case(rng, "signed-ok-multisig-subset", "multisig", [0], [COIN], m=1, nkeys=3, signing=[2]))
        # mainnet / testnet encodings
        A(_send_case(rng, "signed-ok-network", "p2pkh", [0], [COIN], net="mainnet", rk="p2wsh"))
        A(_send_case(rng, "signed-ok-network", "p2wpkh", [0], [COIN], net="testnet", rk="p2pkh", frac=0.5))
        # ---- the classes of the repaired signing defects (regression: they must verify now)
        for kind in SEGWIT_KINDS:
            A(_send_case(rng, "regress-segwit-vout-index", kind, [1, 0], [COIN, COIN], flag=1, m=1))
            A(_send_case(rng, "regress-segwit-vout-index", kind, [rng.randrange(1, 6)], [COIN], flag=rng.choice(FLAGS), m=1))
            A(_send_case(rng, "regress-segwit-unselected", kind, [0, 1 + rng.randrange(5), 0][:2 + rng.randrange(2)], [COIN] * 3, frac=0.2, m=1))
            A(_send_case(rng, "regress-segwit-version-locktime", kind, [0], [COIN], version=rng.choice([1, 2]),
                         locktime=rng.choice([1, 500000, 0xFFFFFFFE]), m=1))
            A(_send_case(rng, "regress-segwit-version-locktime", kind, [0], [COIN], version=2, locktime=0, m=1))
        for kind in LEGACY_KINDS:
            A(_send_case(rng, "regress-legacy-multi-input", kind, [0, 1], [COIN, COIN], flag=1, m=1))
            A(_send_case(rng, "regress-legacy-multi-input", kind, [rng.randrange(6) for _ in range(3)], [COIN] * 3, frac=0.9,
                         flag=rng.choice(FLAGS), m=2 if T else 1))
            A(_send_case(rng, "regress-legacy-flag", kind, [0], [COIN], flag=rng.choice([2, 0x82]), frac=rng.choice([1.0, 0.5]), m=1))
            A(_send_case(rng, "regress-legacy-flag", kind, [0], [COIN], flag=rng.choice([3, 0x83]), frac=0.5, m=1))
        A(_send_case(rng, "regress-raw-sender-no-change", "multisig", [0], [COIN], change=None, m=1))
        A(_send_case(rng, "regress-raw-sender-no-change", "multisig", [0, 3], [COIN, COIN], change=None, signed=False))
        A(_send_case(rng, "unsupported-recipient-raw", "p2pkh", [0], [COIN], rk="raw", signed=False))
        A(_send_case(rng, "unsupported-recipient-raw", "p2wpkh", [0], [COIN], rk="raw"))
    # ---- legacy kinds: every flag with two inputs and two outputs (SINGLE: input 1 signs output 1), and the SIGHASH_SINGLE
    #      input-without-output case (digest 1: not expressible through utils.sig, send_tx refuses with ValueError)
    for kind in LEGACY_KINDS:
        for flag in (FLAGS if T else rng.sample(FLAGS, 3) + [3]):
            A(_send_case(rng, "legacy-multi-input-flags", kind, [rng.randrange(6), rng.randrange(6)], [COIN, COIN + 5000], frac=0.75,
                         flag=flag, m=1, nkeys=2, version=rng.choice([1, 2]), locktime=rng.choice([0, 17]), compressed=rng.random() < 0.7))
        A(_send_case(rng, "legacy-single-quirk", kind, [0, 1], [COIN, COIN], frac=1.0, flag=rng.choice([3, 0x83]), m=1, nkeys=2))
    A(_send_case(rng, "legacy-single-quirk", "p2pkh", [2, 0, 1], [COIN, COIN, COIN], frac=0.9, flag=3))
    A(_send_case(rng, "legacy-multi-input-flags", "p2sh", [0, 1, 2], [COIN, COIN, COIN], frac=0.9, flag=0x82, m=2, nkeys=3))
    # ---- relations between elements: a multisig script that REPEATS a public key, signed with the same WIF supplied as often as
    #      needed (2-of-2 (A,A), 2-of-3 (A,B,A) by A,A and by A,B, 3-of-3 (A,B,A), 3-of-3 (A,A,A)); recipient = change = sender
    MS_KINDS = ("multisig", "p2sh", "p2wsh", "p2sh-p2wsh")
    REPEATS = [([0, 0], 2, [0, 1]), ([0, 1, 0], 2, [0, 2]), ([0, 1, 0], 3, [0, 1, 2]), ([0, 0, 0], 3, [0, 1, 2]),
               ([0, 1, 0], 2, [0, 1]), ([0, 0, 1], 2, [0, 1]), ([1, 0, 0], 2, [1, 2])]
    for kind in MS_KINDS:
        for (pat, m_, sg) in (REPEATS if T else rng.sample(REPEATS[:4], 2) + rng.sample(REPEATS[4:], 1)):
            A(_send_case(rng, "multisig-repeated-key", kind, [rng.randrange(3)], [COIN], frac=rng.choice([1.0, 0.5]), flag=rng.choice(FLAGS),
                         m=m_, nkeys=2, key_pattern=pat, signing=sg, compressed=rng.random() < 0.7))
    A(_send_case(rng, "multisig-repeated-key", "p2wsh", [0, 1], [COIN, COIN], frac=1.0, flag=1, m=2, nkeys=2, key_pattern=[0, 0],
                 signing=[0, 1]))
    # COMMITMENTS THAT LOOK LIKE SCRIPT: the key hash / script hash (= the tail of the redeem script 00 14 <h> / 00 20 <h> of the
    # nested kinds, and of the scriptCode) ends or starts with an opcode byte that assembly helpers test for - ae CHECKMULTISIG,
    # ac CHECKSIG, 87 EQUAL, 88 EQUALVERIFY, 51..53 OP_1..3, 00 - a helper that recognises a script "by its last byte" misfires
    LOOK = [("ends-ae", lambda h: h[-1] == 0xae), ("ends-ac", lambda h: h[-1] == 0xac), ("ends-87", lambda h: h[-1] == 0x87),
            ("ends-88", lambda h: h[-1] == 0x88), ("starts-51-53", lambda h: h[0] in (0x51, 0x52, 0x53)),
            ("starts-00", lambda h: h[0] == 0), ("ends-00", lambda h: h[-1] == 0)]
    for kind in ("p2sh-p2wpkh", "p2sh-p2wsh", "p2wpkh", "p2wsh", "p2pkh", "p2sh"):
        for name, pred in (LOOK if T else [LOOK[0]] + rng.sample(LOOK[1:], 1 if kind.startswith("p2sh-") else 0)):
            A(_send_case(rng, "commitment-looks-like-script-" + name, kind, [rng.randrange(3)], [COIN], frac=rng.choice([1.0, 0.5]),
                         flag=rng.choice(FLAGS), m=1, nkeys=2, commit_where=pred))
    # keys supplied in an order different from the script's: not a scenario of the property (CHECKMULTISIG is ordered and send_tx
    # signs in the order given) - implementation and model must still agree
    for kind in (MS_KINDS if T else rng.sample(MS_KINDS, 2)):
        A(_send_case(rng, "multisig-keys-out-of-order", kind, [0], [COIN], m=2, nkeys=3, signing=[2, 0]))
    for kind in ("p2pk", "p2pkh", "p2sh", "p2wpkh", "p2wsh", "p2sh-p2wpkh", "p2sh-p2wsh"):
        A(_send_case(rng, "same-address-everywhere", kind, [0, 1], [COIN, COIN], frac=0.3, rk="sender", change="sender",
                     signed=(kind in ("p2pkh", "p2wpkh") or T), m=1, nkeys=2))
    A(_send_case(rng, "same-address-everywhere", "p2pkh", [0], [COIN], frac=0.5, rk="sender", change=None))
    # the same outpoint reported twice (outside the quantifier: correspondence only), and utxos identical in everything but vout
    dup = _send_case(rng, "same-outpoint-twice", "p2pkh", [2, 2], [COIN, COIN], frac=1.0, signed=False, same_txid=True)
    A(dup)
    A(_send_case(rng, "same-outpoint-twice", "p2wpkh", [0, 0], [COIN, COIN], frac=1.0, flag=1, same_txid=True))
    A(_send_case(rng, "twin-utxos", "p2sh-p2wpkh", [0, 1, 2], [COIN] * 3, frac=0.5, flag=0x81, same_txid=True))
    A(_send_case(rng, "twin-utxos", "p2pkh", [3, 4], [12345678] * 2, frac=1.0, flag=1, same_txid=True))
    # ---- PAIRS run back to back in the same worker: scenarios that agree in what a cheap fingerprint would look at
    #      (private keys k and n-k: same x coordinate; txids with equal first 16 / last 8 bytes; equal everything but one field)
    k0 = rng.randrange(2, SECP_N - 1)
    for kk in (k0, SECP_N - k0):
        s_addr, spk, wifs = sender("p2wpkh", [kk])
        rec = recipient("p2pkh", random.Random(k0))
        A(scenario("pair-negated-key", s_addr, rec, None, wifs, 1, 1.0, 1000, 1, 0, [(b"\x07" * 32, 0, COIN, spk)], _draws(rng, 2)))
    s_addr, spk, wifs = sender("p2pkh", [k0])
    rec = recipient("p2wpkh", random.Random(k0 + 1))
    head, tail = rng.randbytes(16), rng.randbytes(8)
    for mid in (b"\x00" * 8, b"\x01" * 8):
        A(scenario("pair-similar-txid", s_addr, rec, None, wifs, 1, 1.0, 1000, 1, 0, [(head + mid + tail, 0, COIN, spk)], _draws(rng, 2)))
    for amt in (COIN, COIN + 1):
        A(scenario("pair-one-field-differs", s_addr, rec, None, [], None, 0.5, 1000, 1, 0, [(head + head, 1, amt, spk)], []))
    for lt in (0, 1):
        A(scenario("pair-one-field-differs", s_addr, rec, None, wifs, 0x81, 0.5, 1000, 2, lt, [(tail * 4, 1, COIN, spk)], _draws(rng, 2)))
    # ---- field values that look like structure: all-zero / all-ff txid, the coinbase output index, maximal locktime
    for txid_, vout_ in ((b"\x00" * 32, 0xFFFFFFFF), (b"\xff" * 32, 0), (b"\x00" * 31 + b"\x01", 0xFFFFFFFF)):
        A(scenario("structure-like-fields", s_addr, rec, None, [], None, 1.0, 0, 2, 0xFFFFFFFF, [(txid_, vout_, COIN, spk)], []))
    A(scenario("structure-like-fields", s_addr, rec, None, wifs, 1, 1.0, 1000, 1, 0xFFFFFFFF, [(b"\x00" * 32, 0, COIN, spk)], _draws(rng, 2)))
    # ---- witness scripts of 253 bytes and more (1-of-8: 275 bytes; beyond the property's n <= 3): CompactSize scriptCode length
    for kind in ("p2wsh", "p2sh-p2wsh"):
        A(_send_case(rng, "wsh-large-witness-script", kind, [0], [COIN], frac=rng.choice([1.0, 0.5]), flag=rng.choice(FLAGS),
                     m=1, nkeys=8))
    # ... and redeem scripts above 255 bytes for legacy p2sh (within the 520-byte limit): pushed with OP_PUSHDATA2
    A(_send_case(rng, "p2sh-large-redeem-script", "p2sh", [rng.randrange(3)], [COIN], frac=0.5, flag=1, m=1, nkeys=8))
    A(_send_case(rng, "p2sh-large-redeem-script", "p2sh", [0], [COIN], frac=1.0, flag=rng.choice(FLAGS), m=2, nkeys=4, compressed=False))
    if T:
        A(_send_case(rng, "p2sh-large-redeem-script", "p2sh", [0, 1], [COIN, COIN], frac=1.0, flag=0x81, m=1, nkeys=15))
        A(_send_case(rng, "p2sh-large-redeem-script", "multisig", [0], [COIN], frac=1.0, flag=1, m=1, nkeys=8))
    # ---- the witnesses of the repaired findings (corpus/c16/*.json): regression inputs that must satisfy the property now
    for c in corpus_cases():
        A(c)
    # ---- signed segwit on the valid sub-domain with INEXACT float amounts (a*1e8 just below the integer): the amount committed to
    #      by the BIP143 message must be the exact satoshi value, for every flag
    for kind in SEGWIT_KINDS:
        for flag in FLAGS:
            A(_send_case(rng, "signed-segwit-inexact-amount", kind, [0], [rng.choice(INEXACT_SATS)], frac=rng.choice([1.0, 0.5]), flag=flag,
                         m=1 if not T else rng.randrange(1, 3), nkeys=2, rk=rng.choice(RECIPIENTS)))
        ks = rng.sample(INEXACT_SATS, 2)
        A(_send_case(rng, "signed-segwit-inexact-amount-multi", kind, [0, 1], ks, frac=1.0, flag=rng.choice(FLAGS), m=1, nkeys=2))
        if T:
            ks = rng.sample(INEXACT_SATS, 3)
            A(_send_case(rng, "signed-segwit-inexact-amount-multi", kind, [0, 1, 2], ks, frac=0.99, flag=rng.choice(FLAGS), m=1, nkeys=2))
    # ---- several reported outputs of the SAME funding transaction (same txid, output indices 0..n-1), more than one needed
    for kind in LEGACY_KINDS + SEGWIT_KINDS:
        n = rng.randrange(2, 5)
        A(_send_case(rng, "same-txid-unsigned", kind, list(range(n)), [COIN + rng.randrange(1000) for _ in range(n)], frac=1.0,
                     signed=False, same_txid=True, change="p2pkh", m=rng.randrange(1, 4)))
        A(_send_case(rng, "same-txid-unsigned", kind, rng.sample(range(6), 3), [COIN, 2 * COIN, 3 * COIN],
                     frac=rng.choice([0.5, 0.9]), signed=False, same_txid=True, change="p2wpkh", version=rng.choice([1, 2])))
    for kind in SEGWIT_KINDS:                  # valid on the unchanged tree: output index = position, everything selected
        A(_send_case(rng, "same-txid-signed-segwit", kind, [0, 1], [COIN, COIN + 7], frac=1.0, flag=rng.choice(FLAGS), m=1, nkeys=2,
                     same_txid=True))
    A(_send_case(rng, "same-txid-signed-segwit", "p2wpkh", [0, 1, 2], [COIN, COIN, COIN], frac=0.9, flag=1, same_txid=True))
    for kind in LEGACY_KINDS:                  # (two legacy inputs: the known one-signature class; the value clauses still count)
        A(_send_case(rng, "same-txid-signed-legacy", kind, [0, 1], [COIN, COIN], frac=1.0, flag=1, m=1, nkeys=2, same_txid=True))
    # ---- unsigned: the whole product is cheap
    for _ in range(400 if T else 120):
        kind = rng.choice(LEGACY_KINDS + SEGWIT_KINDS)
        k = rng.randrange(1, 7)
        sats = [_rand_sats(rng) for _ in range(k)]
        while sum(sats) > MAX_MONEY:
            sats = [max(1, s // 2) for s in sats]
        A(_send_case(rng, "unsigned", kind, [rng.randrange(6) for _ in range(k)], sats, frac=_rand_frac(rng),
                     fee=rng.choice([0, 1, 1000, 1000, 2500]), version=rng.choice([1, 2]),
                     locktime=rng.choice([0, 0, 1, 650000, 0xFFFFFFFF]), rk=rng.choice(RECIPIENTS),
                     change=rng.choice(["p2pkh", "p2wpkh", "p2sh", "pubkey", None if kind != "multisig" else "p2tr"]),
                     signed=False, m=rng.randrange(1, 4), net=rng.choice(list(NETS)), compressed=rng.random() < 0.7))
    # ---- signed random scenarios over the whole product (most fall into a known class; the rest must verify)
    for _ in range(150 if T else 8):
        kind = rng.choice(LEGACY_KINDS + SEGWIT_KINDS)
        k = rng.randrange(1, 4)
        m = rng.randrange(1, 3)
        A(_send_case(rng, "signed-random", kind, [rng.randrange(0, 3) for _ in range(k)], [_rand_sats(rng) + 2000 for _ in range(k)],
                     frac=_rand_frac(rng), fee=rng.choice([0, 1000]), flag=rng.choice(FLAGS), version=rng.choice([1, 1, 2]),
                     locktime=rng.choice([0, 0, 7]), m=m, nkeys=rng.randrange(m, 4), rk=rng.choice(RECIPIENTS),
                     change=rng.choice(["p2pkh", "p2wpkh"]), compressed=rng.random() < 0.7))
    # ---- malformed / outside the quantifier: implementation and model must agree (ok/err)
    k3 = _keys(rng, 3)
    s_addr, spk, wifs = sender("p2pkh", k3[:1])
    s2_addr, spk2, wifs2 = sender("p2wpkh", k3[1:2])
    sm_addr, spkm, wifsm = sender("p2sh", k3, m=2)
    rec = recipient("p2pkh", rng)
    ux = _utxos(rng, [0], [COIN], spk)
    A(scenario("malformed-no-flag", s_addr, rec, None, wifs, None, 1.0, 1000, 1, 0, ux, _draws(rng, 2)))
    A(scenario("malformed-two-keys-p2pkh", s_addr, rec, None, wifs + wifs, 1, 1.0, 1000, 1, 0, ux, _draws(rng, 3)))
    A(scenario("malformed-mixed-types", s_addr, rec, None, wifs + wifs2, 1, 1.0, 1000, 1, 0, ux, _draws(rng, 3)))
    A(scenario("malformed-mixed-data", sm_addr, rec, None, [wifsm[0], wif(k3[1], "p2sh", "regtest", b"\x51")], 1, 1.0, 1000, 1, 0,
               _utxos(rng, [0], [COIN], spkm), _draws(rng, 3)))
    A(scenario("malformed-bad-wif", s_addr, rec, None, [wifs[0][:-1] + (b"1" if wifs[0][-1:] != b"1" else b"2")], 1, 1.0, 1000, 1, 0,
               ux, _draws(rng, 2)))
    A(scenario("malformed-unknown-wif-version", s_addr, rec, None, [R.b58check_enc(b"\x42" + k3[0].to_bytes(32, "big"))], 1, 1.0, 1000,
               1, 0, ux, _draws(rng, 2)))
    A(scenario("malformed-fee-above-request", s_addr, rec, None, [], None, 1e-7, 1000, 1, 0, ux, []))
    A(scenario("malformed-fee-above-request", s_addr, rec, None, wifs, 1, 0.5, COIN, 1, 0, ux, _draws(rng, 2)))
    A(scenario("malformed-empty-change", s_addr, rec, b"", [], None, 0.5, 1000, 1, 0, ux, []))
    A(scenario("malformed-version-range", s_addr, rec, None, [], None, 1.0, 1000, 2 ** 32, 0, ux, []))
    A(scenario("malformed-locktime-range", s_addr, rec, None, [], None, 1.0, 1000, 1, -1, ux, []))
    A(scenario("malformed-draws-exhausted", s_addr, rec, None, wifs, 1, 1.0, 1000, 1, 0, ux, [0, 0]))
    A(scenario("nonce-retry", s_addr, rec, None, wifs, 1, 1.0, 1000, 1, 0, ux, [0, 0] + _draws(rng, 1)))
    return out


def shrink(c):
    """drop trailing unspents / simplify fraction and fee"""
    if c["op"] != "send":
        return
    a = c["args"]
    if len(a[10]) > 1:
        b = list(a)
        b[10] = a[10][:-1]
        tot = sum(R.float_to_sat(R.me2f(u[2])) or 0 for u in b[10])
        b[9] = R.f2me(R.sat_to_float(tot))
        yield dict(c, args=b)
    if a[5] != R.f2me(1.0):
        b = list(a)
        b[5] = R.f2me(1.0)
        yield dict(c, args=b)


# ------------------------------------------------------------------------------------------------
# the literal property on EVERY scenario of the run (not only where implementation and model disagree)
# ------------------------------------------------------------------------------------------------
def extra_checks(ctx):
    import random
    impl, tier = ctx["impl"], ctx["tier"]
    seed = int(os.environ.get("VERIF_SEED", "0") or 0)
    cases = gen_cases(random.Random("C16-%s-%s" % (tier, seed)), tier)
    out = []
    n = failing = 0
    vals = [c for c in cases if c["op"] == "values"]
    sends = [c for c in cases if c["op"] == "send"]
    rng = random.Random("C16-extra")
    for c in sends + rng.sample(vals, min(len(vals), 3000 if tier == "thorough" else 600)):
        v = impl.oracle(c, timeout=CASE_TIMEOUT)
        n += 1
        if v is None:
            continue
        failing += 1
        if failing > 8:
            continue
        out.append({"kind": "input", "case": case_to_json(c), "observed": "implementation (see property_oracle)",
                    "expected": "the literal property C16 (independent checker harness/c16ref.py)", "oracle": v,
                    "failing_input_found": True})
    ex = ctx["stats"].setdefault("extra", {})
    ex["literal_property_evaluations"] = n
    ex["failing_scenarios"] = failing
    return out
