"""Gen table for C08: the constants that are LITERALS INSIDE utils.to_bitcoin_address and script.utils.scriptpubkey,
read from /repo's current source by `ast`, plus the version byte the encoder really emits per (network, address type),
observed by running it.  When the syntactic reader of a table does not recognise the shape of the code (a harmless
refactoring) and the table is a FINITE function of the code's behaviour, a behavioural probe determines it instead
(all 256 version bytes, payload lengths 0..80, the two version-0 program lengths, the 3 x 2 encoder table); the order of
the three classifier tests has no finite probe and its reader fails closed (it recognises if/elif chains and sequences
of early-return ifs).  The generated file records which way each table was obtained (`translator_mode`).

  to_bitcoin_address: the if/elif chain  `network == "mainnet" and addr_type == "p2pkh": version = b"\\x00"` ...
  scriptpubkey:       `version in [b"\\x00", b"\\x6f"]` -> p2pkh_script_pubkey ; `version in [b"\\x05", b"\\xc4"]` ->
                      p2sh_script_pubkey ; `if len(payload) != 20: raise ValueError` ; `hrp in [b"bc", b"tb", b"bcrt"]` ;
                      the witness program lengths 20 / 32 ;
                      the order of the three tests (is_point, is_base58check, is_segwit_addr)
"""
import ast
import hashlib
import inspect
import textwrap


def _fn_ast(fn):
    src = textwrap.dedent(inspect.getsource(fn))
    tree = ast.parse(src)
    assert isinstance(tree.body[0], ast.FunctionDef), "not a function definition"
    return tree.body[0]


def _bytes_list(node):
    assert isinstance(node, (ast.List, ast.Tuple, ast.Set)), ast.dump(node)
    assert node.elts and all(isinstance(e, ast.Constant) and isinstance(e.value, bytes) for e in node.elts), ast.dump(node)
    return [e.value for e in node.elts]


def _called_names(nodes):
    out = set()
    for n in nodes:
        for c in ast.walk(n):
            if isinstance(c, ast.Call):
                f = c.func
                out.add(f.id if isinstance(f, ast.Name) else f.attr if isinstance(f, ast.Attribute) else "?")
    return out


def _str_names(test):
    """all string constants compared with == / in inside a boolean test, by variable name"""
    out = {}
    for c in ast.walk(test):
        if isinstance(c, ast.Compare) and isinstance(c.left, ast.Name) and len(c.ops) == 1:
            rhs = c.comparators[0]
            if isinstance(c.ops[0], ast.Eq) and isinstance(rhs, ast.Constant) and isinstance(rhs.value, str):
                out[c.left.id] = [rhs.value]
            elif isinstance(c.ops[0], ast.In) and isinstance(rhs, (ast.List, ast.Tuple)):
                out[c.left.id] = [e.value for e in rhs.elts]
    return out


def encoder_versions(fn):
    """[(network, addr_type, version bytes)] from the `version = b".."` assignments of to_bitcoin_address"""
    rows = []
    for node in ast.walk(_fn_ast(fn)):
        if isinstance(node, ast.If):
            assigns = [s for s in node.body if isinstance(s, ast.Assign)
                       and any(isinstance(t, ast.Name) and t.id == "version" for t in s.targets)]
            if not assigns:
                continue
            assert len(assigns) == 1 and len(node.body) == 1, "unexpected body next to `version = ...`"
            v = assigns[0].value
            assert isinstance(v, ast.Constant) and isinstance(v.value, bytes) and len(v.value) == 1, ast.dump(v)
            names = _str_names(node.test)
            assert set(names) == {"network", "addr_type"}, names
            for net in names["network"]:
                for ty in names["addr_type"]:
                    rows.append((net, ty, v.value))
    assert len(rows) == 6, "expected 3 networks x 2 address types, found %r" % rows
    assert len({(n, t) for n, t, _ in rows}) == 6, rows
    return sorted(rows)


# ---------------------------------------------------------------- syntactic readers of scriptpubkey (each fails closed)
def syn_versions(f):
    vers = {}
    for node in ast.walk(f):
        if isinstance(node, ast.If) and isinstance(node.test, ast.Compare) and isinstance(node.test.left, ast.Name) \
                and node.test.left.id == "version" and isinstance(node.test.ops[0], ast.In):
            calls = _called_names(node.body) & {"p2pkh_script_pubkey", "p2sh_script_pubkey"}
            assert len(calls) == 1, "a version-byte branch must call exactly one builder: %r" % calls
            name = calls.pop()
            assert name not in vers, "two branches for " + name
            vers[name] = _bytes_list(node.test.comparators[0])
            assert all(len(v) == 1 for v in vers[name]), vers[name]
    assert set(vers) == {"p2pkh_script_pubkey", "p2sh_script_pubkey"}, vers
    return vers


def syn_hrps(f):
    hrps = None
    for node in ast.walk(f):
        if isinstance(node, ast.Assert) and isinstance(node.test, ast.Compare) and isinstance(node.test.left, ast.Name) \
                and node.test.left.id == "hrp":
            assert hrps is None and isinstance(node.test.ops[0], ast.In)
            hrps = _bytes_list(node.test.comparators[0])
    assert hrps is not None, "hrp assertion not found"
    return hrps


def syn_lengths(f):
    lengths = []
    for node in ast.walk(f):
        if isinstance(node, ast.If) and isinstance(node.test, ast.Compare) and isinstance(node.test.ops[0], ast.Eq) \
                and isinstance(node.test.left, ast.Call) and getattr(node.test.left.func, "id", None) == "len":
            c = node.test.comparators[0]
            assert isinstance(c, ast.Constant) and isinstance(c.value, int)
            calls = _called_names(node.body) & {"p2wpkh_script_pubkey", "p2wsh_script_pubkey"}
            assert len(calls) == 1, calls
            lengths.append((c.value, calls.pop()))
    assert len(lengths) == 2, lengths
    return sorted(lengths)


def syn_plen(f):
    """`if len(payload) != N: raise ...` in front of the version-byte dispatch"""
    plen = []
    for node in ast.walk(f):
        if isinstance(node, ast.If) and isinstance(node.test, ast.Compare) and isinstance(node.test.ops[0], ast.NotEq) \
                and isinstance(node.test.left, ast.Call) and getattr(node.test.left.func, "id", None) == "len" \
                and len(node.test.left.args) == 1 and getattr(node.test.left.args[0], "id", None) == "payload":
            c = node.test.comparators[0]
            assert isinstance(c, ast.Constant) and isinstance(c.value, int) and not isinstance(c.value, bool)
            assert len(node.body) == 1 and isinstance(node.body[0], ast.Raise) and not node.orelse, "length check must raise"
            exc = node.body[0].exc
            name = exc.func.id if isinstance(exc, ast.Call) else getattr(exc, "id", None)
            plen.append((c.value, name))
    assert len(plen) == 1, "expected exactly one `if len(payload) != N: raise`, found %r" % plen
    return plen[0]


def _terminates(body):
    """control never falls out of the end of this statement list"""
    if not body:
        return False
    last = body[-1]
    if isinstance(last, (ast.Return, ast.Raise)):
        return True
    if isinstance(last, ast.If):
        return bool(last.orelse) and _terminates(last.body) and _terminates(last.orelse)
    return False


ORDER_NAMES = ("is_point", "is_base58check", "is_segwit_addr")


def syn_order(f):
    """order in which the function body applies its classifier tests.  Recognised shapes (and mixtures): ONE
    if / elif / ... / else: raise chain, or a SEQUENCE of `if test(data): ... return` statements whose bodies never
    fall through, ended by a raise.  The tests must be calls of the three classifiers, each exactly once."""
    stmts = [s for s in f.body if not (isinstance(s, ast.Expr) and isinstance(s.value, ast.Constant))]
    order = []

    def name_of(t):
        assert isinstance(t, ast.Call) and len(t.args) == 1 and not t.keywords, "test is not a one-argument call: " + ast.dump(t)
        assert isinstance(t.args[0], ast.Name) and t.args[0].id == f.args.args[0].arg, "test is not applied to the input"
        return t.func.attr if isinstance(t.func, ast.Attribute) else t.func.id

    ended = False
    for i, s in enumerate(stmts):
        last = i == len(stmts) - 1
        if isinstance(s, ast.Raise):
            assert last, "statements after the final raise"
            ended = True
            break
        assert isinstance(s, ast.If), "unexpected top-level statement: " + type(s).__name__
        node, bodies = s, []
        while True:
            order.append(name_of(node.test))
            bodies.append(node.body)
            if len(node.orelse) == 1 and isinstance(node.orelse[0], ast.If):
                node = node.orelse[0]
                continue
            break
        if node.orelse:
            assert last and _terminates(node.orelse), "a final else must end the function"
            # what the else branch does is not a classifier test: it must refuse
            assert all(isinstance(x, ast.Raise) for x in node.orelse), "the final else must raise"
            ended = True
        else:
            assert all(_terminates(b) for b in bodies), "a branch may fall through to the next test"
    assert ended, "the function must end by raising for unclassified input"
    assert sorted(order) == sorted(ORDER_NAMES), "tests found: %r" % (order,)
    return order


# ---------------------------------------------------------------- behavioural probes (finite domains), used only when the
# syntactic reader does not recognise the shape of the code
def _h4(p):
    return hashlib.sha256(hashlib.sha256(p).digest()).digest()[:4]


def _b58encode(b):
    alpha = b"123456789ABCDEFGHJKLMNPQRSTUVWXYZabcdefghijkmnopqrstuvwxyz"
    n = int.from_bytes(b, "big")
    out = b""
    while n:
        n, r = divmod(n, 58)
        out = alpha[r:r + 1] + out
    return b"1" * (len(b) - len(b.lstrip(b"\0"))) + out


def _b58check(payload):
    return _b58encode(payload + _h4(payload))


_PROBE_HASHES = [bytes(range(1, 21)), hashlib.new("sha1", b"gen_c08 probe").digest(), bytes(20), b"\xff" * 20]


def _classify_b58(spk, v, h):
    """what scriptpubkey does with base58check(v || h): 'p2pkh' | 'p2sh' | ('refused', class name)"""
    try:
        s = spk(_b58check(bytes([v]) + h))
    except Exception as e:          # noqa
        return ("refused", type(e).__name__)
    if len(h) == 20 and s == b"\x76\xa9\x14" + h + b"\x88\xac":
        return "p2pkh"
    if len(h) == 20 and s == b"\xa9\x14" + h + b"\x87":
        return "p2sh"
    raise AssertionError("version byte %02x, %d-byte payload: unclassifiable script %s" % (v, len(h), s.hex()))


def probe_versions(spk):
    """all 256 version bytes x a few 20-byte hashes, classified by the template that comes out"""
    vers = {"p2pkh_script_pubkey": [], "p2sh_script_pubkey": []}
    for v in range(256):
        kinds = {(_classify_b58(spk, v, h) if isinstance(_classify_b58(spk, v, h), str) else "refused") for h in _PROBE_HASHES}
        assert len(kinds) == 1, "version byte %02x: behaviour depends on the payload: %r" % (v, kinds)
        k = kinds.pop()
        if k == "p2pkh":
            vers["p2pkh_script_pubkey"].append(bytes([v]))
        elif k == "p2sh":
            vers["p2sh_script_pubkey"].append(bytes([v]))
    assert vers["p2pkh_script_pubkey"] and vers["p2sh_script_pubkey"], vers
    return vers


def probe_plen(spk, vers):
    """payload lengths 0..80 under every accepted version byte: exactly one length is accepted"""
    found = set()
    classes = set()
    for name in sorted(vers):
        for vb in vers[name]:
            ok = []
            for L in range(0, 81):
                h = (hashlib.sha512(b"gen_c08 %d" % L).digest() * 2)[:L]
                try:
                    spk(_b58check(vb + h))
                    ok.append(L)
                except Exception as e:      # noqa
                    classes.add(type(e).__name__)
            assert len(ok) == 1, "version %s accepts payload lengths %r" % (vb.hex(), ok)
            found.add(ok[0])
    assert len(found) == 1 and len(classes) == 1, (found, classes)
    return (found.pop(), classes.pop())


def probe_lengths(spk):
    """version-0 programs of 20 / 32 bytes, classified by template (00 14 <20> = P2WPKH, 00 20 <32> = P2WSH)"""
    import c08
    out = []
    for L, name, head in ((20, "p2wpkh_script_pubkey", b"\x00\x14"), (32, "p2wsh_script_pubkey", b"\x00\x20")):
        for hrp in ("bc", "tb", "bcrt"):
            prog = hashlib.sha256(b"gen_c08 prog %d %s" % (L, hrp.encode())).digest()[:L]
            s = spk(c08.ref_segwit_encode(hrp, 0, prog))
            assert s == head + prog, "v0 %d-byte program: script %s" % (L, s.hex())
        out.append((L, name))
    # ... and no other version-0 length has a branch
    for L in [x for x in range(2, 41) if x not in (20, 32)]:
        try:
            s = spk(c08.ref_segwit_encode("bc", 0, bytes(L)))
        except Exception:       # noqa
            continue
        raise AssertionError("v0 %d-byte program accepted: %s" % (L, s.hex()))
    return out


def gate_hrps(spk, order, u):
    """the segwit branch is guarded by is_segwit_addr (established by syn_order: input that fails the test reaches the
    final raise), so the human-readable parts scriptpubkey can accept are among those of assert_valid_segwit (read like
    Gen/Bech32Gen.v reads them, failing closed); every one of them is probed to BE accepted, so the two sets are equal"""
    import c08
    import gen_c06
    assert "is_segwit_addr" in order
    gate = gen_c06._bytes_list_in(u.assert_valid_segwit)
    for h in gate:
        for v, L in ((0, 20), (0, 32), (1, 32), (16, 2)):
            prog = hashlib.sha256(b"gen_c08 hrp" + h).digest()[:L]
            s = spk(c08.ref_segwit_encode(h.decode(), v, prog))
            assert s == bytes([0 if v == 0 else 0x50 + v, L]) + prog, (h, v, s.hex())
    return list(gate)


def _b58decode(s):
    alpha = b"123456789ABCDEFGHJKLMNPQRSTUVWXYZabcdefghijkmnopqrstuvwxyz"
    n = 0
    for ch in s:
        n = n * 58 + alpha.index(ch)
    body = n.to_bytes((n.bit_length() + 7) // 8, "big")
    return b"\0" * (len(s) - len(s.lstrip(b"1"))) + body


def _try(reader, fallback, modes, key, fallback_mode="probe"):
    """the syntactic reader; the behavioural probe only when the reader does not recognise the code's shape"""
    try:
        v = reader()
        modes[key] = "syntactic"
        return v
    except Exception as e:      # noqa
        if fallback is None:
            raise
        v = fallback()
        modes[key] = fallback_mode
        modes[key + "_reader_said"] = ("%s: %s" % (type(e).__name__, e))[:120].replace("*)", "* )").replace("(*", "( *")
        return v


def register(gt):
    @gt.table("AddressGen")
    def gen_address():
        gt.load()
        import bits.utils as u
        import bits.script.utils as su
        modes = {}
        # what the encoder emits (independent Base58 decoding, hashlib checksum): 3 networks x 2 types, a finite table
        emitted = []
        for net in ("mainnet", "testnet", "regtest"):
            for ty in ("p2pkh", "p2sh"):
                addr = u.to_bitcoin_address(bytes(range(20)), addr_type=ty, network=net)
                raw = _b58decode(addr)
                assert len(raw) == 25 and raw[1:21] == bytes(range(20)), raw
                assert raw[21:] == hashlib.sha256(hashlib.sha256(raw[:21]).digest()).digest()[:4]
                emitted.append((net, ty, raw[:1]))
        rows = _try(lambda: encoder_versions(u.to_bitcoin_address), lambda: sorted(emitted), modes, "encoder_versions")
        spk = su.scriptpubkey
        f = _fn_ast(spk)
        order = _try(lambda: syn_order(f), None, modes, "dispatch_order")        # no finite probe exists: fail closed
        vers = _try(lambda: syn_versions(f), lambda: probe_versions(spk), modes, "dispatch_versions")
        plen = _try(lambda: syn_plen(f), lambda: probe_plen(spk, vers), modes, "dispatch_payload_length")
        lengths = _try(lambda: syn_lengths(f), lambda: probe_lengths(spk), modes, "dispatch_lengths")
        hrps = _try(lambda: syn_hrps(f), lambda: gate_hrps(spk, order, u), modes, "dispatch_hrps",
                    fallback_mode="is_segwit_addr-gate+probe")
        out = gt.HEADER
        out += "(* translator_mode: %s *)\n" % "; ".join("%s=%s" % (k, modes[k]) for k in sorted(modes))
        triple = lambda r: "(%s, %s, %s)" % (gt.coq_string_bytes(r[0]), gt.coq_string_bytes(r[1]), gt.coq_bytes(r[2]))
        out += "Definition encoder_versions : list (bytes * bytes * bytes) :=\n  %s.\n" % gt.coq_list(triple(r) for r in rows)
        out += "Definition emitted_versions : list (bytes * bytes * bytes) :=\n  %s.\n" % gt.coq_list(
            triple(r) for r in sorted(emitted))
        out += "Definition dispatch_p2pkh_versions : list bytes := %s.\n" % gt.coq_list(
            gt.coq_bytes(v) for v in vers["p2pkh_script_pubkey"])
        out += "Definition dispatch_p2sh_versions : list bytes := %s.\n" % gt.coq_list(
            gt.coq_bytes(v) for v in vers["p2sh_script_pubkey"])
        out += "Definition dispatch_hrps : list bytes := %s.\n" % gt.coq_list(gt.coq_bytes(h) for h in hrps)
        out += "Definition dispatch_lengths : list (Z * bytes) := %s.\n" % gt.coq_list(
            "(%s, %s)" % (gt.coq_Z(n), gt.coq_string_bytes(b)) for n, b in lengths)
        out += "Definition dispatch_payload_length : Z * bytes := (%s, %s).\n" % (gt.coq_Z(plen[0]), gt.coq_string_bytes(plen[1]))
        out += "Definition dispatch_order : list bytes := %s.\n" % gt.coq_list(gt.coq_string_bytes(o) for o in order)
        return out
