"""Gen table for C08: the constants that are LITERALS INSIDE utils.to_bitcoin_address and script.utils.scriptpubkey,
read from /repo's current source by `ast` (fail-closed: any shape this reader does not recognise raises), plus the
version byte the encoder really emits per (network, address type), observed by running it.

  to_bitcoin_address: the if/elif chain  `network == "mainnet" and addr_type == "p2pkh": version = b"\\x00"` ...
  scriptpubkey:       `version in [b"\\x00", b"\\x6f"]` -> p2pkh_script_pubkey ; `version in [b"\\x05", b"\\xc4"]` ->
                      p2sh_script_pubkey ; `if len(payload) != 20: raise ValueError` ; `hrp in [b"bc", b"tb", b"bcrt"]` ;
                      the witness program lengths 20 / 32 ;
                      the order of the three tests (is_point, is_base58check, is_segwit_addr)
"""
import ast
import hashlib
import inspect
import textwrap


def _fn_ast(fn):
    src = textwrap.dedent(inspect.getsource(fn))
    tree = ast.parse(src)
    assert isinstance(tree.body[0], ast.FunctionDef), "not a function definition"
    return tree.body[0]


def _bytes_list(node):
    assert isinstance(node, (ast.List, ast.Tuple, ast.Set)), ast.dump(node)
    assert node.elts and all(isinstance(e, ast.Constant) and isinstance(e.value, bytes) for e in node.elts), ast.dump(node)
    return [e.value for e in node.elts]


def _called_names(nodes):
    out = set()
    for n in nodes:
        for c in ast.walk(n):
            if isinstance(c, ast.Call):
                f = c.func
                out.add(f.id if isinstance(f, ast.Name) else f.attr if isinstance(f, ast.Attribute) else "?")
    return out


def _str_names(test):
    """all string constants compared with == / in inside a boolean test, by variable name"""
    out = {}
    for c in ast.walk(test):
        if isinstance(c, ast.Compare) and isinstance(c.left, ast.Name) and len(c.ops) == 1:
            rhs = c.comparators[0]
            if isinstance(c.ops[0], ast.Eq) and isinstance(rhs, ast.Constant) and isinstance(rhs.value, str):
                out[c.left.id] = [rhs.value]
            elif isinstance(c.ops[0], ast.In) and isinstance(rhs, (ast.List, ast.Tuple)):
                out[c.left.id] = [e.value for e in rhs.elts]
    return out


def encoder_versions(fn):
    """[(network, addr_type, version bytes)] from the `version = b".."` assignments of to_bitcoin_address"""
    rows = []
    for node in ast.walk(_fn_ast(fn)):
        if isinstance(node, ast.If):
            assigns = [s for s in node.body if isinstance(s, ast.Assign)
                       and any(isinstance(t, ast.Name) and t.id == "version" for t in s.targets)]
            if not assigns:
                continue
            assert len(assigns) == 1 and len(node.body) == 1, "unexpected body next to `version = ...`"
            v = assigns[0].value
            assert isinstance(v, ast.Constant) and isinstance(v.value, bytes) and len(v.value) == 1, ast.dump(v)
            names = _str_names(node.test)
            assert set(names) == {"network", "addr_type"}, names
            for net in names["network"]:
                for ty in names["addr_type"]:
                    rows.append((net, ty, v.value))
    assert len(rows) == 6, "expected 3 networks x 2 address types, found %r" % rows
    assert len({(n, t) for n, t, _ in rows}) == 6, rows
    return sorted(rows)


def dispatcher_tables(fn):
    """version-byte lists per builder, the hrp list, the special program lengths and the test order of scriptpubkey"""
    f = _fn_ast(fn)
    vers = {}
    hrps = None
    lengths = []
    for node in ast.walk(f):
        if isinstance(node, ast.If) and isinstance(node.test, ast.Compare) and isinstance(node.test.left, ast.Name) \
                and node.test.left.id == "version" and isinstance(node.test.ops[0], ast.In):
            calls = _called_names(node.body) & {"p2pkh_script_pubkey", "p2sh_script_pubkey"}
            assert len(calls) == 1, "a version-byte branch must call exactly one builder: %r" % calls
            name = calls.pop()
            assert name not in vers, "two branches for " + name
            vers[name] = _bytes_list(node.test.comparators[0])
            assert all(len(v) == 1 for v in vers[name]), vers[name]
        if isinstance(node, ast.Assert) and isinstance(node.test, ast.Compare) and isinstance(node.test.left, ast.Name) \
                and node.test.left.id == "hrp":
            assert hrps is None and isinstance(node.test.ops[0], ast.In)
            hrps = _bytes_list(node.test.comparators[0])
        if isinstance(node, ast.If) and isinstance(node.test, ast.Compare) and isinstance(node.test.ops[0], ast.Eq) \
                and isinstance(node.test.left, ast.Call) and getattr(node.test.left.func, "id", None) == "len":
            c = node.test.comparators[0]
            assert isinstance(c, ast.Constant) and isinstance(c.value, int)
            calls = _called_names(node.body) & {"p2wpkh_script_pubkey", "p2wsh_script_pubkey"}
            assert len(calls) == 1, calls
            lengths.append((c.value, calls.pop()))
    # `if len(payload) != N: raise ...` in front of the version-byte dispatch
    plen = []
    for node in ast.walk(f):
        if isinstance(node, ast.If) and isinstance(node.test, ast.Compare) and isinstance(node.test.ops[0], ast.NotEq) \
                and isinstance(node.test.left, ast.Call) and getattr(node.test.left.func, "id", None) == "len" \
                and len(node.test.left.args) == 1 and getattr(node.test.left.args[0], "id", None) == "payload":
            c = node.test.comparators[0]
            assert isinstance(c, ast.Constant) and isinstance(c.value, int) and not isinstance(c.value, bool)
            assert len(node.body) == 1 and isinstance(node.body[0], ast.Raise) and not node.orelse, "length check must raise"
            exc = node.body[0].exc
            name = exc.func.id if isinstance(exc, ast.Call) else getattr(exc, "id", None)
            plen.append((c.value, name))
    assert len(plen) == 1, "expected exactly one `if len(payload) != N: raise`, found %r" % plen
    assert set(vers) == {"p2pkh_script_pubkey", "p2sh_script_pubkey"}, vers
    assert hrps is not None, "hrp assertion not found"
    assert len(lengths) == 2, lengths
    # order of the top-level tests: the if / elif chain that is the function's last statement
    top = [s for s in f.body if isinstance(s, ast.If)]
    assert len(top) == 1, "expected one top-level if-chain"
    order = []
    node = top[0]
    while True:
        t = node.test
        assert isinstance(t, ast.Call), ast.dump(t)
        order.append(t.func.attr if isinstance(t.func, ast.Attribute) else t.func.id)
        if len(node.orelse) == 1 and isinstance(node.orelse[0], ast.If):
            node = node.orelse[0]
        else:
            assert node.orelse and isinstance(node.orelse[0], ast.Raise), "the chain must end in a raise"
            break
    return vers, hrps, sorted(lengths), order, plen[0]


def _b58decode(s):
    alpha = b"123456789ABCDEFGHJKLMNPQRSTUVWXYZabcdefghijkmnopqrstuvwxyz"
    n = 0
    for ch in s:
        n = n * 58 + alpha.index(ch)
    body = n.to_bytes((n.bit_length() + 7) // 8, "big")
    return b"\0" * (len(s) - len(s.lstrip(b"1"))) + body


def register(gt):
    @gt.table("AddressGen")
    def gen_address():
        gt.load()
        import bits.utils as u
        import bits.script.utils as su
        rows = encoder_versions(u.to_bitcoin_address)
        vers, hrps, lengths, order, plen = dispatcher_tables(su.scriptpubkey)
        # what the encoder emits (independent Base58 decoding, hashlib checksum)
        emitted = []
        for net in ("mainnet", "testnet", "regtest"):
            for ty in ("p2pkh", "p2sh"):
                addr = u.to_bitcoin_address(bytes(range(20)), addr_type=ty, network=net)
                raw = _b58decode(addr)
                assert len(raw) == 25 and raw[1:21] == bytes(range(20)), raw
                assert raw[21:] == hashlib.sha256(hashlib.sha256(raw[:21]).digest()).digest()[:4]
                emitted.append((net, ty, raw[:1]))
        out = gt.HEADER
        triple = lambda r: "(%s, %s, %s)" % (gt.coq_string_bytes(r[0]), gt.coq_string_bytes(r[1]), gt.coq_bytes(r[2]))
        out += "Definition encoder_versions : list (bytes * bytes * bytes) :=\n  %s.\n" % gt.coq_list(triple(r) for r in rows)
        out += "Definition emitted_versions : list (bytes * bytes * bytes) :=\n  %s.\n" % gt.coq_list(
            triple(r) for r in sorted(emitted))
        out += "Definition dispatch_p2pkh_versions : list bytes := %s.\n" % gt.coq_list(
            gt.coq_bytes(v) for v in vers["p2pkh_script_pubkey"])
        out += "Definition dispatch_p2sh_versions : list bytes := %s.\n" % gt.coq_list(
            gt.coq_bytes(v) for v in vers["p2sh_script_pubkey"])
        out += "Definition dispatch_hrps : list bytes := %s.\n" % gt.coq_list(gt.coq_bytes(h) for h in hrps)
        out += "Definition dispatch_lengths : list (Z * bytes) := %s.\n" % gt.coq_list(
            "(%s, %s)" % (gt.coq_Z(n), gt.coq_string_bytes(b)) for n, b in lengths)
        out += "Definition dispatch_payload_length : Z * bytes := (%s, %s).\n" % (gt.coq_Z(plen[0]), gt.coq_string_bytes(plen[1]))
        out += "Definition dispatch_order : list bytes := %s.\n" % gt.coq_list(gt.coq_string_bytes(o) for o in order)
        return out
