"""Gen tables for C14: the WIF version-byte tables of bits.utils and the ASN.1 tag / OID tables of bits.pem
as /repo defines them NOW."""


def register(gt):
    @gt.table("WifGen")
    def gen_wif():
        gt.load()
        import bits.utils as u
        import bits.pem as pem
        sb = gt.coq_string_bytes
        out = gt.HEADER
        out += "Local Open Scope Z_scope.\n"
        for name in ("WIF_NETWORK_BASE", "WIF_SCRIPT_OFFSET"):
            d = getattr(u, name)
            assert isinstance(d, dict) and all(isinstance(k, str) for k in d)
            out += "Definition %s : list (bytes * Z) :=\n  %s.\n" % (
                name.lower(), gt.coq_list("(%s, %s)" % (sb(k), gt.coq_Z(v)) for k, v in d.items()))
        d = u.WIF_TYPE_COMBINATIONS
        assert isinstance(d, dict) and all(isinstance(k, tuple) and len(k) == 2 for k in d)
        out += "Definition wif_type_combinations : list ((bytes * bytes) * Z) :=\n  %s.\n" % gt.coq_list(
            "((%s, %s), %s)" % (sb(k[0]), sb(k[1]), gt.coq_Z(v)) for k, v in d.items())
        d = u.WIF_TYPE_COMBINATIONS_MAP
        assert isinstance(d, dict) and all(isinstance(v, tuple) and len(v) == 2 for v in d.values())
        out += "Definition wif_type_combinations_map : list (Z * (bytes * bytes)) :=\n  %s.\n" % gt.coq_list(
            "(%s, (%s, %s))" % (gt.coq_Z(k), sb(v[0]), sb(v[1])) for k, v in d.items())
        # ASN.1 tables
        out += "Definition tag_map : list (Z * bytes) :=\n  %s.\n" % gt.coq_list(
            "(%s, %s)" % (gt.coq_Z(k), sb(v)) for k, v in pem.TAG_MAP.items())
        out += "Definition tag_class_map : list (Z * bytes) :=\n  %s.\n" % gt.coq_list(
            "(%s, %s)" % (gt.coq_Z(k), sb(v)) for k, v in pem.TAG_CLASS_MAP.items())
        # the DER content bytes the encoder writes for the two named OIDs, and what the parser calls them
        for nm in ("id-ecPublicKey", "id-ansip256k1"):
            der = pem.encode_parsed_asn1_val(0x06, nm)
            assert pem.parse_asn1_value(0x06, der) == nm
            out += "Definition oid_der_%s : bytes := %s.\n" % (nm[3:], gt.coq_bytes(der))
            dotted = ".".join(str(x) for x in _nodes(pem, der))
            out += "Definition oid_nodes_%s : list Z := %s.\n" % (
                nm[3:], gt.coq_list(gt.coq_Z(int(x)) for x in dotted.split(".")))
        return out


def _nodes(pem, der):
    """the dotted form parse_oid gives for these bytes"""
    return [int(x) for x in pem.parse_oid(der).split(".")]
