"""C10 - BIP39: the mnemonic is a checksummed bijection of the entropy; the seed is the PBKDF2."""
import ast
import hashlib
import hmac
import os
import unicodedata

from common import case, coq_bytes, coq_result, case_to_json, short, VERIF, REPO

ID = "C10"
MAKE_TARGETS = ["Props/C10.v", "GenProps/Wordlist.v"]
GEN_TABLES = ["Wordlist"]
ASSUMPTIONS = [
    "sha256 is an arbitrary function with 32-byte output in every theorem (hashlib answers it at run time)",
    "pbkdf2_hmac('sha512') and unicodedata.normalize('NFKD') are oracles; C10_seed_spec assumes "
    "NFKD('mnemonic' + p) = 'mnemonic' + NFKD(p) (checked on every to_seed case by the property oracle)",
    "the word list is a parameter of the theorems (2048 entries, NoDup, lower-case ASCII words: proved for the list "
    "the code loads now in GenProps/Wordlist.v); that it is the published english.txt is checked by digest with hashlib",
    "strings are modelled as their UTF-8 bytes; str.split() is modelled for all 29 Unicode white-space characters",
    "modelled, not verified: src/bits/bips/bip39/__init__.py (calculate_mnemonic_phrase, to_entropy, to_seed; "
    "load_wordlist through the Gen table)",
]
FILLER = {"ent-random", "seed-random"}
PUBLISHED_DIGEST = "2f5eed53a4727b4bf8880d8f3f199efc90e58503646d9ff8eff3a2ed3b24dbda"   # bips/bip-0039/english.txt
ENT_LENGTHS = (16, 20, 24, 28, 32)
MS_LENGTHS = (12, 15, 18, 21, 24)


# ----------------------------------------------------------------------------------------------
# independent reference (from the text of BIP39; word list = pristine copy checked by digest)
# ----------------------------------------------------------------------------------------------
def _ref_words():
    global _WORDS
    try:
        return _WORDS
    except NameError:
        pass
    raw = open(os.path.join(VERIF, "corpus", "bip39-english.txt"), "rb").read()
    if hashlib.sha256(raw).hexdigest() != PUBLISHED_DIGEST:
        raise RuntimeError("corpus/bip39-english.txt is not the published BIP39 english.txt")
    _WORDS = raw.decode("ascii").split("\n")[:-1]
    assert len(_WORDS) == 2048
    return _WORDS


def ref_mnemonic(e: bytes):
    """list of words, or None when the entropy size is not allowed"""
    if len(e) not in ENT_LENGTHS:
        return None
    W = _ref_words()
    ent = len(e) * 8
    bits = bin(int.from_bytes(e, "big"))[2:].zfill(ent)
    bits += "".join(format(b, "08b") for b in hashlib.sha256(e).digest())[: ent // 32]
    assert len(bits) % 11 == 0
    return [W[int(bits[i:i + 11], 2)] for i in range(0, len(bits), 11)]


def ref_decode(words):
    """entropy, or None when the sentence is not a valid BIP39 English mnemonic"""
    W = _ref_words()
    if len(words) not in MS_LENGTHS or any(w not in W for w in words):
        return None
    bits = "".join(format(W.index(w), "011b") for w in words)
    cs = len(words) // 3
    ent_bits, cs_bits = bits[:-cs], bits[-cs:]
    e = int(ent_bits, 2).to_bytes(len(ent_bits) // 8, "big")
    h = "".join(format(b, "08b") for b in hashlib.sha256(e).digest())
    return e if h[:cs] == cs_bits else None


def ref_pbkdf2_sha512(password: bytes, salt: bytes, iterations: int, dklen: int) -> bytes:
    """RFC 8018 PBKDF2 built from hmac (independent of hashlib.pbkdf2_hmac)"""
    base = hmac.new(password, digestmod=hashlib.sha512)
    out = b""
    block = 1
    while len(out) < dklen:
        m = base.copy()
        m.update(salt + block.to_bytes(4, "big"))
        u = m.digest()
        t = int.from_bytes(u, "big")
        for _ in range(iterations - 1):
            m = base.copy()
            m.update(u)
            u = m.digest()
            t ^= int.from_bytes(u, "big")
        out += t.to_bytes(64, "big")
        block += 1
    return out[:dklen]


def ref_seed(mnemonic: str, passphrase: str) -> bytes:
    nf = lambda s: unicodedata.normalize("NFKD", s)
    return ref_pbkdf2_sha512(nf(mnemonic).encode("utf-8"), ("mnemonic" + nf(passphrase)).encode("utf-8"), 2048, 64)


# ----------------------------------------------------------------------------------------------
# implementation
# ----------------------------------------------------------------------------------------------
def _impl():
    import bits.bips.bip39 as m
    return m


IMPL = {
    "calculate_mnemonic_phrase": lambda e: _impl().calculate_mnemonic_phrase(e),
    "to_entropy": lambda s: _impl().to_entropy(s),
    "to_seed": lambda m, p: _impl().to_seed(m, p),
    "to_seed_default": lambda m: _impl().to_seed(m),
    "load_wordlist": lambda: _impl().load_wordlist(),
}


def model_call(c):
    if c["op"] == "seq":
        return [model_call(_step_case(st)) for st in c["args"][0]]
    if c["op"].startswith("cli_"):
        return _model_call_cli(c)
    if c["op"] == "to_seed_default":
        return "c10_to_seed", [c["args"][0], ""]
    if c["op"] == "load_wordlist":
        return "c10_wordlist", []
    return "c10_" + c["op"], c["args"]


# ----------------------------------------------------------------------------------------------
# fixed corpus: Trezor vectors (python-mnemonic vectors.json, passphrase "TREZOR")
# ----------------------------------------------------------------------------------------------
_TREZOR_BUILTIN = [
    ("00000000000000000000000000000000",
     "abandon abandon abandon abandon abandon abandon abandon abandon abandon abandon abandon about",
     "c55257c360c07c72029aebc1b53c05ed0362ada38ead3e3e9efa3708e53495531f09a6987599d18264c1e1c92f2cf141630c7a3c4ab7c81b2f001698e7463b04"),
    ("7f7f7f7f7f7f7f7f7f7f7f7f7f7f7f7f",
     "legal winner thank year wave sausage worth useful legal winner thank yellow",
     "2e8905819b8723fe2c1d161860e5ee1830318dbf49a83bd451cfb8440c28bd6fa457fe1296106559a3c80937a1c1069be3a3a5bd381ee6260e8d9739fce1f607"),
    ("80808080808080808080808080808080",
     "letter advice cage absurd amount doctor acoustic avoid letter advice cage above",
     "d71de856f81a8acc65e6fc851a38d4d7ec216fd0796d0a6827a3ad6ed5511a30fa280f12eb2e47ed2ac03b5c462a0358d18d69fe4f985ec81778c1b370b652a8"),
    ("ffffffffffffffffffffffffffffffff",
     "zoo zoo zoo zoo zoo zoo zoo zoo zoo zoo zoo wrong",
     "ac27495480225222079d7be181583751e86f571027b0497b5b5d11218e0a8a13332572917f0f8e5a589620c6f15b11c61dee327651a14c34e18231052e48c069"),
]


def trezor_vectors():
    vecs = list(_TREZOR_BUILTIN)
    path = os.path.join(REPO, "tests", "unit", "test_bip39.py")
    try:
        tree = ast.parse(open(path).read())
        for node in ast.walk(tree):
            if isinstance(node, ast.List) and len(node.elts) == 4 and \
                    all(isinstance(x, ast.Constant) and isinstance(x.value, str) for x in node.elts):
                v = tuple(x.value for x in node.elts[:3])
                if v not in vecs:
                    vecs.append(v)
    except (OSError, SyntaxError):
        pass
    return vecs


# ----------------------------------------------------------------------------------------------
# generators
# ----------------------------------------------------------------------------------------------
NON_LIST_WORDS = ["zzzz", "Abandon", "ABANDON", "abandon1", "abandonabandon", "abando", "zoology", "\u00e1bandon",
                  "\uff41\uff42\uff41\uff4e\uff44\uff4f\uff4e", "abandon\u200babout", "-", "0"]
# every kind of str.split() white space (ASCII, C1, NBSP, Ogham, en/em spaces, line/paragraph separators, ideographic)
SEPARATORS = ["  ", "\t", "\n", " \r\n ", "\u3000", "\u00a0", "\x1f", "\x1c", "\u1680", "\u2000", "\u200a",
              "\x0b\x0c", "\u2028", "\u0085", "\u202f", "\u205f", "\u2029", "\x1d\x1e", "\u2005\u2006"]
# characters that are NOT white space (zero-width space, BOM, NUL, DEL, word joiner, Mongolian vowel separator, ...)
GLUE = ["\u200b", "\ufeff", "\x00", "\x7f", "\u00c2", "\u2060", "\u180e", "\u00e2\u0080", "\u200c"]
# passphrases needing NFKD: fullwidth, precomposed / decomposed, leading combining marks, reordering of marks,
# compatibility characters (dz-caron digraph, Angstrom, ligature fi, circled digits, 1/2, Ohm), Hangul, Devanagari nukta
PASSPHRASES = ["", "TREZOR", "\uff50\uff41\uff53\uff53", "pass", "\u00e9", "e\u0301", "\u0301abc", "\u0323\u0301x",
               "\u0301\u0323x", "\u01c6", "\u212b", "\u00c5", "A\u030a", "\ud55c\uae00", "a\u0323\u0307",
               "a\u0307\u0323", "\ufb01", "\u2460\u2461", " leading and trailing ", "\u3000", "\U0001f600",
               "\u1e9b\u0323", "\u0344", "x" * 200, "\u00bd", "\u2126", "mnemonic", "\u0958"]
SEED_MNEMONICS = ["", "a", "not a mnemonic",
                  "\u3042\u3044\u3053\u304f\u3057\u3093\u3000\u3042\u3044\u3053\u304f\u3057\u3093",
                  "\uff41bandon about", "e\u0301 \u00e9", "\uac00 \u1100\u1161", "abandon  about", "x" * 300]
SEED_ALPHABET = "abcxyz \u1eb9\u0301\u0323\uff41\u01c6\u212b\ud55c\u3000\u00bd\ufb01\U0001f600\u0958\u0344"


def _phrase(e):
    return " ".join(ref_mnemonic(e))


def gen_cases(rng, tier):
    T = tier == "thorough"
    W = _ref_words()
    WSET = set(W)
    out = []

    def ent_cases(cls, e):
        out.append(case(cls, "calculate_mnemonic_phrase", e))
        if len(e) in ENT_LENGTHS:
            out.append(case(cls + "-back", "to_entropy", _phrase(e)))

    # fixed corpus
    for (eh, phrase, seedh) in trezor_vectors():
        e = bytes.fromhex(eh)
        out.append(case("trezor-mnemonic", "calculate_mnemonic_phrase", e))
        out.append(case("trezor-entropy", "to_entropy", phrase))
        out.append(case("trezor-seed", "to_seed", phrase, "TREZOR"))
    # doctest vector of the module
    ent_cases("doctest", bytes.fromhex("6610b25967cdcca9d59875f5cb50b0ea75433311869e930b"))

    # all five sizes: zero / ones / every single bit set / every single bit cleared (sample) / random
    for L in ENT_LENGTHS:
        ent_cases("ent-zero", bytes(L))
        ent_cases("ent-ones", b"\xff" * L)
        bits = range(L * 8) if (T or L == 16) else sorted(set(list(range(0, 24)) + list(range(L * 8 - 24, L * 8)) +
                                                          [rng.randrange(L * 8) for _ in range(24)]))
        for i in bits:
            ent_cases("ent-single-bit", (1 << i).to_bytes(L, "big"))
        for i in (bits if T else list(bits)[::5]):
            ent_cases("ent-single-zero-bit", (((1 << (L * 8)) - 1) ^ (1 << i)).to_bytes(L, "big"))
        for _ in range(4000 if T else 60):
            ent_cases("ent-random", rng.randbytes(L))
        # entropies that select the first / last list word in every position, and 11-bit group boundaries
        for g in (0, 2047, 1, 1024, 1023):
            n = 0
            for _ in range(L * 3 // 4):
                n = (n << 11) | g
            ent_cases("ent-group-pattern", (n >> (L // 4)).to_bytes(L, "big"))
    # every invalid size 0..40
    for L in range(0, 41):
        if L not in ENT_LENGTHS:
            out.append(case("ent-bad-length", "calculate_mnemonic_phrase", rng.randbytes(L)))
            out.append(case("ent-bad-length", "calculate_mnemonic_phrase", bytes(L)))
    for L in (41, 48, 64, 128):
        out.append(case("ent-bad-length", "calculate_mnemonic_phrase", rng.randbytes(L)))

    # last word replaced by each of the 2048 list words (exactly 2^(11-CS) accepted: see extra_checks)
    for L in (ENT_LENGTHS if T else (16,)):
        for k in range(3 if T else 2):
            ws = ref_mnemonic(bytes(L) if k == 0 else rng.randbytes(L))
            for w in W:
                out.append(case("lastword-sweep-%d" % (L * 3 // 4), "to_entropy", " ".join(ws[:-1] + [w])))

    # one word replaced (every position) by another list word / by a non-list word
    for L in ENT_LENGTHS:
        for _ in range(8 if T else 2):
            ws = ref_mnemonic(rng.randbytes(L))
            for pos in range(len(ws)):
                for _ in range(6 if T else 2):
                    w = rng.choice(W)
                    out.append(case("word-replaced-list", "to_entropy", " ".join(ws[:pos] + [w] + ws[pos + 1:])))
                out.append(case("word-replaced-nonlist", "to_entropy",
                                " ".join(ws[:pos] + [rng.choice(NON_LIST_WORDS)] + ws[pos + 1:])))
            for bad in NON_LIST_WORDS:
                pos = rng.randrange(len(ws))
                out.append(case("word-replaced-nonlist", "to_entropy", " ".join(ws[:pos] + [bad] + ws[pos + 1:])))
            # near-miss non-list words: a lookup by sort position (bisect) instead of equality would accept these
            for pos in (range(len(ws)) if T else rng.sample(range(len(ws)), 4)):
                w = ws[pos]
                for bad in (w[:-1], w + "a", w.upper(), w.capitalize(), w[:-1] + chr(ord(w[-1]) - 1) if w[-1] > "a" else w + "0"):
                    if bad and bad not in WSET:
                        out.append(case("word-replaced-nearmiss", "to_entropy", " ".join(ws[:pos] + [bad] + ws[pos + 1:])))
            # two words swapped
            i, j = rng.sample(range(len(ws)), 2)
            sw = list(ws)
            sw[i], sw[j] = sw[j], sw[i]
            out.append(case("words-swapped", "to_entropy", " ".join(sw)))
    # words added / removed: every word count 0..27
    for n in range(0, 28):
        base = ref_mnemonic(rng.randbytes(32)) + ref_mnemonic(rng.randbytes(16))
        out.append(case("word-count", "to_entropy", " ".join(base[:n])))
        if n in MS_LENGTHS:     # valid mnemonic with one word appended / removed / duplicated
            ws = ref_mnemonic(rng.randbytes(n * 4 // 3))
            out.append(case("word-added", "to_entropy", " ".join(ws + [rng.choice(W)])))
            out.append(case("word-added", "to_entropy", " ".join([rng.choice(W)] + ws)))
            out.append(case("word-removed", "to_entropy", " ".join(ws[:-1])))
            out.append(case("word-removed", "to_entropy", " ".join(ws[1:])))
            out.append(case("word-count", "to_entropy", " ".join([ws[0]] * n)))
    for s in ["", " ", "\u3000", "abandon", "abandon " * 12, "zoo " * 24, "about " * 15]:
        out.append(case("word-count", "to_entropy", s))
    # white space: str.split() semantics
    for L in ENT_LENGTHS:
        ws = ref_mnemonic(rng.randbytes(L))
        for sep in SEPARATORS:
            out.append(case("whitespace", "to_entropy", sep.join(ws)))
            out.append(case("whitespace", "to_entropy", sep + " ".join(ws) + sep))
        out.append(case("whitespace", "to_entropy", "".join(w + rng.choice(SEPARATORS) for w in ws)))
        # characters that are NOT white space glue two words together
        for glue in GLUE:
            out.append(case("not-whitespace", "to_entropy", " ".join(ws[:3]) + glue + " ".join(ws[3:])))
    # seeds
    phrases = [_phrase(bytes(16)), _phrase(rng.randbytes(32)), _phrase(rng.randbytes(20))]
    for p in PASSPHRASES:
        for m in (phrases if T else phrases[:2]):
            out.append(case("seed-passphrase-nfkd", "to_seed", m, p))
    for m in phrases + SEED_MNEMONICS:
        out.append(case("seed-mnemonic-nfkd", "to_seed", m, "TREZOR"))
        out.append(case("seed-default-passphrase", "to_seed_default", m))
    for _ in range(1500 if T else 40):
        m = _phrase(rng.randbytes(rng.choice(ENT_LENGTHS)))
        p = "".join(rng.choice(SEED_ALPHABET) for _ in range(rng.randrange(0, 12)))
        out.append(case("seed-random", "to_seed", m, p))
    out.extend(gen_cli_cases(rng, tier))
    out.extend(gen_combo_cases(rng, tier))
    out.extend(gen_seq_cases(rng, tier))
    out.extend(gen_first_use_cases(rng, tier))
    return out


def shrink(c):
    if c["op"] == "seq":
        # never drop a step: the worker that shrinks has already seen the whole sequence, so a shorter one could
        # keep failing there and yet pass in the fresh process of a replay
        return
    a = c["args"][0]
    if isinstance(a, bytes):
        if len(a) > 0 and any(a):
            yield dict(c, args=[bytes(len(a))] + c["args"][1:])
    elif c["op"] == "to_entropy":
        ws = a.split()
        if " ".join(ws) != a:
            yield dict(c, args=[" ".join(ws)])
    elif c["op"] == "to_seed":
        m, p = c["args"]
        if p:
            yield dict(c, args=[m, p[: len(p) // 2]])
            yield dict(c, args=[m, p[1:]])
        if len(m.split()) > 1:
            yield dict(c, args=[m.split()[0], p])


# ----------------------------------------------------------------------------------------------
# the literal property on the implementation (independent of the model)
# ----------------------------------------------------------------------------------------------
def _try(f, *a):
    try:
        return ("ok", f(*a))
    except Exception as e:  # noqa
        return ("err", type(e).__name__)


def prop_oracle(c):
    m = _impl()
    op = c["op"]
    if op == "seq":
        return _seq_prop_oracle(c)
    if op.startswith("cli_"):
        return _cli_prop_oracle(c)
    if op == "load_wordlist":
        got = m.load_wordlist()
        if got != _ref_words():
            i = next((k for k, (a, b) in enumerate(zip(got, _ref_words())) if a != b), min(len(got), 2048))
            return "load_wordlist() is not the BIP39 English list (first difference at index %d)" % i
        return None
    if op == "calculate_mnemonic_phrase":
        e = c["args"][0]
        want = ref_mnemonic(e)
        r = _try(m.calculate_mnemonic_phrase, e)
        if want is None:
            return None if r[0] == "err" else "entropy of %d bytes is not refused (returned %r)" % (len(e), r[1])
        if r[0] == "err":
            return "valid entropy of %d bytes refused with %s" % (len(e), r[1])
        words = r[1].split(" ")
        if len(words) != len(e) * 3 // 4:
            return "mnemonic has %d words, expected %d" % (len(words), len(e) * 3 // 4)
        if any(w not in _ref_words() for w in words):
            return "mnemonic contains a word that is not in the English list"
        if words != want:
            return "mnemonic differs from BIP39: expected %r" % " ".join(want)
        back = _try(m.to_entropy, r[1])
        if back != ("ok", e):
            return "to_entropy(calculate_mnemonic_phrase(e)) = %r, not e" % (back,)
        return None
    if op == "to_entropy":
        s = c["args"][0]
        want = ref_decode(s.split())
        r = _try(m.to_entropy, s)
        if want is None:
            return None if r[0] == "err" else "invalid sentence accepted (returned %s)" % bytes(r[1]).hex()
        if r[0] == "err":
            return "valid mnemonic rejected with %s" % r[1]
        if bytes(r[1]) != want:
            return "to_entropy returned %s, the entropy bits are %s" % (bytes(r[1]).hex(), want.hex())
        again = _try(m.calculate_mnemonic_phrase, want)
        if again != ("ok", " ".join(s.split())):
            return "accepted sentence is not the mnemonic of its entropy (not a bijection)"
        return None
    if op in ("to_seed", "to_seed_default"):
        mn = c["args"][0]
        p = c["args"][1] if op == "to_seed" else ""
        want = ref_seed(mn, p)
        r = _try(m.to_seed, mn, p) if op == "to_seed" else _try(m.to_seed, mn)
        if r[0] == "err":
            return "to_seed raised %s" % r[1]
        if bytes(r[1]) != want:
            return "seed is not PBKDF2-HMAC-SHA512(NFKD(mnemonic), 'mnemonic'+NFKD(passphrase), 2048, 64): expected %s" % want.hex()
        return None
    if op == "first_use_faulted":
        e = c["args"][0]
        r = _try(_first_use_faulted, *c["args"])
        if r != ("ok", [" ".join(ref_mnemonic(e)), e]) and (r[0] == "err" or [r[1][0], bytes(r[1][1])] != [" ".join(ref_mnemonic(e)), e]):
            return "after a first use aborted while english.txt was being read (%s after %d lines) the next conversion of a " \
                   "valid entropy gives %r" % (c["args"][2], c["args"][1], r)
        return None
    if op == "first_use_concurrent":
        ea, eb = c["args"][0], c["args"][1]
        r = _try(_first_use_concurrent, *c["args"])
        ok = r[0] == "ok" and all(x is not None and x[0] == "ok" and [x[1][0], bytes(x[1][1])] == [" ".join(ref_mnemonic(e)), e]
                                  for x, e in zip(r[1], (ea, eb)))
        if not ok:
            return "two threads using the module for the first time at once (second starts after %d lines of the first's " \
                   "read of english.txt): %r" % (c["args"][2], r)
        return None
    return "unknown op"


# ----------------------------------------------------------------------------------------------
# the command line entry point `bits mnemonic` must agree with the library / the model
#   cli_from_entropy(entropy, fin, via)            == calculate_mnemonic_phrase(entropy)          (model op)
#   cli_to_entropy(text, fout, via)                == to_entropy(text)                            (model op)
#   cli_to_seed(text, passphrase, fout)            == to_seed(" ".join(text.split()), passphrase) (model op; the
#                                                     command documents that it collapses white space between words)
#   cli_to_master_key(text, passphrase, net, prt)  == BIP32 master key of that seed: the MODEL's seed, serialised by an
#                                                     independent BIP32 routine below (no model op for the key itself);
#                                                     prop_oracle also compares with the library composition in the worker
#   cli_generate(strength, tag)                    == calculate_mnemonic_phrase(stubbed secrets.token_bytes output)
# fin / fout: None = option absent (hex), "" = bare -1 / -0 (raw), else the word given ("raw","hex","x","bin","b").
# A refusal (an "ERROR..." return value, a non-zero exit, an escaped exception) is re-raised as the exception class
# the command swallowed; a refusal that nevertheless wrote to stdout is returned as a value so that it can never
# agree with the model's Err.
# ----------------------------------------------------------------------------------------------
_FMT = {None: "hex", "": "raw", "raw": "raw", "hex": "hex", "x": "hex", "bin": "bin", "b": "bin"}
_B58 = "123456789ABCDEFGHJKLMNPQRSTUVWXYZabcdefghijkmnopqrstuvwxyz"
_N = 0xFFFFFFFFFFFFFFFFFFFFFFFFFFFFFFFEBAAEDCE6AF48A03BBFD25E8CD0364141


def _fmt_args(flag, f):
    return [] if f is None else ([flag] if f == "" else [flag, f])


def _encode_in(data: bytes, fmt: str) -> bytes:
    if fmt == "raw":
        return data
    if fmt == "hex":
        return (data.hex() + "\n").encode()
    return ("".join(format(b, "08b") for b in data) + "\n").encode()


def _decode_out(out: bytes, fmt: str):
    """stdout of write_bytes -> bytes; anything malformed is returned as a marker tuple (never equal to a value)"""
    if fmt == "raw":
        return out
    t = out.decode("utf-8", "replace")
    if not t.endswith("\n"):
        return ("malformed output", out)
    t = t[:-1]
    try:
        if fmt == "hex":
            return bytes.fromhex(t) if t == t.strip() else ("malformed output", out)
        if set(t) - set("01") or len(t) % 8:
            return ("malformed output", out)
        return int(t, 2).to_bytes(len(t) // 8, "big") if t else b""
    except ValueError:
        return ("malformed output", out)


def _refusal(r):
    refused = isinstance(r["rc"], str) or r["exc"] is not None or r["rc"] not in (None, 0)
    if not refused:
        return
    if r["out"]:
        return ("refused but wrote to stdout", r["rc"], bytes(r["out"]))
    import builtins
    k = getattr(builtins, str(r["exc"]), None)
    if isinstance(k, type) and issubclass(k, Exception):
        raise k(str(r["rc"]))
    raise RuntimeError("%s: %s" % (r["exc"], r["rc"]))


def _run_cli(argv, data: bytes, via="stdin", getpass=None, stubs=None, out_file=False):
    """runs `bits mnemonic <argv>`; via="file": the input comes through -i FILE; out_file: output through -o FILE"""
    import cli
    import tempfile
    paths = []
    try:
        argv = ["mnemonic"] + list(argv)
        if via == "file":
            fd, path = tempfile.mkstemp(prefix="c10in_", dir=os.getcwd())
            os.write(fd, data)
            os.close(fd)
            paths.append(path)
            argv += ["-i", path]
            data = b"this is stdin and must not be read"
        if out_file:
            fd, opath = tempfile.mkstemp(prefix="c10out_", dir=os.getcwd())
            os.close(fd)
            paths.append(opath)
            argv += ["-o", opath]
        r = cli.run_main(argv, stdin=data, getpass=getpass, stubs=stubs)
        if out_file:
            r["out"] = bytes(r["out"]) + open(opath, "rb").read()
        return r
    finally:
        for q in paths:
            try:
                os.remove(q)
            except OSError:
                pass


def _cli_from_entropy(entropy, fin, via):
    r = _run_cli(["--from-entropy"] + _fmt_args("-1", fin), _encode_in(entropy, _FMT[fin]), via=via.split("+")[0],
                 out_file=via.endswith("+out"))
    bad = _refusal(r)
    if bad:
        return bad
    t = r["out"].decode("utf-8", "replace")
    return t[:-1] if t.endswith("\n") else ("malformed output", bytes(r["out"]))


def _cli_to_entropy(text, fout, via):
    r = _run_cli(["--to-entropy"] + _fmt_args("-0", fout), text.encode("utf-8"), via=via.split("+")[0],
                 out_file=via.endswith("+out"))
    return _refusal(r) or _decode_out(r["out"], _FMT[fout])


def _cli_to_seed(text, passphrase, fout):
    r = _run_cli(["--to-seed"] + _fmt_args("-0", fout), text.encode("utf-8"), getpass=passphrase)
    return _refusal(r) or _decode_out(r["out"], _FMT[fout])


def _cli_to_master_key(text, passphrase, network, print_):
    argv = ["--to-master-key"] + ([] if network is None else ["-N", network]) + (["-P"] if print_ else [])
    r = _run_cli(argv, text.encode("utf-8"), getpass=passphrase)
    return _refusal(r) or bytes(r["out"])


def _stub_entropy(tag: bytes, n: int) -> bytes:
    return hashlib.shake_256(b"C10 cli_generate" + tag).digest(n) if n > 0 else b""


def _cli_generate(strength, tag):
    calls = []

    def token_bytes(nbytes=None):
        calls.append(nbytes)
        return _stub_entropy(tag, 32 if nbytes is None else nbytes)
    r = _run_cli([] if strength is None else ["-S", str(strength)], b"", stubs={"secrets.token_bytes": token_bytes})
    bad = _refusal(r)
    if bad:
        return bad
    if len(calls) != 1:
        return ("secrets.token_bytes called %d times" % len(calls), bytes(r["out"]))
    t = r["out"].decode("utf-8", "replace")
    return t[:-1] if t.endswith("\n") else ("malformed output", bytes(r["out"]))


IMPL.update({
    "cli_from_entropy": _cli_from_entropy,
    "cli_to_entropy": _cli_to_entropy,
    "cli_to_seed": _cli_to_seed,
    "cli_to_master_key": _cli_to_master_key,
    "cli_generate": _cli_generate,
})


def _sanitised(text):
    return " ".join(text.split())


def _model_call_cli(c):
    op, a = c["op"], c["args"]
    if op == "cli_combo":
        op, a = _combo_equiv(c)
    if op == "cli_from_entropy":
        return "c10_calculate_mnemonic_phrase", [a[0]]
    if op == "cli_to_entropy":
        return "c10_to_entropy", [a[0]]
    if op in ("cli_to_seed", "cli_to_master_key"):
        return "c10_to_seed", [_sanitised(a[0]), a[1]]
    if op == "cli_generate":
        strength = 256 if a[0] is None else a[0]
        return "c10_calculate_mnemonic_phrase", [_stub_entropy(a[1], strength // 8 if strength % 8 == 0 else 0)]
    return None


def _b58check(payload: bytes) -> bytes:
    data = payload + hashlib.sha256(hashlib.sha256(payload).digest()).digest()[:4]
    n = int.from_bytes(data, "big")
    out = ""
    while n:
        n, r = divmod(n, 58)
        out = _B58[r] + out
    return ("1" * (len(data) - len(data.lstrip(b"\0"))) + out).encode()


def ref_master_xprv(seed: bytes, network, print_) -> bytes:
    """BIP32 master key generation + serialisation (independent of bits.bips.bip32)"""
    I = hmac.new(b"Bitcoin seed", seed, hashlib.sha512).digest()
    k = int.from_bytes(I[:32], "big")
    if k == 0 or k >= _N:
        raise ValueError("invalid master key")
    version = bytes.fromhex("0488ade4" if network in (None, "mainnet") else "04358394")
    x = _b58check(version + b"\0" + b"\0\0\0\0" + b"\0\0\0\0" + I[32:] + b"\0" + I[:32])
    return x + (os.linesep.encode() if print_ else b"")


def canon(c, v):
    if c["op"] == "seq" and isinstance(v, (list, tuple)) and len(v) == len(c["args"][0]):
        return [[r[0], canon(_step_case(st), r[1])] if (isinstance(r, (list, tuple)) and len(r) == 2 and r[0] == "ok") else r
                for st, r in zip(c["args"][0], v)]
    # the model answers cli_to_master_key with the SEED; the expected key is derived from it here
    op, a = c["op"], c["args"]
    if op == "cli_combo" and a[0] == "to-master-key":
        op, a = _combo_equiv(c)
    if op == "cli_to_master_key" and isinstance(v, (bytes, bytearray)) and len(v) == 64:
        return ref_master_xprv(bytes(v), a[2], a[3])
    return v


CLI_PASSPHRASES = ["", " ", "   ", "\t", "TREZOR", " TREZOR", "TREZOR ", " TREZOR ", "TREZOR\n", "TREZOR\r", "\rTREZOR",
                   "correct horse  battery staple", " a  b ", "\u00a0x\u00a0", "\u3000", "x\u3000", "\u2003pass\u2003",
                   "\uff50\uff41\uff53\uff53", "e\u0301", "\u00e9 ", " \u01c6", "\u0301abc", "\x1fq\x1f", "\u0085z"]


def gen_cli_cases(rng, tier):
    T = tier == "thorough"
    W = _ref_words()
    out = []
    fins = [None, "", "raw", "hex", "x", "bin", "b"]
    # --from-entropy: every input format x every valid size; refusals for bad sizes; file input / file output
    for L in ENT_LENGTHS:
        for fin in (fins if (T or L in (16, 32)) else [None, ""]):
            out.append(case("cli-from-entropy", "cli_from_entropy", rng.randbytes(L), fin, "stdin"))
        out.append(case("cli-from-entropy", "cli_from_entropy", bytes(L), None, "stdin"))
    out.append(case("cli-from-entropy-file", "cli_from_entropy", rng.randbytes(16), "", "file"))
    out.append(case("cli-from-entropy-file", "cli_from_entropy", rng.randbytes(32), "hex", "file+out"))
    out.append(case("cli-from-entropy-file", "cli_from_entropy", rng.randbytes(24), "b", "stdin+out"))
    for L in ([0, 1, 15, 17, 31, 33, 64] if not T else [l for l in range(0, 41) if l not in ENT_LENGTHS]):
        out.append(case("cli-from-entropy-refused", "cli_from_entropy", rng.randbytes(L), rng.choice(fins), "stdin"))
    out.append(case("cli-from-entropy-refused", "cli_from_entropy", rng.randbytes(12), "", "file+out"))
    # --to-entropy: every output format; refusals (wrong checksum / unknown word / wrong count) must write nothing
    for L in ENT_LENGTHS:
        ws = ref_mnemonic(rng.randbytes(L))
        for fout in (fins if (T or L in (16, 32)) else [None, ""]):
            text = rng.choice([" ", "  ", "\n", "\t", "\u3000"]).join(ws) + rng.choice(["", "\n", " \n", "\r\n"])
            out.append(case("cli-to-entropy", "cli_to_entropy", text, fout, "stdin"))
        bad_cs = ws[:-1] + [W[(W.index(ws[-1]) + 1) % 2048]]
        out.append(case("cli-to-entropy-refused", "cli_to_entropy", " ".join(bad_cs) + "\n", rng.choice(fins), "stdin"))
        out.append(case("cli-to-entropy-refused", "cli_to_entropy", " ".join(ws[:-1] + ["zzzz"]) + "\n", rng.choice(fins), "stdin"))
        out.append(case("cli-to-entropy-refused", "cli_to_entropy", " ".join(ws[:-1]) + "\n", rng.choice(fins), "stdin"))
    ws = ref_mnemonic(rng.randbytes(16))
    out.append(case("cli-to-entropy-file", "cli_to_entropy", " ".join(ws) + "\n", "", "file"))
    out.append(case("cli-to-entropy-file", "cli_to_entropy", " ".join(ws), "hex", "file+out"))
    out.append(case("cli-to-entropy-file", "cli_to_entropy", " ".join(ws[:-1] + ["zoo"]), "", "stdin+out"))
    out.append(case("cli-to-entropy-refused", "cli_to_entropy", "", None, "stdin"))
    # --to-seed / --to-master-key: the passphrase exactly as getpass returns it
    phrases = [" ".join(ref_mnemonic(bytes(16))), " ".join(ref_mnemonic(rng.randbytes(32)))]
    pps = CLI_PASSPHRASES if T else CLI_PASSPHRASES[:8] + rng.sample(CLI_PASSPHRASES[8:], 8)
    for i, p in enumerate(pps):
        m = phrases[i % 2]
        out.append(case("cli-to-seed-passphrase", "cli_to_seed", m + "\n", p, fins[i % len(fins)]))
        out.append(case("cli-to-master-key-passphrase", "cli_to_master_key", m + "\n", p,
                        [None, "mainnet", "testnet", "regtest"][i % 4], bool(i % 3 == 0)))
    for fout in fins:
        out.append(case("cli-to-seed-format", "cli_to_seed", phrases[1], " TREZOR ", fout))
    for m in ["  " + phrases[0].replace(" ", "  ") + " \n", phrases[0].replace(" ", "\u3000"), "", "not a mnemonic\n",
              "\uff41bandon about", "e\u0301  \u00e9\n"]:
        out.append(case("cli-to-seed-mnemonic", "cli_to_seed", m, "TREZOR", ""))
        out.append(case("cli-to-master-key-mnemonic", "cli_to_master_key", m, " p ", None, False))
    for (eh, phrase, seedh) in trezor_vectors()[: (24 if T else 3)]:
        out.append(case("cli-trezor", "cli_to_seed", phrase + "\n", "TREZOR", None))
        out.append(case("cli-trezor", "cli_to_master_key", phrase + "\n", "TREZOR", None, False))
    # generation: every --strength, the default, refused strengths
    for i, S in enumerate([None, 128, 160, 192, 224, 256] * (4 if T else 1)):
        out.append(case("cli-generate", "cli_generate", S, rng.randbytes(8)))
    for S in [0, 8, 96, 127, 129, 512, -128]:
        out.append(case("cli-generate-refused", "cli_generate", S, rng.randbytes(8)))
    return out


def _cli_prop_oracle(c):
    """the literal property through the command line (independent reference; for the master key also the library
    composition evaluated in this same worker)"""
    op, a = c["op"], c["args"]
    r = _try(IMPL[op], *a)
    if op == "cli_combo":       # judged like the single-mode command it must behave like
        op, a = _combo_equiv(c)
    got = r[1] if r[0] == "ok" else None
    if r[0] == "ok" and isinstance(got, tuple):
        return "command line: %s" % (got,)
    if op == "cli_from_entropy" or op == "cli_generate":
        if op == "cli_generate":
            S = 256 if a[0] is None else a[0]
            e = _stub_entropy(a[1], S // 8) if S in (128, 160, 192, 224, 256) else None
            want = ref_mnemonic(e) if e is not None else None
        else:
            want = ref_mnemonic(a[0])
        if want is None:
            return None if got is None else "`bits mnemonic` does not refuse an invalid entropy size (printed %r)" % got
        if got != " ".join(want):
            return "`bits mnemonic` printed %r, BIP39 gives %r" % (got if got is not None else r, " ".join(want))
        return None
    if op == "cli_to_entropy":
        want = ref_decode(a[0].split())
        if want is None:
            return None if got is None else "`bits mnemonic --to-entropy` accepts an invalid sentence (wrote %r)" % (got,)
        if got != want:
            return "`bits mnemonic --to-entropy` gave %r, the entropy is %s" % (got if got is not None else r, want.hex())
        return None
    m = _impl()
    want_seed = ref_seed(_sanitised(a[0]), a[1])
    if op == "cli_to_seed":
        if got != want_seed:
            return "`bits mnemonic --to-seed` with passphrase %r gave %s, PBKDF2(NFKD(mnemonic), 'mnemonic'+NFKD(passphrase)) " \
                   "is %s" % (a[1], got.hex() if isinstance(got, bytes) else r, want_seed.hex())
        return None
    if op == "cli_to_master_key":
        import bits.bips.bip32 as bip32
        lib_seed = m.to_seed(_sanitised(a[0]), passphrase=a[1])
        key, cc = bip32.to_master_key(lib_seed)
        lib = bip32.root_serialized_extended_key(key, cc, testnet=a[2] not in (None, "mainnet")) + \
            (os.linesep.encode() if a[3] else b"")
        if got != lib:
            return "`bits mnemonic --to-master-key` with passphrase %r gave %r, the library composition " \
                   "root_serialized_extended_key(to_master_key(to_seed(mnemonic, passphrase))) gives %r" % (a[1], got if got is not None else r, lib)
        if got != ref_master_xprv(want_seed, a[2], a[3]):
            return "master key is not the BIP32 master key of the BIP39 seed"
        return None
    return "unknown op"


# ----------------------------------------------------------------------------------------------
# option COMBINATIONS of `bits mnemonic`: every mode crossed with the options that belong to another mode.
#   cli_combo(mode, data, passphrase, opts)
#     mode        "from-entropy" | "to-entropy" | "to-seed" | "to-master-key" | "generate"
#     data        entropy bytes (from-entropy) | mnemonic text (to-*) | tag bytes of the token_bytes stub (generate)
#     passphrase  what getpass returns (to-seed / to-master-key), else None
#     opts        the other options, blank-separated; the token MODE marks where the mode flag goes (default: first)
# The expected value is the MODEL of the mode actually selected: an option that belongs to another mode (valid
# spelling and value) must not change the result.  Only the options a mode really has influence its model call:
# -1 (from-entropy: how the entropy is written to stdin), -0 (to-entropy / to-seed), -N and -P (to-master-key),
# -S (generate).
# ----------------------------------------------------------------------------------------------
_MODE_FLAG = {"from-entropy": "--from-entropy", "to-entropy": "--to-entropy", "to-seed": "--to-seed",
              "to-master-key": "--to-master-key", "generate": None}


def _parse_opts(opts):
    """the blank-separated option string -> (argv tokens without MODE, position of MODE or None, settings)"""
    toks = opts.split()
    st = {"fin": None, "fout": None, "S": None, "net": None, "print": False}
    argv, pos, i = [], None, 0
    while i < len(toks):
        t = toks[i]
        nxt = toks[i + 1] if i + 1 < len(toks) else None
        if t == "MODE":
            pos = len(argv)
            i += 1
            continue
        argv.append(t)
        i += 1
        if t in ("-1", "--input-format", "-0", "--output-format"):
            key = "fin" if t in ("-1", "--input-format") else "fout"
            if nxt in ("raw", "hex", "x", "bin", "b"):
                st[key] = nxt
                argv.append(nxt)
                i += 1
            else:
                st[key] = ""
        elif t in ("-S", "--strength"):
            st["S"] = int(nxt)
            argv.append(nxt)
            i += 1
        elif t.startswith("--strength="):
            st["S"] = int(t.split("=", 1)[1])
        elif t in ("-N", "--network"):
            st["net"] = nxt
            argv.append(nxt)
            i += 1
        elif t in ("-P", "--print"):
            st["print"] = True
        else:
            raise ValueError("c10 harness: unknown option token %r" % t)
    return argv, pos, st


def _combo_argv(mode, opts):
    argv, pos, st = _parse_opts(opts)
    flag = _MODE_FLAG[mode]
    if flag is not None:
        pos = 0 if pos is None else pos
        argv = argv[:pos] + [flag] + argv[pos:]
    return argv, st


def _cli_combo(mode, data, passphrase, opts):
    argv, st = _combo_argv(mode, opts)
    if mode == "from-entropy":
        r = _run_cli(argv, _encode_in(data, _FMT[st["fin"]]))
        bad = _refusal(r)
        if bad:
            return bad
        t = r["out"].decode("utf-8", "replace")
        return t[:-1] if t.endswith("\n") else ("malformed output", bytes(r["out"]))
    if mode == "to-entropy":
        r = _run_cli(argv, data.encode("utf-8"))
        return _refusal(r) or _decode_out(r["out"], _FMT[st["fout"]])
    if mode == "to-seed":
        r = _run_cli(argv, data.encode("utf-8"), getpass=passphrase)
        return _refusal(r) or _decode_out(r["out"], _FMT[st["fout"]])
    if mode == "to-master-key":
        r = _run_cli(argv, data.encode("utf-8"), getpass=passphrase)
        return _refusal(r) or bytes(r["out"])
    if mode == "generate":
        calls = []

        def token_bytes(nbytes=None):
            calls.append(nbytes)
            return _stub_entropy(data, 32 if nbytes is None else nbytes)
        # whatever is on stdin must not be used as entropy
        r = _run_cli(argv, (bytes(range(32)).hex() + "\n").encode(), stubs={"secrets.token_bytes": token_bytes})
        bad = _refusal(r)
        if bad:
            return bad
        if len(calls) != 1:
            return ("secrets.token_bytes called %d times" % len(calls), bytes(r["out"]))
        t = r["out"].decode("utf-8", "replace")
        return t[:-1] if t.endswith("\n") else ("malformed output", bytes(r["out"]))
    raise ValueError("c10 harness: unknown mode %r" % mode)


IMPL["cli_combo"] = _cli_combo


def _combo_equiv(c):
    """the single-mode case (op, args) a cli_combo case must behave like"""
    mode, data, pp, opts = c["args"]
    _, _, st = _parse_opts(opts)
    if mode == "from-entropy":
        return "cli_from_entropy", [data, st["fin"], "stdin"]
    if mode == "to-entropy":
        return "cli_to_entropy", [data, st["fout"], "stdin"]
    if mode == "to-seed":
        return "cli_to_seed", [data, pp, st["fout"]]
    if mode == "to-master-key":
        return "cli_to_master_key", [data, pp, st["net"], st["print"]]
    return "cli_generate", [st["S"], data]


_SVALS = (128, 160, 192, 224, 256)
_FOREIGN = {   # options that do NOT belong to the mode (valid spellings / values only)
    "from-entropy": ["-0", "-0 raw", "-0 bin", "-0 x", "-N testnet", "-N regtest", "-N mainnet", "-P", "--print"],
    "to-entropy": ["-1", "-1 raw", "-1 hex", "-1 bin", "-N testnet", "-N mainnet", "-P"],
    "to-seed": ["-1", "-1 hex", "-1 b", "-N testnet", "-N regtest", "-P"],
    "to-master-key": ["-1", "-1 x", "-0", "-0 hex", "-0 bin", "-0 raw"],
    "generate": ["-1", "-1 hex", "-0", "-0 hex", "-0 bin", "-N testnet", "-N regtest", "-P"],
}
_OWN = {       # options the mode does have
    "from-entropy": [None, "-1", "-1 raw", "-1 hex", "-1 x", "-1 bin", "-1 b"],
    "to-entropy": [None, "-0", "-0 raw", "-0 hex", "-0 bin", "-0 b"],
    "to-seed": [None, "-0", "-0 hex", "-0 bin", "-0 x"],
    "to-master-key": [None, "-N mainnet", "-N testnet", "-N regtest", "-P", "-N testnet -P"],
    "generate": [None] + ["-S %d" % v for v in _SVALS],
}


def _strength_spellings(rng, S):
    return rng.choice(["-S %d", "--strength %d", "--strength=%d"]) % S


def gen_combo_cases(rng, tier):
    T = tier == "thorough"
    out = []

    def mk(cls, mode, data, pp, parts, rng=rng):
        parts = [x for x in parts if x]
        # the mode flag first, last, or somewhere in between
        k = rng.randrange(len(parts) + 1)
        opts = " ".join(parts[:k] + ["MODE"] + parts[k:])
        out.append(case(cls, "cli_combo", mode, data, pp, opts))

    # (a) --from-entropy x -S (every value) x entropy equal to / longer / shorter than S/8, valid and invalid sizes
    for S in _SVALS:
        n = S // 8
        lens = {n, 32 if n < 32 else 16, 16 if n > 16 else 20, n + 1, n - 1, n + 4, n - 4, 33, 40, 0}
        if T:
            lens |= set(range(0, 41)) | {48, 64}
        for L in sorted(l for l in lens if l >= 0):
            cls = "cli-combo-from-entropy-S-" + ("equal" if L == n else ("longer" if L > n else "shorter")) + \
                  ("" if L in ENT_LENGTHS else "-invalid")
            own = rng.choice(_OWN["from-entropy"])
            mk(cls, "from-entropy", rng.randbytes(L), None, [_strength_spellings(rng, S), own])
    # (b) the text modes x -S (every value), with valid and invalid sentences
    phrases = {L: _phrase(rng.randbytes(L)) for L in ENT_LENGTHS}
    for S in _SVALS:
        for L in (ENT_LENGTHS if T else (S // 8, 32 if S != 256 else 16)):
            m = phrases[L] + "\n"
            own = {md: rng.choice(_OWN[md]) for md in ("to-entropy", "to-seed", "to-master-key")}
            mk("cli-combo-to-entropy-S", "to-entropy", m, None, [_strength_spellings(rng, S), own["to-entropy"]])
            mk("cli-combo-to-seed-S", "to-seed", m, rng.choice(CLI_PASSPHRASES), [_strength_spellings(rng, S), own["to-seed"]])
            mk("cli-combo-to-master-key-S", "to-master-key", m, rng.choice(CLI_PASSPHRASES),
               [_strength_spellings(rng, S), own["to-master-key"]])
        bad = " ".join(phrases[S // 8].split()[:-1]) + "\n"          # one word short: refused, nothing written
        mk("cli-combo-to-entropy-S-refused", "to-entropy", bad, None, [_strength_spellings(rng, S), rng.choice(_OWN["to-entropy"])])
    # (c) every mode x every foreign option (x one of its own options)
    for mode in _FOREIGN:
        for f in _FOREIGN[mode]:
            for own in (_OWN[mode] if T else [rng.choice(_OWN[mode])]):
                L = rng.choice(ENT_LENGTHS)
                if mode == "from-entropy":
                    data, pp = rng.randbytes(L), None
                elif mode == "generate":
                    data, pp = rng.randbytes(8), None
                else:
                    data = phrases[L] + rng.choice(["", "\n"])
                    pp = rng.choice(CLI_PASSPHRASES) if mode in ("to-seed", "to-master-key") else None
                mk("cli-combo-%s-foreign" % mode, mode, data, pp, [f, own])
        # two foreign options at once, and a refused input with foreign options (must stay refused, nothing written)
        for _ in range(6 if T else 2):
            f2 = rng.sample(_FOREIGN[mode], 2)
            if f2[0].split()[0] == f2[1].split()[0]:
                f2 = f2[:1]
            extra = [] if mode == "generate" else [_strength_spellings(rng, rng.choice(_SVALS))]
            L = rng.choice(ENT_LENGTHS)
            if mode == "from-entropy":
                mk("cli-combo-from-entropy-foreign", mode, rng.randbytes(L), None, f2 + extra)
                mk("cli-combo-from-entropy-refused", mode, rng.randbytes(rng.choice([0, 15, 17, 31, 33, 36, 40])), None, f2 + extra)
            elif mode == "generate":
                mk("cli-combo-generate-foreign", mode, rng.randbytes(8), None, f2 + [rng.choice(_OWN[mode])])
            else:
                pp = rng.choice(CLI_PASSPHRASES) if mode != "to-entropy" else None
                mk("cli-combo-%s-foreign" % mode, mode, phrases[L], pp, f2 + extra)
                if mode == "to-entropy":
                    ws = phrases[L].split()
                    mk("cli-combo-to-entropy-refused", mode, " ".join(ws[:-1] + ["zzzz"]), None, f2 + extra)
    return out


# ----------------------------------------------------------------------------------------------
# first use of the module under a fault / under concurrency: the word list must never be observed half-loaded.
# The module is re-imported (importlib.reload: module-level state starts afresh), english.txt is served through a proxy
# that (a) fails after k lines - the aborted call may refuse, but the NEXT call must answer as if nothing had happened -
# or (b) pauses after k lines while a second thread runs a complete conversion of its own.
# ----------------------------------------------------------------------------------------------
class _FaultyFile:
    def __init__(self, f, after, on_trigger):
        self._f, self._after, self._on, self._n, self._done = f, after, on_trigger, 0, False

    def _tick(self):
        self._n += 1
        if self._n > self._after and not self._done:
            self._done = True
            self._on()

    def __enter__(self):
        return self

    def __exit__(self, *a):
        self._f.close()
        return False

    def close(self):
        self._f.close()

    def __iter__(self):
        return self

    def __next__(self):
        self._tick()
        return next(self._f)

    def readline(self, *a):
        self._tick()
        return self._f.readline(*a)

    def read(self, *a):
        if not self._done:
            self._done = True
            self._on()
        return self._f.read(*a)

    def readlines(self, *a):
        return [l for l in self]

    def __getattr__(self, k):
        return getattr(self._f, k)


def _fresh_module_with_open(make_proxy):
    """reload bits.bips.bip39 and serve english.txt through make_proxy(real file) for the FIRST open only"""
    import builtins
    import importlib
    import bits.bips.bip39 as m
    real_open = builtins.open
    state = {"first": True}

    def fake_open(path, *a, **kw):
        f = real_open(path, *a, **kw)
        if str(path).endswith("english.txt") and state["first"]:
            state["first"] = False
            return make_proxy(f)
        return f
    builtins.open = fake_open
    try:
        m = importlib.reload(m)        # a load at import time (if any) happens under the proxy too
    except BaseException:  # noqa
        builtins.open = real_open
        m = importlib.reload(m)
        builtins.open = fake_open
    return m, real_open


def _first_use_faulted(entropy, after, exc_name):
    import builtins
    exc = {"KeyboardInterrupt": KeyboardInterrupt, "OSError": OSError, "MemoryError": MemoryError}[exc_name]

    def trigger():
        raise exc("injected while english.txt is being read")
    m, real_open = _fresh_module_with_open(lambda f: _FaultyFile(f, after, trigger))
    try:
        try:
            m.calculate_mnemonic_phrase(entropy)
        except BaseException:  # noqa  (the aborted call may refuse)
            pass
    finally:
        builtins.open = real_open
    phrase = m.calculate_mnemonic_phrase(entropy)
    return [phrase, m.to_entropy(phrase)]


def _first_use_concurrent(entropy_a, entropy_b, after):
    import builtins
    import threading
    e1, e2 = threading.Event(), threading.Event()
    res = {}

    def trigger():
        e1.set()
        e2.wait(5)
    m, real_open = _fresh_module_with_open(lambda f: _FaultyFile(f, after, trigger))

    def run(tag, e, wait_first):
        if wait_first:
            e1.wait(5)
        try:
            ph = m.calculate_mnemonic_phrase(e)
            res[tag] = ["ok", [ph, m.to_entropy(ph)]]
        except BaseException:  # noqa
            res[tag] = ["err", None]
        if wait_first:
            e2.set()
    try:
        ta = threading.Thread(target=run, args=("a", entropy_a, False))
        tb = threading.Thread(target=run, args=("b", entropy_b, True))
        ta.start(); tb.start(); ta.join(20); tb.join(20)
    finally:
        builtins.open = real_open
        e2.set()
    return [res.get("a"), res.get("b")]


IMPL["first_use_faulted"] = _first_use_faulted
IMPL["first_use_concurrent"] = _first_use_concurrent


def gen_first_use_cases(rng, tier):
    T = tier == "thorough"
    out = []
    ents = [bytes(16), b"\xff" * 32] + [rng.randbytes(rng.choice(ENT_LENGTHS)) for _ in range(6 if T else 2)]
    afters = [0, 1, 2, 700, 1024, 2046, 2047, 2048] + [rng.randrange(2049) for _ in range(8 if T else 2)]
    for e in ents:
        want = " ".join(ref_mnemonic(e))
        for k in (afters if T else rng.sample(afters[:8], 4) + afters[8:]):
            for exc in (("KeyboardInterrupt", "OSError", "MemoryError") if T else (rng.choice(("KeyboardInterrupt", "OSError")),)):
                out.append(case("first-use-aborted-load", "first_use_faulted", e, k, exc, expect=("ok", [want, e])))
        e2 = rng.randbytes(rng.choice(ENT_LENGTHS))
        want2 = " ".join(ref_mnemonic(e2))
        for k in (afters if T else rng.sample(afters, 3)):
            out.append(case("first-use-two-threads", "first_use_concurrent", e, e2, k,
                            expect=("ok", [["ok", [want, e]], ["ok", [want2, e2]]])))
    return out


# ----------------------------------------------------------------------------------------------
# SEQUENCES of calls in one worker: seq(steps), steps = [[op, arg, ...], ...] -> [["ok", value] | ["err", None], ...]
# Every answer must be the one the model gives for that call ALONE (model_call returns the list of model calls):
# nothing remembered from an earlier call (a memo table keyed by a fingerprint of the arguments, a reused buffer, a
# sticky option) may leak into a later one.  The generator builds PAIRS that a sloppy key identifies:
# argument-boundary shifts (a+b, c)/(a, b+c), texts equal only after normalising / case-folding / stripping /
# collapsing blanks, swapped arguments, the salt prefix inside the passphrase, equal integer value with different
# length, equal prefix / suffix, equal hash() / crc32 / adler32, same sentence with another network / format.
# ----------------------------------------------------------------------------------------------
def _seq(steps):
    out = []
    for st in steps:
        try:
            out.append(["ok", IMPL[st[0]](*st[1:])])
        except Exception:  # noqa
            out.append(["err", None])
    return out


IMPL["seq"] = _seq
NO_REUSELIST_OPS = {"seq", "first_use_faulted", "first_use_concurrent"}


def _step_case(st):
    return {"cls": "seq-step", "op": st[0], "args": list(st[1:]), "strict": False}


def _extend_entropy(rng, e1: bytes, L2: int) -> bytes:
    """an entropy of L2 > len(e1) bytes whose mnemonic BEGINS with the whole mnemonic of e1 (the bits after e1 start
    with e1's checksum bits; the rest is free)"""
    bits = bin(int.from_bytes(e1, "big"))[2:].zfill(len(e1) * 8)
    bits += "".join(format(b, "08b") for b in hashlib.sha256(e1).digest())[: len(e1) // 4]
    bits += "".join(rng.choice("01") for _ in range(L2 * 8 - len(bits)))
    e2 = int(bits, 2).to_bytes(L2, "big")
    assert ref_mnemonic(e2)[: len(e1) * 3 // 4] == ref_mnemonic(e1)
    return e2


def _checksum_collision(rng, fn, L=16, tries=400000):
    """two different L-byte strings with the same fn() (birthday search; None if none was found)"""
    seen = {}
    for _ in range(tries):
        x = rng.randbytes(L)
        k = fn(x)
        if k in seen and seen[k] != x:
            return seen[k], x
        seen[k] = x
    return None


def gen_seq_cases(rng, tier):
    import zlib
    T = tier == "thorough"
    out = []

    def both_orders(cls, a, b):
        out.append(case(cls, "seq", [a, b]))
        out.append(case(cls, "seq", [b, a]))
        out.append(case(cls + "-repeat", "seq", [a, b, a]))

    # (1) to_seed: words moved between the mnemonic and the passphrase, both sentences VALID mnemonics
    for (L1, L2) in ([(16, 20), (16, 32), (20, 24), (24, 28), (28, 32), (16, 24)] if T else [(16, 20), (20, 24), (16, 32)]):
        for _ in range(3 if T else 1):
            e1 = rng.randbytes(L1)
            m1 = ref_mnemonic(e1)
            m2 = ref_mnemonic(_extend_entropy(rng, e1, L2))
            tail = " " + " ".join(m2[len(m1):])
            both_orders("seq-seed-boundary-valid", ["to_seed", " ".join(m1), tail], ["to_seed", " ".join(m2), ""])
            out.append(case("seq-seed-boundary-valid", "seq", [["to_seed", " ".join(m1), tail], ["to_seed_default", " ".join(m2)]]))
            both_orders("seq-cli-seed-boundary", ["cli_to_seed", " ".join(m1) + "\n", tail, ""],
                        ["cli_to_seed", " ".join(m2) + "\n", "", ""])
            # the boundary inside a word / before the blank
            k = rng.randrange(1, len(tail))
            both_orders("seq-seed-boundary", ["to_seed", " ".join(m1) + tail[:k], tail[k:]], ["to_seed", " ".join(m1), tail])
    # (2) to_seed: arbitrary texts, boundary shifts and pairs a sloppy key identifies
    m = _phrase(rng.randbytes(16))
    pairs = [
        (("ab", "c"), ("a", "bc")), (("", "abc"), ("abc", "")), ((m, "TREZOR"), (m + "TREZOR", "")),
        ((m, "TREZOR"), (m + "T", "REZOR")), ((m, "X"), (m, "mnemonicX")), ((m, ""), (m, "mnemonic")),
        ((m, "mnemonicmnemonic"), (m, "mnemonic")), ((m, "TREZOR"), (m, "trezor")), ((m, "TREZOR"), (m, " TREZOR")),
        ((m, "TREZOR"), (m, "TREZOR ")), ((m, "a b"), (m, "a  b")), ((m, "a b"), (m, "ab")), ((m, "x"), (m + " ", "x")),
        ((m, "x"), (" " + m, "x")), ((m, "x"), (m.replace(" ", "  ", 1), "x")), ((m, "x"), (m.upper(), "x")),
        ((m, "pass"), ("pass", m)), ((m, m), (m, "")), ((m, "\u00e9"), (m, "e")), ((m, "\u212a"), (m, "k")),
        ((m, "\u212a"), (m, "K")), ((m, "\u017f"), (m, "s")), ((m, "\uff50"), (m, "P")), ((m, "\u00df"), (m, "ss")),
        ((m, "\u00e1"), (m, "a")), ((m, "\u00e9"), (m, "e\u0301")), ((m, "\uff50\uff41\uff53\uff53"), (m, "pass")),
        ((m, "\u212b"), (m, "\u00c5")), ((m, "a\u0323\u0307"), (m, "a\u0307\u0323")), ((m, "\u00e9"), (m, "\u00c9")),
        ((m, "x\x00"), (m, "x")), ((m, "0"), (m, "")), ((m, "None"), (m, "")),
    ]
    for (a, b) in (pairs if T else pairs[:6] + rng.sample(pairs[6:], 10)):
        both_orders("seq-seed-sloppy-key", ["to_seed", a[0], a[1]], ["to_seed", b[0], b[1]])
    out.append(case("seq-seed-default", "seq", [["to_seed", m, "x"], ["to_seed_default", m], ["to_seed", m, ""]]))
    # (3) command line: same sentence and passphrase, another network / -P / mode; passphrase vs. mnemonic text
    for _ in range(3 if T else 1):
        m = _phrase(rng.randbytes(rng.choice(ENT_LENGTHS))) + "\n"
        pp = rng.choice(CLI_PASSPHRASES)
        both_orders("seq-cli-master-key-network", ["cli_to_master_key", m, pp, "mainnet", False], ["cli_to_master_key", m, pp, "testnet", False])
        both_orders("seq-cli-master-key-network", ["cli_to_master_key", m, pp, None, True], ["cli_to_master_key", m, pp, "regtest", False])
        both_orders("seq-cli-seed-then-key", ["cli_to_seed", m, pp, None], ["cli_to_master_key", m, pp, None, False])
        both_orders("seq-cli-seed-format", ["cli_to_seed", m, pp, ""], ["cli_to_seed", m, pp, "bin"])
        both_orders("seq-cli-seed-passphrase", ["cli_to_seed", m, " " + pp, None], ["cli_to_seed", m, pp, None])
        both_orders("seq-cli-lib", ["cli_to_seed", m, pp, ""], ["to_seed", _sanitised(m), pp + " "])
    # (4) calculate_mnemonic_phrase / to_entropy: pairs with equal fingerprints
    for _ in range(4 if T else 1):
        e = rng.randbytes(16)
        fp = [("int-value", bytes(4) + e), ("int-value", bytes(16) + e), ("prefix", e + rng.randbytes(16)),
              ("prefix", e + rng.randbytes(4)), ("suffix", rng.randbytes(16) + e), ("prefix", e[:15] + bytes([e[15] ^ 1])),
              ("suffix", bytes([e[0] ^ 0x80]) + e[1:]), ("invalid-prefix", e + b"\0"), ("int-value-invalid", b"\0" + e),
              ("reversed", e[::-1]), ("hash", (int.from_bytes(b"\x7f" + e[1:], "big") + (2 ** 61 - 1)).to_bytes(16, "big"))]
        for name, e2 in fp:
            e1 = b"\x7f" + e[1:] if name == "hash" else e
            both_orders("seq-entropy-" + name, ["calculate_mnemonic_phrase", e1], ["calculate_mnemonic_phrase", e2])
        both_orders("seq-cli-entropy-prefix", ["cli_from_entropy", e, "", "stdin"], ["cli_from_entropy", e + rng.randbytes(16), "", "stdin"])
    for name, fn in (("crc32", zlib.crc32), ("adler32", zlib.adler32), ("sum", lambda x: sum(x)),
                     ("xor", lambda x: __import__("functools").reduce(lambda a, b: a ^ b, x))):
        pr = _checksum_collision(rng, fn)
        if pr:
            both_orders("seq-entropy-" + name, ["calculate_mnemonic_phrase", pr[0]], ["calculate_mnemonic_phrase", pr[1]])
            both_orders("seq-sentence-" + name, ["to_entropy", _phrase(pr[0])], ["to_entropy", _phrase(pr[1])])
    W = _ref_words()
    for L in (ENT_LENGTHS if T else (16, 32)):
        ws = ref_mnemonic(rng.randbytes(L))
        good = " ".join(ws)
        variants = [("last-word", " ".join(ws[:-1] + [W[(W.index(ws[-1]) + 1) % 2048]])), ("case", good.upper()),
                    ("case", good.title()), ("one-short", " ".join(ws[:-1])), ("first-word", " ".join([W[(W.index(ws[0]) + 1) % 2048]] + ws[1:])),
                    ("swapped", " ".join([ws[1], ws[0]] + ws[2:])), ("glued", good.replace(" ", "", 1)),
                    ("blanks", good.replace(" ", "  ") + " "), ("nfkd", good.replace("a", "\uff41", 1))]
        for name, other in variants:
            both_orders("seq-sentence-" + name, ["to_entropy", good], ["to_entropy", other])
        both_orders("seq-cli-sentence", ["cli_to_entropy", good, "", "stdin"], ["cli_to_entropy", variants[0][1], "", "stdin"])
    return out


def _ref_step(st):
    """reference answer (independent of the implementation) of one step: ["ok", v] / ["err", None]"""
    op, a = st[0], st[1:]
    ok = lambda v: ["ok", v] if v is not None else ["err", None]
    if op in ("calculate_mnemonic_phrase", "cli_from_entropy"):
        w = ref_mnemonic(a[0])
        return ok(" ".join(w) if w is not None else None)
    if op in ("to_entropy", "cli_to_entropy"):
        return ok(ref_decode(a[0].split()))
    if op == "to_seed":
        return ok(ref_seed(a[0], a[1]))
    if op == "to_seed_default":
        return ok(ref_seed(a[0], ""))
    if op == "cli_to_seed":
        return ok(ref_seed(_sanitised(a[0]), a[1]))
    if op == "cli_to_master_key":
        return ok(ref_master_xprv(ref_seed(_sanitised(a[0]), a[1]), a[2], a[3]))
    raise ValueError("c10 harness: no reference for step %r" % op)


def _seq_prop_oracle(c):
    steps = c["args"][0]
    got = _seq(steps)
    for i, (st, g) in enumerate(zip(steps, got)):
        want = _ref_step(st)
        g = [g[0], bytes(g[1]) if isinstance(g[1], (bytes, bytearray)) else g[1]]
        if g != want:
            return "call %d of %d in one process, %s(%s), answered %s; on its own it must answer %s (BIP39 reference)%s" % (
                i + 1, len(steps), st[0], ", ".join(short(x, 60) for x in st[1:]), short(g, 150), short(want, 150),
                "; earlier calls: " + "; ".join("%s(%s)" % (s[0], ", ".join(short(x, 40) for x in s[1:])) for s in steps[:i]) if i else "")
    return None


# ----------------------------------------------------------------------------------------------
# additional searches: digest of the list, counting sweeps, Trezor vectors, literal-property sample
# ----------------------------------------------------------------------------------------------
def _input_violation(c, observed, expected, verdict):
    return {"kind": "input", "case": case_to_json(c), "observed": short(observed, 2000),
            "expected": short(expected, 2000), "oracle": verdict, "failing_input_found": True}


def extra_checks(ctx):
    impl, model, tier, rng = ctx["impl"], ctx["model"], ctx["tier"], ctx["rng"]
    T = tier == "thorough"
    out = []
    extra = ctx["stats"].setdefault("extra", {})
    W = _ref_words()

    # (1) the list the code loads now / the list the model was generated from: published digest
    lists = {"implementation load_wordlist()": impl.call("load_wordlist", [])}
    if model is not None:
        lists["Gen/Wordlist.v (extracted)"] = model.call("c10_wordlist", [])
    for who, r in lists.items():
        words = r[1] if r[0] == "ok" else None
        digest = hashlib.sha256(("\n".join(words) + "\n").encode("utf-8", "surrogatepass")).hexdigest() \
            if isinstance(words, list) and all(isinstance(w, str) for w in words) else None
        extra["wordlist_digest: " + who] = digest
        if digest != PUBLISHED_DIGEST:
            out.append({"kind": "obligation", "obligation": "gen:Wordlist-digest",
                        "detail": "sha256 of the newline-joined word list of %s is %s, published BIP39 english.txt is %s"
                                  % (who, digest, PUBLISHED_DIGEST)})
            # failing input: an entropy whose mnemonic uses the first differing entry
            if isinstance(words, list):
                i = next((k for k, (a, b) in enumerate(zip(words, W)) if a != b), min(len(words), 2047))
                e = ((i << 117) % (1 << 128)).to_bytes(16, "big")
                c = case("wordlist-entry", "calculate_mnemonic_phrase", e)
                v = impl.oracle(c)
                if v is not None:
                    out.append(_input_violation(c, impl.call(c["op"], c["args"]), ("ok", _phrase(e)), v))
            break

    # (2) exactly 2^(11-CS) of the 2048 last words are accepted, one per value of the free entropy bits
    sweeps = 0
    for L in (ENT_LENGTHS if T else (16, 32)):
        ws = ref_mnemonic(rng.randbytes(L))
        cs = L // 4
        accepted = {}
        for w in W:
            s = " ".join(ws[:-1] + [w])
            r = impl.call("to_entropy", [s])
            if r[0] == "ok":
                accepted[w] = bytes(r[1])
        sweeps += 1
        ok = len(accepted) == 2 ** (11 - cs) and len({e[-2:] for e in accepted.values()}) == len(accepted) \
            and all(ref_decode(ws[:-1] + [w]) == e for w, e in accepted.items())
        if not ok:
            # find the sentence on which implementation and standard differ
            bad = next((w for w in W if (ref_decode(ws[:-1] + [w]) is None) != (w not in accepted)
                        or (w in accepted and accepted[w] != ref_decode(ws[:-1] + [w]))), None)
            c = case("lastword-count", "to_entropy", " ".join(ws[:-1] + [bad or W[0]]))
            out.append(_input_violation(c, "%d of 2048 last words accepted" % len(accepted),
                                        "%d accepted" % 2 ** (11 - cs), impl.oracle(c) or
                                        "%d of the 2048 sentences differing only in the last word are accepted, BIP39 accepts %d"
                                        % (len(accepted), 2 ** (11 - cs))))
    extra["lastword_sweeps_counted"] = sweeps

    # (3) Trezor vectors against the published values (all three columns used)
    nvec = 0
    for (eh, phrase, seedh) in trezor_vectors():
        e = bytes.fromhex(eh)
        checks = [(case("trezor-vector", "calculate_mnemonic_phrase", e), ("ok", phrase)),
                  (case("trezor-vector", "to_entropy", phrase), ("ok", e)),
                  (case("trezor-vector", "to_seed", phrase, "TREZOR"), ("ok", bytes.fromhex(seedh)))]
        for c, want in checks:
            r = impl.call(c["op"], c["args"])
            nvec += 1
            if r[0] != "ok" or r[1] != want[1]:
                out.append(_input_violation(c, r, want, impl.oracle(c) or "differs from the published Trezor vector"))
    extra["trezor_vector_checks"] = nvec

    # (4) the literal property evaluated on the implementation for a sample of this run's inputs
    cases = gen_cases(__import__("random").Random("C10-oracle-%s" % tier), "quick")
    step = max(1, len(cases) // (3000 if T else 500))
    n = 0
    for c in cases[::step] + [case("wordlist", "load_wordlist")]:
        v = impl.oracle(c)
        n += 1
        if v is not None:
            out.append(_input_violation(c, impl.call(c["op"], c["args"]), "(the property's literal statement)", v))
            if len(out) > 6:
                break
    extra["literal_property_evaluations"] = n
    return out


# ----------------------------------------------------------------------------------------------
# vm_compute cross-check of the extraction
# ----------------------------------------------------------------------------------------------
def _lit(mr):
    if mr[0] != "ok":
        return "Err %s" % mr[1]
    v = mr[1]
    return "Ok %s" % coq_bytes(v.encode("utf-8") if isinstance(v, str) else v)


def coq_equation(c, mr):
    op = c["op"]
    if op == "calculate_mnemonic_phrase":
        return "c10_calculate_mnemonic_phrase sha256 %s = %s" % (coq_bytes(c["args"][0]), _lit(mr))
    if op == "to_entropy":
        s = c["args"][0].encode("utf-8")
        if len(s) > 400:
            return None
        return "c10_to_entropy sha256 %s = %s" % (coq_bytes(s), _lit(mr))
    return None   # to_seed is the oracle call itself (C10_seed_def is proved by reflexivity)


# ops whose answer must not depend on the concrete bytes-like type of their arguments (they agree on the pinned tree;
# tools/bytearray_probe.py); common.py re-runs a sample of their cases with bytearray arguments
BYTEARRAY_OPS = {'calculate_mnemonic_phrase'}
MEMORYVIEW_OPS = {'calculate_mnemonic_phrase'}
