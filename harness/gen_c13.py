"""Gen table of C13: the opcode tables exactly as the code builds them NOW.

  op_int_map : every attribute `OP_*` of bits.script.constants (what `getattr(constants, name)` in script() and
               in the template builders returns), in dir() order;
  int_op_map : bits.script.utils.INT_OP_MAP (byte -> the name decode_script() emits), in dict order.
Names are rendered as their UTF-8 bytes (strings are byte lists in the models)."""


def register(gt):
    @gt.table("Opcodes")
    def gen_opcodes():
        gt.load()
        import bits.script.constants as k
        import bits.script.utils as u
        names = [n for n in dir(k) if n.startswith("OP_")]
        assert names, "no OP_* constants"
        out = gt.HEADER
        out += "(* %d names in bits.script.constants, %d bytes in bits.script.utils.INT_OP_MAP *)\n" % (
            len(names), len(u.INT_OP_MAP))
        rows = []
        for n in names:
            v = getattr(k, n)
            assert isinstance(v, int) and not isinstance(v, bool), (n, v)
            rows.append("(%s, %s) (* %s = 0x%02x *)" % (gt.coq_string_bytes(n), gt.coq_Z(v), n, v))
        out += "Definition op_int_map : list (bytes * Z) :=\n  [ " + "\n  ; ".join(rows) + "\n  ].\n"
        assert isinstance(u.INT_OP_MAP, dict)
        rows = []
        for v, n in u.INT_OP_MAP.items():
            assert isinstance(v, int) and not isinstance(v, bool), (v, n)
            assert isinstance(n, str), (v, n)
            rows.append("(%s, %s) (* 0x%02x -> %s *)" % (gt.coq_Z(v), gt.coq_string_bytes(n), v, n))
        out += "Definition int_op_map : list (Z * bytes) :=\n  [ " + "\n  ; ".join(rows) + "\n  ].\n"
        # the name map script()/decode_script consult for OP_INT_MAP must be the module attributes themselves
        assert u.OP_INT_MAP == {n: getattr(k, n) for n in names}, "OP_INT_MAP is not the OP_* attribute table"
        return out
