"""C19 - Block file store keeps every block, in order, in bounded append-only files; a crash leaves a prefix.

Implementation side: the real bits.p2p.write_blocks_to_disk in a scratch directory under /verif/.work (mkdtemp,
removed afterwards) with p2p.MAX_BLOCKFILE_SIZE scaled down to 100..300 bytes and a 4-byte magic; histories of
batches (one call per batch = a restart between any two batches); crash injection at every open/write/close by
wrapping builtins.open inside the worker (restored in finally).  Model side: coq/Model/BlockFiles.v (extracted)."""
import itertools
import os
import re
import shutil
import struct
import tempfile
from common import case, coq_bytes, coq_lit, WORK

ID = "C19"
MAKE_TARGETS = ["Props/C19.v", "GenProps/P2pGen.v"]
GEN_TABLES = ["P2pGen"]
CASE_TIMEOUT = 30.0
ASSUMPTIONS = [
    "numbering premise of the theorems: fewer than 100000 files (room / small_dir); beyond that the code's choice of "
    "the lexicographically last name is no longer the highest number (C19_stream_preserved_beyond_100000_refuted)",
    "the data directory contains only blkNNNNN.dat files (the code would pick ANY *.dat file as the current file)",
    "C19_size_bound assumes every single record (8 + block length) is at most the limit and no existing file exceeds it",
    "blocks shorter than 4 GiB (len(blk).to_bytes(4, 'little') does not overflow)",
    "file-system model: open(name, 'ab') creates/positions at end, write appends, tell() = size; torn writes inside one "
    "write(), buffering/fsync and directory-entry durability are below the model (crash-injection runs open files unbuffered; all other runs use the real buffered file objects)",
    "the implementation is run with MAX_BLOCKFILE_SIZE scaled to 100..300 bytes (the value 0x8000000 itself is tied to "
    "the reference by GenProps/P2pGen.v)",
    "modelled, not verified: src/bits/p2p.py (write_blocks_to_disk)",
]
FILLER = {"history-random"}
NAME_RE = re.compile(r"^blk(\d{5,})\.dat$")
REGTEST = bytes.fromhex("fabfb5da")
MAINNET = bytes.fromhex("f9beb4d9")


def spec_name(n):
    return "blk%05d.dat" % n


def spec_record(magic, blk):
    return magic + struct.pack("<I", len(blk)) + blk


# ---------------------------------------------------------------------------------------------------------
# implementation adaptor (runs in the worker)
# ---------------------------------------------------------------------------------------------------------
class CrashInjected(Exception):
    pass


class _Crasher:
    """counts the primitive operations open/write/close on files below `root`; the k-th (0-based) raises"""

    def __init__(self, root, k):
        self.root, self.k, self.n, self.live = root, k, 0, []

    def tick(self):
        if self.k is not None and self.n == self.k:
            raise CrashInjected("crash injected at primitive operation %d" % self.k)
        self.n += 1


class _File:
    def __init__(self, crasher, real):
        self.c, self.f = crasher, real

    def write(self, b):
        self.c.tick()
        return self.f.write(b)

    def tell(self):
        return self.f.tell()

    def close(self):
        self.c.tick()
        self.f.close()

    def __getattr__(self, name):
        return getattr(self.f, name)


DIR_STYLES = ("abs", "abs-slash", "abs-dotdot", "rel", "rel-dot", "rel-slash")


def run_history(max_size, magic, files, batches, crash_k, dirname="blocks", style="abs"):
    """dirname: the data directory's name below the scratch directory ('/' = nested components);
    style: how that directory is handed to the library (absolute / relative to the cwd / trailing slash / via x/..)"""
    import builtins
    import bits.p2p as m
    os.makedirs(WORK, exist_ok=True)
    scratch = tempfile.mkdtemp(prefix="c19_", dir=WORK)
    datadir = os.path.join(scratch, *dirname.split("/"))          # where the files must end up
    real_open = builtins.open
    saved = (m.MAX_BLOCKFILE_SIZE, m.MAGIC_START_BYTES)
    saved_cwd = os.getcwd()
    crasher = _Crasher(scratch, crash_k)
    if style == "abs":
        dir_arg = datadir
    elif style == "abs-slash":
        dir_arg = datadir + "/"
    elif style == "abs-dotdot":
        os.makedirs(os.path.join(scratch, "x.tmp"))
        dir_arg = os.path.join(scratch, "x.tmp", "..", *dirname.split("/"))
    elif style in ("rel", "rel-dot", "rel-slash"):
        dir_arg = {"rel": dirname, "rel-dot": "./" + dirname, "rel-slash": dirname + "/"}[style]
    else:
        raise ValueError("unknown directory style %r" % (style,))

    def wrapped_open(path, mode="r", *a, **kw):
        if isinstance(path, str) and os.path.abspath(path).startswith(scratch):
            crasher.tick()
            if crash_k is None:
                # no crash requested: the library sees the REAL file object with Python's default buffering, so that
                # code depending on what is already flushed to disk (os.path.getsize, re-reading) behaves as in production
                return real_open(path, mode, *a, **kw)
            f = _File(crasher, real_open(path, mode, buffering=0))    # crash runs: a write is on disk at once
            crasher.live.append(f)
            return f
        return real_open(path, mode, *a, **kw)

    crashed = False
    try:
        if files:
            os.makedirs(datadir)
            for n, content in files:
                with real_open(os.path.join(datadir, spec_name(n)), "wb") as f:
                    f.write(content)
        m.MAX_BLOCKFILE_SIZE, m.MAGIC_START_BYTES = max_size, magic
        if style.startswith("rel"):
            os.chdir(scratch)
        builtins.open = wrapped_open
        try:
            for b in batches:
                m.write_blocks_to_disk(b, dir_arg)     # the caller's own list object
        except CrashInjected:
            crashed = True
        finally:
            builtins.open = real_open
            for f in crasher.live:
                try:
                    f.f.close()
                except Exception:
                    pass
        out = []
        for root, dirs, names in os.walk(scratch):               # everything the calls left anywhere below scratch
            for name in names:
                full = os.path.join(root, name)
                rel = os.path.relpath(full, datadir)               # a bare file name when it is where it belongs
                with real_open(full, "rb") as f:
                    out.append((rel, f.read()))
        return sorted(out), crashed
    finally:
        builtins.open = real_open
        os.chdir(saved_cwd)
        m.MAX_BLOCKFILE_SIZE, m.MAGIC_START_BYTES = saved
        shutil.rmtree(scratch, ignore_errors=True)


IMPL = {
    "history": lambda mx, magic, files, batches: run_history(mx, magic, files, batches, None)[0],
    "history_crash": lambda mx, magic, files, batches, k: run_history(mx, magic, files, batches, k),
    # the same in a data directory with a given NAME, handed over in a given path STYLE (the model ignores both)
    "history_at": lambda mx, magic, files, batches, dn, st: run_history(mx, magic, files, batches, None, dn, st)[0],
    "history_crash_at": lambda mx, magic, files, batches, k, dn, st: run_history(mx, magic, files, batches, k, dn, st),
}


def model_call(c):
    if c["op"].endswith("_at"):
        return ("c19_" + c["op"][:-3], c["args"][:-2])
    return ("c19_" + c["op"], c["args"])


def canon(c, v):
    if c["op"] in ("history", "history_at"):
        return sorted((n, bytes(x)) for n, x in v)
    return [sorted((n, bytes(x)) for n, x in v[0]), bool(v[1])]


# ---------------------------------------------------------------------------------------------------------
# generators
# ---------------------------------------------------------------------------------------------------------
def n_prims(batches):
    """upper bound on the number of primitive operations of a history"""
    return sum(2 + 3 * len(b) for b in batches)


def gen_cases(rng, tier):
    T = tier == "thorough"
    out = []
    MAX = 100
    # block sizes: record = 8 + size.  25 / 50 (two fill a file exactly) / 51 (second misses by one byte) / 100 (fills a
    # file exactly); 93 -> 101 does not fit at all
    alpha = [17, 42, 43, 92]

    def blk(size, tag):
        return bytes([tag % 251 + 1]) * size

    def mk(batch_sizes):
        t = itertools.count(1)
        return [[blk(s, next(t)) for s in b] for b in batch_sizes]

    def hist(cls, files, batch_sizes, mx=MAX, magic=REGTEST, **kw):
        out.append(case(cls, "history", mx, magic, sorted(files), mk(batch_sizes), **kw))

    def crash_all(cls, files, batch_sizes, mx=MAX, magic=REGTEST):
        bs = mk(batch_sizes)
        for k in range(n_prims(bs) + 1):
            out.append(case(cls, "history_crash", mx, magic, sorted(files), bs, k))

    # --- exhaustive over the size alphabet, empty directory
    batch_contents = [()] + [p for k in (1, 2) for p in itertools.product(alpha, repeat=k)]
    nb_max = 3 if T else 2
    for nb in range(1, nb_max + 1):
        for h in itertools.product(batch_contents, repeat=nb):
            hist("history-exhaustive-%dbatch" % nb, [], [list(b) for b in h])
    # single batches of up to 4 blocks (all) and pre-populated starting points
    for k in (3, 4):
        for p in itertools.product(alpha, repeat=k):
            if T or rng.random() < 0.3:
                hist("batch-exhaustive-%dblocks" % k, [], [list(p)])
    starts = {
        "empty": [],
        "one-partial": [(0, b"\x11" * 30)],
        "one-empty-file": [(0, b"")],
        "one-full": [(0, b"\x22" * MAX)],
        "one-short-by-one": [(0, b"\x33" * (MAX - 1))],
        "one-oversize": [(0, b"\x44" * (MAX + 7))],
        "twelve-files": [(i, bytes([i + 1]) * MAX) for i in range(11)] + [(11, b"\x77" * 50)],
        "twelve-files-last-full": [(i, bytes([i + 1]) * MAX) for i in range(12)],
        "gap": [(0, b"\x55" * 10), (2, b"\x66" * 60)],
        "hundred-and-one": [(i, b"\x01") for i in (0, 9, 10, 99, 100)],
        "top-99998": [(99998, b"\x09" * 75)],
    }
    for name, files in starts.items():
        for b in batch_contents:
            if T or len(b) < 2 or rng.random() < 0.4:
                hist("prepopulated-" + name, files, [list(b)])
        hist("prepopulated-" + name, files, [[17, 17], [], [92], [43, 42]])
    # --- fits exactly / by one byte / not at all, other limits
    for mx in (100, 101, 150, 255, 256, 300):
        for first in (mx - 8, mx - 9, mx - 7):           # record = mx, mx-1, mx+1
            for second in (1, 0):
                hist("limit-boundary", [], [[first, second]], mx=mx)
                hist("limit-boundary", [(0, b"\x01" * (mx - 9))], [[second, first]], mx=mx)
        hist("limit-boundary", [], [[(mx - 16) // 2, mx - 16 - (mx - 16) // 2]], mx=mx)       # two records fill exactly
        hist("limit-boundary", [], [[(mx - 16) // 2, mx - 15 - (mx - 16) // 2]], mx=mx)       # one byte too many
    for s in (93, 94, 200):
        hist("record-larger-than-limit", [], [[s]])
        hist("record-larger-than-limit", [], [[17, s, 17]])
        hist("record-larger-than-limit", [(0, b"\x01" * 20)], [[s], [17]])
    hist("empty-block", [], [[0, 0, 0]])
    hist("empty-batches", [], [[], [], []])
    hist("magic-mainnet", [], [[42, 43, 17]], magic=MAINNET)
    # --- random histories, 1..6 batches x 0..4 blocks
    for _ in range(3000 if T else 300):
        nb = rng.randrange(1, 7)
        sizes = [[rng.choice(alpha + [0, 1, 84, 91]) for _ in range(rng.randrange(0, 5))] for _ in range(nb)]
        files = rng.choice(list(starts.values())) if rng.random() < 0.4 else []
        hist("history-random", files, sizes, mx=rng.choice([100, 100, 120, 300]))
    # --- block CONTENT that looks like the container's own structure: blocks that are / start with / contain / end with
    #     magic + length sequences (an exact self-describing record, length off by 1 / 8, big-endian length, another
    #     network's magic, the magic alone, two records back to back, an empty record, the tail of an existing file),
    #     at the size boundaries (fits exactly / by one byte / not at all) and across restarts.  Every block is opaque
    #     data: it is stored as magic | len | block whatever it contains.
    OTHER = MAINNET

    def shaped(kind, size, magic=REGTEST, fill=0x5a):
        body = lambda n: bytes([fill]) * max(n, 0)
        le = lambda v: struct.pack("<I", v % 2 ** 32)
        if kind == "self-record":
            return (magic + le(size - 8) + body(size - 8))[:size]
        if kind in ("len-1", "len+1", "len-8", "len+8"):
            return (magic + le(size - 8 + int(kind[3:])) + body(size - 8))[:size]
        if kind == "be-length":
            return (magic + struct.pack(">I", max(size - 8, 0)) + body(size - 8))[:size]
        if kind == "other-magic":
            return (OTHER + le(size - 8) + body(size - 8))[:size]
        if kind == "magic-only":
            return (magic + body(size - 4))[:size]
        if kind == "two-records":
            a = max((size - 16) // 2, 0)
            return (magic + le(a) + body(a) + magic + le(size - 16 - a) + body(size - 16 - a))[:size]
        if kind == "record-of-record":
            return (magic + le(size - 8) + magic + le(size - 16) + body(size - 16))[:size]
        if kind == "ends-with-header":
            return (body(size - 8) + magic + le(0))[-size:] if size else b""
        if kind == "contains-record":
            return (body(3) + magic + le(4) + body(4) + body(size))[:size]
        if kind == "length-then-magic":
            return (le(size - 8) + magic + body(size - 8))[:size]
        raise ValueError(kind)

    kinds = ["self-record", "len-1", "len+1", "len-8", "len+8", "be-length", "other-magic", "magic-only", "two-records",
             "record-of-record", "ends-with-header", "contains-record", "length-then-magic"]

    def histb(cls, files, batches, mx=MAX, magic=REGTEST):
        out.append(case(cls, "history", mx, magic, sorted(files), batches))

    plain = lambda n, t: bytes([t]) * n
    for kind in kinds:
        for size in (8, 17, 42, 43, 50, 92, 93, 100):
            k = shaped(kind, size)
            if T or size in (8, 42, 92) or rng.random() < 0.35:
                histb("block-looks-like-record-" + kind, [], [[k]])
                histb("block-looks-like-record-" + kind, [], [[plain(42, 1), k, plain(17, 2)]])
                histb("block-looks-like-record-" + kind, [], [[k], [k, plain(42, 3)], [plain(34, 4)]])
            if T or rng.random() < 0.3:
                histb("block-looks-like-record-" + kind, starts["one-partial"], [[k, k], [plain(17, 5)]])
                histb("block-looks-like-record-" + kind, [], [[k]], magic=MAINNET)      # the same bytes under another magic
    # a block that is byte for byte an earlier record / the tail of an existing file / a whole existing file
    r1 = spec_record(REGTEST, plain(17, 7))
    for blkb in (r1, r1 + r1, r1[4:], r1[:-1], r1 + b"\x00", spec_record(REGTEST, b""), spec_record(REGTEST, r1)):
        histb("block-equals-earlier-record", [], [[plain(17, 7), blkb], [blkb]])
        histb("block-equals-earlier-record", [(0, r1)], [[blkb], [plain(17, 7), blkb]])
        histb("block-equals-earlier-record", [(0, b"\x11" * 30 + r1)], [[(b"\x11" * 30 + r1)[-len(blkb):] if blkb else b"", blkb]])
    for _ in range(400 if T else 60):
        nb = rng.randrange(1, 4)
        bs = [[shaped(rng.choice(kinds), rng.choice([8, 9, 16, 17, 42, 43, 84, 92])) if rng.random() < 0.6
               else plain(rng.choice(alpha), 9) for _ in range(rng.randrange(1, 4))] for _ in range(nb)]
        histb("block-looks-like-record-random", rng.choice([[], starts["one-partial"], starts["one-short-by-one"]]), bs,
              magic=rng.choice([REGTEST, REGTEST, MAINNET]))
    for kind in ("self-record", "two-records", "len-8"):      # and with a crash at every operation
        bs = [[shaped(kind, 42), plain(17, 1)], [shaped(kind, 92)]]
        for k in range(n_prims(bs) + 1):
            out.append(case("block-looks-like-record-crash", "history_crash", MAX, REGTEST, [], bs, k))

    # --- data directory NAMES and path styles: the result must not depend on what the directory is called or how its
    #     path is written (glob / regex / format metacharacters, spaces, unicode, a trailing dot, a block-file name as a
    #     directory component, nesting; absolute / relative / trailing slash / via ".."); multi-call histories with a
    #     roll-over so that "which file is current" is re-derived from the listing in such a directory
    names = ["[1]", "a[b", "x]y", "blk*", "*", "a?b", "{}", "{0}", "%s", "%d%%", "with space", " lead", "trail ",
             "\u00fcn\u00ef-\u4e2d", "dir.", ".hidden", "blk00001.dat", "blk00000.dat/blk00007.dat", "a/b/c", "[a-z]/[!x]",
             "~", "$HOME", "-dash", "it's\"q", "back\\slash", "semi;colon&amp", "(paren)", "#hash", "new\nline", "tab\t",
             "dat.dat", "blk", "x" * 200]
    at_hists = [([], [[17, 17], [92], [43, 42]]), (starts["one-partial"], [[92, 17], [17]]),
                (starts["twelve-files"], [[42, 42, 42], [17]]), ([], [[42], [42], [42], [42], [42]])]
    for i, dn in enumerate(names):
        styles = DIR_STYLES if T else ("abs", DIR_STYLES[1 + i % 5])
        for j, st in enumerate(styles):
            if "\n" in dn and st != "abs" and not T:
                continue
            for hi, (files, sizes) in enumerate(at_hists):
                if T or hi == (i + j) % len(at_hists) or hi == 0:
                    out.append(case("datadir-name-%s" % st, "history_at", MAX, REGTEST, sorted(files), mk(sizes), dn, st))
    for st in DIR_STYLES:                     # the plain name in every style, and crash runs in odd directories
        out.append(case("datadir-name-%s" % st, "history_at", MAX, REGTEST, [], mk([[17, 17], [92], [43, 42]]), "blocks", st))
    for dn, st in (("[1]", "abs"), ("a?b", "rel"), ("blk*", "abs-slash"), ("with space", "rel-dot")):
        bs = mk([[42, 43], [17]])
        for k in range(0, n_prims(bs) + 1, 1 if T else 2):
            out.append(case("datadir-name-crash", "history_crash_at", MAX, REGTEST, [], bs, k, dn, st))
    # --- beyond 100000 files: outside the theorems' premise; the model still predicts what the code does
    hist("beyond-100000", [(99999, b"\x01" * 50), (100000, b"\x02" * 50)], [[1]])
    hist("beyond-100000", [(99999, b"\x01" * 95)], [[17, 17], [17]])
    hist("beyond-100000", [(99999, b"\x01" * 95), (100000, b"\x02" * 95)], [[17], [17]])
    # --- crash at every primitive operation
    crash_hists = [([], [[42, 43, 17]]), ([], [[17, 17], [92], [43, 42]]), (starts["one-partial"], [[92, 17]]),
                   (starts["twelve-files"], [[42, 42, 42]]), ([], [[]]), ([], [[93]]), (starts["one-full"], [[17], [17]])]
    if T:
        crash_hists += [([], [list(p)]) for p in itertools.product(alpha, repeat=3)]
        crash_hists += [([], [list(p[:2]), list(p[2:])]) for p in itertools.product(alpha, repeat=4) if rng.random() < 0.3]
    for files, sizes in crash_hists:
        crash_all("crash-every-operation", files, sizes)
    for _ in range(600 if T else 80):
        nb = rng.randrange(1, 5)
        sizes = [[rng.choice(alpha) for _ in range(rng.randrange(0, 4))] for _ in range(nb)]
        bs = mk(sizes)
        files = rng.choice([[], starts["one-partial"], starts["gap"]])
        out.append(case("crash-random", "history_crash", MAX, REGTEST, sorted(files), bs, rng.randrange(0, n_prims(bs) + 1)))
    return out


# ---------------------------------------------------------------------------------------------------------
# the literal property on the implementation
# ---------------------------------------------------------------------------------------------------------
def _numbered(listing):
    d = {}
    for name, content in listing:
        mm = NAME_RE.match(name)
        if not mm or spec_name(int(mm.group(1))) != name:
            return None, "unexpected file name %r in the data directory" % name
        d[int(mm.group(1))] = content
    return d, None


def spec_layout(mx, files, records):
    """greedy packing: a record goes to the highest-numbered file unless it does not fit; then file top+1 is started"""
    d = dict(files)
    cur = max(d) if d else 0
    d.setdefault(cur, b"")
    for r in records:
        if len(r) + len(d[cur]) > mx:
            cur += 1
            d[cur] = b""
        d[cur] += r
    return d


def prop_oracle(c):
    a = c["args"]
    mx, magic, files, batches = a[0], a[1], [tuple(f) for f in a[2]], a[3]
    k = a[4] if c["op"].startswith("history_crash") else None
    where = tuple(a[-2:]) if c["op"].endswith("_at") else ("blocks", "abs")
    if any(n >= 99999 - sum(len(b) for b in batches) for n, _ in files):
        return None          # numbering premise of the property (fewer than 100000 files)
    listing, crashed = run_history(mx, magic, files, batches, k, *where)
    final, err = _numbered(listing)
    if err:
        return err
    records = [spec_record(magic, b) for batch in batches for b in batch]
    stream0 = b"".join(content for _, content in sorted(files))
    want = spec_layout(mx, files, records)
    got_stream = b"".join(final[n] for n in sorted(final))
    for n, content in files:            # append-only, nothing disappears
        if n not in final or final[n][:len(content)] != content:
            return "file %s no longer starts with its previous content" % spec_name(n)
    if not crashed:
        if batches == [] and not files:
            return None
        if got_stream != stream0 + b"".join(records):
            return "files read in numeric order are not the previous data followed by one record per block in order " \
                   "(%d bytes on disk, %d expected)" % (len(got_stream), len(stream0) + sum(map(len, records)))
        if all(len(r) <= mx for r in records) and all(len(x) <= mx for _, x in files):
            big = [n for n in final if len(final[n]) > mx]
            if big:
                return "file %s has %d bytes, limit %d" % (spec_name(big[0]), len(final[big[0]]), mx)
        if batches and final != want:
            return "files are not packed as required (new consecutively numbered file exactly when the next record " \
                   "does not fit): got sizes %r, required %r" % ({n: len(x) for n, x in sorted(final.items())},
                                                               {n: len(x) for n, x in sorted(want.items())})
        return None
    # crashed: a byte-prefix of the stream, every file a prefix of what it would have become
    full = stream0 + b"".join(records)
    if full[:len(got_stream)] != got_stream or len(got_stream) < len(stream0):
        return "after the crash the files are not a prefix of the record stream (or earlier data was lost)"
    for n, content in final.items():
        if n not in want or want[n][:len(content)] != content:
            return "after the crash file %s is not a prefix of its final content" % spec_name(n)
    return None


def shrink(c):
    a = c["args"]
    batches = a[3]
    for i in range(len(batches)):
        c2 = dict(c)
        c2["args"] = a[:3] + [batches[:i] + batches[i + 1:]] + a[4:]
        yield c2
        for j in range(len(batches[i])):
            c3 = dict(c)
            c3["args"] = a[:3] + [batches[:i] + [batches[i][:j] + batches[i][j + 1:]] + batches[i + 1:]] + a[4:]
            yield c3
    if a[2]:
        c4 = dict(c)
        c4["args"] = a[:2] + [[]] + a[3:]
        yield c4


def extra_checks(ctx):
    ctx["stats"]["exhaustive"] = True
    ctx["stats"].setdefault("extra", {}).update({"exhaustive_scopes": "all histories of <= %d batches x 0..2 blocks over the block-size alphabet "
                             "{17,42,43,92} at limit 100 (records 25/50/51/100) from the empty directory; every crash point of "
                             "the listed histories" % (3 if ctx["tier"] == "thorough" else 2)})
    return []


def _lit_listing(v):
    return "[" + "; ".join("(%s, %s)" % (coq_bytes(n.encode()), coq_bytes(x)) for n, x in v) + "]"


def coq_equation(c, mr):
    a = c["args"]
    if any(n >= 99999 for n, _ in a[2]) or sum(len(x) for _, x in a[2]) > 400 or mr[0] != "ok":
        return None
    files = "[" + "; ".join("(%s, %s)" % (coq_lit(n), coq_bytes(x)) for n, x in a[2]) + "]"
    batches = "[" + "; ".join("[" + "; ".join(coq_bytes(b) for b in batch) + "]" for batch in a[3]) + "]"
    if c["op"] in ("history", "history_at"):
        return "c19_history %s %s %s %s = %s" % (coq_lit(a[0]), coq_bytes(a[1]), files, batches, _lit_listing(mr[1]))
    return "c19_history_crash %s %s %s %s %s = (%s, %s)" % (coq_lit(a[0]), coq_bytes(a[1]), files, batches, coq_lit(a[4]),
                                                          _lit_listing(mr[1][0]), coq_lit(bool(mr[1][1])))


# ops whose answer must not depend on the concrete bytes-like type of their arguments (they agree on the pinned tree;
# tools/bytearray_probe.py); common.py re-runs a sample of their cases with bytearray arguments
BYTEARRAY_OPS = {'history_crash', 'history'}
