"""C07 - Base58 / Base58Check are exact inverses; only checksum-valid strings accepted."""
import hashlib
from common import case, shrink_bytes, coq_bytes, coq_result, coq_lit

ID = "C07"
MAKE_TARGETS = ["Props/C07.v", "GenProps/Base58Gen.v"]
GEN_TABLES = ["Base58Gen"]
ASSUMPTIONS = [
    "sha256 is an arbitrary function with 32-byte output in the Base58Check theorems (hashlib answers it at run time)",
    "modelled, not verified: src/bits/base58.py (base58encode, base58decode, base58check, base58check_decode, is_base58check)",
]
ALPHA = b"123456789ABCDEFGHJKLMNPQRSTUVWXYZabcdefghijkmnopqrstuvwxyz"   # the standard's, not the repo's
FILLER = {"rand-bytes"}


def _impl():
    import bits.base58 as m
    return m


def _is_as(kind, b):
    """is_base58check on other bytes-like / sequence views of the same data: it must return a bool, never raise"""
    x = {"memoryview": memoryview(b), "list": list(b), "tuple": tuple(b), "str": b.decode("latin-1")}[kind]
    return _impl().is_base58check(x)


from cliutil import fmt_in as _fmt_in, fmt_out as _fmt_out, result as _cli_result, CliMalformed as _CliMalformed   # noqa: E402


def _cli_enc(b, fmt, check, via="stdin"):
    import cliutil
    argv = ["base58"] + (["--check"] if check else []) + ["-1", fmt]
    return _cli_result(cliutil.run(argv, _fmt_in(b, fmt), via))


def _cli_dec(s, fmt, check, pr, via="stdin"):
    import cliutil, os
    argv = ["base58", "--decode"] + (["--check"] if check else []) + (["--print"] if pr else [])
    # the sub-parser has no -0 option: the output format comes from the configuration file
    out = _cli_result(cliutil.run(argv, s, via, config_json={"output_format": fmt}))
    if pr:          # --print appends os.linesep to the decoded bytes before they are formatted
        d = _fmt_out(out, fmt)
        nl = os.linesep.encode()
        if not d.endswith(nl):
            raise _CliMalformed("--print newline missing")
        return d[:-len(nl)]
    return _fmt_out(out, fmt)


def _twice(op, a, b):
    """the caller keeps ONE bytearray: holds a, calls op, overwrites it in place with b, calls op again (a read loop
    re-using its buffer); returns both answers, each as ("ok", value) / ("err",)"""
    f = getattr(_impl(), op)
    buf = bytearray(a)
    out = []
    for content in (a, b):
        buf[:] = content
        try:
            v = f(buf)
            out.append(["ok", bytes(v) if isinstance(v, (bytes, bytearray)) else v])
        except Exception:
            out.append(["err", None])
    return out


IMPL = {
    "cli_base58encode": lambda b, fmt, via="stdin": _cli_enc(b, fmt, False, via),
    "cli_base58check": lambda b, fmt, via="stdin": _cli_enc(b, fmt, True, via),
    "cli_base58decode": lambda s, fmt, pr, via="stdin": _cli_dec(s, fmt, False, pr, via),
    "cli_base58check_decode": lambda s, fmt, pr, via="stdin": _cli_dec(s, fmt, True, pr, via),
    "twice_in_one_buffer": lambda op, a, b: _twice(op, a, b),
    "is_base58check_as": _is_as,
    "base58encode": lambda b: _impl().base58encode(b),
    "base58decode": lambda s: _impl().base58decode(s),
    "base58check": lambda b: _impl().base58check(b),
    "base58check_decode": lambda s: _impl().base58check_decode(s),
    "is_base58check": lambda s: _impl().is_base58check(s),
}


def _spec_encode(b):
    n = int.from_bytes(b, "big")
    out = b""
    while n:
        n, r = divmod(n, 58)
        out = ALPHA[r:r + 1] + out
    return b"1" * (len(b) - len(b.lstrip(b"\0"))) + out


def _b58_to_bytes(sv):
    n = 0
    for ch in sv:
        n = n * 58 + ALPHA.index(ch)
    body = n.to_bytes((n.bit_length() + 7) // 8, "big")
    return b"\0" * (len(sv) - len(sv.lstrip(b"1"))) + body


def _h4(p):
    return hashlib.sha256(hashlib.sha256(p).digest()).digest()[:4]


def gen_cases(rng, tier):
    T = tier == "thorough"
    out = []
    datas = [b"", b"\0", b"\0\0\0", b"\xff", b"\xff" * 32, b"hello world", b"\0\0hello", bytes(range(256))[:128]]
    # values around 58^k and 256^k
    for k in range(1, 24 if T else 12):
        for d in (-1, 0, 1):
            for base in (58, 256):
                v = base ** k + d
                datas.append(v.to_bytes((v.bit_length() + 7) // 8, "big"))
    for z in range(0, 9):
        for L in (1, 2, 20, 21, 25, 32, 33, 64, 128):
            datas.append(b"\0" * z + rng.randbytes(L))
    for _ in range(3000 if T else 300):
        datas.append(rng.randbytes(rng.randrange(0, 129)))
    for d in datas:
        cls = "lead0" if d[:1] == b"\0" else ("empty" if not d else "rand-bytes")
        out.append(case("enc-" + cls, "base58encode", d))
        out.append(case("check-" + cls, "base58check", d))
    # strings: valid encodings and edits of them
    strs = []
    valid = [_spec_encode(d) for d in datas[:200 if T else 80]]
    validc = [_spec_encode(d + _h4(d)) for d in datas[:200 if T else 80]]
    bad_chars = [b"0", b"O", b"I", b"l", b" ", b"\xc3", b"\xff", b"\0", b"-", b"+"]
    for s in valid + validc:
        strs.append(("valid", s))
    for s in (valid + validc)[: (150 if T else 50)]:
        if not s:
            continue
        i = rng.randrange(len(s))
        j = rng.randrange(len(s))
        c = bytes([rng.choice(ALPHA)])
        strs.append(("subst", s[:i] + c + s[i + 1:]))
        strs.append(("subst-bad", s[:i] + rng.choice(bad_chars) + s[i + 1:]))
        strs.append(("insert", s[:i] + c + s[i:]))
        strs.append(("insert-bad", s[:i] + rng.choice(bad_chars) + s[i:]))
        strs.append(("delete", s[:i] + s[i + 1:]))
        if len(s) > 1:
            i2 = min(i, len(s) - 2)
            strs.append(("transpose", s[:i2] + s[i2 + 1:i2 + 2] + s[i2:i2 + 1] + s[i2 + 2:]))
        strs.append(("lead1", b"1" * rng.randrange(1, 5) + s))
    # carry-cancelling two-character edits: digit d followed by the top digit 'z' -> d+1 followed by a non-alphabet
    # character (a lookup that answers -1 for it computes the same number); d followed by '1' -> d-1 followed by the byte
    # after 'z' (a lookup that answers 58)
    for sv in (valid + validc)[: (120 if T else 40)]:
        for i in range(len(sv) - 1):
            a_, b_ = sv[i], sv[i + 1]
            ia = ALPHA.index(a_)
            if b_ == ALPHA[57] and ia < 57:
                for bad in (b"0", b"O", b"I", b"l", b" ", b"\n", b"-", b"\xff"):
                    strs.append(("carry-cancel", sv[:i] + ALPHA[ia + 1:ia + 2] + bad + sv[i + 2:]))
                break
        for i in range(len(sv) - 1):
            a_, b_ = sv[i], sv[i + 1]
            ia = ALPHA.index(a_)
            if b_ == ALPHA[0] and ia > 0:
                for bad in (b"{", b"~", b"\x7b"):
                    strs.append(("carry-cancel", sv[:i] + ALPHA[ia - 1:ia] + bad + sv[i + 2:]))
                break
    # shorter than a checksum
    for s in [b"", b"1", b"11", b"111", b"1111", b"11111", b"2", b"z", b"zz", b"5Q", b"3QJmnh"]:
        strs.append(("short", s))
    # exhaustive over all strings of length <= 2 over a 60-character superset (58 + '0' + 'l')
    sup = ALPHA + b"0l"
    if T:
        for a in sup:
            strs.append(("exh1", bytes([a])))
            for b in sup:
                strs.append(("exh2", bytes([a, b])))
    else:
        for a in sup:
            strs.append(("exh1", bytes([a])))
        for _ in range(200):
            strs.append(("exh2", bytes([rng.choice(sup), rng.choice(sup)])))
    for _ in range(2000 if T else 200):
        L = rng.randrange(0, 60)
        strs.append(("rand-str", bytes(rng.choice(ALPHA) for _ in range(L))))
    # the classifier on other views of the data (no .lstrip / not bytes): the pinned code answers False for all of them
    for kind in ("memoryview", "list", "tuple", "str"):
        for sv in (valid[:3] + validc[:6] + [b"", b"0", b"\xff\xfe", b"1111"]):
            out.append(case("is-other-type-" + kind, "is_base58check_as", kind, sv, expect=("ok", False)))
    # the `bits base58` subcommand = the library functions = the model, in every input / output format
    k = 0
    for d in datas[:8] + datas[-(60 if T else 14):]:
        fmt = ("raw", "hex", "bin")[k % 3]
        k += 1
        via = ("stdin", "file", "stdin+out", "file+out")[(k // 3) % 4]
        out.append(case("cli-enc-%s-%s" % (fmt, via), "cli_base58encode", d, fmt, via))
        out.append(case("cli-check-%s-%s" % (fmt, via), "cli_base58check", d, fmt, via))
    cl = [s for s in strs if s[0] in ("valid", "subst", "subst-bad", "insert-bad", "delete", "transpose", "short", "lead1")]
    for cls, s in (cl[:6] + cl[78:84] + cl[158:164] + rng.sample(cl, 120 if T else 24)):
        fmt = ("raw", "hex", "bin")[k % 3]
        k += 1
        pr = (k // 3) % 4 == 0
        via = ("stdin", "file")[(k // 2) % 2]
        out.append(case("cli-dec-%s-%s" % (cls, via), "cli_base58decode", s, fmt, pr, via, strict=True))
        out.append(case("cli-cdec-%s-%s" % (cls, via), "cli_base58check_decode", s, fmt, pr, via, strict=True))
    # valid encodings that BEGIN like another format (every character of these prefixes is in the Base58 alphabet):
    # pick the prefix and a random tail, decode, keep the payload, re-append a correct checksum - the prefix survives
    for pre in (b"bc1q", b"bc1p", b"tb1q", b"tb1p", b"bcrt1q", b"bcrt1p", b"xpub", b"xprv", b"tpub", b"tprv", b"5H", b"KwDi",
                b"L1a", b"cN", b"9", b"1111", b"3", b"m", b"n", b"2"):
        for _ in range(2 if not T else 8):
            tail = bytes(rng.choice(ALPHA) for _ in range(rng.choice([20, 30, 47, 107])))
            raw = _b58_to_bytes(pre + tail)
            if len(raw) < 5:
                continue
            pay = raw[:-4]
            sv = _spec_encode(pay + _h4(pay))
            if not sv.startswith(pre):
                continue
            out.append(case("format-lookalike-valid", "base58check_decode", sv, strict=True))
            out.append(case("format-lookalike-valid", "is_base58check", sv))
            out.append(case("format-lookalike-valid", "base58decode", sv, strict=True))
            out.append(case("format-lookalike-enc", "base58check", pay))
            out.append(case("cli-cdec-format-lookalike", "cli_base58check_decode", sv, "hex", False, "stdin", strict=True))
    # a valid encoding followed / preceded by whitespace is NOT in the alphabet: refused on stdin and through -i FILE
    for s0 in valid[1:4] + validc[1:6]:
        for ws in (b"\n", b"\r\n", b" ", b"\t", b"\n\n", b"\0"):
            for s in (s0 + ws, ws + s0):
                for via in ("stdin", "file"):
                    k += 1
                    if not T and k % 3:
                        continue
                    out.append(case("cli-dec-ws-" + via, "cli_base58decode", s, "hex", False, via, strict=True))
                    out.append(case("cli-cdec-ws-" + via, "cli_base58check_decode", s, "raw", False, via, strict=True))
                strs.append(("ws", s))
    # one caller-owned buffer holding first a valid, then an invalid string (and the reverse)
    inval = [s for c_, s in strs if c_ in ("subst", "subst-bad", "delete", "short", "ws")]
    for i in range(1, 40 if T else 12):
        bad = inval[(7 * i) % len(inval)]
        for op, sv in (("base58decode", valid[i]), ("base58check_decode", validc[i]), ("is_base58check", validc[i])):
            out.append(case("one-buffer-valid-then-invalid", "twice_in_one_buffer", op, sv, bad))
            out.append(case("one-buffer-invalid-then-valid", "twice_in_one_buffer", op, bad, sv))
            out.append(case("one-buffer-valid-then-valid", "twice_in_one_buffer", op, sv, validc[i + 1] if op != "base58decode" else valid[i + 1]))
    for cls, s in strs:
        out.append(case("dec-" + cls, "base58decode", s, strict=True))
        out.append(case("cdec-" + cls, "base58check_decode", s, strict=True))
        out.append(case("is-" + cls, "is_base58check", s))
    return out


def model_call(c):
    """the CLI ops are judged by the model function of the library call they wrap"""
    op = c["op"]
    if op.startswith("cli_"):
        return "c07_" + op[4:], c["args"][:1]
    if op == "twice_in_one_buffer":            # a sequence of two model calls (common.model_eval)
        f, a, b = c["args"]
        return [("c07_" + f, [a]), ("c07_" + f, [b])]
    return "c07_" + op, c["args"]


def shrink(c):
    if c["op"] in ("is_base58check_as", "twice_in_one_buffer"):
        return
    for b in shrink_bytes(c["args"][0]):
        c2 = dict(c)
        c2["args"] = [b] + list(c["args"][1:])
        yield c2


def prop_oracle(c):
    """the literal statement of C07 on the implementation, for the byte string of this case"""
    m = _impl()
    if c["op"] == "is_base58check_as":
        try:
            r = _is_as(*c["args"])
        except Exception as e:
            return "is_base58check raised %s instead of returning a boolean" % type(e).__name__
        return None if isinstance(r, bool) else "is_base58check returned a non-boolean"
    if c["op"] == "twice_in_one_buffer":
        f, a, b = c["args"]
        fresh = []
        for content in (a, b):
            try:
                v = getattr(m, f)(bytes(content))
                fresh.append(["ok", v])
            except Exception:
                fresh.append(["err", None])
        got = _twice(f, a, b)
        if got != fresh:
            return ("%s on one caller-owned bytearray holding first %r then (overwritten in place) %r answers %r; "
                    "on fresh bytes objects it answers %r" % (f, a, b, got, fresh))
        for content in (a, b):
            r = prop_oracle({"op": f, "args": [content]})
            if r:
                return r
        return None
    x = c["args"][0]
    op = c["op"]
    if op.startswith("cli_"):
        lib = getattr(m, op[4:])
        try:
            want = ("ok", lib(x))
        except Exception as e:
            want = ("err", type(e).__name__)
        try:
            got = ("ok", IMPL[op](*c["args"]))
        except Exception as e:
            got = ("err", type(e).__name__)
        if got != want:
            return "`bits base58` (%s, format %s) gives %r where bits.base58.%s gives %r" % (
                op, c["args"][1], got, op[4:], want)
        op = op[4:]
    if op in ("base58encode", "base58check"):
        e = m.base58encode(x)
        if m.base58decode(e) != x:
            return "base58decode(base58encode(x)) != x"
        if e != _spec_encode(x):
            return "base58encode(x) is not the Base58 encoding of x"
        ce = m.base58check(x)
        if m.base58check_decode(ce) != x:
            return "base58check_decode(base58check(x)) != x"
        if m.is_base58check(ce) is not True:
            return "is_base58check(base58check(x)) is not True"
        return None
    # decoding side: x is a candidate string
    in_alpha = all(ch in ALPHA for ch in x)
    try:
        d = m.base58decode(x)
        ok = True
    except Exception as e:
        ok = False
        err = e
    if ok != in_alpha:
        return "base58decode accepts=%s but all-characters-in-alphabet=%s" % (ok, in_alpha)
    if ok:
        if _spec_encode(d) != x:
            return "base58decode(x) = %r is not the Base58 value of x" % d
        if m.base58encode(d) != x:
            return "re-encoding the accepted string does not return it"
        want = None
        if len(d) >= 4 and d[-4:] == _h4(d[:-4]):
            want = d[:-4]
    else:
        want = None
    try:
        p = m.base58check_decode(x)
        got = p
    except Exception:
        got = None
    if got != want:
        return "base58check_decode returned %r, the checksum rule requires %r" % (got, want)
    r = m.is_base58check(x)
    if r is not (want is not None):
        return "is_base58check returned %r, expected %r" % (r, want is not None)
    return None


def coq_equation(c, mr):
    if c["op"] in ("is_base58check_as", "twice_in_one_buffer") or c["op"].startswith("cli_"):
        return None
    """the same computation as a Coq term, for the vm_compute cross-check of the extraction"""
    a = coq_bytes(c["args"][0])
    op = c["op"]
    if len(c["args"][0]) > 140:
        return None
    if op == "base58encode":
        return "c07_base58encode %s = %s" % (a, coq_lit(mr[1]))
    if op == "base58decode":
        return "c07_base58decode %s = %s" % (a, coq_result(mr))
    if op == "base58check":
        return "c07_base58check sha256 %s = %s" % (a, coq_lit(mr[1]))
    if op == "base58check_decode":
        return "c07_base58check_decode sha256 %s = %s" % (a, coq_result(mr))
    if op == "is_base58check":
        return "c07_is_base58check sha256 %s = %s" % (a, coq_lit(mr[1]))


# ops whose answer must not depend on the concrete bytes-like type of their arguments (they agree on the pinned tree;
# tools/bytearray_probe.py); common.py re-runs a sample of their cases with bytearray arguments
BYTEARRAY_OPS = {'base58encode', 'base58check', 'is_base58check', 'base58decode', 'base58check_decode'}
