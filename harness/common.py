"""Shared machinery of the /verif checks (see DESIGN.md sections 2, 5, 6).

A property module harness/cXX.py defines (all module-level):

  ID            "C07"
  MAKE_TARGETS  Coq files (relative to coq/, '.v') whose compilation are this property's proof
                obligations; Props/CXX.v is always among them
  GEN_TABLES    names of Gen tables (harness/gen_tables.py) the property depends on
  IMPL          {op: function(*args)} -- run INSIDE the worker process against /repo/src;
                may raise; the worker maps exceptions to error kinds
  gen_cases(rng, tier) -> list of case dicts  {"cls": generator class, "op": op, "args": [...],
                "strict": bool (compare the exception class, not only ok/err)}
  optional:
  model_call(case) -> (modelrun op name, args)      default: (id_lower + "_" + op, args)
  canon(case, value) -> value                        normalise an ok-value before comparing
  prop_oracle(case) -> None | str                    run inside the worker: the LITERAL property
                statement evaluated on the implementation for this input; str = how it fails
  shrink(case) -> iterable of smaller cases
  KNOWN         {slug: predicate(case)}              matchers for KNOWN_FINDINGS.txt entries
  FILLER        set of generator classes that do not count as non-trivial
  ASSUMPTIONS   list of strings (hypotheses of the theorems / what is modelled)
  extra_checks(ctx) -> list of violation dicts       property-specific additional searches
"""
import base64
import fcntl
import hashlib
import hmac
import importlib
import json
import os
import random
import re
import select
import subprocess
import sys
import time
import unicodedata

VERIF = os.path.dirname(os.path.dirname(os.path.abspath(__file__)))
REPO = os.environ.get("BITS_REPO", "/repo")
REPO_SRC = os.path.join(REPO, "src")
PY = "/venv/bin/python"
WORK = os.path.join(VERIF, ".work")
# evidence goes to /verif/evidence unless a test driver (tools/seedtest.sh) redirects it
EVIDENCE_DIR = os.environ.get("VERIF_EVIDENCE_DIR") or os.path.join(VERIF, "evidence")
# replay files go to /verif/replays unless a test driver redirects them (concurrent runs of one property)
REPLAY_DIR = os.environ.get("VERIF_REPLAY_DIR") or os.path.join(VERIF, "replays")


def modelrun_path(prop_id):
    return os.path.join(VERIF, "bin", "modelrun_" + prop_id.lower())

ERR_KINDS = {
    "AssertionError": "AssertionE", "ValueError": "ValueE", "KeyError": "KeyE",
    "IndexError": "IndexE", "TypeError": "TypeE", "OverflowError": "OverflowE",
    "AttributeError": "AttributeE", "ConnectionError": "ConnE",
}


def err_kind(exc) -> str:
    # an exception a harness op raises to say "the implementation did something the property forbids although it
    # ended in a refusal" (wrote output before refusing, malformed CLI output, ...): never agrees with the model
    if getattr(exc, "harness_violation", False) or type(exc).__name__ in ("CliLeak", "CliEmittedOnRefusal", "CliMalformed"):
        return "Violation"
    for klass in type(exc).__mro__:
        if klass.__name__ in ERR_KINDS:
            return ERR_KINDS[klass.__name__]
    if type(exc).__name__ == "DrawsExhausted":   # scripted random source ran dry (model: FuelE)
        return "FuelE"
    if isinstance(exc, UnicodeError):
        return "ValueE"
    return "OtherE"


# --------------------------------------------------------------------------------------
# value notation
# --------------------------------------------------------------------------------------
def enc(v) -> str:
    if isinstance(v, bool):
        return "b1" if v else "b0"
    if isinstance(v, int):
        return "i%d" % v
    if isinstance(v, (bytes, bytearray, memoryview)):
        return "x" + bytes(v).hex()
    if v is None:
        return "n"
    if isinstance(v, str):
        return "s" + v.encode("utf-8", "surrogatepass").hex()
    if isinstance(v, list):
        return "[ " + "".join(enc(x) + " " for x in v) + "]"
    if isinstance(v, tuple):
        return "( " + "".join(enc(x) + " " for x in v) + ")"
    if isinstance(v, dict):  # dicts are sent as sorted lists of pairs
        return enc([(k, v[k]) for k in sorted(v)])
    raise TypeError("cannot encode %r" % type(v))


def _dec(toks, i):
    t = toks[i]
    if t == "[" or t == "(":
        close = "]" if t == "[" else ")"
        out = []
        i += 1
        while toks[i] != close:
            v, i = _dec(toks, i)
            out.append(v)
        return (out if t == "[" else tuple(out)), i + 1
    if t == "n":
        return None, i + 1
    if t == "b0":
        return False, i + 1
    if t == "b1":
        return True, i + 1
    if t[0] == "x":
        return bytes.fromhex(t[1:]), i + 1
    if t[0] == "s":
        return bytes.fromhex(t[1:]).decode("utf-8", "surrogatepass"), i + 1
    if t[0] == "i":
        return int(t[1:]), i + 1
    raise ValueError("bad token %r" % t)


def dec(s: str):
    toks = s.split()
    v, i = _dec(toks, 0)
    if i != len(toks):
        raise ValueError("trailing tokens")
    return v


def dec_many(s: str):
    toks = s.split()
    out, i = [], 0
    while i < len(toks):
        v, i = _dec(toks, i)
        out.append(v)
    return out


STRICT_ERRORS_EARLY = os.environ.get("VERIF_STRICT_ERRORS") == "1"


def norm(v):
    """tuples and lists are identified; bytearray -> bytes; an error outcome EMBEDDED in a composite value - the harness
    convention ("err", Kind) / ["err", Kind] - loses its kind (which exception refuses is not part of any property)"""
    if isinstance(v, (list, tuple)):
        if len(v) == 2 and v[0] == "err" and (v[1] is None or isinstance(v[1], str)) and not STRICT_ERRORS_EARLY:
            return ["err"]
        return [norm(x) for x in v]
    if isinstance(v, (bytearray, memoryview)):
        return bytes(v)
    if isinstance(v, str) and v in _BARE_KINDS and not STRICT_ERRORS_EARLY:
        return "err"            # batch ops report a refused element in-band by its bare kind name
    return v


_BARE_KINDS = frozenset(list(ERR_KINDS.values()) + ["OtherE"])      # not Violation / Timeout / Crash / FuelE


# --------------------------------------------------------------------------------------
# oracles: library functions that are NOT repo code, answered by name from the harness
# --------------------------------------------------------------------------------------
def _b64dec(s):
    try:
        return base64.b64decode(s, validate=False)
    except Exception:
        return None


ORACLES = {
    "sha256": lambda m: hashlib.sha256(m).digest(),
    "sha512": lambda m: hashlib.sha512(m).digest(),
    "ripemd160": lambda m: hashlib.new("ripemd160", m).digest(),
    "hmac_sha512": lambda k, m: hmac.new(k, m, hashlib.sha512).digest(),
    "pbkdf2_sha512": lambda p, s, it, n: hashlib.pbkdf2_hmac("sha512", p, s, it, n),
    "nfkd": lambda s: unicodedata.normalize("NFKD", s.decode("utf-8")).encode("utf-8"),
    "b64enc": lambda s: base64.b64encode(s),
    "b64dec": _b64dec,
}


class ModelRunner:
    """bin/modelrun subprocess (the extracted Coq model)."""

    def __init__(self, prop_id):
        self.p = None
        self.exe = modelrun_path(prop_id)
        self.oracle_log = []
        self.start()

    def start(self):
        self.p = subprocess.Popen([self.exe], stdin=subprocess.PIPE, stdout=subprocess.PIPE,
                                  text=True, bufsize=1,
                                  preexec_fn=lambda: __import__("resource").setrlimit(
                                      __import__("resource").RLIMIT_STACK,
                                      (__import__("resource").RLIM_INFINITY,) * 2))

    def call(self, op, args):
        self.oracle_log = []
        line = op + "".join(" " + enc(a) for a in args) + "\n"
        try:
            self.p.stdin.write(line)
            self.p.stdin.flush()
            while True:
                r = self.p.stdout.readline()
                if not r:
                    raise BrokenPipeError
                if r.startswith("? "):
                    parts = r[2:].split(None, 1)
                    name = parts[0]
                    oargs = dec_many(parts[1]) if len(parts) > 1 else []
                    ans = ORACLES[name](*oargs)
                    self.oracle_log.append((name, oargs, ans))
                    self.p.stdin.write(enc(ans) + "\n")
                    self.p.stdin.flush()
                    continue
                r = r.rstrip("\n")
                if r.startswith("ok "):
                    return ("ok", dec(r[3:]))
                if r.startswith("err "):
                    return ("err", r[4:].strip())
                return ("fail", r)
        except (BrokenPipeError, OSError):
            try:
                self.p.kill()
            except Exception:
                pass
            self.start()
            return ("fail", "modelrun died")

    def close(self):
        try:
            self.p.stdin.close()
            self.p.wait(timeout=5)
        except Exception:
            self.p.kill()


class ImplRunner:
    """harness/impl_worker.py subprocess: runs /repo's code (and the property oracle)."""

    def __init__(self, prop_id, timeout=20.0):
        self.prop_id = prop_id
        self.timeout = timeout
        self.p = None
        self.start()

    def start(self):
        env = dict(os.environ)
        env["PYTHONPATH"] = REPO_SRC + os.pathsep + os.path.join(VERIF, "harness")
        env["PYTHONHASHSEED"] = "0"
        env["BITS_VERIF"] = "1"
        env["PYTHONDONTWRITEBYTECODE"] = "1"
        self.p = subprocess.Popen([PY, os.path.join(VERIF, "harness", "impl_worker.py"), self.prop_id],
                                  stdin=subprocess.PIPE, stdout=subprocess.PIPE, text=True, bufsize=1,
                                  env=env, cwd=WORK)
        hello = self._readline(60)
        if hello is None or not hello.startswith("ready"):
            raise RuntimeError("impl worker failed to start: %r" % hello)

    def _readline(self, timeout):
        r, _, _ = select.select([self.p.stdout], [], [], timeout)
        if not r:
            return None
        return self.p.stdout.readline()

    def _request(self, line, timeout=None):
        timeout = timeout or self.timeout
        try:
            self.p.stdin.write(line + "\n")
            self.p.stdin.flush()
            r = self._readline(timeout + 5)
        except (BrokenPipeError, OSError):
            r = ""
        if r is None:      # hard hang: kill and restart
            self.p.kill()
            self.start()
            return "err Timeout 68756e67"
        if r == "":
            rc = self.p.poll()
            self.start()
            return "err Crash " + ("worker exited rc=%s" % rc).encode().hex()
        return r.rstrip("\n")

    def call(self, op, args, timeout=None):
        r = self._request("impl %s %d %s" % (op, int((timeout or self.timeout) * 1000),
                                             "".join(" " + enc(a) for a in args)), timeout)
        if r.startswith("ok "):
            return ("ok", dec(r[3:]))
        if r.startswith("err "):
            parts = r.split()
            msg = bytes.fromhex(parts[2]).decode("utf-8", "replace") if len(parts) > 2 else ""
            return ("err", parts[1], msg)
        return ("err", "Crash", r)

    def oracle(self, case, timeout=None):
        r = self._request("oracle " + json.dumps(case_to_json(case)), timeout)
        if r.startswith("ok "):
            v = dec(r[3:])
            return v  # None = property holds on this input; str = failure description
        return "oracle-error: " + r

    def close(self):
        try:
            self.p.stdin.close()
            self.p.wait(timeout=5)
        except Exception:
            self.p.kill()


# --------------------------------------------------------------------------------------
# cases
# --------------------------------------------------------------------------------------
def case(cls, op, *args, strict=False, **extra):
    d = {"cls": cls, "op": op, "args": list(args), "strict": strict}
    d.update(extra)
    return d


def case_to_json(c):
    d = {k: v for k, v in c.items() if k not in ("args", "expect")}
    d["args"] = [enc(a) for a in c["args"]]
    if c.get("expect") is not None:          # generator-side expected value (may hold bytes): value notation
        d["expect_enc"] = enc(list(c["expect"]))
    return d


def case_from_json(d):
    c = {k: v for k, v in d.items() if k != "expect_enc"}
    c["args"] = [dec(a) for a in d["args"]]
    if d.get("expect_enc") is not None:
        e = dec(d["expect_enc"])
        c["expect"] = (e[0], e[1])
    elif d.get("expect") is not None:
        c["expect"] = tuple(d["expect"])
    return c


def case_key(c):
    return hashlib.sha1((c["op"] + "|" + "|".join(enc(a) for a in c["args"])).encode()).hexdigest()


# The properties say "rejected with an error" / "refused" and never name an exception class, so WHICH exception refuses
# an input is not part of any property: a refusal agrees with a refusal.  VERIF_STRICT_ERRORS=1 restores the
# per-case `strict` comparison of error kinds as a diagnostic (kind differences are always counted in the evidence).
STRICT_ERRORS = os.environ.get("VERIF_STRICT_ERRORS") == "1"


def model_eval(model, mc):
    """mc = (op, args): one model call.  mc = [(op, args), ...]: a SEQUENCE of model calls (a multi-step op of the
    implementation side returns one entry per step); the expected value is the list of ["ok", value] / ["err", None]"""
    if isinstance(mc, list):
        out = []
        for op, args in mc:
            r = model.call(op, args)
            if r[0] == "fail":
                return r
            out.append(["ok", r[1]] if r[0] == "ok" else ["err", None])
        return ("ok", out)
    return model.call(mc[0], mc[1])


VARIANT_TEXT = {
    "bytearray": "with its bytes arguments passed as bytearray objects",
    "memoryview": "with its bytes arguments passed as memoryview objects",
    "reuse": "with ONE caller-owned bytearray per argument, refilled in place before each call",
    "reuselist": "with ONE caller-owned list per argument, refilled in place before each call",
    "deep": "called from 800 frames deep in the caller's stack (default recursion limit 1000)",
    "env": "called under a low-precision truncating decimal context (process-wide setting of the caller)",
}


def run_variant(impl, c, canon=None):
    """re-execute a variant case: first the calls of its history (same variant), then the case itself"""
    kind = c["variant"]
    for h in c.get("history", []):
        hc = case_from_json(h)
        impl.call(hc["op"] + "@" + kind, hc["args"], timeout=hc.get("timeout"))
    r = impl.call(c["op"] + "@" + kind, c["args"], timeout=c.get("timeout"))
    if canon and r[0] == "ok":
        r = ("ok", canon(c, r[1]))
    return r


def variant_verdict(impl, c, expected, canon=None):
    """a deviation seen in a bytes-like / reused-object variant: reproduce it (history included); reproduced = a concrete
    failing history of calls on the implementation"""
    r = run_variant(impl, c, canon)
    same = (r[0] == expected[0]) and (norm(r[1]) == norm(expected[1]) if r[0] == "ok" else True)
    if same:
        return None
    hist = ""
    if c.get("history"):
        h = c["history"][0]
        hist = " after the call %s(%s) on the same objects" % (h["op"], ", ".join(short(a, 60) for a in h["args"]))
    return "%s %s%s answers %s; the model, and the same call on fresh bytes/list objects, give %s" % (
        c["op"], VARIANT_TEXT.get(c["variant"], c["variant"]), hist, short(r, 200), short(expected, 200))


def results_agree(ir, mr, strict):
    """ir: impl result tuple, mr: model result tuple"""
    if mr[0] == "fail":
        return False
    if ir[0] == "err" and ir[1] == "Violation":
        return False
    strict = strict and STRICT_ERRORS
    if ir[0] == "ok" and mr[0] == "ok":
        return norm(ir[1]) == norm(mr[1])
    if ir[0] == "err" and mr[0] == "err":
        if ir[1] == "Timeout" or mr[1] == "FuelE":
            return ir[1] in ("Timeout", "FuelE") and mr[1] == "FuelE"
        if ir[1] == "Crash":
            return False
        return (ir[1] == mr[1]) if strict else True
    return False


def short(v, n=160):
    s = v if isinstance(v, str) else repr(v)
    return s if len(s) <= n else s[:n] + "...(%d chars)" % len(s)


# --------------------------------------------------------------------------------------
# build / obligations
# --------------------------------------------------------------------------------------
ALLOWED_AXIOM_PREFIXES = (
    # primitives of the kernel's native integers/floats/arrays (not axioms of the development)
    "PrimFloat.", "Uint63.", "PrimInt63.", "Float64.", "Sint63.", "PrimArray.", "FloatAxioms.",
    "FloatOps.", "CarryType.", "PrimString.",
    # axioms DECLARED BY THE STANDARD LIBRARY (allowed by the brief when named in the trusted base)
    "functional_extensionality_dep", "FunctionalExtensionality.functional_extensionality_dep",
    "Coq.Logic.FunctionalExtensionality.functional_extensionality_dep",
    "proof_irrelevance", "ProofIrrelevance.proof_irrelevance", "Classical_Prop.classic", "classic",
    "JMeq.JMeq_eq", "JMeq_eq", "Eqdep.Eq_rect_eq.eq_rect_eq", "eq_rect_eq",
    # the standard library's axioms of the classical real numbers (Reals; used through Flocq by Props/C16Sat.v only)
    "ClassicalDedekindReals.sig_not_dec", "ClassicalDedekindReals.sig_forall_dec",
)


class Lock:
    def __enter__(self):
        os.makedirs(WORK, exist_ok=True)
        self.f = open(os.path.join(WORK, "lock"), "w")
        fcntl.flock(self.f, fcntl.LOCK_EX)
        return self

    def __exit__(self, *a):
        fcntl.flock(self.f, fcntl.LOCK_UN)
        self.f.close()


def run(cmd, timeout=3600, cwd=VERIF, env=None):
    e = dict(os.environ)
    if env:
        e.update(env)
    try:
        p = subprocess.run(cmd, shell=isinstance(cmd, str), cwd=cwd, env=e, timeout=timeout,
                           stdout=subprocess.PIPE, stderr=subprocess.STDOUT, text=True)
        out = "\n".join(l for l in p.stdout.splitlines() if "WARNING conda" not in l)
        return p.returncode, out
    except subprocess.TimeoutExpired as ex:
        return 124, "TIMEOUT after %ss: %s" % (timeout, ex.stdout)


def parse_assumptions(out):
    """Split coqc output of a Props file into one block per `Print Assumptions`."""
    blocks, cur = [], None
    for line in out.splitlines():
        if line.startswith("Closed under the global context"):
            if cur is not None:
                blocks.append(cur)
                cur = None
            blocks.append([])
        elif line.startswith("Axioms:"):
            if cur is not None:
                blocks.append(cur)
            cur = []
        elif cur is not None:
            m = re.match(r"^([A-Za-z_][\w.']*)\s*:", line)
            if m:
                cur.append(m.group(1))
            elif line and not line.startswith(" "):
                blocks.append(cur)
                cur = None
    if cur is not None:
        blocks.append(cur)
    return blocks


def axiom_allowed(name):
    return any(name == p or name.startswith(p) or name.endswith("." + p) for p in ALLOWED_AXIOM_PREFIXES)


def build_obligations(prop, tier):
    """regenerate Gen tables, build the property's Coq targets and the model runner.
    returns dict(obligations, discharged, broken: [names], axioms: [names], checker_cmd, log)"""
    res = {"obligations": 0, "discharged": 0, "broken": [], "axioms": [], "log": "", "theorems": []}
    targets = list(getattr(prop, "MAKE_TARGETS", []))
    pfile = "Props/%s.v" % prop.ID
    if pfile not in targets:
        targets.insert(0, pfile)
    gen = list(getattr(prop, "GEN_TABLES", []))
    with Lock():
        # (1) translator
        if gen:
            rc, out = run([PY, os.path.join(VERIF, "harness", "gen_tables.py")] + gen,
                          cwd=os.path.join(VERIF, "coq"),
                          env={"PYTHONHASHSEED": "0", "PYTHONPATH": REPO_SRC, "BITS_REPO_SRC": REPO_SRC},
                          timeout=300)
            res["log"] += out + "\n"
            for line in out.splitlines():
                if line.startswith("GENFAIL"):
                    res["broken"].append(line.split()[1])
        # (2) proofs
        if tier == "thorough":
            # re-check this property's own files from scratch
            for t in targets:
                for ext in (".vo", ".vok", ".vos", ".glob"):
                    try:
                        os.remove(os.path.join(VERIF, "coq", t[:-2] + ext))
                    except OSError:
                        pass
        vo = [t[:-2] + ".vo" for t in targets]
        cmd = "make -C %s -s props T=\"%s\"" % (VERIF, " ".join(vo))
        res["checker_cmd"] = cmd + "  &&  coqc -Q coq Bits coq/" + pfile + "   (Coq 8.16.1, full .vo build)"
        rc, out = run(cmd, timeout=3000)
        res["log"] += out + "\n"
        made_ok = rc == 0
        # (3) which obligations exist / were discharged
        for t in targets:
            path = os.path.join(VERIF, "coq", t)
            names = []
            if os.path.exists(path):
                names = re.findall(r"^\s*(?:Theorem|Example|Corollary)\s+([\w']+)", open(path).read(), re.M)
            else:
                names = ["<missing file %s>" % t]
            ok = os.path.exists(path[:-2] + ".vo") and made_ok
            if not ok and made_ok is False:
                # find out whether this particular target built
                ok = os.path.exists(path[:-2] + ".vo") and \
                    os.path.getmtime(path[:-2] + ".vo") >= os.path.getmtime(path)
                ok = ok and ("%s" % t[:-2]) not in _failed_targets(out)
            for n in names:
                res["obligations"] += 1
                res["theorems"].append(t + ":" + n)
                if ok:
                    res["discharged"] += 1
                else:
                    res["broken"].append(t + ":" + n)
        # (4) assumptions of the property theorems: re-run coqc on the Props file (cheap: only `exact`s)
        # (further Props files a property names in ASSUMPTION_FILES are collected the same way)
        res["assumption_blocks"] = 0
        for af in [pfile] + [f for f in getattr(prop, "ASSUMPTION_FILES", []) if f != pfile]:
            if not os.path.exists(os.path.join(VERIF, "coq", af[:-2] + ".vo")):
                continue
            rc2, out2 = run("coqc -Q . Bits -w none %s" % af, cwd=os.path.join(VERIF, "coq"), timeout=900)
            if rc2 != 0:
                res["broken"].append(af + ":recheck")
                res["log"] += out2
            blocks = parse_assumptions(out2)
            res["assumption_blocks"] += len(blocks)
            for b in blocks:
                for ax in b:
                    if ax not in res["axioms"]:
                        res["axioms"].append(ax)
                    if not axiom_allowed(ax):
                        res["broken"].append("axiom:" + ax)
        # (5) model runner
        rc3, out3 = run("make -C %s -s model P=%s" % (VERIF, prop.ID), timeout=3000)
        if rc3 != 0 or not os.path.exists(modelrun_path(prop.ID)):
            res["broken"].append("build:modelrun")
            res["log"] += out3
    # independent re-check of the compiled property file and everything it depends on (thorough tier);
    # outside the build lock: it only reads .vo files and can take many minutes (it re-runs the small-curve sweeps)
    if tier == "thorough" and os.environ.get("VERIF_COQCHK", "1") == "1" and not res["broken"]:
        mod = "Bits." + pfile[:-2].replace("/", ".")
        rc4, out4 = run("coqchk -silent -o -Q . Bits %s" % mod, cwd=os.path.join(VERIF, "coq"), timeout=3400)
        res["coqchk"] = out4[-3000:]
        if rc4 != 0:
            res["broken"].append("coqchk:" + mod)
    res["discharged"] = max(0, res["obligations"] - len([b for b in res["broken"] if ":" in b and not b.startswith(("axiom:", "gen:", "build:", "coqchk:"))]))
    return res


def _failed_targets(out):
    return set(re.findall(r"\*\*\* \[[^\]]*?:\s*\d+:\s*([\w/]+)\.vo\]", out))


# --------------------------------------------------------------------------------------
# known findings
# --------------------------------------------------------------------------------------
def load_known(prop_id):
    path = os.path.join(VERIF, "KNOWN_FINDINGS.txt")
    out = []
    if not os.path.exists(path):
        return out
    for line in open(path):
        line = line.strip()
        if not line.startswith("known:"):
            continue
        m = re.match(r"known:\s+property=(\S+)\s+id=(\S+)\s+witness=(\S+)\s+(.*)$", line)
        if not m:
            raise RuntimeError("malformed KNOWN_FINDINGS line: " + line)
        if m.group(1) == prop_id:
            out.append({"id": m.group(2), "witness": m.group(3), "text": m.group(4)})
    return out


# --------------------------------------------------------------------------------------
# the check driver
# --------------------------------------------------------------------------------------
def trusted_base(ob):
    tb = [
        "Coq 8.16.1 kernel + coqc; vm_compute used inside proofs for finite sweeps; native_compute NOT used",
        "axioms reported by Print Assumptions under this property's theorems: "
        + (", ".join(ob["axioms"]) if ob["axioms"] else "none (Closed under the global context)"),
        "translator harness/gen_tables.py (reads values from the imported /repo/src modules, fail-closed)",
        "extraction: ExtrOcamlBasic + ExtrOcamlZBigInt (their Extract Inductive/Constant directives; no others), "
        "OCaml 4.13.1 + zarith 1.12, drivers ocaml/proto.ml main.ml ops_*.ml",
        "correspondence harness (generators, canonicalisation, impl_worker.py); hash/HMAC/PBKDF2/NFKD/base64 "
        "oracles answered by CPython hashlib/hmac/unicodedata/base64 called by name from the harness",
        "the Gallina model is hand-written; it is tied to /repo by the correspondence run of THIS check "
        "and by the regenerated Gen tables",
    ]
    return tb


def run_check(prop_id, tier="quick", seed=0, replay=None):
    t0 = time.time()
    sys.path.insert(0, os.path.join(VERIF, "harness"))
    prop = importlib.import_module(prop_id.lower())
    os.makedirs(WORK, exist_ok=True)
    os.makedirs(EVIDENCE_DIR, exist_ok=True)
    os.makedirs(REPLAY_DIR, exist_ok=True)
    if replay:
        return run_replay(prop, replay)

    ob = build_obligations(prop, tier)
    violations = []      # dicts: kind, case/obligation, expected, observed, oracle
    known_lines = []
    rng = random.Random(("%s-%s-%s" % (prop_id, tier, seed)))
    cases = []
    try:
        cases = list(prop.gen_cases(rng, tier))
    except Exception as e:   # a generator bug must not look like a pass
        violations.append({"kind": "obligation", "obligation": "harness:gen_cases", "detail": repr(e)})
    # when a proof obligation is broken the search uses the thorough case counts
    if ob["broken"] and tier == "quick":
        try:
            rng2 = random.Random(("%s-%s-%s" % (prop_id, "thorough", seed)))
            cases = list(prop.gen_cases(rng2, "thorough"))
        except Exception:
            pass

    known = load_known(prop_id)
    matchers = getattr(prop, "KNOWN", {})
    for k in known:
        if k["id"] not in matchers:
            raise RuntimeError("KNOWN_FINDINGS entry %s has no matcher in %s" % (k["id"], prop_id))

    stats = {"evaluations": 0, "agree": 0, "classes": {}, "impl_err": {}, "model_err": {}, "err_kind_differs": {}}
    seen = set()
    nontrivial = 0
    filler = set(getattr(prop, "FILLER", {"filler"}))
    samples = []
    disagreements = []
    model = impl = None
    if "build:modelrun" not in ob["broken"]:
        model = ModelRunner(prop_id)
    impl = ImplRunner(prop_id, timeout=getattr(prop, "CASE_TIMEOUT", 20.0))
    canon = getattr(prop, "canon", None)
    model_call = getattr(prop, "model_call", None)

    def eval_case(c):
        ir = impl.call(c["op"], c["args"], timeout=c.get("timeout"))
        if canon and ir[0] == "ok":
            ir = ("ok", canon(c, ir[1]))
        if model is None:
            return ir, ("fail", "no model")
        if c.get("expect") is not None:        # spec value computed by the generator itself
            mr = c["expect"]
        else:
            mr = model_eval(model, model_call(c) if model_call else (prop_id.lower() + "_" + c["op"], c["args"]))
        if canon and mr[0] == "ok":
            mr = ("ok", canon(c, mr[1]))
        return ir, mr

    xsample, xcount = [], {}
    xper, xmax = (3, 120) if tier == "thorough" else (1, 40)
    cheap = []          # (case, impl result) of fast cases, for the history-independence re-run below
    okpool = {}         # op -> accepted cases of any cost
    # time budget of the SEARCH: once disagreements have been found (so the verdict is "violation" whatever else happens) the
    # remaining cases and the variant re-runs are dropped when the budget is used up - a broken obligation escalates the case
    # counts to the thorough tier, and code that disagrees everywhere (e.g. a racy loop) makes each case expensive.  A run
    # WITHOUT disagreements is never cut short.
    budget = float(os.environ.get("VERIF_SEARCH_BUDGET", "600" if tier == "quick" else "5400"))

    def over_budget():
        return bool(disagreements) and time.time() - t0 > budget
    for ci, c in enumerate(cases):
        if over_budget():
            stats.setdefault("extra", {})["stopped_early"] = "%d of %d cases not evaluated: %d disagreements found, search budget %ds used up" \
                % (len(cases) - ci, len(cases), len(disagreements), int(budget))
            break
        _t0 = time.time()
        ir, mr = eval_case(c)
        _dt = time.time() - _t0
        if _dt < 0.03 and ir[0] != "err" or (ir[0] == "err" and ir[1] not in ("Timeout", "Crash") and _dt < 0.03):
            cheap.append((c, ir))
        if ir[0] == "ok" and _dt < 3.0:           # accepted cases of any cost, a few per op (deep-stack / environment variants)
            lst = okpool.setdefault(c["op"], [])
            if len(lst) < 40:
                lst.append((c, ir, _dt))
        stats["evaluations"] += 1
        stats["classes"][c["cls"]] = stats["classes"].get(c["cls"], 0) + 1
        if ir[0] == "err":
            stats["impl_err"][ir[1]] = stats["impl_err"].get(ir[1], 0) + 1
        if mr[0] == "err":
            stats["model_err"][mr[1]] = stats["model_err"].get(mr[1], 0) + 1
        k = case_key(c)
        if k not in seen:
            seen.add(k)
            if c["cls"] not in filler:
                nontrivial += 1
        if len(samples) < 8 and (stats["classes"][c["cls"]] == 1):
            samples.append({"case": case_to_json(c), "impl": short(ir), "model": short(mr)})
        if model is not None and hasattr(prop, "coq_equation") and mr[0] in ("ok", "err") \
                and xcount.get(c["cls"], 0) < xper and len(xsample) < xmax:
            xcount[c["cls"]] = xcount.get(c["cls"], 0) + 1
            xsample.append((c, mr, list(model.oracle_log)))
        if ir[0] == "err" and mr[0] == "err" and ir[1] != mr[1]:      # informational: both refuse, kinds differ
            kk = "%s/%s" % (ir[1], mr[1])
            stats["err_kind_differs"][kk] = stats["err_kind_differs"].get(kk, 0) + 1
        if results_agree(ir, mr, c.get("strict", False)):
            stats["agree"] += 1
        else:
            disagreements.append((c, ir, mr))

    # ---- history independence: re-run a sample of cases in another order; a pure function of its input must answer
    #      the same whatever was called before (catches state carried between calls: caches, mutable defaults) ----
    if cheap and not getattr(prop, "HISTORY_DEPENDENT_OK", False) and not over_budget():
        rs = random.Random("rerun-%s-%s" % (prop_id, seed))
        sample = rs.sample(cheap, min(len(cheap), 400 if tier == "thorough" else 150))
        rs.shuffle(sample)
        nre = 0
        for (c, ir0) in sample + sample[:25]:
            ir1 = impl.call(c["op"], c["args"], timeout=c.get("timeout"))
            if canon and ir1[0] == "ok":
                ir1 = ("ok", canon(c, ir1[1]))
            nre += 1
            same = (ir0[0] == ir1[0]) and (norm(ir0[1]) == norm(ir1[1]) if ir0[0] == "ok" else ir0[1] == ir1[1])
            if not same:
                disagreements.append((c, ir1, ("ok", ir0[1]) if ir0[0] == "ok" else ("err", ir0[1])))
                stats.setdefault("extra", {})["history_dependent_results"] = stats.get("extra", {}).get("history_dependent_results", 0) + 1
                if stats["extra"]["history_dependent_results"] >= 5:
                    break
        stats.setdefault("extra", {})["history_independence_reruns"] = nre
        # the same calls with bytes arguments passed as another bytes-like type, for the ops a property lists in
        # BYTEARRAY_OPS / MEMORYVIEW_OPS (ops whose answer does not depend on the concrete bytes-like type on the pinned
        # tree - tools/bytearray_probe.py; for bytearray the caller's buffer must also stay intact)
        def mixed_candidates(pick):
            """candidates from ALL cheap cases (not only the re-run sample), accepted and refused inputs alternating: a
            deviation usually shows on accepted inputs, a stale answer when an accepted input is followed by another"""
            cand = [x for x in cheap if pick(x[0])]
            rs.shuffle(cand)
            acc = [x for x in cand if x[1][0] == "ok" and x[1][1] not in (False, None)]
            rej = [x for x in cand if not (x[1][0] == "ok" and x[1][1] not in (False, None))]
            mixed = []
            while (acc or rej) and len(mixed) < (600 if tier == "thorough" else 300):
                if acc:
                    mixed.append(acc.pop())
                if rej:
                    mixed.append(rej.pop())
            return mixed

        for kind, attr in (("bytearray", "BYTEARRAY_OPS"), ("memoryview", "MEMORYVIEW_OPS")):
            v_ops = set(getattr(prop, attr, ()))
            nv = 0
            if not v_ops:
                continue
            for (c, ir0) in mixed_candidates(lambda c: c["op"] in v_ops and any(isinstance(a, bytes) for a in c["args"])):
                ir1 = impl.call(c["op"] + "@" + kind, c["args"], timeout=c.get("timeout"))
                if canon and ir1[0] == "ok":
                    ir1 = ("ok", canon(c, ir1[1]))
                nv += 1
                same = (ir0[0] == ir1[0]) and (norm(ir0[1]) == norm(ir1[1]) if ir0[0] == "ok" else True)
                if not same:
                    c2 = dict(c, cls=c["cls"] + "@" + kind, variant=kind)
                    disagreements.append((c2, ir1, ("ok", ir0[1]) if ir0[0] == "ok" else ("err", ir0[1])))
            stats["extra"][kind + "_variants"] = nv
        # ... and from a deep call stack (800 frames below, default recursion limit): a sample of accepted cases of
        # every op, unless a property opts out (DEEP_STACK_OK = False for code that legitimately recurses on its input)
        for kind, flag in (("deep", "DEEP_STACK_OK"), ("env", "ENV_VARIANT_OK")):
            if not getattr(prop, flag, True):
                continue
            nv = 0
            per = (10 if tier == "thorough" else 5) if kind == "deep" else (40 if tier == "thorough" else 30)
            for op_, lst in okpool.items():
                # the costliest accepted cases first (most work = deepest recursion if any), then a random few
                lst2 = sorted(lst, key=lambda x: -x[2])[:2] + rs.sample(lst, min(len(lst), per))
                seen_k = set()
                for (c, ir0, _) in lst2:
                    kk = case_key(c)
                    if kk in seen_k:
                        continue
                    seen_k.add(kk)
                    ir1 = impl.call(c["op"] + "@" + kind, c["args"], timeout=c.get("timeout"))
                    if canon and ir1[0] == "ok":
                        ir1 = ("ok", canon(c, ir1[1]))
                    nv += 1
                    if not ((ir0[0] == ir1[0]) and (norm(ir0[1]) == norm(ir1[1]) if ir0[0] == "ok" else True)):
                        c2 = dict(c, cls=c["cls"] + "@" + kind, variant=kind)
                        disagreements.append((c2, ir1, ("ok", ir0[1]) if ir0[0] == "ok" else ("err", ir0[1])))
            stats["extra"][kind + "_variants"] = nv
        # ... and with ONE caller-owned buffer / list per argument position, refilled in place before every call:
        # whatever the library remembered about the object itself (identity- or reference-keyed caches) is stale by the
        # next call, and an argument the call modifies in place shows up as well.  Buffers: ops of BYTEARRAY_OPS;
        # lists: every op that takes a list, except those a property lists in NO_REUSELIST_OPS
        for kind, pick in (("reuse", lambda c: c["op"] in set(getattr(prop, "BYTEARRAY_OPS", ()))
                            and any(isinstance(a, bytes) for a in c["args"])),
                           ("reuselist", lambda c: c["op"] not in set(getattr(prop, "NO_REUSELIST_OPS", ()))
                            and any(isinstance(a, list) for a in c["args"]))):
            nv = 0
            prev = {}          # op -> the previous case run with this op (the content the reused objects held before)
            mixed = mixed_candidates(pick)
            for (c, ir0) in mixed:
                ir1 = impl.call(c["op"] + "@" + kind, c["args"], timeout=c.get("timeout"))
                if canon and ir1[0] == "ok":
                    ir1 = ("ok", canon(c, ir1[1]))
                nv += 1
                same = (ir0[0] == ir1[0]) and (norm(ir0[1]) == norm(ir1[1]) if ir0[0] == "ok" else True)
                if not same:
                    c2 = dict(c, cls=c["cls"] + "@" + kind, variant=kind)
                    if c["op"] in prev:
                        c2["history"] = [case_to_json(dict(prev[c["op"]], variant=kind))]
                    disagreements.append((c2, ir1, ("ok", ir0[1]) if ir0[0] == "ok" else ("err", ir0[1])))
                prev[c["op"]] = c
            stats["extra"][kind + "_variants"] = nv

    # ---- search: turn disagreements into failing inputs of the property ----
    shrink = getattr(prop, "shrink", None)
    reported = 0
    known_hit = {}
    for (c, ir, mr) in disagreements:
        kslug = next((k["id"] for k in known if matchers[k["id"]](c)), None)
        if kslug:
            known_hit[kslug] = known_hit.get(kslug, 0) + 1
            continue
        if reported >= 5:
            violations.append({"kind": "input", "case": case_to_json(c), "observed": short(ir, 400),
                               "expected": short(mr, 400), "oracle": "(not evaluated: more than 5 disagreements)"})
            continue
        if c.get("variant"):
            verdict = variant_verdict(impl, c, mr, canon)
            violations.append({"kind": "input", "case": case_to_json(c), "observed": short(ir, 2000),
                               "expected": short(mr, 2000), "oracle": verdict, "failing_input_found": verdict is not None})
            reported += 1
            continue
        if shrink:
            c, ir, mr = shrink_case(c, ir, mr, shrink, eval_case)
        verdict = impl.oracle(c) if hasattr(prop, "prop_oracle") else \
            "implementation differs from the proved model (model value is the value the property requires)"
        violations.append({"kind": "input", "case": case_to_json(c), "observed": short(ir, 2000),
                           "expected": short(mr, 2000), "oracle": verdict,
                           "failing_input_found": verdict is not None})
        reported += 1

    # ---- property-specific additional searches (e.g. literal property sweeps on the implementation) ----
    if hasattr(prop, "extra_checks"):
        try:
            ctx = {"impl": impl, "model": model, "tier": tier, "rng": rng, "stats": stats, "known": known,
                   "broken": ob["broken"]}
            for v in prop.extra_checks(ctx):
                kslug = next((k["id"] for k in known if v.get("case") and matchers[k["id"]](case_from_json(v["case"]))), None)
                if kslug:
                    known_hit[kslug] = known_hit.get(kslug, 0) + 1
                else:
                    violations.append(v)
        except Exception as e:
            violations.append({"kind": "obligation", "obligation": "harness:extra_checks", "detail": repr(e)})

    # ---- in-Coq cross-check of the extraction: the same cases evaluated by vm_compute ----
    if model is not None and hasattr(prop, "coq_equation") and xsample:
        try:
            bad = vm_crosscheck(prop, xsample)
            stats["vm_compute_crosschecked"] = len(xsample)
            for b in bad:
                ob["broken"].append("extraction-crosscheck:" + b)
        except Exception as e:
            ob["broken"].append("extraction-crosscheck:harness " + repr(e)[:200])

    # ---- broken obligations ----
    for b in ob["broken"]:
        violations.append({"kind": "obligation", "obligation": b,
                           "detail": "proof obligation / generated table / build step no longer checks",
                           "log_tail": ob["log"][-1500:]})

    # ---- known findings: replay every witness ----
    for k in known:
        wpath = os.path.join(VERIF, k["witness"])
        wc = case_from_json(json.load(open(wpath)))
        ir, mr = eval_case(wc)
        still = not results_agree(ir, mr, wc.get("strict", False))
        if not still and hasattr(prop, "prop_oracle"):
            still = impl.oracle(wc) is not None
        if still:
            known_lines.append("KNOWN-FINDING: property=%s %s [%s]" % (prop_id, k["text"], k["id"]))
        else:
            known_lines.append("NOTE: known finding %s no longer reproduces on its witness" % k["id"])

    if model:
        model.close()
    impl.close()

    # ---- verdict ----
    # an obligation violation is reported once, with a failing input if the search found one
    inputs = [v for v in violations if v["kind"] == "input"]
    obls = [v for v in violations if v["kind"] == "obligation"]
    lines = []
    n = 0
    for v in inputs[:5]:
        n += 1
        path = os.path.join(REPLAY_DIR, "%s-%d.json" % (prop_id, n))
        found = v.get("failing_input_found", True)
        rep = {"property": prop_id, "kind": "input", "case": v["case"], "expected": v["expected"],
               "observed": v["observed"], "property_oracle": v["oracle"], "seed": seed, "tier": tier,
               "correspondence": "implementation vs extracted Coq model on the same input",
               "command": "/verif/check %s --replay %s" % (prop_id, path)}
        json.dump(rep, open(path, "w"), indent=1)
        lines.append("VIOLATION property=%s replay=%s%s" % (prop_id, path, "" if found else " no-failing-input-found"))
    if obls:
        n += 1
        path = os.path.join(REPLAY_DIR, "%s-%d.json" % (prop_id, n))
        found_input = next((v for v in inputs if v.get("failing_input_found", True)), None)
        rep = {"property": prop_id, "kind": "obligation",
               "obligations_no_longer_checking": [v["obligation"] for v in obls],
               "detail": obls[0].get("detail"), "log_tail": obls[0].get("log_tail", ""),
               "failing_input": found_input["case"] if found_input else None,
               "command": "/verif/check %s --tier %s" % (prop_id, tier)}
        json.dump(rep, open(path, "w"), indent=1)
        lines.append("VIOLATION property=%s replay=%s%s" % (prop_id, path, "" if found_input else " no-failing-input-found"))

    wall = time.time() - t0
    ev = {
        "property_id": prop_id, "tier": tier, "seed": int(seed), "level": "proof",
        "coverage": {
            "obligations": ob["obligations"], "discharged": ob["discharged"] if not ob["broken"] else min(ob["discharged"], ob["obligations"] - 1) if ob["obligations"] else 0,
            "checker_cmd": ob.get("checker_cmd", ""),
            "trusted_base": trusted_base(ob),
            "theorems": ob["theorems"],
            "print_assumptions_blocks": ob.get("assumption_blocks", 0),
            "axioms": ob["axioms"],
            "broken_obligations": ob["broken"],
            "evaluations": stats["evaluations"],
            "distinct_nontrivial": nontrivial,
            "rule": "cases come from the structured generator classes listed in `classes` (every branch boundary of the "
                    "model is a class) plus the fixed corpus; distinct = distinct (op,args) by SHA-1 of the canonical "
                    "encoding; non-trivial = distinct and not from the plain-random filler classes %s" % sorted(filler),
            "samples": samples,
            "classes": stats["classes"],
            "impl_error_kinds": stats["impl_err"], "model_error_kinds": stats["model_err"],
            "refusals_whose_error_kind_differs_from_the_models": stats["err_kind_differs"],
            "error_kinds_compared_strictly": STRICT_ERRORS,
            "agreements": stats["agree"], "disagreements": len(disagreements),
            "traces_validated_against_impl": stats["agree"],
            "known_findings_matched": known_hit,
            "vm_compute_crosschecked": stats.get("vm_compute_crosschecked", 0),
            "exhaustive": bool(stats.get("exhaustive", False)),
            "extra": stats.get("extra", {}),
        },
        "assumptions": list(getattr(prop, "ASSUMPTIONS", [])),
        "wall_s": round(wall, 2),
        "violations": len(lines),
    }
    if "coqchk" in ob:
        ev["coverage"]["coqchk_tail"] = ob["coqchk"][-1500:]
    json.dump(ev, open(os.path.join(EVIDENCE_DIR, prop_id + ".json"), "w"), indent=1)
    for l in known_lines:
        print(l)
    for l in lines:
        print(l)
    print("%s %s: obligations %d/%d, cases %d (nontrivial %d), disagreements %d, %.1fs" % (
        prop_id, tier, ev["coverage"]["discharged"], ob["obligations"], stats["evaluations"], nontrivial,
        len(disagreements), wall))
    return 1 if lines else 0


# --------------------------------------------------------------------------------------
# Coq literals and the vm_compute cross-check of the extracted code
# --------------------------------------------------------------------------------------
def coq_bytes(b):
    return "[" + "; ".join("x%02x" % x for x in b) + "]"


def coq_lit(v):
    """Python value -> Coq literal (bytes -> list byte, int -> Z, bool, None -> None, list, tuple)"""
    if isinstance(v, bool):
        return "true" if v else "false"
    if isinstance(v, int):
        return "(%d)%%Z" % v
    if isinstance(v, (bytes, bytearray)):
        return coq_bytes(v)
    if v is None:
        return "None"
    if isinstance(v, str):
        return coq_bytes(v.encode("utf-8"))
    if isinstance(v, list):
        return "[" + "; ".join(coq_lit(x) for x in v) + "]"
    if isinstance(v, tuple):
        return "(" + ", ".join(coq_lit(x) for x in v) + ")"
    raise TypeError(type(v))


def coq_result(mr, lit=coq_lit):
    """model reply -> Coq term of type `result _`"""
    return "Ok %s" % _paren(lit(mr[1])) if mr[0] == "ok" else "Err %s" % mr[1]


def _paren(s):
    return s if s.startswith(("[", "(")) or " " not in s else "(" + s + ")"


ORACLE_COQ = {
    # name -> (Coq function name, arity) ; tables become association lists over bytes
    "sha256": 1, "sha512": 1, "ripemd160": 1, "nfkd": 1, "b64enc": 1, "hmac_sha512": 2,
}


def vm_crosscheck(prop, xsample):
    """Write .work/xc_<id>.v: one `Lemma case_k : <model term> = <value the extracted code returned>` per
    sampled case, proved by vm_compute; oracle functions are finite tables of this run's answers."""
    tables = {}
    for (_, _, olog) in xsample:
        for (name, oargs, ans) in olog:
            if name in ORACLE_COQ and ans is not None:
                tables.setdefault(name, {})[tuple(oargs)] = ans
    lines = ["From Coq Require Import ZArith List Bool.",
             "Require Import Bits.Lib.Result Bits.Lib.Bytes Bits.Extract.Entry%s." % prop.ID,
             "Import ListNotations. Import Coq.Init.Byte. Local Open Scope Z_scope."]
    lines += list(getattr(prop, "COQ_PRELUDE", []))
    for name, ar in ORACLE_COQ.items():
        t = tables.get(name, {})
        if ar == 1:
            lines.append("Definition tbl_%s : list (bytes * bytes) := [%s]." % (
                name, "; ".join("(%s, %s)" % (coq_bytes(k[0]), coq_bytes(v)) for k, v in t.items())))
            lines.append("Definition %s (m : bytes) : bytes := match find (fun p => bytes_eqb (fst p) m) tbl_%s "
                         "with Some p => snd p | None => [] end." % (name, name))
        else:
            lines.append("Definition tbl_%s : list (bytes * bytes * bytes) := [%s]." % (
                name, "; ".join("(%s, %s, %s)" % (coq_bytes(k[0]), coq_bytes(k[1]), coq_bytes(v)) for k, v in t.items())))
            lines.append("Definition %s (k m : bytes) : bytes := match find (fun p => bytes_eqb (fst (fst p)) k && "
                         "bytes_eqb (snd (fst p)) m) tbl_%s with Some p => snd p | None => [] end." % (name, name))
    idx = []
    for i, (c, mr, _) in enumerate(xsample):
        eq = prop.coq_equation(c, mr)
        if eq is None:
            continue
        idx.append((len(lines) + 1, i))
        lines.append("Lemma case_%d : %s. Proof. vm_compute. reflexivity. Qed." % (i, eq))
    path = os.path.join(WORK, "xc_%s.v" % prop.ID)
    open(path, "w").write("\n".join(lines) + "\n")
    bad = []
    with Lock():
        rc, out = run("coqc -Q %s Bits -w none %s" % (os.path.join(VERIF, "coq"), path), cwd=WORK, timeout=900)
    for ext in (".vo", ".vok", ".vos", ".glob"):
        try:
            os.remove(path[:-2] + ext)
        except OSError:
            pass
    if rc != 0:
        m = re.search(r"line (\d+)", out)
        ln = int(m.group(1)) if m else -1
        which = next((i for (l, i) in idx if l == ln), None)
        bad.append("case %s (%s): %s" % (which, short(case_to_json(xsample[which][0]) if which is not None else "?"),
                                       out[-400:].replace("\n", " ")))
    return bad


def shrink_case(c, ir, mr, shrink, eval_case, budget=200):
    """greedy shrinking: keep a smaller case while implementation and model still disagree"""
    improved = True
    while improved and budget > 0:
        improved = False
        for c2 in shrink(c):
            budget -= 1
            if budget <= 0:
                break
            ir2, mr2 = eval_case(c2)
            if not results_agree(ir2, mr2, c2.get("strict", False)):
                c, ir, mr = c2, ir2, mr2
                improved = True
                break
    return c, ir, mr


def shrink_bytes(b: bytes):
    """candidates smaller than b"""
    n = len(b)
    if n == 0:
        return
    yield b[: n // 2]
    yield b[n // 2:]
    if n > 1:
        yield b[1:]
        yield b[:-1]
    for i in range(min(n, 8)):
        if b[i] != 0:
            yield b[:i] + b"\0" + b[i + 1:]


def run_replay(prop, path):
    rep = json.load(open(path))
    if rep.get("kind") != "input":
        print("replay file names broken obligations %s; re-run: %s" % (rep.get("obligations_no_longer_checking"), rep.get("command")))
        return 1
    c = case_from_json(rep["case"])
    impl = ImplRunner(prop.ID)
    model = ModelRunner(prop.ID)
    model_call = getattr(prop, "model_call", None)
    canon = getattr(prop, "canon", None)
    ir = run_variant(impl, c) if c.get("variant") else impl.call(c["op"], c["args"], timeout=c.get("timeout"))
    if c.get("expect") is not None:        # spec value computed by the generator itself (as in run_check.eval_case)
        mr = (c["expect"][0], c["expect"][1])
    else:
        mr = model_eval(model, model_call(c) if model_call else (prop.ID.lower() + "_" + c["op"], c["args"]))
    if canon:
        if ir[0] == "ok":
            ir = ("ok", canon(c, ir[1]))
        if mr[0] == "ok":
            mr = ("ok", canon(c, mr[1]))
    agree = results_agree(ir, mr, c.get("strict", False))
    verdict = impl.oracle(c) if hasattr(prop, "prop_oracle") and not c.get("variant") else None
    print("implementation:", short(ir, 600))
    print("model         :", short(mr, 600))
    print("property oracle on the implementation:", verdict)
    impl.close()
    model.close()
    if agree and verdict is None:
        print("REPLAY: no longer fails")
        return 0
    print("REPLAY: still fails")
    return 1
