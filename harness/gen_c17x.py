"""Gen table of the C17 extension: the default protocol version of getblocks_payload, read from the signature NOW."""
import inspect


def register(gt):
    @gt.table("P2pExtGen")
    def gen_p2p_ext():
        gt.load()
        import bits.p2p as p
        out = gt.HEADER
        sig = inspect.signature(p.getblocks_payload)
        assert list(sig.parameters) == ["block_header_hashes", "protocol_version"], list(sig.parameters)
        out += "Definition getblocks_default_version : Z := %s.\n" % gt.coq_Z(sig.parameters["protocol_version"].default)
        assert list(inspect.signature(p.headers_payload).parameters) == ["count", "headers"]
        # no parser of their own: parse_payload looks parse_<command>_payload up in the module namespace
        out += "Definition has_parse_getblocks : bool := %s.\n" % gt.coq_bool(hasattr(p, "parse_getblocks_payload"))
        out += "Definition has_parse_headers : bool := %s.\n" % gt.coq_bool(hasattr(p, "parse_headers_payload"))
        return out
