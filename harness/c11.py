"""C11 - BIP143 signature message is correct for every input and sighash type.

ops (all run bits.bips.bip143.witness_message in the worker):
  wm_tx        structured tx -> bits.tx.outpoint/txin/txout + bits.compact_size_uint -> witness_message
               compared with the extracted model of exactly that composition (c11_wm_tx)
  wm_tx_spec   same implementation call, compared with the BIP143 SPEC preimage of Spec/Bip143.v
               (c11_spec_preimage) -- only generated inside the property's domain
  wm_tx_float  as wm_tx but txin_value passed as a float (int(txin_value) path)
  wm_tx_named  as wm_tx_spec but the sighash type is given by NAME ("SINGLE|ANYONECANPAY") and resolved in the
               worker through bits.script.constants.SIGHASH_*; model/spec side uses the standard's number
  wm_raw       arbitrary byte strings as txins/txouts/scriptcode, optional version/locktime/flag
  wm_edit      a SEQUENCE of calls on the same txins/txouts list objects, edited in place between the calls
               (harness/c11_seq.py); model: c11_wm_tx_seq over the content at the moment of each call
  outpoint / txin / txout / compact_size_uint / witness_digest   the helpers on their own
"""
import hashlib
from common import case, case_to_json, coq_bytes, coq_result, short
import c11_seq
import c11_like

ID = "C11"
MAKE_TARGETS = ["Props/C11.v", "GenProps/Bip143Gen.v"]
GEN_TABLES = ["Bip143Gen"]
ASSUMPTIONS = [
    "sha256 is an arbitrary function in every theorem (hashlib answers it at run time)",
    "well-formedness hypotheses of C11_bip143_exact: prev txid 32 bytes; vout, sequence, version, locktime < 2^32; "
    "amounts < 2^64; script lengths < 2^64; input index < number of inputs; flag one of 01 02 03 81 82 83",
    "witness_message receives the scriptCode already serialised (CompactSize prefix + script); the theorem feeds "
    "compact_size_uint(len(script)) + script, as the harness does",
    "txin_value is modelled for ints (floats only through int(float) on exactly representable values)",
    "modelled, not verified: src/bits/bips/bip143.py (witness_message, witness_digest), src/bits/tx.py (outpoint, txin, "
    "txout), src/bits/utils.py (compact_size_uint)",
]
FILLER = {"filler"}
STD_FLAGS = [0x01, 0x02, 0x03, 0x81, 0x82, 0x83]
U32B = [0, 1, 0xFFFFFFFE, 0xFFFFFFFF]
MAX_MONEY = 2100000000000000
_LAST = {"cases": []}


# ------------------------------------------------------------------------------------------
# implementation side (runs in the worker against /repo/src)
# ------------------------------------------------------------------------------------------
_OWNED = []


def _owned(slot, src, elems):
    """the serialised list that belongs to the caller's structured list object `src`: while the caller keeps passing the SAME
    list object (common.py's @reuselist variant refills one list per argument position in place) the library is handed the
    SAME serialised list object, refilled in place - as a signer that keeps one txins/txouts list per transaction does"""
    lst = next((l for (k, l) in _OWNED if k is src), None)
    if lst is None:
        lst = []
        _OWNED.append((src, lst))         # strong reference: ids are not recycled while an entry lives
        del _OWNED[:-8]
    lst[:] = elems
    return lst


def _wm_tx(ver, ins, outs, lt, idx, amount, script, flag, as_float=False):
    import bits
    import bits.tx
    from bits.bips import bip143
    txins = _owned("ins", ins, [bits.tx.txin(bits.tx.outpoint(t, v), s, sequence=q.to_bytes(4, "little")) for (t, v, s, q) in ins])
    txouts = _owned("outs", outs, [bits.tx.txout(a, s) for (a, s) in outs])
    sc = bits.compact_size_uint(len(script)) + script
    return bip143.witness_message(txins, idx, float(amount) if as_float else amount, sc, txouts,
                                  version=ver, locktime=lt, sighash_flag=flag)


NAMED = {"ALL": 0x01, "NONE": 0x02, "SINGLE": 0x03, "ALL|ANYONECANPAY": 0x81, "NONE|ANYONECANPAY": 0x82,
         "SINGLE|ANYONECANPAY": 0x83}      # the standard's values (BIP143 / Bitcoin Core), not the repo's


def _wm_named(ver, ins, outs, lt, idx, amount, script, name):
    import bits.script.constants as k
    flag = 0
    for part in name.split("|"):
        flag |= getattr(k, "SIGHASH_" + part)
    return _wm_tx(ver, ins, outs, lt, idx, amount, script, flag)


def _wm_raw(txins, idx, value, sc, txouts, ver, lt, flag):
    from bits.bips import bip143
    kw = {}
    if ver is not None:
        kw["version"] = ver
    if lt is not None:
        kw["locktime"] = lt
    if flag is not None:
        kw["sighash_flag"] = flag
    return bip143.witness_message(txins, idx, value, sc, txouts, **kw)     # the caller's list objects, untouched


def _tx():
    import bits.tx
    return bits.tx


def _csu(n):
    import bits
    return bits.compact_size_uint(n)


def _digest(m):
    from bits.bips import bip143
    return bip143.witness_digest(m)


def _send_tx_signs_ok(*send_args):
    """the library's own caller of witness_message: bits.tx.send_tx (scripted UTXO source and nonces, harness/c16.py).  True when
    every segwit signature it places verifies against the BIP143 digest of the transaction it built (independent reference:
    own parser, own BIP143, OpenSSL ECDSA) - i.e. the outpoint, amount, sequence, scriptCode, version and locktime handed to
    witness_message are those of the selected input of THAT transaction."""
    import c16
    import decimal
    # (the independent reference does exact Decimal arithmetic: evaluate under the default context whatever the caller's is -
    #  the environment variants of send_tx itself belong to C16's check)
    with decimal.localcontext(decimal.Context(prec=60)):
        v = c16.prop_oracle({"cls": "c11-send", "op": "send", "args": list(send_args), "strict": False})
    if v is not None:
        raise AssertionError(v)
    return True


IMPL = {
    "send_tx_signs_ok": _send_tx_signs_ok,
    "wm_tx": _wm_tx,
    "wm_tx_spec": _wm_tx,
    "wm_tx_float": lambda *a: _wm_tx(*a, as_float=True),
    "wm_tx_named": _wm_named,
    "wm_raw": _wm_raw,
    "wm_edit": c11_seq.impl_wm_edit,
    "outpoint": lambda t, i: _tx().outpoint(t, i),
    "txin": lambda o, s, q: _tx().txin(o, s, sequence=q),
    "txout": lambda v, s: _tx().txout(v, s),
    "compact_size_uint": _csu,
    "witness_digest": _digest,
}

MODEL_OPS = {
    "wm_tx": "c11_wm_tx", "wm_tx_spec": "c11_spec_preimage", "wm_tx_float": "c11_wm_tx",
    "wm_raw": "c11_witness_message", "outpoint": "c11_outpoint", "txin": "c11_txin", "txout": "c11_txout",
    "compact_size_uint": "c11_compact_size_uint", "witness_digest": "c11_witness_digest",
}


def model_call(c):
    if c["op"] == "wm_tx_named":
        return "c11_spec_preimage", c["args"][:7] + [NAMED[c["args"][7]]]
    if c["op"] == "wm_edit":
        return "c11_wm_tx_seq", c11_seq.model_args(c["args"])
    return MODEL_OPS[c["op"]], c["args"]


# ------------------------------------------------------------------------------------------
# independent BIP143 preimage, written from the BIP text (hashlib only)
# ------------------------------------------------------------------------------------------
def _h256(b):
    return hashlib.sha256(hashlib.sha256(b).digest()).digest()


def _cs(n):
    if n < 253:
        return bytes([n])
    if n < 0x10000:
        return b"\xfd" + n.to_bytes(2, "little")
    if n < 0x100000000:
        return b"\xfe" + n.to_bytes(4, "little")
    return b"\xff" + n.to_bytes(8, "little")


def bip143_preimage(ver, ins, outs, lt, idx, amount, script, ht):
    """ins: (txid, vout, scriptSig, sequence); outs: (value, scriptPubKey); 0 <= idx < len(ins)"""
    acp = bool(ht & 0x80)
    base = ht & 0x1F
    zero = bytes(32)
    ser_out = lambda o: o[0].to_bytes(8, "little") + _cs(len(o[1])) + o[1]
    hash_prevouts = zero if acp else _h256(b"".join(i[0] + i[1].to_bytes(4, "little") for i in ins))
    if not acp and base != 3 and base != 2:
        hash_sequence = _h256(b"".join(i[3].to_bytes(4, "little") for i in ins))
    else:
        hash_sequence = zero
    if base != 3 and base != 2:
        hash_outputs = _h256(b"".join(ser_out(o) for o in outs))
    elif base == 3 and idx < len(outs):
        hash_outputs = _h256(ser_out(outs[idx]))
    else:
        hash_outputs = zero
    me = ins[idx]
    return (ver.to_bytes(4, "little") + hash_prevouts + hash_sequence + me[0] + me[1].to_bytes(4, "little")
            + _cs(len(script)) + script + amount.to_bytes(8, "little") + me[3].to_bytes(4, "little")
            + hash_outputs + lt.to_bytes(4, "little") + ht.to_bytes(4, "little"))


def in_domain(args):
    ver, ins, outs, lt, idx, amount, script, flag = args
    return (flag in STD_FLAGS and isinstance(idx, int) and 0 <= idx < len(ins) and 0 <= ver < 2**32 and 0 <= lt < 2**32
            and 0 <= amount < 2**64
            and all(len(t) == 32 and 0 <= v < 2**32 and 0 <= q < 2**32 for (t, v, s, q) in ins)
            and all(0 <= a < 2**64 for (a, s) in outs))


def prop_oracle(c):
    """literal statement of C11 on the implementation: for a well-formed transaction, an existing input index and
    one of the six standard types the message is byte-for-byte the BIP143 preimage (and witness_digest its HASH256)"""
    if c["op"] == "send_tx_signs_ok":
        import c16
        import decimal
        with decimal.localcontext(decimal.Context(prec=60)):
            return c16.prop_oracle({"cls": "c11-send", "op": "send", "args": list(c["args"]), "strict": False})
    if c["op"] == "wm_edit":
        return c11_seq.oracle(c["args"], in_domain, bip143_preimage)
    if c["op"] not in ("wm_tx", "wm_tx_spec", "wm_tx_float", "wm_tx_named"):
        return None
    args = [list(a) if isinstance(a, tuple) else a for a in c["args"]]
    args[1] = [tuple(x) for x in args[1]]
    args[2] = [tuple(x) for x in args[2]]
    impl_args = list(args)
    if c["op"] == "wm_tx_named":
        args[7] = NAMED[args[7]]
    if not in_domain(args):
        return None
    want = bip143_preimage(*args)
    try:
        got = IMPL[c["op"]](*impl_args)
    except BaseException as e:  # noqa
        return "witness_message raised %s: %s; BIP143 preimage is %s" % (type(e).__name__, e, want.hex())
    if got != want:
        n = next((k for k in range(min(len(got), len(want))) if got[k] != want[k]), min(len(got), len(want)))
        return "witness_message differs from the BIP143 preimage at byte %d (field %s): got %s want %s" % (
            n, _field_at(n, len(args[6])), got.hex(), want.hex())
    if _digest(got) != _h256(want):
        return "witness_digest(msg) is not HASH256 of the BIP143 preimage"
    return None


def _field_at(n, sclen):
    k = len(_cs(sclen)) + sclen
    bounds = [(4, "nVersion"), (36, "hashPrevouts"), (68, "hashSequence"), (104, "outpoint"), (104 + k, "scriptCode"),
              (112 + k, "amount"), (116 + k, "nSequence"), (148 + k, "hashOutputs"), (152 + k, "nLocktime"),
              (156 + k, "sighash type")]
    return next((name for (b, name) in bounds if n < b), "beyond the end")


# ------------------------------------------------------------------------------------------
# BIP143 example vectors (unsigned tx, input index, amount, scriptCode, type, preimage, sighash)
# ------------------------------------------------------------------------------------------
VECTORS = [
    ("native-p2wpkh",
     "0100000002fff7f7881a8099afa6940d42d1e7f6362bec38171ea3edf433541db4e4ad969f0000000000eeffffffef51e1b804cc89d182d279655c3aa89e815b1b309fe287d9b2b55d57b90ec68a0100000000ffffffff02202cb206000000001976a9148280b37df378db99f66f85c95a783a76ac7a6d5988ac9093510d000000001976a9143bde42dbee7e4dbe6a21b2d50ce2f0167faa815988ac11000000",
     1, 600000000, "76a9141d0f172a0ecb48aee1be1f2687d2963ae33f71a188ac", 0x01,
     "0100000096b827c8483d4e9b96712b6713a7b68d6e8003a781feba36c31143470b4efd3752b0a642eea2fb7ae638c36f6252b6750293dbe574a806984b8e4d8548339a3bef51e1b804cc89d182d279655c3aa89e815b1b309fe287d9b2b55d57b90ec68a010000001976a9141d0f172a0ecb48aee1be1f2687d2963ae33f71a188ac0046c32300000000ffffffff863ef3e1a92afbfdb97f31ad0fc7683ee943e9abcf2501590ff8f6551f47e5e51100000001000000",
     "c37af31116d1b27caf68aae9e3ac82f1477929014d5b917657d0eb49478cb670"),
    ("p2sh-p2wpkh",
     "0100000001db6b1b20aa0fd7b23880be2ecbd4a98130974cf4748fb66092ac4d3ceb1a54770100000000feffffff02b8b4eb0b000000001976a914a457b684d7f0d539a46a45bbc043f35b59d0d96388ac0008af2f000000001976a914fd270b1ee6abcaea97fea7ad0402e8bd8ad6d77c88ac92040000",
     0, 1000000000, "76a91479091972186c449eb1ded22b78e40d009bdf008988ac", 0x01,
     "01000000b0287b4a252ac05af83d2dcef00ba313af78a3e9c329afa216eb3aa2a7b4613a18606b350cd8bf565266bc352f0caddcf01e8fa789dd8a15386327cf8cabe198db6b1b20aa0fd7b23880be2ecbd4a98130974cf4748fb66092ac4d3ceb1a5477010000001976a91479091972186c449eb1ded22b78e40d009bdf008988ac00ca9a3b00000000feffffffde984f44532e2173ca0d64314fcefe6d30da6f8cf27bafa706da61df8a226c839204000001000000",
     "64f3b0f4dd2bb3aa1ce8566d220cc74dda9df97d8490cc81d89d735c92e59fb6"),
    ("native-p2wsh-single-before-codesep",
     "0100000002fe3dc9208094f3ffd12645477b3dc56f60ec4fa8e6f5d67c565d1c6b9216b36e0000000000ffffffff0815cf020f013ed6cf91d29f4202e8a58726b1ac6c79da47c23d1bee0a6925f80000000000ffffffff0100f2052a010000001976a914a30741f8145e5acadf23f751864167f32e0963f788ac00000000",
     1, 4900000000,
     "21026dccc749adc2a9d0d89497ac511f760f45c47dc5ed9cf352a58ac706453880aeadab210255a9626aebf5e29c0e6538428ba0d1dcf6ca98ffdf086aa8ced5e0d0215ea465ac",
     0x03,
     "01000000ef546acf4a020de3898d1b8956176bb507e6211b5ed3619cd08b6ea7e2a09d4100000000000000000000000000000000000000000000000000000000000000000815cf020f013ed6cf91d29f4202e8a58726b1ac6c79da47c23d1bee0a6925f8000000004721026dccc749adc2a9d0d89497ac511f760f45c47dc5ed9cf352a58ac706453880aeadab210255a9626aebf5e29c0e6538428ba0d1dcf6ca98ffdf086aa8ced5e0d0215ea465ac0011102401000000ffffffff00000000000000000000000000000000000000000000000000000000000000000000000003000000",
     "82dde6e4f1e94d02c2b7ad03d2115d691f48d064e9d52f58194a6637e4194391"),
    ("native-p2wsh-single-after-codesep",
     "0100000002fe3dc9208094f3ffd12645477b3dc56f60ec4fa8e6f5d67c565d1c6b9216b36e0000000000ffffffff0815cf020f013ed6cf91d29f4202e8a58726b1ac6c79da47c23d1bee0a6925f80000000000ffffffff0100f2052a010000001976a914a30741f8145e5acadf23f751864167f32e0963f788ac00000000",
     1, 4900000000, "210255a9626aebf5e29c0e6538428ba0d1dcf6ca98ffdf086aa8ced5e0d0215ea465ac", 0x03,
     "01000000ef546acf4a020de3898d1b8956176bb507e6211b5ed3619cd08b6ea7e2a09d4100000000000000000000000000000000000000000000000000000000000000000815cf020f013ed6cf91d29f4202e8a58726b1ac6c79da47c23d1bee0a6925f80000000023210255a9626aebf5e29c0e6538428ba0d1dcf6ca98ffdf086aa8ced5e0d0215ea465ac0011102401000000ffffffff00000000000000000000000000000000000000000000000000000000000000000000000003000000",
     "fef7bd749cce710c5c052bd796df1af0d935e59cea63736268bcbe2d2134fc47"),
]


def _parse_cs(b, p):
    f = b[p]
    if f < 253:
        return f, p + 1
    w = {253: 2, 254: 4, 255: 8}[f]
    return int.from_bytes(b[p + 1:p + 1 + w], "little"), p + 1 + w


def parse_unsigned_tx(raw):
    """legacy serialisation -> (version, ins, outs, locktime); the harness's own parser"""
    ver = int.from_bytes(raw[:4], "little")
    n, p = _parse_cs(raw, 4)
    ins = []
    for _ in range(n):
        txid, vout = raw[p:p + 32], int.from_bytes(raw[p + 32:p + 36], "little")
        sl, p = _parse_cs(raw, p + 36)
        ins.append((txid, vout, raw[p:p + sl], int.from_bytes(raw[p + sl:p + sl + 4], "little")))
        p += sl + 4
    n, p = _parse_cs(raw, p)
    outs = []
    for _ in range(n):
        val = int.from_bytes(raw[p:p + 8], "little")
        sl, p = _parse_cs(raw, p + 8)
        outs.append((val, raw[p:p + sl]))
        p += sl
    lt = int.from_bytes(raw[p:p + 4], "little")
    assert p + 4 == len(raw)
    return ver, ins, outs, lt


def vector_args(v):
    ver, ins, outs, lt = parse_unsigned_tx(bytes.fromhex(v[1]))
    return [ver, ins, outs, lt, v[2], v[3], bytes.fromhex(v[4]), v[5]]


# ------------------------------------------------------------------------------------------
# generators
# ------------------------------------------------------------------------------------------
def _u32(rng):
    return rng.choice(U32B) if rng.random() < 0.6 else rng.randrange(2**32)


def _amount(rng):
    return rng.choice([0, 1, MAX_MONEY, rng.randrange(MAX_MONEY + 1), rng.randrange(2**64), 2**64 - 1])


SC_LENS = [1, 2, 25, 35, 75, 76, 252, 253, 254, 255, 256, 520, 599, 600]


def _script(rng, n):
    return rng.randbytes(n)


def rand_tx(rng, n_in, n_out, big=False):
    ins = []
    for _ in range(n_in):
        sl = rng.choice([0, 0, 1, 23, 72, 107] + ([252, 253, 254] if big else []))
        ins.append((rng.randbytes(32), _u32(rng), _script(rng, sl), _u32(rng)))
    outs = []
    for _ in range(n_out):
        sl = rng.choice([0, 1, 22, 23, 25, 34] + ([252, 253, 300] if big else []))
        outs.append((_amount(rng), _script(rng, sl)))
    return _u32(rng), ins, outs, _u32(rng)


def _single_cls(flag, idx, n_out):
    if flag & 0x1F != 3:
        return ""
    return "/single-i<nout" if idx < n_out else ("/single-i=nout" if idx == n_out else "/single-i>nout")


def _both(out, cls, args):
    """in-domain case: once against the model of the code, once against the BIP143 spec"""
    out.append(case(cls, "wm_tx", *args, strict=True))
    out.append(case(cls + "/vs-spec", "wm_tx_spec", *args, strict=True))


def gen_cases(rng, tier):
    T = tier == "thorough"
    out = []
    # ---- fixed corpus: BIP143 examples ----
    for v in VECTORS:
        _both(out, "bip143-vector", vector_args(v))
    # ---- the full product 1..8 inputs x 1..8 outputs x every index x six flags ----
    for rnd in range(6 if T else 1):
        for n_in in range(1, 9):
            for n_out in range(1, 9):
                ver, ins, outs, lt = rand_tx(rng, n_in, n_out, big=(rng.random() < 0.1))
                for idx in range(n_in):
                    for flag in STD_FLAGS:
                        if T and rng.random() < 0.3:
                            ver, ins, outs, lt = rand_tx(rng, n_in, n_out, big=(rng.random() < 0.1))
                        sc = _script(rng, rng.choice(SC_LENS) if rng.random() < 0.5 else rng.randrange(1, 601))
                        _both(out, "product/f=%02x%s" % (flag, _single_cls(flag, idx, n_out)),
                              [ver, ins, outs, lt, idx, _amount(rng), sc, flag])
    # ---- consecutive calls on RELATED transactions (same process): same outpoints with other sequences (RBF bump),
    #      same sequences with other outpoints, same inputs with other outputs - every call must stand on its own ----
    for _ in range(12 if T else 4):
        n_in, n_out = rng.randrange(1, 5), rng.randrange(1, 4)
        ver, ins, outs, lt = rand_tx(rng, n_in, n_out)
        ins2 = [(i[0], i[1], i[2], (i[3] ^ (1 << rng.randrange(32)))) for i in ins]            # other sequences
        ins3 = [(rng.randbytes(32), i[1], i[2], i[3]) for i in ins]       # other outpoints
        outs2 = [(o[0] + 1 if o[0] < 2 ** 63 else o[0] - 1, o[1]) for o in outs]                # other outputs
        sc, amt = _script(rng, 25), _amount(rng)
        for flag in STD_FLAGS:
            idx = rng.randrange(n_in)
            for variant, (ii, oo) in (("base", (ins, outs)), ("seq-changed", (ins2, outs)), ("base-again", (ins, outs)),
                                      ("outpoints-changed", (ins3, outs)), ("outputs-changed", (ins, outs2)),
                                      ("seq-changed-again", (ins2, outs2))):
                _both(out, "related-calls/%s" % variant, [ver, list(ii), list(oo), lt, idx, amt, sc, flag])
    # ---- call sequences on the SAME txins/txouts list objects edited in place between the calls ----
    out += c11_seq.gen(rng, tier, rand_tx, _amount, _script, case)
    # ---- content that looks like structure: scripts starting with a length prefix / push opcode for their own rest ----
    out += c11_like.gen(rng, tier, rand_tx, _amount, _both, case, STD_FLAGS)
    # ---- SINGLE boundary: i = n_out - 1, n_out, n_out + 1 ----
    for n_out in range(1, 8):
        for idx in (n_out - 1, n_out, n_out + 1):
            for flag in (0x03, 0x83):
                if idx > 8:
                    continue
                ver, ins, outs, lt = rand_tx(rng, max(idx + 1, rng.randrange(idx + 1, 10)), n_out)
                _both(out, "single-bound/f=%02x%s" % (flag, _single_cls(flag, idx, n_out)),
                      [ver, ins, outs, lt, idx, _amount(rng), _script(rng, 25), flag])
    # ---- scriptCode lengths incl. the CompactSize boundary ----
    for L in ([1, 2, 75, 76, 77, 251, 252, 253, 254, 255, 256, 257, 519, 520, 521, 599, 600]
              + (list(range(1, 601, 7)) if T else [rng.randrange(1, 601) for _ in range(10)])
              + ([65535, 65536] if T else [])):
        flag = rng.choice(STD_FLAGS)
        ver, ins, outs, lt = rand_tx(rng, 2, 2)
        _both(out, "sc-len-%s" % (L if L in (252, 253, 254, 65535, 65536) else "other"),
              [ver, ins, outs, lt, rng.randrange(2), _amount(rng), _script(rng, L), flag])
    # ---- scriptSig / scriptPubKey lengths at the CompactSize boundary (slices txin[:36], txin[-4:]) ----
    for L in (0, 1, 252, 253, 254, 300) + ((65535, 65536) if T else ()):
        for flag in STD_FLAGS:
            ver, ins, outs, lt = rand_tx(rng, 3, 3)
            k = rng.randrange(3)
            ins[k] = (ins[k][0], ins[k][1], _script(rng, L), ins[k][3])
            outs[k] = (outs[k][0], _script(rng, L))
            _both(out, "script-len-%d" % L, [ver, ins, outs, lt, k, _amount(rng), _script(rng, 25), flag])
    # ---- 32-bit boundaries of version / locktime / sequence / vout ----
    for b in U32B + [0x7FFFFFFF, 0x80000000, 0x00FFFFFF, 0x01000000]:
        for flag in STD_FLAGS:
            _, ins, outs, _ = rand_tx(rng, 2, 2)
            ins = [(t, b, s, b) for (t, v, s, q) in ins]
            _both(out, "u32-bounds", [b, ins, outs, b, rng.randrange(2), _amount(rng), _script(rng, 25), flag])
    # ---- amounts ----
    for a in (0, 1, MAX_MONEY - 1, MAX_MONEY, MAX_MONEY + 1, 2**63 - 1, 2**63, 2**64 - 1, 255, 256, 2**32 - 1, 2**32):
        for flag in STD_FLAGS:
            ver, ins, outs, lt = rand_tx(rng, 2, 2)
            outs[0] = (a, outs[0][1])
            _both(out, "amount-bounds", [ver, ins, outs, lt, rng.randrange(2), a, _script(rng, 25), flag])
    for a in (0, 1, MAX_MONEY, 600000000, 2**53 - 1, 2**53):
        ver, ins, outs, lt = rand_tx(rng, 2, 2)
        out.append(case("amount-float", "wm_tx_float", ver, ins, outs, lt, 1, a, _script(rng, 25),
                        rng.choice(STD_FLAGS), strict=True))
    # ---- equal inputs / outputs except one field: the index must select the right one ----
    for flag in STD_FLAGS:
        n = rng.randrange(2, 9)
        t0 = rng.randbytes(32)
        ins = [(t0, k, b"", 0xFFFFFFF0 + k) for k in range(n)]
        outs = [(k, b"\x51") for k in range(n)]
        for idx in range(n):
            _both(out, "selected-fields", [2, ins, outs, 0, idx, idx, b"\x51", flag])
    # ---- the six types by NAME, resolved through bits.script.constants in the worker ----
    for name in NAMED:
        for _ in range(2):
            n_in, n_out = rng.randrange(1, 9), rng.randrange(1, 9)
            ver, ins, outs, lt = rand_tx(rng, n_in, n_out)
            out.append(case("named-flag", "wm_tx_named", ver, ins, outs, lt, rng.randrange(n_in), _amount(rng),
                            _script(rng, 25), name, strict=True))
    # ---- outside the domain: error behaviour and non-standard flags (model of the code only) ----
    for _ in range(40 if T else 12):
        n_in, n_out = rng.randrange(1, 9), rng.randrange(1, 9)
        ver, ins, outs, lt = rand_tx(rng, n_in, n_out)
        sc, a = _script(rng, 25), _amount(rng)
        flag = rng.choice(STD_FLAGS)
        for idx in (n_in, n_in + 1, 2**31):
            out.append(case("err-idx-too-large", "wm_tx", ver, ins, outs, lt, idx, a, sc, flag, strict=True))
        for idx in (-1, -n_in):
            out.append(case("neg-idx-valid", "wm_tx", ver, ins, outs, lt, idx, a, sc, flag, strict=True))
            out.append(case("neg-idx-valid/single", "wm_tx", ver, ins, outs, lt, idx, a, sc, rng.choice([3, 0x83]), strict=True))
        out.append(case("err-neg-idx-too-small", "wm_tx", ver, ins, outs, lt, -n_in - 1, a, sc, flag, strict=True))
        out.append(case("err-flag-none", "wm_tx", ver, ins, outs, lt, 0, a, sc, None, strict=True))
        out.append(case("err-flag-none", "wm_tx", ver, ins, outs, lt, n_in, a, sc, None, strict=True))
        for bad in (-1, 2**32, 2**32 + 1):
            out.append(case("err-version-overflow", "wm_tx", bad, ins, outs, lt, 0, a, sc, flag, strict=True))
            out.append(case("err-locktime-overflow", "wm_tx", ver, ins, outs, bad, 0, a, sc, flag, strict=True))
            k = rng.randrange(n_in)
            ins2 = list(ins)
            ins2[k] = (ins[k][0], bad, ins[k][2], ins[k][3])
            out.append(case("err-vout-overflow", "wm_tx", ver, ins2, outs, lt, 0, a, sc, flag, strict=True))
            ins2 = list(ins)
            ins2[k] = (ins[k][0], ins[k][1], ins[k][2], bad)
            out.append(case("err-sequence-overflow", "wm_tx", ver, ins2, outs, lt, 0, a, sc, flag, strict=True))
        for bad in (-1, 2**64, 2**64 + 5):
            out.append(case("err-amount-overflow", "wm_tx", ver, ins, outs, lt, 0, bad, sc, flag, strict=True))
            k = rng.randrange(n_out)
            outs2 = list(outs)
            outs2[k] = (bad, outs[k][1])
            out.append(case("err-value-overflow", "wm_tx", ver, ins, outs2, lt, 0, a, sc, flag, strict=True))
        for bad in (-1, -125, -126, -127, 2**32 + 1, 2**32 + 3, 2**40 + 0x83):
            out.append(case("err-flag-overflow", "wm_tx", ver, ins, outs, lt, rng.randrange(n_in), a, sc, bad, strict=True))
        # negative index with SINGLE: txin_index < len(txouts) is true, txouts[txin_index] may be out of range
        n_in2 = rng.randrange(2, 9)
        n_out2 = rng.randrange(1, n_in2)
        ver, ins, outs, lt = rand_tx(rng, n_in2, n_out2)
        for idx in (-n_in2, -n_out2 - 1, -n_out2):
            out.append(case("neg-idx-single-outs", "wm_tx", ver, ins, outs, lt, idx, a, sc, rng.choice([3, 0x83]), strict=True))
        # wrong txid length: the slices no longer line up with the fields
        for L in (0, 31, 33, 36):
            k = rng.randrange(n_in2)
            ins2 = list(ins)
            ins2[k] = (rng.randbytes(L), ins[k][1], ins[k][2], ins[k][3])
            out.append(case("txid-len-%d" % L, "wm_tx", ver, ins2, outs, lt, k, a, sc, rng.choice(STD_FLAGS), strict=True))
    # every one-byte hash type (and a few wider ones) against the model of the code
    ver, ins, outs, lt = rand_tx(rng, 3, 2)
    for flag in list(range(256)) + [0x100, 0x101, 0x183, 0x8003, 0xFFFFFFFF, 0xFFFFFF83]:
        for idx in ((0, 2) if T else (rng.choice((0, 1, 2)),)):
            cls = "std-flag" if flag in STD_FLAGS else "nonstd-flag"
            out.append(case(cls, "wm_tx", ver, ins, outs, lt, idx, 5000, b"\x51\x52", flag, strict=True))
    # ---- raw byte strings (no structure): slices on short strings, empty lists, defaults ----
    for _ in range(300 if T else 60):
        n_in, n_out = rng.randrange(0, 5), rng.randrange(0, 5)
        txins = [rng.randbytes(rng.choice([0, 1, 3, 4, 5, 35, 36, 37, 40, 41, 60])) for _ in range(n_in)]
        txouts = [rng.randbytes(rng.choice([0, 1, 8, 9, 31, 34])) for _ in range(n_out)]
        idx = rng.randrange(-n_in - 1, n_in + 2)
        flag = rng.choice(STD_FLAGS + STD_FLAGS + [None, 0, 4, 0x80, 0x84, 0xFF])
        ver = rng.choice([None, 1, 2, 0xFFFFFFFF])
        lt = rng.choice([None, 0, 500000, 0xFFFFFFFF])
        cls = "raw/short-strings" if flag is not None else "raw/flag-default-none"
        out.append(case(cls, "wm_raw", txins, idx, rng.choice([0, 1, 10**8]), rng.randbytes(rng.randrange(0, 30)),
                        txouts, ver, lt, flag, strict=True))
    for v in VECTORS:      # as send_tx calls it: version and locktime omitted
        ver, ins, outs, lt, idx, a, sc, flag = vector_args(v)
        txins = [t + vo.to_bytes(4, "little") + _cs(len(s)) + s + q.to_bytes(4, "little") for (t, vo, s, q) in ins]
        txouts = [val.to_bytes(8, "little") + _cs(len(s)) + s for (val, s) in outs]
        out.append(case("raw/defaults-version-locktime", "wm_raw", txins, idx, a, _cs(len(sc)) + sc, txouts, None, None, flag, strict=True))
        out.append(case("raw/all-defaults", "wm_raw", txins, idx, a, _cs(len(sc)) + sc, txouts, None, None, None, strict=True))
    # ---- the serialisers on their own ----
    for n in [-1, 0, 1, 252, 253, 254, 0xFFFF, 0x10000, 0xFFFFFFFF, 0x100000000, 2**64 - 1, 2**64, 2**64 + 1] \
            + [rng.randrange(2**k) for k in (8, 16, 17, 32, 33, 64) for _ in range(3)]:
        out.append(case("csu-boundary", "compact_size_uint", n, strict=True))
    for i in U32B + [-1, 2**32, rng.randrange(2**32)]:
        out.append(case("outpoint", "outpoint", rng.randbytes(rng.choice([32, 32, 0, 31])), i, strict=True))
    for L in (0, 1, 252, 253, 300):
        out.append(case("txin", "txin", rng.randbytes(36), rng.randbytes(L), rng.randbytes(rng.choice([4, 4, 0, 3, 5])), strict=True))
        out.append(case("txout", "txout", rng.choice([0, 1, MAX_MONEY, 2**64 - 1, 2**64, -1]), rng.randbytes(L), strict=True))
    for L in (0, 1, 32, 156, 182, 400):
        out.append(case("digest", "witness_digest", rng.randbytes(L)))
    # ---- filler ----
    for _ in range(3000 if T else 150):
        n_in, n_out = rng.randrange(1, 9), rng.randrange(1, 9)
        ver, ins, outs, lt = rand_tx(rng, n_in, n_out, big=(rng.random() < 0.05))
        _both(out, "filler", [ver, ins, outs, lt, rng.randrange(n_in), _amount(rng), _script(rng, rng.randrange(1, 601)),
                              rng.choice(STD_FLAGS)])
    _LAST["cases"] = out
    # the library's own caller of witness_message (bits.tx.send_tx): segwit senders, amounts whose float product lands just
    # below the integer (0.29, 0.57, 1.13 BTC ...), several inputs with output indices that differ from their position,
    # non-default version / locktime, all flags
    import c16
    COIN_ = 100000000
    sats_hard = [29000000, 57000000, 113000000, 58000000, 115000000, 435000000, 123456789]
    for i, kind in enumerate(c16.SEGWIT_KINDS * (2 if tier == "thorough" else 1)):
        fl = c16.FLAGS[i % len(c16.FLAGS)]
        sc = c16._send_case(rng, "send-tx-caller", kind, [rng.randrange(1, 6), 0], [sats_hard[i % len(sats_hard)], sats_hard[(i + 3) % len(sats_hard)]],
                            frac=1.0, flag=fl, m=1, nkeys=2, version=rng.choice([1, 2]), locktime=rng.choice([0, 17, 500000]))
        out.append(case("send-tx-caller-%s" % kind, "send_tx_signs_ok", *sc["args"], expect=("ok", True), timeout=120))
        sc = c16._send_case(rng, "send-tx-caller", kind, [rng.randrange(6)], [sats_hard[(i + 1) % len(sats_hard)]], frac=0.5, flag=fl, m=1, nkeys=1)
        out.append(case("send-tx-caller-%s" % kind, "send_tx_signs_ok", *sc["args"], expect=("ok", True), timeout=120))
        # several outputs of ONE funding transaction (same txid, different index, different amounts)
        sc = c16._send_case(rng, "send-tx-caller", kind, [2, 0, 1], [COIN_ + 1, 3 * COIN_, 29000000], frac=1.0, flag=fl, m=1, nkeys=1,
                            same_txid=True)
        out.append(case("send-tx-caller-same-txid-%s" % kind, "send_tx_signs_ok", *sc["args"], expect=("ok", True), timeout=120))

    return out


# ------------------------------------------------------------------------------------------
# additional literal checks on the implementation
# ------------------------------------------------------------------------------------------
def extra_checks(ctx):
    """(a) published BIP143 vectors: preimage and sighash; (b) the independent BIP143 oracle on every in-domain case"""
    impl = ctx["impl"]
    viol = []
    for v in VECTORS:
        args = vector_args(v)
        c = case("bip143-vector", "wm_tx", *args, strict=True)
        r = impl.call("wm_tx", args)
        want = bytes.fromhex(v[6])
        if r[0] != "ok" or bytes(r[1]) != want:
            viol.append({"kind": "input", "case": case_to_json(c), "expected": short(("ok", want), 2000),
                         "observed": short(r, 2000), "failing_input_found": True,
                         "oracle": "BIP143 example %s: witness_message is not the published hash preimage" % v[0]})
            continue
        d = impl.call("witness_digest", [want])
        if d[0] != "ok" or bytes(d[1]).hex() != v[7]:
            viol.append({"kind": "input", "case": case_to_json(case("bip143-vector", "witness_digest", want)),
                         "expected": v[7], "observed": short(d, 400), "failing_input_found": True,
                         "oracle": "BIP143 example %s: witness_digest is not the published sighash" % v[0]})
    n = 0
    for c in _LAST["cases"]:
        if c["op"] != "wm_tx" or not in_domain(c["args"]):
            continue
        n += 1
        verdict = impl.oracle(c)
        if verdict is not None:
            viol.append({"kind": "input", "case": case_to_json(c), "expected": "BIP143 preimage (independent oracle)",
                         "observed": short(impl.call(c["op"], c["args"]), 2000), "oracle": verdict,
                         "failing_input_found": True})
            if len(viol) >= 3:
                break
    ctx["stats"].setdefault("extra", {})["independent_oracle_evaluations"] = n
    ctx["stats"]["extra"]["bip143_vectors"] = len(VECTORS)
    return viol


# ------------------------------------------------------------------------------------------
# shrinking
# ------------------------------------------------------------------------------------------
def shrink(c):
    if c["op"] == "wm_edit":
        yield from c11_seq.shrink(c)
        return
    if c["op"] not in ("wm_tx", "wm_tx_spec", "wm_tx_float", "wm_tx_named"):
        return
    ver, ins, outs, lt, idx, amount, script, flag = c["args"]
    ins, outs = list(ins), list(outs)

    def mk(**kw):
        a = dict(ver=ver, ins=ins, outs=outs, lt=lt, idx=idx, amount=amount, script=script, flag=flag)
        a.update(kw)
        c2 = dict(c)
        c2["args"] = [a["ver"], a["ins"], a["outs"], a["lt"], a["idx"], a["amount"], a["script"], a["flag"]]
        return c2
    if isinstance(idx, int) and 0 <= idx < len(ins):
        for k in range(len(ins) - 1, -1, -1):        # drop an input other than the selected one
            if k != idx:
                yield mk(ins=ins[:k] + ins[k + 1:], idx=idx - 1 if k < idx else idx)
        for k in range(len(outs) - 1, -1, -1):       # drop an output, keeping the SINGLE relation when possible
            if k != idx and len(outs) > 1:
                yield mk(outs=outs[:k] + outs[k + 1:])
    if len(script) > 1:
        yield mk(script=script[:len(script) // 2])
        yield mk(script=script[:1])
    for k, (t, v, s, q) in enumerate(ins):
        if s:
            yield mk(ins=ins[:k] + [(t, v, b"", q)] + ins[k + 1:])
    for k, (a, s) in enumerate(outs):
        if len(s) > 1:
            yield mk(outs=outs[:k] + [(a, s[:1])] + outs[k + 1:])
        if a not in (0, 1):
            yield mk(outs=outs[:k] + [(1, s)] + outs[k + 1:])
    if amount not in (0, 1):
        yield mk(amount=1)
    if ver not in (0, 1, 2):
        yield mk(ver=1)
    if lt != 0:
        yield mk(lt=0)


# ------------------------------------------------------------------------------------------
# the same computation as a Coq term (vm_compute cross-check of the extraction; sha256 = table of this run)
# ------------------------------------------------------------------------------------------
def _z(n):
    return "(%d)%%Z" % n


def _oz(n):
    return "None" if n is None else "(Some %s)" % _z(n)


def _bl(l):
    return "[" + "; ".join(coq_bytes(b) for b in l) + "]"


def coq_equation(c, mr):
    op, a = c["op"], c["args"]
    if op in ("wm_tx", "wm_tx_float", "wm_tx_spec"):
        ver, ins, outs, lt, idx, amount, script, flag = a
        size = sum(len(t) + len(s) for (t, v, s, q) in ins) + sum(len(s) for (v, s) in outs) + len(script)
        if size > 700 or abs(idx) > 64:
            return None
        cins = "[" + "; ".join("(%s, %s, %s, %s)" % (coq_bytes(t), _z(v), coq_bytes(s), _z(q)) for (t, v, s, q) in ins) + "]"
        couts = "[" + "; ".join("(%s, %s)" % (_z(v), coq_bytes(s)) for (v, s) in outs) + "]"
        common = "%s %s %s %s %s %s %s" % (_z(ver), cins, couts, _z(lt), _z(idx), _z(amount), coq_bytes(script))
        if op == "wm_tx_spec":
            val = "None" if mr[1] is None else "Some %s" % coq_bytes(mr[1])
            return "c11_spec_preimage sha256 %s %s = %s" % (common, _z(flag), val)
        return "c11_wm_tx sha256 %s %s = %s" % (common, _oz(flag), coq_result(mr, coq_bytes))
    if op == "wm_raw":
        txins, idx, value, sc, txouts, ver, lt, flag = a
        return "c11_witness_message sha256 %s %s %s %s %s %s %s %s = %s" % (
            _bl(txins), _z(idx), _z(value), coq_bytes(sc), _bl(txouts), _oz(ver), _oz(lt), _oz(flag),
            coq_result(mr, coq_bytes))
    if op == "compact_size_uint":
        return "c11_compact_size_uint %s = %s" % (_z(a[0]), coq_result(mr, coq_bytes))
    if op == "outpoint":
        return "c11_outpoint %s %s = %s" % (coq_bytes(a[0]), _z(a[1]), coq_result(mr, coq_bytes))
    if op == "txout" and len(a[1]) <= 300:
        return "c11_txout %s %s = %s" % (_z(a[0]), coq_bytes(a[1]), coq_result(mr, coq_bytes))
    return None


# ops whose answer must not depend on the concrete bytes-like type of their arguments (they agree on the pinned tree;
# tools/bytearray_probe.py); common.py re-runs a sample of their cases with bytearray arguments
BYTEARRAY_OPS = {'wm_tx_float', 'wm_tx_spec', 'wm_tx', 'outpoint', 'txout', 'witness_digest', 'wm_raw', 'wm_tx_named', 'txin'}
MEMORYVIEW_OPS = {'witness_digest', 'wm_tx_float', 'txout', 'wm_tx_spec', 'wm_tx_named', 'wm_tx', 'wm_raw'}
