"""Gen table for C11: the SIGHASH_* constants as bits.script.constants defines them NOW."""


def register(gt):
    @gt.table("Bip143Gen")
    def gen_bip143():
        gt.load()
        import bits.script.constants as c
        out = gt.HEADER
        for name in ("SIGHASH_ALL", "SIGHASH_NONE", "SIGHASH_SINGLE", "SIGHASH_ANYONECANPAY"):
            out += "Definition %s : Z := %s.\n" % (name.lower(), gt.coq_Z(getattr(c, name)))
        return out
