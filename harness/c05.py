"""C05 - Transaction (de)serialisation is a lossless round trip, legacy and segwit; CompactSize."""
from common import case, shrink_bytes, coq_bytes, coq_result, coq_lit, enc, dec
import txgen

ID = "C05"
MAKE_TARGETS = ["Props/C05.v", "GenProps/TxGen.v"]
GEN_TABLES = ["TxGen"]
CASE_TIMEOUT = 60.0
ASSUMPTIONS = [
    "sha256 is an arbitrary function in every theorem (hashlib answers it at run time); hash256 = sha256 o sha256",
    "wf_tx: >= 1 input (a 0-input legacy encoding starts with the count 00 = BIP141 marker: C05_zero_inputs_not_roundtrip), "
    "version/locktime/vout < 2^32, value < 2^64, txid 32 bytes, sequence 4 bytes, all counts/lengths < 2^64, "
    "one witness stack per input when witnesses are present",
    "witness stacks are modelled for DATA items only (an 'OP_x' argument of script(.., witness=True) is emitted without length prefix)",
    "modelled, not verified: src/bits/utils.py (compact_size_uint, parse_compact_size_uint), src/bits/script/utils.py "
    "(script/decode_script with witness=True), src/bits/tx.py (outpoint, txin, txout, tx, txin_deser, txout_deser, tx_deser, txid)",
]
FILLER = {"rand-legacy", "rand-segwit", "cs-rand64", "csdec-rand", "txdeser-rand-bytes"}
COQ_PRELUDE = ["Require Import Bits.Model.Tx."]


# ---------------------------------------------------------------------------------------------------
# implementation side (runs inside the worker)
# ---------------------------------------------------------------------------------------------------
def _wit_deser(b):
    import bits.script
    r = bits.script.decode_script(b, witness=True)
    w, rest = r            # exactly what tx_deser does; a bare list (truncated stack) does not unpack ...
    if not isinstance(rest, (bytes, bytearray, memoryview)):
        raise ValueError("decode_script returned a bare list, no leftover")   # ... or unpacks two hex strings
    return ([bytes.fromhex(x) for x in w], rest)


def _txin_deser(b):
    import bits.tx as m
    d, rest = m.txin_deser(b)
    return ((bytes.fromhex(d["txid"]), d["vout"], bytes.fromhex(d["scriptsig"]), bytes.fromhex(d["sequence"])), rest)


def _txout_deser(b):
    import bits.tx as m
    d, rest = m.txout_deser(b)
    return ((d["value"], bytes.fromhex(d["scriptpubkey"])), rest)


def _bits():
    import bits
    import bits.tx
    import bits.script
    return bits


IMPL = {
    "cs_enc": lambda n: _bits().compact_size_uint(n),
    "cs_dec": lambda b: _bits().parse_compact_size_uint(b),
    "wit_ser": lambda items: _bits().script.script([x.hex() for x in items], witness=True),
    "wit_deser": _wit_deser,
    "outpoint": lambda t, i: _bits().tx.outpoint(t, i),
    "txin": lambda o, s, q: _bits().tx.txin(o, s, sequence=q),
    "txin_default": lambda o, s: _bits().tx.txin(o, s),          # default sequence argument
    "txout": lambda v, s: _bits().tx.txout(v, s),
    # (the very argument objects are passed through: common.py's @bytearray/@reuse/@reuselist variants and the
    #  `twice` op below must reach the library with the caller's own buffers and lists)
    "tx_raw": lambda i, o, v, l, w: _bits().tx.tx(i, o, version=v, locktime=l, script_witnesses=w),
    "tx_ser": lambda t: txgen.api_ser(txgen.norm_tx(t)),
    "txin_deser": _txin_deser,
    "txout_deser": _txout_deser,
    "tx_deser": lambda b: _bits().tx.tx_deser(b, include_raw=True),
    # the command line entry point (`bits tx`), run in-process through harness/cli.py
    "twice": lambda name, kind, A, B: _twice(name, kind, A, B),
    # sequences in ONE process: several buffers deserialised / several transactions serialised one after the other
    "deser_seq": lambda bufs: _seq(lambda b: txgen.canon_tx_deser_worker(_bits().tx.tx_deser(b, include_raw=True)), bufs),
    "ser_seq": lambda ts: _seq(lambda t: txgen.api_ser(txgen.norm_tx(t)), ts),
    "cli_tx_build": lambda t, style: txgen.cli_build(t, style),
    "cli_tx_decode": lambda b, fmt, style: txgen.cli_decode(b, fmt, style),
}


def _to_kind(v, kind):
    if isinstance(v, bytes):
        return bytearray(v) if kind == "bytearray" else v
    if isinstance(v, (list, tuple)):
        return [_to_kind(x, kind) for x in v]
    return v


def _plain(v):
    if isinstance(v, (bytes, bytearray, memoryview)):
        return bytes(v)
    if isinstance(v, (list, tuple)):
        return [_plain(x) for x in v]
    return v


def _twice(name, kind, A, B):
    """A caller that KEEPS its argument objects (one outpoint buffer for an original transaction and its
    replacement, one list of inputs for two transactions, one read buffer parsed twice): call IMPL[name] on A, then
    on B, where every argument position with equal values in A and B is THE SAME OBJECT; report both results as they
    are AFTER the second call and the argument objects as they are afterwards.  kind: bytes | bytearray."""
    objs_a = [_to_kind(a, kind) for a in A]
    objs_b = [objs_a[i] if (i < len(A) and B[i] == A[i] and isinstance(A[i], (bytes, list, tuple))) else _to_kind(B[i], kind)
              for i in range(len(B))]
    f = IMPL[name]
    ra = f(*objs_a)
    rb = f(*objs_b)
    return (_plain(ra), _plain(rb), _plain(objs_a), _plain(objs_b))


def _seq(f, xs):
    out = []
    for x in xs:
        try:
            out.append(["ok", f(x)])
        except Exception:
            out.append(["err", None])
    return out


def model_call(c):
    if c["op"] == "deser_seq":
        return [("c05_tx_deser", [b]) for b in c["args"][0]]
    if c["op"] == "ser_seq":
        return [("c05_tx_ser", [t]) for t in c["args"][0]]
    if c["op"] == "twice":
        return "c05_twice", c["args"]
    """cli_* ops are compared with the EXISTING model ops (the extracted Coq model is the expected value)"""
    if c["op"] == "cli_tx_build":
        return "c05_tx_ser", [c["args"][0]]
    if c["op"] == "cli_tx_decode":
        return "c05_tx_deser", [c["args"][0]]
    return "c05_" + c["op"], c["args"]


def canon(c, v):
    if c["op"] == "tx_deser":
        return txgen.canon_tx_deser(v)
    if c["op"] == "cli_tx_decode" and len(v) == 2 and len(v[0]) == 4:
        # model value ((txid, wtxid, raw, tx), leftover) -> what the command prints: (txid, wtxid, tx);
        # "raw" is not printed and the leftover is only logged as a warning
        return [v[0][0], v[0][1], v[0][3]]
    return v


# ---------------------------------------------------------------------------------------------------
# generators
# ---------------------------------------------------------------------------------------------------
def _cs_cases(rng, T):
    out = []
    ns = set()
    if T:
        for n in range(0, (1 << 16) + 3):
            out.append(case("cs-exhaustive", "cs_enc", n))
    else:
        for n in list(range(0, 300)) + list(range(65530, 65540)):
            out.append(case("cs-small-sweep", "cs_enc", n))
    for k in range(0, 65):
        for d in (-2, -1, 0, 1, 2):
            n = (1 << k) + d
            out.append(case("cs-pow2-%s" % ("in" if 0 <= n < 1 << 64 else "out"), "cs_enc", n, strict=True))
    for n, cls in [(-1, "cs-neg"), (-(1 << 63), "cs-neg"), (1 << 64, "cs-2^64"), ((1 << 64) + 1, "cs-2^64"),
                   (1 << 70, "cs-2^64"), (252, "cs-252"), (253, "cs-253"), (254, "cs-253"), (0xffff, "cs-ffff"),
                   (0x10000, "cs-10000"), (0xffffffff, "cs-ffffffff"), (0x100000000, "cs-100000000"),
                   ((1 << 64) - 1, "cs-max")]:
        out.append(case(cls, "cs_enc", n, strict=True))
    for _ in range(2000 if T else 100):
        out.append(case("cs-rand64", "cs_enc", rng.randrange(1 << rng.choice([8, 16, 17, 32, 33, 64]))))
    # decoding: canonical encodings with trailing data
    vals = [0, 1, 252, 253, 254, 255, 256, 0xffff, 0x10000, 0xffffffff, 0x100000000, (1 << 64) - 1]
    vals += [rng.randrange(1 << rng.choice([8, 16, 32, 64])) for _ in range(300 if T else 40)]
    for n in vals:
        for rest in (b"", b"\x00", b"\xfd", rng.randbytes(rng.randrange(1, 12))):
            out.append(case("csdec-canonical", "cs_dec", txgen.ref_cs(n) + rest))
    # non-canonical and truncated encodings, empty input
    out.append(case("csdec-empty", "cs_dec", b"", strict=True))
    for pre, w in ((b"\xfd", 2), (b"\xfe", 4), (b"\xff", 8)):
        for k in range(0, w + 2):
            out.append(case("csdec-truncated" if k < w else "csdec-noncanonical", "cs_dec", pre + bytes([1] + [0] * 9)[:k]))
            out.append(case("csdec-truncated" if k < w else "csdec-full", "cs_dec", pre + rng.randbytes(k)))
        out.append(case("csdec-noncanonical", "cs_dec", pre + (5).to_bytes(w, "little") + b"\xaa\xbb"))
    for b0 in range(256):
        out.append(case("csdec-firstbyte", "cs_dec", bytes([b0]) + bytes(range(1, 10))))
    for _ in range(1000 if T else 60):
        out.append(case("csdec-rand", "cs_dec", rng.randbytes(rng.randrange(0, 12))))
    return out


WIT_LENS = [0, 1, 75, 76, 252, 253, 254, 255, 256, 65535, 65536]


def _wit_cases(rng, T):
    out = []
    stacks = [("wit-empty-stack", [])]
    for L in WIT_LENS:
        stacks.append(("wit-item-len-%d" % L, [rng.randbytes(L) if L else b""]))
        if L < 65535 or T:
            stacks.append(("wit-item-len-%d" % L, [b"", rng.randbytes(L) if L else b"", rng.randbytes(3)]))
    for k in (1, 2, 3, 4, 5, 252, 253, 254):
        stacks.append(("wit-count-%d" % k, [rng.randbytes(rng.choice([0, 1, 2])) for _ in range(k)]))
    if T:
        stacks.append(("wit-count-65536", [b"" if i % 3 else b"\x07" for i in range(65536)]))
        stacks.append(("wit-item-len-70000", [rng.randbytes(70000), b""]))
    stacks.append(("wit-all-empty-items", [b"", b"", b""]))
    for _ in range(400 if T else 40):
        stacks.append(("wit-rand", txgen.gen_stack(rng, rng.randrange(0, 6), txgen.SMALL_LENS + [252, 253, 256])))
    for cls, st in stacks:
        out.append(case(cls, "wit_ser", st))
        ser = txgen.ref_stack(st)
        for rest in (b"", b"\x00", b"\x01\xaa", rng.randbytes(5)):
            out.append(case(cls + "-deser", "wit_deser", ser + rest))
        # truncated stacks: the `return decoded` (bare list) path and short items
        if 0 < len(ser) <= 600:
            for cut in sorted({0, 1, len(ser) // 2, len(ser) - 1}):
                out.append(case("wit-truncated", "wit_deser", ser[:cut]))
    out.append(case("wit-bare-list-2", "wit_deser", b"\x03\x01\xaa\x01\xbb"))      # two items decoded, then exhausted
    out.append(case("wit-bare-list-0", "wit_deser", b"\x01"))
    out.append(case("wit-count-huge", "wit_deser", b"\xff" + b"\xff" * 8 + b"\x01\xaa\x00"))
    out.append(case("wit-itemlen-huge", "wit_deser", b"\x01\xff" + b"\xff" * 8 + b"\x01\xaa"))
    out.append(case("wit-itemlen-huge", "wit_deser", b"\x02\xfe\xff\xff\xff\xff\x01\xaa"))
    out.append(case("wit-noncanonical-count", "wit_deser", b"\xfd\x01\x00\x02\xaa\xbb\xcc"))
    for _ in range(1500 if T else 150):
        out.append(case("wit-rand-bytes", "wit_deser", rng.randbytes(rng.randrange(0, 14))))
    return out


def _tx_cases(rng, T):
    out = []
    g = txgen.grammar(rng, "thorough" if T else "quick")
    prev = txgen.ref_ser(g[0][1])
    for cls, t in g:
        ser = txgen.ref_ser(t)
        big = len(ser) > 20000
        out.append(case("ser-" + cls, "tx_ser", t))
        trs = txgen.trailers(rng, ser, prev)
        if big:
            trs = [trs[0], trs[1]] if not T else trs[:4]
        elif not T:
            trs = [trs[0]] + rng.sample(trs[1:], 2)
        for tn, tr in trs:
            out.append(case("deser-" + cls + "+" + tn, "tx_deser", ser + tr, t=enc(t), nrest=len(tr),
                            timeout=120 if big else None))
        if not big:
            prev = ser
    # serialiser refusals (OverflowError from int.to_bytes) and lenient paths (no length check on txid / sequence)
    base = txgen.gen_tx(rng, n_in=2, n_out=2, segwit=True)
    ver, ins, outs, wits, lt = base
    bad = [("ser-version-2^32", (1 << 32, ins, outs, wits, lt)), ("ser-version-neg", (-1, ins, outs, wits, lt)),
           ("ser-locktime-2^32", (ver, ins, outs, wits, 1 << 32)), ("ser-locktime-neg", (ver, ins, outs, wits, -1)),
           ("ser-vout-2^32", (ver, [(ins[0][0], 1 << 32, ins[0][2], ins[0][3])] + ins[1:], outs, wits, lt)),
           ("ser-vout-neg", (ver, [(ins[0][0], -1, ins[0][2], ins[0][3])] + ins[1:], outs, wits, lt)),
           ("ser-value-2^64", (ver, ins, [(1 << 64, outs[0][1])] + outs[1:], wits, lt)),
           ("ser-value-neg", (ver, ins, [(-1, outs[0][1])] + outs[1:], wits, lt)),
           ("ser-txid-31", (ver, [(ins[0][0][:31],) + ins[0][1:]] + ins[1:], outs, wits, lt)),
           ("ser-sequence-3", (ver, [ins[0][:3] + (b"\x01\x02\x03",)] + ins[1:], outs, wits, lt)),
           ("ser-no-inputs", (ver, [], outs, None, lt)), ("ser-no-inputs-segwit", (ver, [], outs, [], lt)),
           ("ser-wits-empty-list", (ver, ins, outs, [], lt)), ("ser-wits-short", (ver, ins, outs, wits[:1], lt))]
    for cls, t in bad:
        out.append(case(cls, "tx_ser", t, strict=True))
    # byte-level builders
    for _ in range(60 if T else 12):
        out.append(case("raw-outpoint", "outpoint", rng.randbytes(rng.choice([0, 31, 32, 33])),
                        rng.choice([0, 1, (1 << 32) - 1, 1 << 32, -1, rng.randrange(1 << 32)])))
        out.append(case("raw-txin", "txin", rng.randbytes(36), rng.randbytes(rng.choice([0, 1, 252, 253, 300])),
                        rng.choice(txgen.SEQS + [b"", b"\x01"])))
        out.append(case("raw-txin-default-sequence", "txin_default", rng.randbytes(36), rng.randbytes(rng.choice([0, 1, 25]))))
        out.append(case("raw-txout", "txout", rng.choice([0, 1, (1 << 64) - 1, 1 << 64, -1, rng.randrange(1 << 64)]),
                        rng.randbytes(rng.choice([0, 25, 252, 253]))))
        wl = rng.choice([[], [b""], [b"\x00"], [b"\x00", b"\x01\x02"], [rng.randbytes(4)]])
        out.append(case("raw-tx-%s" % ("nowit" if not wl else "wit"), "tx_raw",
                        [rng.randbytes(41) for _ in range(rng.randrange(0, 3))],
                        [rng.randbytes(9) for _ in range(rng.randrange(0, 3))],
                        rng.choice([1, 2, 1 << 32, -1]), rng.choice([0, 1 << 32, 17]), wl))
    # element parsers
    for _ in range(80 if T else 16):
        i = txgen.gen_txin(rng, rng.choice(txgen.SMALL_LENS + [252, 253]))
        o = txgen.gen_txout(rng, rng.choice(txgen.SMALL_LENS + [252, 253]))
        rest = rng.choice([b"", b"\x00", rng.randbytes(7)])
        bi, bo = txgen.ref_txin(i), txgen.ref_txout(o)
        out.append(case("txin-deser", "txin_deser", bi + rest))
        out.append(case("txout-deser", "txout_deser", bo + rest))
        out.append(case("txin-deser-truncated", "txin_deser", bi[:rng.randrange(0, len(bi))], strict=True))
        out.append(case("txout-deser-truncated", "txout_deser", bo[:rng.randrange(0, len(bo))], strict=True))
    out.append(case("txin-deser-empty", "txin_deser", b"", strict=True))
    out.append(case("txout-deser-empty", "txout_deser", b"", strict=True))
    out.append(case("txin-deser-36", "txin_deser", b"\x11" * 36, strict=True))
    out.append(case("txout-deser-8", "txout_deser", b"\x11" * 8, strict=True))
    # fixed corpus
    for name, raw in txgen.corpus():
        out.append(case("corpus-" + ("genesis" if name.startswith("genesis") else "bip143"), "tx_deser", raw))
        out.append(case("corpus-" + ("genesis" if name.startswith("genesis") else "bip143") + "+trail", "tx_deser", raw + raw[-4:]))
    # malformed stream
    small = [txgen.ref_ser(txgen.gen_tx(rng, n_in=rng.choice([1, 2]), n_out=rng.choice([0, 1, 2]), segwit=sw,
                                        in_lens=[0, 1, 5], out_lens=[0, 3], item_lens=[0, 1, 4]))
             for sw in (False, True) for _ in range(6 if T else 2)]
    for ser in small:
        for cut in range(0, len(ser)):
            out.append(case("txdeser-truncated", "tx_deser", ser[:cut]))
        for _ in range(200 if T else 25):
            k = rng.randrange(len(ser))
            out.append(case("txdeser-byteflip", "tx_deser", ser[:k] + bytes([ser[k] ^ (1 << rng.randrange(8))]) + ser[k + 1:]))
            out.append(case("txdeser-bytesubst", "tx_deser", ser[:k] + bytes([rng.choice([0, 1, 0xfc, 0xfd, 0xfe, 0xff])]) + ser[k + 1:]))
    body = b"\x01" + txgen.ref_txin(txgen.gen_txin(rng, 2)) + b"\x01" + txgen.ref_txout(txgen.gen_txout(rng, 3))
    for flag in (0, 2, 0xff):
        out.append(case("txdeser-flag-not-1", "tx_deser", b"\x02\x00\x00\x00\x00" + bytes([flag]) + body + b"\x00" + b"\x00" * 4, strict=True))
    out.append(case("txdeser-marker-then-end", "tx_deser", b"\x01\x00\x00\x00\x00", strict=True))
    out.append(case("txdeser-zero-inputs-legacy", "tx_deser", txgen.ref_ser((1, [], [(1, b"")], None, 0))))
    out.append(case("txdeser-segwit-zero-inputs", "tx_deser", b"\x01\x00\x00\x00\x00\x01\x00\x00" + b"\x00" * 4))
    out.append(case("txdeser-count-huge", "tx_deser", b"\x01\x00\x00\x00\xff" + b"\xff" * 8 + body[1:] + b"\x00" * 4))
    out.append(case("txdeser-nout-huge", "tx_deser", b"\x01\x00\x00\x00" + body[:42 + 2] + b"\xfe\xff\xff\xff\xff" + body[45:] + b"\x00" * 4))
    out.append(case("txdeser-short-locktime", "tx_deser", b"\x01\x00\x00\x00" + body + b"\x07\x00"))
    for L in (0, 1, 3, 4, 5):
        out.append(case("txdeser-tiny", "tx_deser", b"\x01\x00\x00\x00\x01"[:L], strict=True))
    for _ in range(3000 if T else 200):
        out.append(case("txdeser-rand-bytes", "tx_deser", rng.randbytes(rng.randrange(0, 80))))
    return out


def _final(t):
    return (t[0], [(i[0], i[1], i[2], txgen.FINAL_SEQ) for i in t[1]], t[2], t[3], t[4])


def _cli_cases(rng, T):
    """`bits tx` must build the bytes of tx()/tx_ser and print the fields of tx_deser"""
    out = []
    G = txgen.gen_tx
    build = [("legacy-1-1", G(rng, 1, 1)), ("legacy-2-2", G(rng, 2, 2)), ("legacy-3-0", G(rng, 3, 0)),
             ("segwit-2-1", G(rng, 2, 1, segwit=True)),
             ("segwit-mixed-empty", G(rng, 3, 2, segwit=True, stack_sizes=(0, 2))),
             ("segwit-all-empty", G(rng, 2, 1, segwit=True, stack_sizes=(0,))),
             ("segwit-item-253", G(rng, 1, 1, segwit=True, stack_sizes=(2,), item_lens=[253, 0])),
             ("nout-253", G(rng, 1, 253, out_lens=[0, 1])), ("nin-253", G(rng, 253, 1, in_lens=[0])),
             ("scriptsig-252", G(rng, 1, 1, in_lens=[252])), ("scriptsig-253", G(rng, 1, 1, in_lens=[253])),
             ("scriptpubkey-76", G(rng, 1, 2, out_lens=[76])), ("scriptpubkey-253", G(rng, 1, 1, out_lens=[253])),
             ("no-inputs", (1, [], [txgen.gen_txout(rng, 3)], None, 0))]
    for v in (0, 1, 2, (1 << 31), (1 << 32) - 1):
        build.append(("version-%d" % v, G(rng, 1, 1, version=v, segwit=rng.random() < 0.5)))
        build.append(("locktime-%d" % v, G(rng, 1, 1, locktime=v, segwit=rng.random() < 0.5)))
    build.append(("defaults-v1-l0", G(rng, 2, 1, version=1, locktime=0)))
    build.append(("value-max", (2, [txgen.gen_txin(rng, 1)], [((1 << 64) - 1, b"\x51")], None, 7)))
    for _ in range(60 if T else 4):
        build.append(("rand", G(rng, rng.randrange(1, 4), rng.randrange(0, 4), segwit=rng.random() < 0.5)))
    for k, (cls, t) in enumerate(build):
        for style in ((0, 1, 2, 3) if (T or cls.startswith(("defaults", "legacy-1"))) else (k % 4,)):
            out.append(case("cli-build-" + cls, "cli_tx_build", _final(t), style))
    # refusals: what tx()/txin()/txout() refuse the command must refuse, with empty stdout
    ver, ins, outs, wits, lt = _final(G(rng, 2, 2, segwit=True))
    bad = [("version-2^32", (1 << 32, ins, outs, wits, lt)), ("version-neg", (-1, ins, outs, wits, lt)),
           ("locktime-2^32", (ver, ins, outs, wits, 1 << 32)), ("locktime-neg", (ver, ins, outs, wits, -1)),
           ("vout-2^32", (ver, [(ins[0][0], 1 << 32) + ins[0][2:]] + ins[1:], outs, wits, lt)),
           ("vout-neg", (ver, [(ins[0][0], -1) + ins[0][2:]] + ins[1:], outs, wits, lt)),
           ("value-2^64", (ver, ins, [(1 << 64, outs[0][1])] + outs[1:], wits, lt)),
           ("value-neg", (ver, ins, [(-1, outs[0][1])] + outs[1:], wits, lt))]
    for cls, t in bad:
        for style in (0, 1):
            out.append(case("cli-build-refuse-" + cls, "cli_tx_build", t, style, strict=True))
    # decode: every input format and flag spelling, with and without trailing bytes
    dec_txs = [("legacy", G(rng, 2, 2)), ("segwit", G(rng, 2, 1, segwit=True)),
               ("segwit-mixed-empty", G(rng, 3, 1, segwit=True, stack_sizes=(0, 1, 3))),
               ("segwit-item-253", G(rng, 1, 1, segwit=True, stack_sizes=(1,), item_lens=[253])),
               ("nout-253", G(rng, 1, 253, out_lens=[0, 2], segwit=rng.random() < 0.5)),
               ("seq-nonfinal-segwit", G(rng, 2, 1, segwit=True)), ("scriptsig-253", G(rng, 1, 1, in_lens=[253]))]
    for _ in range(40 if T else 2):
        dec_txs.append(("rand", G(rng, rng.randrange(1, 4), rng.randrange(0, 3), segwit=rng.random() < 0.5)))
    for k, (cls, t) in enumerate(dec_txs):
        ser = txgen.ref_ser(t)
        for j, fmt in enumerate(("hex", "raw", "bin")):
            for style in (range(4) if T else ((k + j) % 4,)):
                out.append(case("cli-decode-%s-%s" % (cls, fmt), "cli_tx_decode", ser, fmt, style, t=enc(t), nrest=0))
        tr = rng.choice([b"\x00", ser[-4:], ser])
        fmt = ("hex", "raw", "bin")[k % 3]
        out.append(case("cli-decode-%s-trailing-%s" % (cls, fmt), "cli_tx_decode", ser + tr, fmt, k, t=enc(t), nrest=len(tr)))
    out.append(case("cli-decode-genesis", "cli_tx_decode", txgen.GENESIS_COINBASE, "hex", 0))
    # refusals of the parser: the command must print nothing
    ser = txgen.ref_ser(G(rng, 1, 1, segwit=True))
    for cls, buf in [("empty", b""), ("4-bytes", ser[:4]), ("flag-not-1", ser[:5] + b"\x02" + ser[6:]),
                     ("cut-in-input", ser[:30]), ("cut-in-witness", ser[:-6])]:
        for fmt in ("hex", "raw", "bin"):
            out.append(case("cli-decode-malformed-" + cls, "cli_tx_decode", buf, fmt, 0))
    return out




def _reuse_cases(rng, T):
    """the same argument OBJECT used for two calls (sequence cases; replay = the two argument tuples)"""
    out = []
    R = rng.randbytes

    def pairs():
        op = R(36)
        yield "txin", [op, R(rng.choice([0, 1, 107, 253])), rng.choice(txgen.SEQS)], [op, R(rng.choice([0, 2, 72, 252])), R(4)]
        s = R(rng.choice([1, 25]))
        yield "txin", [R(36), s, b"\xfd\xff\xff\xff"], [R(36), s, b"\xfd\xff\xff\xff"]
        yield "txin_default", [op, R(3)], [op, R(rng.choice([0, 5, 253]))]
        txid = R(32)
        yield "outpoint", [txid, 0], [txid, rng.choice([1, 7, (1 << 32) - 1])]
        spk = R(rng.choice([0, 22, 25, 253]))
        yield "txout", [rng.randrange(1 << 40), spk], [rng.randrange(1 << 64), spk]
        ins = [txgen.ref_txin(txgen.gen_txin(rng, rng.choice([0, 1, 5]))) for _ in range(rng.choice([1, 2]))]
        outs = [txgen.ref_txout(txgen.gen_txout(rng, 3))]
        wits = rng.choice([[], [txgen.ref_stack([R(2)]) for _ in ins]])
        yield "tx_raw", [ins, outs, 1, 0, wits], [ins, [txgen.ref_txout(txgen.gen_txout(rng, 1))], 2, 101, wits]
        yield "tx_raw", [ins, outs, 2, 7, wits], [ins, outs, 2, 7, wits]
        items = [R(rng.choice([0, 1, 33, 253])) for _ in range(rng.choice([0, 1, 3]))]
        yield "wit_ser", [items], [items]
        buf = txgen.ref_txin(txgen.gen_txin(rng, 4)) + R(3)
        yield "txin_deser", [buf], [buf]
        buf = txgen.ref_txout(txgen.gen_txout(rng, 4)) + R(3)
        yield "txout_deser", [buf], [buf]
        buf = txgen.ref_cs(rng.choice([0, 252, 253, 65536])) + R(2)
        yield "cs_dec", [buf], [buf]
        buf = txgen.ref_stack([R(2), b"", R(3)]) + R(2)
        yield "wit_deser", [buf], [buf]

    # fingerprint-colliding pairs (equal length, equal crc32 / adler32 / byte sum / word xor / head+tail) in sequence
    for name, kind, ta, tb in txgen.collision_pairs():
        sa, sb = txgen.ref_ser(ta), txgen.ref_ser(tb)
        out.append(case("collide-%s-%s-deser-pair" % (name, kind), "deser_seq", [sa, sb + sa[-4:], sa]))
        out.append(case("collide-%s-%s-ser-pair" % (name, kind), "ser_seq", [ta, tb, ta]))
    # one-field-apart pairs in one process (t, t', t): parse and serialise; a memo keyed by a strict subset of the fields
    # of a transaction / input / output hands out the other one's bytes or fields
    for sw in (True, False):
        for _ in range(6 if T else 2):
            t = txgen.gen_tx(rng, n_in=rng.choice([1, 2, 3]), n_out=rng.choice([1, 2]), segwit=sw)
            st = txgen.ref_ser(t)
            for name, t2 in txgen.one_field_variants(rng, t):
                k = "segwit" if sw else "legacy"
                out.append(case("one-field-apart-%s-%s-deser" % (name, k), "deser_seq", [st, txgen.ref_ser(t2) + st[-3:], st]))
                out.append(case("one-field-apart-%s-%s-ser" % (name, k), "ser_seq", [t, t2, t]))
    # repeated elements through the byte-level builder and the command line
    i0 = txgen.ref_txin(txgen.gen_txin(rng, 2))
    o0 = txgen.ref_txout(txgen.gen_txout(rng, 3))
    for n in (2, 3, 30):
        out.append(case("raw-tx-identical-txins-%d" % n, "tx_raw", [i0] * n, [o0], 1, 0, []))
        out.append(case("raw-tx-identical-txouts-%d" % n, "tx_raw", [i0], [o0] * n, 2, 0, [b"\x00"]))
        out.append(case("raw-tx-identical-witnesses-%d" % n, "tx_raw", [i0, i0[::-1]] * n, [o0], 2, 0, [b"\x01\x00"] * (2 * n)))
    same_op = txgen.gen_txin(rng, 1)
    for sw in (False, True):
        ins = [same_op[:3] + (txgen.FINAL_SEQ,), txgen.gen_txin(rng, 0)[:3] + (txgen.FINAL_SEQ,), (same_op[0], same_op[1], b"\x52", txgen.FINAL_SEQ)]
        t = (2, ins, [txgen.gen_txout(rng, 3)] * 2, [[b"\x01"], [], [b"\x01"]] if sw else None, 0)
        for style in (0, 1):
            out.append(case("cli-build-dup-outpoint-%s" % ("segwit" if sw else "legacy"), "cli_tx_build", t, style))
    for _ in range(12 if T else 2):
        for name, A, B in pairs():
            for kind in ("bytes", "bytearray"):
                out.append(case("reuse-%s-%s" % (name, kind), "twice", name, kind, A, B))
    return out


def gen_cases(rng, tier):
    T = tier == "thorough"
    return _cs_cases(rng, T) + _wit_cases(rng, T) + _tx_cases(rng, T) + _cli_cases(rng, T) + _reuse_cases(rng, T)


# ---------------------------------------------------------------------------------------------------
# shrinking
# ---------------------------------------------------------------------------------------------------
def shrink(c):
    op = c["op"]
    if op in ("tx_ser", "cli_tx_build"):
        for t2 in txgen.shrink_tx(txgen.norm_tx(c["args"][0])):
            c2 = dict(c)
            c2["args"] = [t2] + list(c["args"][1:])
            yield c2
    elif op == "cli_tx_decode" and c.get("t"):
        t = txgen.norm_tx(dec(c["t"]))
        buf = c["args"][0]
        tr = buf[len(buf) - c["nrest"]:] if c["nrest"] else b""
        for t2 in txgen.shrink_tx(t):
            if t2[1]:
                c2 = dict(c)
                c2["args"] = [txgen.ref_ser(t2) + tr] + list(c["args"][1:])
                c2["t"] = enc(t2)
                yield c2
    elif op == "tx_deser" and c.get("t"):
        t = txgen.norm_tx(dec(c["t"]))
        buf = c["args"][0]
        tr = buf[len(buf) - c["nrest"]:] if c["nrest"] else b""
        for t2 in txgen.shrink_tx(t):
            if not t2[1]:
                continue
            c2 = dict(c)
            c2["args"] = [txgen.ref_ser(t2) + tr]
            c2["t"] = enc(t2)
            yield c2
        if len(tr) > 1:
            for tr2 in (tr[:1], tr[:len(tr) // 2]):
                c2 = dict(c)
                c2["args"] = [txgen.ref_ser(t) + tr2]
                c2["nrest"] = len(tr2)
                yield c2
    elif op == "wit_ser":
        st = c["args"][0]
        if st:
            for s2 in (st[:-1], st[1:], [x[:len(x) // 2] for x in st]):
                if s2 != st:
                    c2 = dict(c)
                    c2["args"] = [s2]
                    yield c2
    elif op in ("cs_dec", "wit_deser", "txin_deser", "txout_deser", "tx_deser"):
        for b in shrink_bytes(c["args"][0]):
            c2 = dict(c)
            c2["args"] = [b]
            c2.pop("t", None)
            yield c2
    elif op == "cs_enc":
        n = c["args"][0]
        for n2 in (n // 2, n - 1):
            if 0 <= n2 < n:
                c2 = dict(c)
                c2["args"] = [n2]
                yield c2


# ---------------------------------------------------------------------------------------------------
# the literal property statement on the implementation (runs in the worker; independent of the model)
# ---------------------------------------------------------------------------------------------------
def _wf(t):
    ver, ins, outs, wits, lt = t
    return (0 <= ver < 1 << 32 and 0 <= lt < 1 << 32 and len(ins) >= 1
            and all(len(i[0]) == 32 and 0 <= i[1] < 1 << 32 and len(i[3]) == 4 for i in ins)
            and all(0 <= o[0] < 1 << 64 for o in outs) and (wits is None or len(wits) == len(ins)))


def roundtrip_statement(t, trailer):
    """deser(ser(t) ++ trailer) = (fields t, trailer), canonical bytes, re-serialisation reproduces them"""
    import bits.tx as m
    try:
        ser = txgen.api_ser(t)
    except Exception as e:
        return "the serialiser refuses a well-formed transaction: %s: %s" % (type(e).__name__, e)
    want = txgen.ref_ser(t)
    if ser != want:
        k = next((i for i in range(min(len(ser), len(want))) if ser[i] != want[i]), min(len(ser), len(want)))
        return "serialisation is not the standard's (canonical CompactSize) form: differs at byte %d (got %d bytes, expected %d)" % (k, len(ser), len(want))
    d, rest = m.tx_deser(ser + trailer, include_raw=True)
    if rest != trailer:
        return "leftover after the transaction is %d bytes, expected the %d trailing bytes" % (len(rest), len(trailer))
    p = txgen.canon_parsed_dict(d)
    got = txgen.norm_tx(p[3])
    if got != t:
        return "deserialised fields differ from the serialised ones: %r" % (_first_diff(got, t),)
    if txgen.api_ser(got) != ser:
        return "re-serialising the parsed fields does not reproduce the bytes"
    d2, rest2 = m.tx_deser(ser + trailer)
    if rest2 != rest or {k: v for k, v in d.items() if k != "raw"} != d2:
        return "include_raw=False gives a different result"
    return None


def _first_diff(a, b):
    names = ["version", "txins", "txouts", "witnesses", "locktime"]
    for n, x, y in zip(names, a, b):
        if x != y:
            if isinstance(x, list) and isinstance(y, list):
                if len(x) != len(y):
                    return "%s: %d entries, expected %d" % (n, len(x), len(y))
                j = next(i for i in range(len(x)) if x[i] != y[i])
                return "%s[%d]: %s expected %s" % (n, j, _short(x[j]), _short(y[j]))
            return "%s: %s expected %s" % (n, _short(x), _short(y))
    return "?"


def _short(v):
    s = repr(v)
    return s if len(s) < 120 else s[:120] + "..."


def _ref_builder(name, args):
    """reference bytes of a builder call from the developer reference (None: no statement)"""
    try:
        if name == "outpoint":
            return args[0] + args[1].to_bytes(4, "little")
        if name == "txin":
            return args[0] + txgen.ref_var(args[1]) + args[2]
        if name == "txin_default":
            return args[0] + txgen.ref_var(args[1]) + b"\xff\xff\xff\xff"
        if name == "txout":
            return args[0].to_bytes(8, "little") + txgen.ref_var(args[1])
        if name == "wit_ser":
            return txgen.ref_stack(list(args[0]))
        if name == "tx_raw":
            ins, outs, v, lt, w = args
            body = txgen.ref_cs(len(ins)) + b"".join(ins) + txgen.ref_cs(len(outs)) + b"".join(outs)
            return v.to_bytes(4, "little") + (b"\x00\x01" if w else b"") + body + b"".join(w) + lt.to_bytes(4, "little")
    except (OverflowError, AssertionError):
        return None
    return None


def prop_oracle(c):
    import bits
    import bits.script
    op = c["op"]
    a = c["args"]
    if op == "cs_enc":
        n = a[0]
        if 0 <= n < 1 << 64:
            e = bits.compact_size_uint(n)
            if e != txgen.ref_cs(n):
                return "compact_size_uint(%d) = %s is not the shortest CompactSize form %s" % (n, e.hex() if isinstance(e, bytes) else e, txgen.ref_cs(n).hex())
            for rest in (b"", b"\xaa\x00"):
                if tuple(bits.parse_compact_size_uint(e + rest)) != (n, rest):
                    return "parse_compact_size_uint(compact_size_uint(%d) + rest) != (%d, rest)" % (n, n)
            return None
        try:
            r = bits.compact_size_uint(n)
        except Exception:
            return None
        return "compact_size_uint(%d) returned %r instead of refusing" % (n, r)
    if op == "cs_dec":
        buf = a[0]
        try:
            n, pos = txgen._rd_cs(buf, 0)          # strict: complete and canonical
        except txgen._Short:
            return None                            # the property says nothing about other inputs
        got = tuple(bits.parse_compact_size_uint(buf))
        if got != (n, buf[pos:]):
            return "parse_compact_size_uint(%s) = %r, expected (%d, rest)" % (buf[:12].hex(), got, n)
        return None
    if op in ("wit_ser", "wit_deser"):
        if op == "wit_ser":
            items, rest = list(a[0]), b"\x00\x01"
        else:
            # is the buffer a reference stack followed by something?
            try:
                pos = 0
                cnt, pos = txgen._rd_cs(a[0], 0)
                if cnt > len(a[0]):
                    return None
                items = []
                for _ in range(cnt):
                    ln, pos = txgen._rd_cs(a[0], pos)
                    it, pos = txgen._take(a[0], pos, ln)
                    items.append(it)
                rest = a[0][pos:]
            except txgen._Short:
                return None
        ser = bits.script.script([x.hex() for x in items], witness=True)
        if ser != txgen.ref_stack(items):
            return "script(items, witness=True) is not the BIP144 stack encoding (count + CompactSize-prefixed items)"
        got = _wit_deser(ser + rest)
        if (list(got[0]), got[1]) != (items, rest):
            return "decode_script(script(items, witness=True) + rest, witness=True) != (items, rest)"
        return None
    if op == "ser_seq":
        for k, t in enumerate(a[0]):
            t = txgen.norm_tx(t)
            if _wf(t):
                v = roundtrip_statement(t, b"")
                if v:
                    return "transaction %d of the sequence: %s" % (k + 1, v)
        got = IMPL["ser_seq"](a[0])
        for k, (t, g) in enumerate(zip(a[0], got)):
            if _wf(txgen.norm_tx(t)) and (g[0] != "ok" or g[1] != txgen.ref_ser(txgen.norm_tx(t))):
                return "call %d of the sequence does not serialise the fields given" % (k + 1)
        return None
    if op == "deser_seq":
        got = IMPL["deser_seq"](a[0])
        for k, (b, g) in enumerate(zip(a[0], got)):
            p = txgen.ref_parse(b)
            if p is None:
                continue
            t, used = p
            if g[0] != "ok":
                return "call %d of the sequence: a well-formed transaction is refused" % (k + 1)
            if txgen.norm_tx(g[1][0][3]) != txgen.norm_tx(t) or g[1][1] != b[used:]:
                return "call %d of the sequence (after %d other call(s) in this process): fields / leftover are not those serialised" % (k + 1, k)
        return None
    if op == "twice":
        name, kind, A, B = a
        got = _twice(name, kind, A, B)
        if got[2] != _plain(A) or got[3] != _plain(B):
            return "%s() modified its caller's argument object in place (%s arguments)" % (name, kind)
        for which, args, r in (("first", A, got[0]), ("second", B, got[1])):
            want = _ref_builder(name, args)
            if want is not None and r != want:
                return "%s(): the %s result, read after both calls that share an argument object, is %s; the fields given serialise to %s" % (
                    name, which, _short(r.hex() if isinstance(r, bytes) else r), _short(want.hex()))
        if A == B and got[0] != got[1]:
            return "%s() gives two different answers for the same arguments" % name
        return None
    if op == "cli_tx_build":
        t = txgen.norm_tx(a[0])
        ok = (0 <= t[0] < 1 << 32 and 0 <= t[4] < 1 << 32 and all(0 <= i[1] < 1 << 32 for i in t[1])
              and all(0 <= o[0] < 1 << 64 for o in t[2]))
        try:
            got = txgen.cli_build(t, a[1])
        except Exception as e:
            return None if not ok else "bits tx refuses a well-formed transaction: %s" % e
        if not ok:
            return "bits tx produced output %r for fields that tx() refuses" % (got,)
        if got != txgen.ref_ser(t):
            return "bits tx built %s, not the serialisation of the given fields (%s)" % (
                got.hex()[:80] if isinstance(got, bytes) else got, txgen.ref_ser(t).hex()[:80])
        return None
    if op == "cli_tx_decode":
        p = txgen.ref_parse(a[0])
        if p is None:
            try:
                got = txgen.cli_decode(a[0], a[1], a[2])
            except Exception:
                return None
            if isinstance(got, tuple) and got and isinstance(got[0], str):
                return "bits tx --decode: %r" % (got,)
            return None                     # liberal parser: the property does not speak about malformed input
        t, used = p
        t = txgen.norm_tx(t)
        got = txgen.cli_decode(a[0], a[1], a[2])
        want = (txgen.hash256(txgen.ref_ser(t, False)), txgen.hash256(txgen.ref_ser(t)), t)
        if isinstance(got[0], str):
            return "bits tx --decode: %r" % (got,)
        if (got[0], got[1], txgen.norm_tx(got[2])) != want:
            return "bits tx --decode (%s input) does not print the fields/ids of the transaction: %s" % (
                a[1], _first_diff(txgen.norm_tx(got[2]), t) if txgen.norm_tx(got[2]) != t else "txid/wtxid differ")
        return None
    if op == "tx_ser":
        t = txgen.norm_tx(a[0])
        if not _wf(t):
            return None
        return roundtrip_statement(t, b"")
    if op == "tx_deser":
        buf = a[0]
        if c.get("t"):
            t = txgen.norm_tx(dec(c["t"]))
            return roundtrip_statement(t, buf[len(buf) - c["nrest"]:] if c["nrest"] else b"")
        p = txgen.ref_parse(buf)
        if p is None:
            return None
        t, used = p
        return roundtrip_statement(txgen.norm_tx(t), buf[used:])
    if op == "txin_default":
        import bits.tx as m
        if m.txin(a[0], a[1]) != a[0] + txgen.ref_var(a[1]) + b"\xff\xff\xff\xff":
            return "txin(outpoint, script) does not end with the final sequence ffffffff"
        return None
    if op in ("txin_deser", "txout_deser"):
        import bits.tx as m
        buf = a[0]
        try:
            if op == "txin_deser":
                h, pos = txgen._take(buf, 0, 32)
                idx, pos = txgen._take(buf, pos, 4)
                ln, pos = txgen._rd_cs(buf, pos)
                sc, pos = txgen._take(buf, pos, ln)
                sq, pos = txgen._take(buf, pos, 4)
                want = ((h, int.from_bytes(idx, "little"), sc, sq), buf[pos:])
                got = _txin_deser(buf)
                again = m.txin(m.outpoint(got[0][0], got[0][1]), got[0][2], sequence=got[0][3])
            else:
                val, pos = txgen._take(buf, 0, 8)
                ln, pos = txgen._rd_cs(buf, pos)
                sc, pos = txgen._take(buf, pos, ln)
                want = ((int.from_bytes(val, "little"), sc), buf[pos:])
                got = _txout_deser(buf)
                again = m.txout(got[0][0], got[0][1])
        except txgen._Short:
            return None
        if (tuple(got[0]), got[1]) != want:
            return "%s does not return the serialised fields / the leftover" % op
        if again != buf[:pos]:
            return "re-serialising the parsed element does not reproduce its bytes"
        return None
    return None


def extra_checks(ctx):
    """the literal statement evaluated on a sample of this run's structured cases (guards the oracle itself and
    searches the implementation directly, independently of the model)"""
    import random
    rng = random.Random("c05-extra-%s" % ctx["tier"])
    cases = gen_cases(rng, "quick")
    pick = [c for c in cases if c["op"] in ("tx_ser", "wit_ser") or c["cls"].startswith(("cs-pow2", "cs-2^64", "cs-neg"))]
    pick = [c for c in pick if len(enc(c["args"][0])) < 40000]
    rng.shuffle(pick)
    n = 0
    out = []
    for c in pick[: (600 if ctx["tier"] == "thorough" else 150)]:
        v = ctx["impl"].oracle(c)
        n += 1
        if v is not None and len(out) < 3:
            from common import case_to_json
            out.append({"kind": "input", "case": case_to_json(c), "observed": "property statement fails on the implementation",
                        "expected": "statement holds", "oracle": v, "failing_input_found": True})
    ctx["stats"].setdefault("extra", {})["literal_statement_evaluations"] = n
    return out


# ---------------------------------------------------------------------------------------------------
# in-Coq cross-check of the extraction
# ---------------------------------------------------------------------------------------------------
def coq_tx(t):
    ver, ins, outs, wits, lt = t
    return "(mk_tx (%d) [%s] [%s] %s (%d))" % (
        ver, "; ".join("mk_txin %s (%d) %s %s" % (coq_bytes(i[0]), i[1], coq_bytes(i[2]), coq_bytes(i[3])) for i in ins),
        "; ".join("mk_txout (%d) %s" % (o[0], coq_bytes(o[1])) for o in outs),
        "None" if wits is None else "(Some [%s])" % "; ".join("[" + "; ".join(coq_bytes(x) for x in w) + "]" for w in wits), lt)


def coq_equation(c, mr):
    op, a = c["op"], c["args"]
    if len(enc(a[0])) > 700:
        return None
    if op == "cs_enc":
        return "c05_cs_enc (%d) = %s" % (a[0], coq_result(mr))
    if op == "cs_dec":
        return "c05_cs_dec %s = %s" % (coq_bytes(a[0]), coq_result(mr, lambda v: "(%s, %s)" % (coq_lit(v[0]), coq_bytes(v[1]))))
    if op == "wit_ser":
        return "c05_wit_ser [%s] = %s" % ("; ".join(coq_bytes(x) for x in a[0]), coq_result(mr))
    if op == "wit_deser":
        return "c05_wit_deser %s = %s" % (coq_bytes(a[0]), coq_result(
            mr, lambda v: "([%s], %s)" % ("; ".join(coq_bytes(x) for x in v[0]), coq_bytes(v[1]))))
    if op == "tx_ser":
        return "c05_tx_ser %s = %s" % (coq_tx(txgen.norm_tx(a[0])), coq_result(mr))
    if op == "tx_deser":
        return "c05_tx_deser sha256 %s = %s" % (coq_bytes(a[0]), coq_result(
            mr, lambda v: "(mk_parsed %s %s %s %s, %s)" % (coq_bytes(v[0][0]), coq_bytes(v[0][1]), coq_bytes(v[0][2]),
                                                            coq_tx(txgen.norm_tx(v[0][3])), coq_bytes(v[1]))))
    return None


# ops whose answer must not depend on the concrete bytes-like type of their arguments (they agree on the pinned tree;
# tools/bytearray_probe.py); common.py re-runs a sample of their cases with bytearray arguments
BYTEARRAY_OPS = {'cs_dec', 'txout_deser', 'txin_default', 'outpoint', 'txout', 'tx_deser', 'txin_deser', 'txin', 'wit_deser'}
MEMORYVIEW_OPS = {'tx_deser', 'txout', 'txin_deser', 'cs_dec', 'txout_deser', 'wit_deser'}
# (txin / txin_default / outpoint raise TypeError for a memoryview first argument on the pinned tree; the list-taking
#  builders tx_raw / wit_ser / twice are reached by the automatic @reuselist variant: not in NO_REUSELIST_OPS)
