"""C18 - the node's message queue loses / duplicates / misattributes no message under any
interleaving of the per-peer receive threads (src/bits/p2p.py: Node.recv_loop, handle_command,
handle_version_command, handle_ping_command, handle_verack_command).

Correspondence: the REAL Node.recv_loop bodies run in real threads inside the worker, serialised by a
baton scheduler.  Scheduling points are harness-supplied objects installed on the Node instance:
  _msg_queue                      deque subclass, a point after every mutating operation
  _registered_commands_to_handle  list subclass, a point after the membership test
  _peer_sockets[p]                scripted socket: recv serves whole frames (a point when a frame has
                                  been consumed), sendall is logged (a point after it); when the script
                                  is exhausted recv sets the thread's exit_event and raises TimeoutError,
                                  which is how recv_loop ends
A schedule is a list of thread ids; "grant t" lets thread t run until it has completed its next
instrumented operation (or finished).  Grants to finished / non-existent threads are idle.  After the
schedule the threads are granted round robin until all have finished.  One grant is one [step] of
Model/NodeQueue.v, so the model is run on the very same schedule (op `run`); op `sweep` executes all
(or a sample of) interleavings for given programs and compares every final state with the
schedule-free specification (the theorem says the final state does not depend on the schedule).
"""
import itertools
import random
import threading
from collections import deque

import c18_wire as w
from common import case, enc, dec, norm

ID = "C18"
MAKE_TARGETS = ["Props/C18.v", "GenProps/NodeGen.v"]
GEN_TABLES = ["NodeGen"]
CASE_TIMEOUT = 120.0
ASSUMPTIONS = [
    "GIL atomicity: deque.append / deque.pop, `in` on a list, and sendall on distinct sockets are atomic "
    "actions; the model interleaves threads at exactly these actions (receive, membership test, handler "
    "send / append), every interleaving of them is a schedule",
    "outside the model: thread start/stop, socket timeouts, exit_event, socket close, logging; a receive "
    "thread whose program is exhausted only makes idle steps",
    "a handler that only logs (handle_verack_command) is part of the membership-test step; storing the version "
    "payload in _peer_data[peer_no] is part of the handler's send step (per-peer data, touched by that peer's thread only)",
    "messages are well-formed frames (valid checksum/magic, ASCII command, payload accepted by parse_payload, ping "
    "payload of at most 8 bytes); a malformed frame raises inside recv_loop and ends that peer's thread (not C18's scope)",
    "recv_msg / parse_payload are C17's subject: the harness compares parsed payloads with an independent parse of "
    "its own catalogue of messages (harness/c18_wire.py)",
    "modelled, not verified: src/bits/p2p.py Node.recv_loop, Node.handle_command, handle_version_command, "
    "handle_ping_command, handle_verack_command",
]
FILLER = set()
HANDLED = (b"version", b"verack", b"ping")     # the property's "handled automatically" (GenProps ties the code's list to it)
# A granted thread that neither reaches its next scheduling point nor finishes within GRANT_TIMEOUT is marked
# "blocked" (it waits for something a paused thread holds, e.g. a lock) and the baton passes on.  The code as it is
# never blocks; once a run has blocked, this process assumes a lock-based variant and waits only BLOCKING_TIMEOUT.
GRANT_TIMEOUT = 0.5
BLOCKING_TIMEOUT = 0.004
BLOCKING_SWEEP_LIMIT = 120
EXTRA_ROUNDS_SECONDS = 100.0
_TMO = {"cur": GRANT_TIMEOUT}


# --------------------------------------------------------------------------------------
# worker side: baton scheduler over the real recv_loop
# --------------------------------------------------------------------------------------
def _sem():
    l = threading.Lock()
    l.acquire()
    return l


class _Worker(threading.Thread):
    """a persistent daemon thread that plays one peer's receive thread, run after run"""

    def __init__(self):
        super().__init__(daemon=True)
        self.job_sem = _sem()
        self.job = None
        self.idle = True

    def run(self):
        while True:
            self.job_sem.acquire()
            job, self.job = self.job, None
            if job is None:
                return
            job()


_POOL = []
_POOL_STATS = {"created": 0, "abandoned": 0}


def _worker(k):
    while len(_POOL) <= k:
        _POOL.append(None)
    wk = _POOL[k]
    if wk is None or not wk.idle or not wk.is_alive():
        if wk is not None:
            _POOL_STATS["abandoned"] += 1        # still inside a previous run (deadlocked variant): never reused
        wk = _POOL[k] = _Worker()
        wk.start()
        _POOL_STATS["created"] += 1
    return wk


def _shutdown_pool():
    for wk in _POOL:
        if wk is not None and wk.idle:
            wk.job = None
            wk.job_sem.release()
            wk.join(timeout=1.0)
    del _POOL[:]


class _Baton:
    """grant(t): thread t performs the operation it is paused in front of and runs on until it is about to
    perform its next instrumented operation (or has finished)"""

    def __init__(self, n):
        self.n = n
        self.go = [_sem() for _ in range(n)]
        self.back = [_sem() for _ in range(n)]
        self.done = [False] * n
        self.blocked = [False] * n
        self.free = False
        self.trace = []
        self.ident = {}
        self.nblocked = 0

    # ---- called by the receive threads, BEFORE the operation ----
    def point(self, kind):
        t = self.ident.get(threading.get_ident())
        if t is None or self.free:
            return
        self.back[t].release()
        self.go[t].acquire()
        self.trace.append((t, kind))

    # ---- called by the scheduler (the worker's main thread) ----
    def grant(self, t):
        if not (0 <= t < self.n) or self.done[t]:
            return False
        if not self.blocked[t]:
            self.go[t].release()
        if self.back[t].acquire(timeout=0.0005 if self.blocked[t] else _TMO["cur"]):
            self.blocked[t] = False
        else:                               # e.g. waits for a lock held by a paused thread
            self.blocked[t] = True
            self.nblocked += 1
            _TMO["cur"] = BLOCKING_TIMEOUT
        return True


_BATON = [None]      # the baton of the run in progress (the container classes are created once)
_LINE = [False]      # line granularity: EVERY source line of bits/p2p.py executed by a receive thread is a scheduling point


def _line_local(frame, event, arg):
    if event == "line":
        _pt("line")
    return _line_local


def _line_tracer(frame, event, arg):
    fn = frame.f_code.co_filename.replace("\\", "/")
    if fn.endswith("bits/p2p.py"):
        return _line_local
    return None


def _pt(kind):
    b = _BATON[0]
    if b is not None:
        b.point(kind)


def _before(base, name, kind):
    def method(self, *a, **k):
        _pt(kind)
        return getattr(base, name)(self, *a, **k)
    method.__name__ = name
    return method


class SchedDeque(deque):
    """Node._msg_queue with a scheduling point before every mutating operation"""


for _name in ("append", "appendleft", "pop", "popleft", "extend", "extendleft", "remove", "insert",
              "clear", "rotate", "__delitem__", "__setitem__", "__iadd__"):
    setattr(SchedDeque, _name, _before(deque, _name, _name.strip("_")))


# reads of the shared queue by a receive thread are scheduling points too (the code as it is performs none): a
# len()-dependent decision or an iteration over the deque can then be interleaved with the other threads' appends
# (a deque that is appended to while being iterated raises RuntimeError in the iterating thread)
for _name in ("__len__", "__getitem__", "__contains__", "count", "index", "copy", "__copy__", "__reversed__"):
    setattr(SchedDeque, _name, _before(deque, _name, "read"))


class _PointIter:
    """iterator over the shared deque with a scheduling point before each of its first steps: that is enough for
    another thread's append to land inside the iteration (the next step then raises RuntimeError), and keeps a
    variant that scans a long queue on every message affordable"""

    def __init__(self, it):
        self.it = it
        self.points = 3

    def __iter__(self):
        return self

    def __next__(self):
        if self.points:
            self.points -= 1
            _pt("iter")
        return next(self.it)


def _sched_iter(self):
    return _PointIter(deque.__iter__(self))


SchedDeque.__iter__ = _sched_iter


class SchedList(list):
    """Node._registered_commands_to_handle with a scheduling point before the membership test"""


for _name in ("__contains__", "index", "count"):
    setattr(SchedList, _name, _before(list, _name, "test"))


class _Sock:
    """scripted peer socket"""

    def __init__(self, frames, peer_thread_of, recv_pt):
        self.frames = frames
        self.i = 0
        self.pos = 0
        self.out = []
        self.closed = False
        self.peer_thread_of = peer_thread_of
        self.recv_pt = recv_pt

    def recv(self, n, *flags):
        if self.i >= len(self.frames):
            self.peer_thread_of().exit_event.set()          # this is how the loop ends
            raise TimeoutError("script exhausted")
        if self.pos == 0 and self.recv_pt:
            _pt("recv")                                       # about to receive the next whole frame
        f = self.frames[self.i]
        data = f[self.pos:self.pos + n]                       # exactly what is asked for
        self.pos += len(data)
        if self.pos >= len(f):
            self.i += 1
            self.pos = 0
        return data

    def sendall(self, data, *flags):
        _pt("send")
        self.out.append(bytes(data))

    def send(self, data, *flags):
        self.sendall(data)
        return len(data)

    def close(self):
        self.closed = True

    def settimeout(self, *_):
        pass


def _plain(v):
    """protocol-encodable normal form of whatever the node keeps"""
    if isinstance(v, dict):
        try:
            return [(_plain(k), _plain(v[k])) for k in sorted(v)]
        except TypeError:
            return "<dict %r>" % (v,)
    if isinstance(v, (list, tuple)):
        return [_plain(x) for x in v]
    if v is None or isinstance(v, (bool, int, bytes, str)):
        return v
    if isinstance(v, (bytearray, memoryview)):
        return bytes(v)
    return "<%s %r>" % (type(v).__name__, v)


_FRAMES = {}


def _frame(c, p, magic):
    k = (c, p, magic)
    f = _FRAMES.get(k)
    if f is None:
        if len(_FRAMES) > 5000:
            _FRAMES.clear()
        f = _FRAMES[k] = w.frame(c, p, magic)
    return f


class _Run:
    """one Node with n scripted peers whose receive threads stand in front of their first scheduling point"""

    def __init__(self, progs, recv_pt, cfg=None, free=False):
        import bits.p2p as p2p
        self.n = n = len(progs)
        self.baton = b = _Baton(n)
        b.free = free
        _BATON[0] = b
        self.errors = [None] * n
        # __init__ opens no socket; cfg = the node's own constructor parameters (protocol_version, services, relay, ...)
        node = self.node = p2p.Node(**{str(k): v for (k, v) in (cfg or [])})
        # same content and same configuration (maxlen!) as the containers Node.__init__ made; a container of
        # another type is left in place (then its operations are simply not scheduling points)
        if type(node._msg_queue) is deque and not free:
            node._msg_queue = SchedDeque(node._msg_queue, node._msg_queue.maxlen)
        if type(node._registered_commands_to_handle) is list and not free:
            node._registered_commands_to_handle = SchedList(node._registered_commands_to_handle)
        self.socks = []
        self.workers = []
        for t in range(n):
            frames = [_frame(c, p, p2p.MAGIC_START_BYTES) for (c, p) in progs[t]]
            s = _Sock(frames, (lambda t=t: node._peer_threads[t]), recv_pt)
            self.socks.append(s)
            node._peer_sockets[t] = s
            node._peer_data[t] = {}                           # as connect_peer does
            node._peer_threads[t] = p2p.PeerThread()          # carries exit_event; the body runs in a pool thread
            wk = _worker(t)
            b.ident[wk.ident] = t
            self.workers.append(wk)
        try:
            for t, wk in enumerate(self.workers):
                wk.idle = False
                wk.job = (lambda t=t, wk=wk: self._body(t, wk))
                wk.job_sem.release()
            if not free:
                for t in range(n):                            # thread start: up to the first scheduling point
                    b.grant(t)
        except BaseException:
            self.cleanup()
            raise

    def _body(self, t, wk):
        b = self.baton
        b.go[t].acquire()                                     # wait for the start grant
        try:
            if _LINE[0]:
                import sys
                sys.settrace(_line_tracer)
            self.node.recv_loop(t)
        except BaseException as e:   # noqa: the thread would die with this exception
            self.errors[t] = "%s: %s" % (type(e).__name__, e)
        finally:
            if _LINE[0]:
                import sys
                sys.settrace(None)
            b.done[t] = True
            wk.idle = True
            b.back[t].release()

    def execute(self, sched, rounds):
        """the schedule, then `rounds` round-robin rounds (the model gets the same), then whatever it takes"""
        b = self.baton
        extra = 0
        try:
            for t in sched:
                b.grant(t)
            for _ in range(rounds):
                for t in range(self.n):
                    b.grant(t)
            # a variant with more scheduling points per message than the model has steps (extra reads of the queue,
            # locks, ...) needs more grants: go on round robin while there is progress (bounded by wall time)
            import time
            deadline = time.time() + EXTRA_ROUNDS_SECONDS
            stalled = 0
            while not all(b.done) and stalled < 50 and time.time() < deadline:
                extra += 1
                before = len(b.trace)
                for t in range(self.n):
                    b.grant(t)
                stalled = stalled + 1 if len(b.trace) == before and not all(b.done) else 0
        finally:
            self.cleanup()
        return extra

    def run_free(self, switch_interval, timeout=120.0):
        """no baton: the receive threads run as real concurrent threads (the containers are the node's own)"""
        import sys
        import time
        b = self.baton
        old = sys.getswitchinterval()
        try:
            sys.setswitchinterval(switch_interval)
            for t in range(self.n):
                b.go[t].release()
            deadline = time.time() + timeout
            for t in range(self.n):
                b.back[t].acquire(timeout=max(0.01, deadline - time.time()))
        finally:
            sys.setswitchinterval(old)
            self.cleanup()

    def cleanup(self):
        b = self.baton
        b.free = True
        pending = [t for t in range(self.n) if not b.done[t]]
        for t in pending:                                     # run on without the baton
            try:
                b.go[t].release()
            except RuntimeError:
                pass
        for t in pending:
            b.back[t].acquire(timeout=2.0)
        for t in pending:
            if not b.done[t]:                                 # still not there: ask the loop to end
                self.node._peer_threads[t].exit_event.set()
                b.back[t].acquire(timeout=2.0)
                if self.errors[t] is None:
                    self.errors[t] = "harness: thread did not finish in time (deadlock?)"
        if _BATON[0] is b:
            _BATON[0] = None

    def observe_raw(self):
        node = self.node
        return (list(iter(node._msg_queue)), [list(s.out) for s in self.socks],
                [node._peer_data.get(t) for t in range(self.n)], list(self.errors))

    @staticmethod
    def plain(raw):
        q0, sent, stored, errors = raw
        q = []
        for e in q0:
            if isinstance(e, tuple) and len(e) == 3:
                q.append([_plain(e[0]), _plain(e[1]), _plain(e[2])])
            else:
                q.append(["?", "?", _plain(e)])
        return q, sent, [_plain(d) for d in stored], errors

    def observe(self):
        return self.plain(self.observe_raw())


def _rounds(progs):
    return 3 * max([len(p) for p in progs] + [0]) + 2


def _as_progs(progs):
    return [[(bytes(c), bytes(p)) for (c, p) in prog] for prog in progs]


def _impl_run(progs, sched, recv_pt, cfg=None):
    progs = _as_progs(progs)
    r = _Run(progs, recv_pt, cfg)
    extra = r.execute(list(sched), _rounds(progs))
    q, sent, stored, errors = r.observe()
    return ("impl", q, sent, stored, errors, extra)


def _interleavings(counts):
    """all sequences containing thread t exactly counts[t] times"""
    n = len(counts)
    cur = []
    left = list(counts)

    def rec():
        if not any(left):
            yield list(cur)
            return
        for t in range(n):
            if left[t]:
                left[t] -= 1
                cur.append(t)
                yield from rec()
                cur.pop()
                left[t] += 1
    return rec()


def _n_interleavings(counts):
    import math
    r = math.factorial(sum(counts))
    for c in counts:
        r //= math.factorial(c)
    return r


def _sweep_schedules(progs, limit, seed, recv_pt, cfg=None):
    """(exhaustive?, number, points per thread, iterator of schedules): all interleavings of the threads'
    scheduling points as measured on a sequential run of the code as it is now, or `limit` random ones when there
    are more than that"""
    r = _Run(progs, recv_pt, cfg)
    seq = [t for t in range(len(progs)) for _ in range(10 * len(progs[t]) + 2)]
    r.execute(seq, 0)
    counts = [0] * len(progs)
    for (t, _) in r.baton.trace:
        counts[t] += 1
    total = _n_interleavings(counts)
    if total <= limit:
        return True, total, counts, _interleavings(counts)
    rng = random.Random(seed)
    base = [t for t in range(len(progs)) for _ in range(counts[t])]

    def sample():
        for i in range(limit):
            if _LINE[0] and i % 3:
                # line granularity: uniform shuffles keep the threads in lockstep; also run them SKEWED (one thread gets a head
                # start of k of its points, k uniform) and in BURSTS of random length, so that one thread can be anywhere inside
                # a multi-line window when another one arrives
                left = list(counts)
                s = []
                order = list(range(len(counts)))
                rng.shuffle(order)
                if i % 3 == 1:
                    t0 = order[0]
                    k = rng.randrange(left[t0] + 1)
                    s += [t0] * k
                    left[t0] -= k
                mean = rng.choice([1, 2, 5, 20, 60])
                while any(left):
                    t = rng.choice([t for t in range(len(left)) if left[t]])
                    k = min(left[t], 1 + int(rng.expovariate(1.0 / mean)))
                    s += [t] * k
                    left[t] -= k
                yield s
                continue
            s = list(base)
            rng.shuffle(s)
            yield s
    return False, limit, counts, sample()


def _outcome_key(q, sent, stored, errors, n):
    """final state without the global queue order: per-peer projections + the entries of no peer"""
    proj = [[e[1:] for e in q if e[0] == t] for t in range(n)]
    rest = [e for e in q if not (isinstance(e[0], int) and not isinstance(e[0], bool) and 0 <= e[0] < n)]
    return (proj, rest, sent, stored, errors)


def _impl_sweep(progs, limit, seed, recv_pt, cfg=None):
    progs = _as_progs(progs)
    n = len(progs)
    exhaustive, total, counts, scheds = _sweep_schedules(progs, limit, seed, recv_pt, cfg)
    rounds = _rounds(progs)
    seen = {}
    nrun = 0
    for s in scheds:
        if _TMO["cur"] != GRANT_TIMEOUT and nrun >= BLOCKING_SWEEP_LIMIT:
            exhaustive = False          # a variant that blocks costs a timeout per episode: settle for a prefix
            break
        r = _Run(progs, recv_pt, cfg)
        r.execute(s, rounds)
        raw = r.observe_raw()
        q0 = raw[0]
        # bucket by the raw observation with the queue sorted by peer (stable: per-peer order kept)
        try:
            key = repr((sorted(q0, key=lambda e: e[0]), raw[1], raw[2], raw[3]))
        except Exception:
            key = repr(raw)
        nrun += 1
        ent = seen.get(key)
        if ent is None:
            q, sent, stored, errors = _Run.plain(raw)
            ent = seen[key] = [list(_outcome_key(q, sent, stored, errors, n)), list(s), 0]
        ent[2] += 1
    # different raw keys may denote the same outcome
    merged = {}
    for (okey, wit, cnt) in seen.values():
        k = enc(okey)
        if k in merged:
            merged[k][2] += cnt
        else:
            merged[k] = [okey, wit, cnt]
    return ("sweep", nrun, exhaustive, counts, list(merged.values()))


def _impl_stress(progs, switch_us, repeats, cfg=None):
    """real concurrency (supporting search, not proof): the receive threads run freely with a tiny GIL switch
    interval, up to `repeats` times; reports the first repetition whose final state violates the property (judged by
    the independent oracle), otherwise the last one.  Same shape as a sweep result."""
    progs = _as_progs(progs)
    n = len(progs)
    out = None
    nrun = 0
    for _ in range(max(1, repeats)):
        r = _Run(progs, False, cfg, free=True)
        r.run_free(switch_us * 1e-6)
        q, sent, stored, errors = r.observe()
        nrun += 1
        out = [list(_outcome_key(q, sent, stored, errors, n)), [], 1]
        if _judge(progs, q, sent, stored, errors, []) is not None:
            break
    return ("sweep", nrun, False, [len(p) for p in progs], [out])


def _impl_linesweep(progs, limit, seed, cfg=None):
    """like a sweep, but at LINE granularity: every source line of bits/p2p.py that a receive thread executes is a scheduling
    point (sys.settrace), and `limit` random interleavings of those points are executed.  Reaches races whose window contains
    no operation on the shared containers (lazily filled tables, node-wide scratch attributes, check-then-act on plain fields)."""
    _LINE[0] = True
    try:
        return _impl_sweep(progs, limit, seed, True, cfg)
    finally:
        _LINE[0] = False


def _impl_linerun(progs, sched, cfg=None):
    """one line-granularity schedule (the replay form of a linesweep outcome); same result shape as a sweep of one schedule"""
    progs = _as_progs(progs)
    _LINE[0] = True
    try:
        r = _Run(progs, True, cfg)
        r.execute(list(sched), _rounds(progs))
        q, sent, stored, errors = r.observe()
    finally:
        _LINE[0] = False
    return ("sweep", 1, False, [len(p) for p in progs], [[list(_outcome_key(q, sent, stored, errors, len(progs))), list(sched), 1]])


IMPL = {"run": _impl_run, "sweep": _impl_sweep, "stress": _impl_stress, "linesweep": _impl_linesweep, "linerun": _impl_linerun}


# --------------------------------------------------------------------------------------
# driver side: model call, canonical forms
# --------------------------------------------------------------------------------------
def model_call(c):
    progs = c["args"][0]
    if c["op"] == "run":
        n = len(progs)
        suffix = [t for _ in range(_rounds(progs)) for t in range(n)]
        # recv as a scheduling point: one grant = one [step]; otherwise the coarser [eager step]
        return ("c18_run" if c["args"][2] else "c18_run_eager"), [progs, list(c["args"][1]) + suffix]
    return "c18_spec", [progs]


def _nf(v):
    return norm(dec(enc(v)))


_PARSE_KEYS = {}      # (command, raw payload) -> enc of the normal form of its expected parse
_INDEX = {}           # id(prog) -> (prog, {(command, parse key): [raw payloads in program order]})


def _parse_key(cmd, raw):
    k = (cmd, raw)
    v = _PARSE_KEYS.get(k)
    if v is None:
        if len(_PARSE_KEYS) > 20000:
            _PARSE_KEYS.clear()
        try:
            v = enc(_nf(_plain(w.expected_parse(cmd, raw))))
        except Exception:
            v = "<not in the catalogue>"
        _PARSE_KEYS[k] = v
    return v


def _matches(cmd, parsed, prog):
    """the raw payloads of the messages of prog with this command whose expected parse is `parsed`, in order"""
    ent = _INDEX.get(id(prog))
    if ent is None or ent[0] is not prog:
        if len(_INDEX) > 64:
            _INDEX.clear()
        idx = {}
        for (c, raw) in prog:
            c, raw = bytes(c), bytes(raw)
            idx.setdefault((c, _parse_key(c, raw)), []).append(raw)
        ent = _INDEX[id(prog)] = (prog, idx)
    try:
        return ent[1].get((cmd, enc(norm(parsed))), [])
    except Exception:
        return []


def _raw_of(cmd, parsed, progs, peer=None, used=None):
    """the raw payload (model vocabulary) of a parsed payload the node keeps: the message of the case's programs
    with that command whose EXPECTED parse (independent, c18_wire) is this value.  The node does not keep the raw
    payload, so messages with equal parses are indistinguishable: the k-th such entry of a peer is resolved to the
    k-th such message of that peer's program (other peers' programs only when the peer sent nothing like it)."""
    if not isinstance(cmd, bytes):
        return ["unexpected-command", cmd, parsed]
    if isinstance(peer, int) and not isinstance(peer, bool) and 0 <= peer < len(progs):
        own = _matches(cmd, parsed, progs[peer])
        if own:
            k = 0
            if used is not None:
                key = (peer, cmd, enc(parsed))
                k = used.get(key, 0)
                used[key] = k + 1
            return own[min(k, len(own) - 1)]
    for prog in progs:
        m = _matches(cmd, parsed, prog)
        if m:
            return m[0]
    return ["unexpected-payload", parsed]


def _abs_queue(q, progs):
    used = {}
    return [[e[0], e[1], _raw_of(e[1], e[2], progs, e[0], used)] for e in q]


def _abs_proj(proj, progs):
    used = {}
    return [[[cmd, _raw_of(cmd, parsed, progs, t, used)] for (cmd, parsed) in pr] for t, pr in enumerate(proj)]


def _abs_sent(chunks, magic):
    try:
        return [[c, p] for (c, p) in w.split_frames(b"".join(chunks), magic)]
    except Exception:
        return ["unframed", chunks]


def _abs_stored(d, progs, peer):
    d = norm(d)
    if d == []:
        return None
    if isinstance(d, list) and len(d) == 1 and d[0][0] == b"version":
        # the LAST version message of the peer with this parse
        own = _matches(b"version", d[0][1], progs[peer]) if peer < len(progs) else []
        return own[-1] if own else _raw_of(b"version", d[0][1], progs)
    return ["unexpected-peer-data", d]


_WITNESS = {}      # sweep case key -> witness schedules of its distinct outcomes (for shrink)
_COUNTERS = {"schedules": 0, "exhaustive_sweeps": 0, "sampled_sweeps": 0, "runs": 0, "stress_runs": 0,
             "global_order_same": 0, "global_order_differs": 0}
_LAST = {}


def _key(c):
    return enc(c["args"][0])


def canon(c, v):
    """implementation values are abstracted into the model's vocabulary; model values are left as they are"""
    if not (isinstance(v, (list, tuple)) and v and isinstance(v[0], str)):
        if c["op"] == "run" and isinstance(v, (list, tuple)) and len(v) == 5:
            # model observation: (queue, projections, sent, stored, finished); the global order of the queue is
            # schedule- and granularity-dependent: compared softly (statistic), the rest strictly
            if "impl_queue" in _LAST:
                _COUNTERS["global_order_same" if norm(_LAST.pop("impl_queue")) == norm(v[0]) else "global_order_differs"] += 1
            return list(v[1:])
        return v
    progs = c["args"][0]
    magic = w.MAINNET_MAGIC
    if v[0] == "impl":
        _, q, sent, stored, errors, extra = v
        n = len(progs)
        _COUNTERS["runs"] += 1
        _COUNTERS["schedules"] += 1
        proj, rest, _, _, _ = _outcome_key(q, sent, stored, errors, n)
        _LAST["impl_queue"] = _abs_queue(q, progs)
        out = [_abs_proj(proj, progs),
               [_abs_sent(s, magic) for s in sent], [_abs_stored(d, progs, t) for t, d in enumerate(stored)], True]
        if rest or any(e is not None for e in errors):
            out.append(["entries-of-no-peer", rest, "threads-ended-with", errors])
        return out
    if v[0] == "sweep":
        _, nrun, exhaustive, counts, outcomes = v
        _COUNTERS["schedules"] += nrun
        _COUNTERS["stress_runs" if c["op"] == "stress" else ("exhaustive_sweeps" if exhaustive else "sampled_sweeps")] += 1
        _WITNESS[_key(c)] = [list(o[1]) for o in sorted(outcomes, key=lambda o: o[2])]
        res = []
        for (okey, wit, cnt) in outcomes:
            proj, rest, sent, stored, errors = okey
            out = [_abs_proj(proj, progs),
                   [_abs_sent(s, magic) for s in sent], [_abs_stored(d, progs, t) for t, d in enumerate(stored)]]
            if rest or any(e is not None for e in errors):
                out.append(["entries-of-no-peer", rest, "threads-ended-with", errors])
            res.append(out)
        if len(res) == 1:
            return res[0]
        return ["schedule-dependent", [[r, o[1], o[2]] for r, o in zip(res, outcomes)]]
    return v


def _cfg_of(c):
    n = {"run": 3, "sweep": 4, "stress": 3, "linesweep": 3, "linerun": 2}[c["op"]]
    return c["args"][n] if len(c["args"]) > n else None


_BIG_SHRINKS = {"left": 40}      # evaluations of large shrink candidates are expensive: a budget per check process


def _blocks(progs):
    """programs with a block of one thread's messages removed (halves ... sixteenths)"""
    for t in range(len(progs)):
        L = len(progs[t])
        for parts in (2, 4, 16):
            size = max(1, L // parts)
            for start in range(0, L, size):
                if size < L and _BIG_SHRINKS["left"] > 0:
                    _BIG_SHRINKS["left"] -= 1
                    p2 = [list(p) for p in progs]
                    del p2[t][start:start + size]
                    yield p2


def shrink(c):
    progs, rest = c["args"][0], c["args"][1:]
    cfg = _cfg_of(c)
    tail = [cfg] if cfg is not None else []
    if c["op"] == "sweep":
        # a concrete schedule for every distinct outcome the sweep saw (rarest first)
        for sch in _WITNESS.get(_key(c), []):
            yield case(c["cls"] + ">run", "run", progs, sch, rest[2], *tail)
        return
    if c["op"] == "linesweep":
        for sch in _WITNESS.get(_key(c), []):
            yield case(c["cls"] + ">linerun", "linerun", progs, sch, *tail, timeout=120.0)
        return
    if c["op"] == "linerun":
        sched = list(rest[0])
        for t in range(len(progs)):
            for i in range(len(progs[t])):
                p2 = [list(p) for p in progs]
                del p2[t][i]
                yield case(c["cls"], "linerun", p2, sched, *tail, timeout=120.0)
        if sched:
            yield case(c["cls"], "linerun", progs, sched[:len(sched) // 2], *tail, timeout=120.0)
        return
    if c["op"] == "stress":
        # real concurrency is not replayable step by step: the replay is the programs (re-run up to `repeats` times).
        # First see whether the serialised scheduler reproduces it (round robin, recv not a scheduling point).
        yield case(c["cls"] + ">run", "run", progs, [], False, *tail, timeout=300.0)
        if len(progs) > 1 and not progs[-1]:
            yield case(c["cls"], "stress", progs[:-1], rest[0], rest[1], *tail, timeout=300.0)
        for p2 in _blocks(progs):
            yield case(c["cls"], "stress", p2, rest[0], rest[1], *tail, timeout=300.0)
        return
    sched, recv_pt = list(rest[0]), rest[1]
    n = len(progs)
    big = sum(len(p) for p in progs) > 40
    extra = {"timeout": 300.0} if big else {}

    def mk(p2, s2, tl=tail):
        return case(c["cls"], "run", p2, s2, recv_pt, *tl, **extra)
    if cfg is not None:
        yield mk(progs, sched, [])                                  # the node's default parameters
    # drop the last thread when it has nothing to do (ids stay), a message, then schedule entries
    if n > 1 and not progs[-1]:
        yield mk(progs[:-1], [t for t in sched if t != n - 1])
    if big:
        # large programs: remove blocks of messages, never one by one
        if sched:
            yield mk(progs, [])
        for p2 in _blocks(progs):
            yield mk(p2, sched)
        return
    for t in range(n):
        for i in range(len(progs[t])):
            p2 = [list(p) for p in progs]
            del p2[t][i]
            yield mk(p2, sched)
    if sched:
        yield mk(progs, sched[:len(sched) // 2])
        for i in range(len(sched) - 1, -1, -1):
            yield mk(progs, sched[:i] + sched[i + 1:])


# --------------------------------------------------------------------------------------
# the literal property on the implementation (worker side, independent of the model)
# --------------------------------------------------------------------------------------
def _expected(progs):
    """per peer: (queue projection as the node should hold it, bytes it should have been sent, peer data)"""
    out = []
    for t, prog in enumerate(progs):
        proj, sent, data = [], [], {}
        for (cmd, raw) in prog:
            if cmd == b"version":
                sent.append(w.frame(b"verack", b""))
                data = {b"version": w.expected_parse(cmd, raw)}
            elif cmd == b"ping":
                sent.append(w.frame(b"pong", int.from_bytes(raw, "little").to_bytes(8, "little")))
            elif cmd not in HANDLED:
                proj.append([t, cmd, _plain(w.expected_parse(cmd, raw))])
        out.append((proj, sent, _plain(data)))
    return out


def _judge(progs, q, sent, stored, errors, trace):
    n = len(progs)
    exp = _expected(progs)
    where = " [trace: %s%s]" % ("... " if len(trace) > 60 else "", " ".join("%d:%s" % e for e in trace[-60:]))
    for t in range(n):
        if errors[t] is not None:
            return "receive thread of peer %d ended with %s%s" % (t, errors[t], where)
    for t in range(n):
        got = [e for e in q if e[0] == t]
        if got != exp[t][0]:
            missing = [e for e in exp[t][0] if e not in got]
            extra = [e for e in got if e not in exp[t][0]]
            if missing:
                return "message %r of peer %d is not in the queue (lost)%s" % (missing[0][1:2], t, where)
            if extra:
                return "queue holds %r attributed to peer %d which that peer did not send as an unhandled message " \
                       "(handled message left queued / misattributed)%s" % (extra[0][1:2], t, where)
            return "peer %d's messages are queued %r, sent order was %r (duplicated or reordered)%s" % (
                t, [e[1] for e in got], [e[1] for e in exp[t][0]], where)
    stray = [e for e in q if not (isinstance(e[0], int) and 0 <= e[0] < n)]
    if stray:
        return "queue entry %r is attributed to no peer%s" % (stray[0][:2], where)
    if len(q) != sum(len(e[0]) for e in exp):
        return "queue has %d entries, %d unhandled messages were sent%s" % (len(q), sum(len(e[0]) for e in exp), where)
    for t in range(n):
        if b"".join(sent[t]) != b"".join(exp[t][1]):
            try:
                g = [(c, p.hex()) for (c, p) in w.split_frames(b"".join(sent[t]))]
            except Exception:
                g = "unframed bytes"
            return "peer %d was sent %r, expected the replies %r (verack per version, pong with the same nonce per " \
                   "ping, on the peer's own socket)%s" % (t, g, [(c, p.hex()) for (c, p) in w.split_frames(b"".join(exp[t][1]))], where)
        if stored[t] != exp[t][2]:
            return "peer data of peer %d is %r, expected %r%s" % (t, stored[t], exp[t][2], where)
    return None


def prop_oracle(c):
    progs = _as_progs(c["args"][0])
    cfg = _cfg_of(c)
    if c["op"] == "stress":
        for i in range(max(1, c["args"][2])):
            r = _Run(progs, False, cfg, free=True)
            r.run_free(c["args"][1] * 1e-6)
            q, sent, stored, errors = r.observe()
            v = _judge(progs, q, sent, stored, errors, [])
            if v is not None:
                return "receive threads running freely (GIL switch interval %d us), repetition %d: %s" % (c["args"][1], i + 1, v)
        return None
    if c["op"] in ("linesweep", "linerun"):
        _LINE[0] = True
        try:
            if c["op"] == "linerun":
                scheds = [list(c["args"][1])]
            else:
                _, _, _, scheds = _sweep_schedules(progs, c["args"][1], c["args"][2], True, cfg)
            for s in scheds:
                r = _Run(progs, True, cfg)
                r.execute(s, _rounds(progs))
                q, sent, stored, errors = r.observe()
                v = _judge(progs, q, sent, stored, errors, [])
                if v is not None:
                    return "line-granularity schedule %r: %s" % (s, v)
        finally:
            _LINE[0] = False
        return None
    if c["op"] == "run":
        scheds, recv_pt = [list(c["args"][1])], c["args"][2]
    else:
        recv_pt = c["args"][3]
        _, _, _, scheds = _sweep_schedules(progs, c["args"][1], c["args"][2], recv_pt, cfg)
    for s in scheds:
        r = _Run(progs, recv_pt, cfg)
        r.execute(s, _rounds(progs))
        q, sent, stored, errors = r.observe()
        v = _judge(progs, q, sent, stored, errors, r.baton.trace)
        if v is not None:
            return "schedule %r%s: %s" % (s, (", Node(%s)" % ", ".join("%s=%r" % tuple(kv) for kv in cfg)) if cfg else "", v)
    return None


# --------------------------------------------------------------------------------------
# generators
# --------------------------------------------------------------------------------------
KINDS = ("ping", "version", "verack", "inv", "addr", "unknown")


def _msg(kind, k):
    """the k-th distinct message of a kind, as (command, payload)"""
    if kind == "ping":
        return (b"ping", ((0x9E3779B97F4A7C15 * (k + 1)) % 2 ** 64).to_bytes(8, "little"))
    if kind == "ping-zero":             # a legal ping whose 8-byte nonce is 0 / 2^64-1 / has zero low or high bytes
        return (b"ping", [0, 2 ** 64 - 1, 1 << 56, 0xFF, 1 << 32, 0x0100][k % 6].to_bytes(8, "little"))
    if kind == "ping-short":
        return (b"ping", (1000 + k).to_bytes(4, "little"))
    if kind == "version":
        return (b"version", w.version_payload(k))
    if kind == "version-noua":          # a legal version message without a user agent (user_agent_bytes = 0)
        return (b"version", w.version_payload(k, "empty"))
    if kind == "version-longua":        # ... with a 200-byte user agent
        return (b"version", w.version_payload(k, "long"))
    if kind.startswith("version-pv"):   # a version announcing this protocol version (other fields depend on k)
        return (b"version", w.version_payload(k, ("plain", "empty", "long")[k % 3], protocol_version=int(kind[10:])))
    if kind == "version-rand":          # every integer / bool field varied
        pv = w.PROTOCOL_VERSIONS[(k * 7 + 3) % len(w.PROTOCOL_VERSIONS)]
        return (b"version", w.version_payload(k, ("plain", "long", "empty", "plain")[k % 4], protocol_version=pv,
                                              services=(k * 0x0101010101) % 2 ** 64, start_height=(k * 99991) % 2 ** 32,
                                              relay=bool((k // 2) % 2), timestamp=(k * 0x123456789) % 2 ** 64,
                                              nonce=(k * 0xDEADBEEFCAFEF00D) % 2 ** 64, addr_recv_services=k % 2 ** 16))
    if kind == "getheaders":
        return (b"getheaders", w.getheaders_payload(k))
    if kind == "feefilter":
        return (b"feefilter", (1000 * k + 1).to_bytes(8, "little"))
    if kind == "sendcmpct":
        return (b"sendcmpct", bytes([k % 2]) + (1 + k % 2).to_bytes(8, "little"))
    if kind == "verack":
        return (b"verack", b"")
    if kind == "inv":
        return (b"inv", w.inv_payload(k))
    if kind == "addr":
        return (b"addr", w.addr_payload(k))
    if kind == "unknown":
        return [(b"getaddr", b""), (b"foobar", b"payload-%d" % k), (b"pong", (77 + k).to_bytes(8, "little")),
                (b"mempool", b""), (b"sendheaders", b"")][k % 5]
    if kind == "unknown-odd":           # legal but odd command names: EMPTY (12 NUL bytes), 12 characters, words the code uses
        return [(b"", b"empty-name-%d" % k), (b"abcdefghijkl", b""), (b"payload", b"p%d" % k), (b"parse", b""), (b"_", b"u%d" % k),
                (b"command", b""), (b"handle", b"h%d" % k), (b"msg", b""), (b"recv", b"r")][k % 9]
    raise KeyError(kind)


def _progs(kinds_per_thread):
    k = itertools.count()
    return [[_msg(kind, next(k)) for kind in kinds] for kinds in kinds_per_thread]


def _cls_of(kinds_per_thread):
    flat = [k for ks in kinds_per_thread for k in ks]
    h = sum(1 for k in flat if k in ("ping", "ping-short", "verack") or k.startswith("version"))
    return "all-handled" if h == len(flat) else ("none-handled" if h == 0 else "mixed")


def gen_cases(rng, tier):
    T = tier == "thorough"
    out = []
    A = KINDS
    FINE, EAGER = True, False      # is the sockets' recv a scheduling point?
    # --- the regression: the losing interleaving of the old body and its relatives.  Old body, fine schedule
    #     0:recv 1:recv 0:append 1:append 0:test 0:pop 0:send 1:test; without the recv points
    #     0:append 1:append 0:test 0:pop 0:send 1:test.  Under the repaired body the same schedules are harmless. ---
    for (a, b) in (("ping", "inv"), ("version", "addr"), ("verack", "unknown"), ("ping", "version"), ("inv", "addr")):
        for sched in ([0, 1, 0, 1, 0, 0, 0, 1], [1, 0, 1, 0, 1, 1, 1, 0], [0, 1, 0, 1, 0, 0, 0, 1, 1]):
            out.append(case("race-regression", "run", _progs([[a], [b]]), sched, FINE))
            out.append(case("race-regression", "run", _progs([[b], [a]]), sched, FINE))
        for sched in ([0, 1, 0, 0, 0, 1], [1, 0, 1, 1, 1, 0], [0, 1, 0, 1]):
            out.append(case("race-regression", "run", _progs([[a], [b]]), sched, EAGER))
            out.append(case("race-regression", "run", _progs([[b], [a]]), sched, EAGER))
    # --- repeated messages: the same peer sends the IDENTICAL message twice (and two peers send the same message):
    #     every copy must be queued / answered exactly once (a de-duplicating queue would drop the second copy) ---
    for kinds in (["inv", "inv"], ["addr", "addr", "addr"], ["unknown", "unknown"], ["ping", "ping"], ["version", "version"],
                  ["inv", "ping", "inv"]):
        same = [[_msg(kd, 1) for kd in kinds]]
        out.append(case("duplicate-messages", "run", same, [0] * 8, FINE))
        out.append(case("duplicate-messages", "run", [same[0], list(same[0])], [0, 1] * 8, FINE))
        out.append(case("duplicate-messages", "sweep", [same[0], list(same[0])][: 2 if len(kinds) < 3 else 1], 10, 0, EAGER))
    # two messages of one unknown command with different raw payloads (both parse to None)
    out.append(case("duplicate-messages", "run", [[(b"foobar", b"payload-1"), (b"foobar", b"payload-6")]], [0] * 6, FINE))
    # --- degenerate shapes ---
    for mode in (FINE, EAGER):
        out.append(case("no-threads", "run", [], [0, 1, 2], mode))
        out.append(case("empty-program", "run", _progs([[], ["ping"], []]), [0, 2, 1, 1, 0, 1], mode))
        out.append(case("single-thread", "run", _progs([list(A)]), [0] * 5, mode))
        out.append(case("single-thread", "sweep", _progs([["version", "inv", "ping", "ping-short"]]), 10, 0, mode))
    for i in range(40 if T else 10):
        progs = _progs([[rng.choice(A) for _ in range(rng.randrange(1, 4))] for _ in range(rng.randrange(2, 4))])
        n = len(progs)
        sched = [rng.choice(list(range(n)) + [n, n + 3, -1]) for _ in range(rng.randrange(0, 25))]
        out.append(case("idle-steps", "run", progs, sched, i % 2 == 0))
    # --- exhaustive: 2 threads x 1 message, all 64 pairs (the six kinds + the version variants), all schedules,
    #     both granularities ---
    AV = A + ("version-noua", "version-longua", "version-pv209", "getheaders")
    for a in AV:
        for b in AV:
            for mode in (FINE, EAGER):
                out.append(case("sweep-2x1-" + _cls_of([[a], [b]]), "sweep", _progs([[a], [b]]), 10 ** 6, 0, mode))
    # --- exhaustive: 2 threads x <= 2 messages (steps test / append / send; thorough: every pair of programs) ---
    progs1 = [[a] for a in A] + [[a, b] for a in A for b in A]
    pairs = [(p, q) for p in progs1 for q in progs1 if len(p) + len(q) > 2]
    fine_pairs = rng.sample(pairs, 60 if T else 3)
    if not T:
        pairs = rng.sample(pairs, 60)
        pairs += [(["ping", "inv"], ["inv", "ping"]), (["version", "ping"], ["addr", "unknown"])]
    # ... and pairs of programs that contain a version without / with a long user agent
    progsv = [p for p in [[a] for a in AV] + [[a, b] for a in AV for b in AV] if any(k.startswith("version-") for k in p)]
    for _ in range(400 if T else 16):
        p, q = rng.choice(progsv), rng.choice(progs1)
        pairs.append((p, q) if rng.random() < 0.5 else (q, p))
    for (p, q) in pairs:
        out.append(case("sweep-2x2-" + _cls_of([p, q]), "sweep", _progs([p, q]), 10 ** 6, 0, EAGER))
    for (p, q) in fine_pairs:                                   # with the recv steps too (924 schedules each)
        out.append(case("sweep-2x2-fine-" + _cls_of([p, q]), "sweep", _progs([p, q]), 10 ** 6, 0, FINE))
    # --- exhaustive: 3 threads x 1 message ---
    triples = [(a, b, c_) for a in A for b in A for c_ in A]
    fine_triples = rng.sample(triples, 30 if T else 1)
    if not T:
        triples = rng.sample(triples, 25) + [("ping", "inv", "version")]
    triples += [tuple(rng.choice(AV) for _ in range(3)) for _ in range(60 if T else 5)]
    for tr in triples:
        out.append(case("sweep-3x1-" + _cls_of([[x] for x in tr]), "sweep", _progs([[x] for x in tr]), 10 ** 6, 0, EAGER))
    for tr in fine_triples:
        out.append(case("sweep-3x1-fine-" + _cls_of([[x] for x in tr]), "sweep", _progs([[x] for x in tr]), 10 ** 6, 0, FINE))
    # --- sampled: 3 threads x 3 messages (and 2 x 3, 3 x 2) ---
    A2 = A + ("ping-short", "version-noua", "version-longua", "version-rand", "version-pv60000", "version-pv0",
              "getheaders", "feefilter", "sendcmpct")
    for i in range(240 if T else 12):
        shape = [(3, 3), (3, 3), (2, 3), (3, 2)][i % 4]
        ks = [[rng.choice(A2) for _ in range(shape[1])] for _ in range(shape[0])]
        out.append(case("sample-%dx%d-%s" % (shape[0], shape[1], _cls_of(ks)), "sweep", _progs(ks),
                        1000 if T else 200, rng.randrange(2 ** 30), i % 3 == 0))
    # --- single schedules, compared with the model's run of the SAME schedule ---
    for i in range(4000 if T else 500):
        nthreads = rng.choice([2, 2, 3, 3, 3, 4])
        ks = [[rng.choice(A2) for _ in range(rng.randrange(0, 4))] for _ in range(nthreads)]
        progs = _progs(ks)
        mode = i % 2 == 0
        base = [t for t in range(nthreads) for _ in range((3 if mode else 2) * len(ks[t]))]
        rng.shuffle(base)
        if i % 3 == 0:
            base = base[:rng.randrange(0, len(base) + 1)]       # the tail is left to the round robin
        out.append(case("run-%d-threads-%s" % (nthreads, _cls_of(ks)), "run", progs, base, mode))
    # --- history: what a handler does must not depend on what the SAME peer (or another peer) sent earlier, nor on the
    #     node's own constructor parameters: every ping is answered by exactly one pong to its sender, every
    #     unhandled message queued, whatever version messages (any protocol version / services / relay / user agent /
    #     start height), veracks or pings came before - version after ping, two versions, no version at all ---
    PV = ["version-pv%d" % v for v in w.PROTOCOL_VERSIONS]
    hist = [[]] + [[v] for v in PV] + [["version-rand"], ["version-noua"], ["verack"], ["version", "verack"]]
    hist += [[a, b] for (a, b) in (("version-pv209", "version-pv70015"), ("version-pv70015", "version-pv209"),
                                   ("version-pv0", "version-pv60000"), ("version-rand", "version-rand"))]
    hist += [["ping", v] for v in ("version-pv209", "version-pv60000", "version-pv70015")]
    probes = [["ping"], ["ping", "inv", "ping"], ["getheaders", "ping"], ["addr", "ping", "ping-short"],
              ["inv", "feefilter", "sendcmpct"], ["ping", "version-pv31402", "ping"]]
    i = 0
    for h in hist:
        for pr in probes:
            i += 1
            out.append(case("history-1-peer", "run", _progs([h + pr]), [], i % 2 == 0))
    for i in range(60 if T else 14):                                  # several peers with different histories, interleaved
        ks = [rng.choice(hist) + rng.choice(probes) for _ in range(rng.choice([2, 3]))]
        out.append(case("history-peers", "sweep", _progs(ks), 400 if T else 120, rng.randrange(2 ** 30), i % 4 == 0))
    cfgs = [[["protocol_version", v]] for v in w.PROTOCOL_VERSIONS]
    cfgs += [[["services", 0], ["relay", False]], [["protocol_version", 60000], ["services", 1033], ["relay", True]],
             [["protocol_version", 209], ["relay", False], ["datadir", ".bits/other"]], [["serve_rpc", False], ["seeds", []]]]
    for i, cfg in enumerate(cfgs):
        for h in ([], ["version-pv70015"], ["version-pv209"], ["version-rand", "verack"]):
            out.append(case("history-node-params", "run", _progs([h + ["ping", "inv", "ping"], ["ping", "addr"]]),
                            [0, 1] * 4, (i + len(h)) % 2 == 0, cfg))
        out.append(case("history-node-params", "sweep", _progs([["version-rand", "ping", "inv"], ["ping", "getheaders"]]),
                        10 ** 6 if T else 40, i, False, cfg))
    # --- high volume: more than 1000 unhandled messages in total (1..3 peers, recv not a scheduling point, coarse
    #     schedules): every one of them must be in the final queue exactly once, in its peer's sending order ---
    def bulk(n, t):
        ks = []
        for i in range(n):
            ks.append("ping" if i % 97 == 50 else ("version" if i % 211 == 100 else ("inv", "addr", "unknown")[(i + t) % 3]))
        return ks
    vol = [("volume-1-peer", [bulk(1100, 0)], [0] * 2300),                         # sequential
           ("volume-2-peers", [bulk(650, 0), bulk(600, 1)], []),                    # round robin
           ("volume-3-peers", [bulk(420, 0), bulk(380, 1), bulk(400, 2)],          # blocks of 50 grants per peer
            [t for _ in range(20) for t in (2, 0, 1) for _ in range(50)])]
    if T:
        vol.append(("volume-3-peers", [bulk(900, 0), bulk(700, 1), bulk(800, 2)],
                    [rng.randrange(3) for _ in range(5000)]))
        vol.append(("volume-1-peer", [["inv"] * 2100], []))
    for (cls, ks, sched) in vol:
        out.append(case(cls, "run", _progs(ks), sched, EAGER, timeout=300.0))
    # --- real concurrency (supporting search): the receive threads run freely on the node's own containers with a tiny
    #     GIL switch interval; finds what happens INSIDE a step the model treats as atomic (e.g. iterating the shared
    #     queue while another thread appends).  No message may be lost and no receive thread may die. ---
    # --- line granularity: random interleavings where EVERY source line of p2p.py is a scheduling point (short programs;
    #     the first messages of a fresh node matter most: lazily initialised node-wide state is filled then) ---
    lsw = [(["ping"], ["ping"]), (["version"], ["ping"]), (["ping", "inv"], ["version", "verack"]), (["verack"], ["version"], ["ping"]),
           (["inv"], ["ping"]), (["ping"], ["unknown"], ["addr"])]
    if T:
        lsw += [(["ping", "ping"], ["ping", "version"], ["inv", "ping"]), (["version", "verack", "ping"], ["version", "verack", "ping"]),
                (["addr", "ping"], ["inv", "version"])]
    for i, ks in enumerate(lsw):
        out.append(case("line-granularity-%d-peers" % len(ks), "linesweep", _progs([list(k) for k in ks]), 400 if T else 60, i,
                        timeout=300.0))
    # --- boundary ping nonces (0, 2^64-1, zero low / high bytes): answered with a pong carrying the same nonce ---
    for i in range(6 if T else 2):
        ks = [["ping-zero"] * 3, ["ping-zero", "inv", "ping-zero"]]
        pr = [[_msg(kd, 6 * i + 3 * t + j) for j, kd in enumerate(kk)] for t, kk in enumerate(ks)]
        out.append(case("ping-boundary-nonces", "sweep", pr, 20000 if T else 30, i, False))
        out.append(case("ping-boundary-nonces", "run", pr, [t for _ in range(12) for t in (0, 1)], EAGER))
    # --- odd but legal command names (empty name = 12 NUL bytes, a full 12-character name, words the code itself uses):
    #     unknown commands like any other - queued once, in order, and the peer's later ping still answered ---
    for i in range(9 if T else 3):
        ks = [["unknown-odd"] * 3 + ["ping"], ["unknown-odd", "ping", "unknown-odd"]]
        pr = _progs(ks)
        # rotate so that every odd name is used within a few cases
        pr = [[(_msg("unknown-odd", 9 * i + 3 * t + j) if c not in (b"ping",) else (c, p)) for j, (c, p) in enumerate(prog)]
              for t, prog in enumerate(pr)]
        out.append(case("odd-command-names", "sweep", pr, 10 ** 6 if T else 30, i, False))
        out.append(case("odd-command-names", "run", pr, [t for _ in range(12) for t in (0, 1)], EAGER))
    stress = [(3, 500, 10, 3), (4, 350, 5, 2)]
    if T:
        stress += [(3, 800, 1, 4), (3, 500, 50, 4), (5, 400, 10, 4), (2, 1500, 10, 4), (6, 300, 2, 4), (3, 1000, 5, 4)]
    for (npeers, nmsg, us, reps) in stress:
        out.append(case("stress-%d-peers" % npeers, "stress", _progs([bulk(nmsg, t) for t in range(npeers)]), us, reps,
                        timeout=300.0))
    return out


# --------------------------------------------------------------------------------------
# additional checks: the detector must flag the old loop body (model of the pre-repair code)
# --------------------------------------------------------------------------------------
def extra_checks(ctx):
    out = []
    model, stats = ctx["model"], ctx["stats"]
    if model is not None:
        progs = _progs([["ping"], ["inv"]])
        sched = [0, 1, 0, 1, 0, 0, 0, 1]
        old_e = model.call("c18_run_old_eager", [progs, [0, 1, 0, 0, 0, 1] + [0, 1] * 6])
        old = model.call("c18_run_old", [progs, sched + [0, 1] * 6])
        spec = model.call("c18_spec", [progs])
        new = model.call("c18_run", [progs, sched + [0, 1] * 6])
        ok = old[0] == "ok" and spec[0] == "ok" and new[0] == "ok" and old_e[0] == "ok" \
            and norm(old_e[1][0]) == norm(old[1][0])
        if ok:
            q_old = norm(old[1][0])
            lost = [1, progs[1][0][0], progs[1][0][1]] not in q_old
            kept = [0, progs[0][0][0], progs[0][0][1]] in q_old
            ok = lost and kept and norm(new[1][1]) == norm(spec[1][0]) and norm(new[1][2]) == norm(spec[1][1]) \
                and norm(old[1][1]) != norm(spec[1][0]) and new[1][4] is True and old[1][4] is True
        if not ok:
            out.append({"kind": "obligation", "obligation": "harness:old-body-self-test",
                        "detail": "the model of the pre-repair loop body no longer exhibits the loss on the racing "
                                  "schedule, or the repaired model disagrees with the specification: %r %r %r" % (old, new, spec)})
    stats["extra"] = dict(_COUNTERS)
    stats["extra"]["note"] = "schedules = interleavings executed against the real Node.recv_loop threads; " \
                             "every one compared with the model (same schedule) or the schedule-free specification"
    stats["exhaustive"] = _COUNTERS["exhaustive_sweeps"] > 0
    return out


# --------------------------------------------------------------------------------------
# the same computation as a Coq term (vm_compute cross-check of the extraction)
# --------------------------------------------------------------------------------------
def _cb(b):
    return "[" + "; ".join("x%02x" % x for x in b) + "]"


def _cframe(f):
    return "(%s, %s)" % (_cb(f[0]), _cb(f[1]))


def _clist(items):
    return "[" + "; ".join(items) + "]"


def coq_equation(c, mr):
    if mr[0] != "ok":
        return None
    op, args = model_call(c)
    progs = _clist(_clist(_cframe(f) for f in prog) for prog in args[0])
    v = mr[1]
    if sum(len(p) for p in args[0]) > 9:
        return None
    if op == "c18_run":
        proj = _clist(_clist(_cframe(f) for f in s) for s in v[0])
        sent = _clist(_clist(_cframe(f) for f in s) for s in v[1])
        stored = _clist("None" if s is None else "Some %s" % _cb(s) for s in v[2])
        sched = _clist("(%d)%%Z" % t for t in args[1])
        return "c18_final (c18_run %s %s) = (%s, %s, %s, %s)" % (progs, sched, proj, sent, stored,
                                                                "true" if v[3] else "false")
    q = _clist(_clist(_cframe(f) for f in s) for s in v[0])
    sent = _clist(_clist(_cframe(f) for f in s) for s in v[1])
    stored = _clist("None" if s is None else "Some %s" % _cb(s) for s in v[2])
    return "c18_spec %s = (%s, %s, %s)" % (progs, q, sent, stored)
