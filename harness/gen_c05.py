"""Gen table of C05/C04: the constants bits.tx uses NOW (read from the imported module, fail-closed)."""


def register(gt):
    @gt.table("TxGen")
    def gen_tx():
        gt.load()
        import inspect
        import bits.tx as m
        assert isinstance(m.UINT32_MAX, int)
        sig_txin = inspect.signature(m.txin)
        seq = sig_txin.parameters["sequence"].default
        assert isinstance(seq, bytes), type(seq)
        sig_tx = inspect.signature(m.tx)
        ver = sig_tx.parameters["version"].default
        lt = sig_tx.parameters["locktime"].default
        wits = sig_tx.parameters["script_witnesses"].default
        assert isinstance(ver, int) and isinstance(lt, int) and wits == [], (ver, lt, wits)
        sig_cb = inspect.signature(m.coinbase_txin)
        cbseq = sig_cb.parameters["sequence"].default
        assert isinstance(cbseq, bytes)
        out = gt.HEADER
        out += "Definition uint32_max : Z := %s.\n" % gt.coq_Z(m.UINT32_MAX)
        out += "Definition txin_default_sequence : bytes := %s.\n" % gt.coq_bytes(seq)
        out += "Definition coinbase_txin_default_sequence : bytes := %s.\n" % gt.coq_bytes(cbseq)
        out += "Definition tx_default_version : Z := %s.\n" % gt.coq_Z(ver)
        out += "Definition tx_default_locktime : Z := %s.\n" % gt.coq_Z(lt)
        return out
