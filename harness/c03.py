"""C03 - secp256k1 group law, public-key derivation and key generation."""
from common import case

ID = "C03"
MAKE_TARGETS = ["Props/C03.v", "Props/SmallCurvesAll.v", "Props/Secp256k1.v", "GenProps/CurveGen.v"]
GEN_TABLES = ["CurveGen"]
CASE_TIMEOUT = 60.0
FILLER = {"secp-mul-rand"}
ASSUMPTIONS = [
    "curve_facts secp256k1 (chord-and-tangent addition on secp256k1 is a commutative group, n*G = infinity, k*G != infinity for "
    "0<k<n, Fermat inverses mod n) is an EXPLICIT PREMISE of the generic theorems; it is PROVED for secp256k1 itself in coq/GL + "
    "Props/Secp256k1.v (generic group law incl. associativity over every prime field, primality of p and n by Pocklington "
    "certificates, n*G = infinity by a checked slope certificate; closed under the global context) and by kernel computation over "
    "all points and triples for y^2=x^3+7 over F_43, F_79, F_67",
    "modelled, not verified: src/bits/ecmath.py (field helpers, point_add, point_negate, point_scalar_mul, point_is_on_curve), "
    "utils.privkey_int / compute_point, keys.key",
    "secrets.randbelow is replaced by a scripted source inside the worker",
]

# the STANDARD's parameters (SEC 2), not read from the repo: the model is run with these
P = 0xFFFFFFFFFFFFFFFFFFFFFFFFFFFFFFFFFFFFFFFFFFFFFFFFFFFFFFFEFFFFFC2F
N = 0xFFFFFFFFFFFFFFFFFFFFFFFFFFFFFFFEBAAEDCE6AF48A03BBFD25E8CD0364141
GX = 0x79BE667EF9DCBBAC55A06295CE870B07029BFCDB2DCE28D959F2815B16F81798
GY = 0x483ADA7726A3C4655DA4FBFC0E1108A8FD17B448A68554199C47D08FFB10D4B8
CURVES = {
    "secp": dict(p=P, a=0, b=7, n=N, G=(GX, GY)),
    "c43": dict(p=43, a=0, b=7, n=31, G=(2, 12)),
    "c79": dict(p=79, a=0, b=7, n=67, G=None),
    "c67": dict(p=67, a=0, b=7, n=79, G=None),
}


def _first_point(p):
    for x in range(p):
        for y in range(p):
            if (y * y - x ** 3 - 7) % p == 0:
                return (x, y)


for _k in ("c79", "c67"):
    CURVES[_k]["G"] = _first_point(CURVES[_k]["p"])


# ---------------------------------------------------------------- independent reference (Jacobian-free, pow(-1))
def ref_add(c, A, B):
    p = c["p"]
    if A is None:
        return B
    if B is None:
        return A
    if A[0] == B[0] and (A[1] + B[1]) % p == 0:
        return None
    if A == B:
        lam = (3 * A[0] * A[0] + c["a"]) * pow(2 * A[1], -1, p) % p
    else:
        lam = (B[1] - A[1]) * pow(B[0] - A[0], -1, p) % p
    x = (lam * lam - A[0] - B[0]) % p
    return (x, (lam * (A[0] - x) - A[1]) % p)


def ref_mul(c, k, A):
    # LSB-first (a different algorithm from the library's MSB-first loop)
    R = None
    while k > 0:
        if k & 1:
            R = ref_add(c, R, A)
        A = ref_add(c, A, A)
        k >>= 1
    return R


def ref_on(c, A):
    if A is None:
        return True
    p = c["p"]
    return 0 <= A[0] < p and 0 <= A[1] < p and (A[1] * A[1] - A[0] ** 3 - c["a"] * A[0] - c["b"]) % p == 0


def all_points(c):
    p = c["p"]
    return [None] + [(x, y) for x in range(p) for y in range(p) if ref_on(c, (x, y))]


def congruent_keys(count=3):
    """uncompressed SEC1 buffers 04||X||Y with X = x0 + p (x0 a small abscissa of a real curve point, X < 2^256) and the
    matching Y: the curve equation holds MODULO p but the coordinate is out of range - SEC1 requires rejection.
    Also Y = y0 + p variants where they fit."""
    out = []
    x0 = 0
    while len(out) < count and x0 < 2 ** 32:
        y2 = (x0 ** 3 + 7) % P
        y = pow(y2, (P + 1) // 4, P)
        if y * y % P == y2 and x0 + P < 2 ** 256:
            out.append(b"\x04" + (x0 + P).to_bytes(32, "big") + y.to_bytes(32, "big"))
        x0 += 1
    return out


def _pt(v):
    return None if v is None else (v[0], v[1])


# ---------------------------------------------------------------- implementation side (runs in the worker)
def _ctx(cname):
    import contextlib
    import curvectx
    if cname == "secp":
        return contextlib.nullcontext()
    c = CURVES[cname]
    return curvectx.retarget(c["p"], c["a"], c["b"], c["n"], c["G"])


def _add(cname, A, B):
    import bits.ecmath as ec
    with _ctx(cname):
        return ec.point_add(_pt(A), _pt(B))


def _mul(cname, k, A):
    import bits.ecmath as ec
    with _ctx(cname):
        return ec.point_scalar_mul(k, _pt(A))


def _neg(cname, A):
    import bits.ecmath as ec
    with _ctx(cname):
        return ec.point_negate(_pt(A))


def _on(cname, x, y):
    import bits.ecmath as ec
    with _ctx(cname):
        return ec.point_is_on_curve(x, y)


def _distrib(cname, j, k, A):
    import bits.ecmath as ec
    with _ctx(cname):
        A = _pt(A)
        return [ec.point_scalar_mul(j + k, A), ec.point_add(ec.point_scalar_mul(j, A), ec.point_scalar_mul(k, A))]


def _assoc(cname, j, k, A):
    import bits.ecmath as ec
    with _ctx(cname):
        A = _pt(A)
        return [ec.point_scalar_mul(j * k, A), ec.point_scalar_mul(j, ec.point_scalar_mul(k, A))]


def _privkey_int(b):
    import bits.utils
    return bits.utils.privkey_int(b)


def _compute_point(b):
    import bits
    return bits.compute_point(b)


def _pub(b, compressed):
    import bits.keys
    return bits.keys.pub(b, compressed=compressed)


def _keygen(draw, from_top=False):
    """secrets.randbelow(bound) returns `draw`, or bound-1-draw when from_top (the largest values the source can return);
    the other entry points of the `secrets` / `random.SystemRandom` / `os.urandom` family are scripted consistently
    (first call: the same value as a 32-byte big-endian string / bit string, later calls: real randomness, so that
    rejection loops terminate) - whatever source key() draws from, the value it sees first is the edge value"""
    import bits.keys
    import os
    import secrets
    seen = []
    state = {"first": True}
    orig = (secrets.randbelow, secrets.token_bytes, secrets.randbits, os.urandom)
    N_ = bits.ecmath.SECP256K1_N

    def value(bound):
        return bound - 1 - draw if from_top else draw

    def fake_randbelow(n):
        seen.append(n)
        return value(n)

    def edge_int(nbits):
        # the integer the source "returns" on its first call: the draw counted from 0, or from the top of the range
        v = (2 ** nbits - 1 - draw) if from_top else draw
        return v % (2 ** nbits)

    def fake_token_bytes(nbytes=32):
        if state["first"]:
            state["first"] = False
            seen.append(N_ - 1)                      # reported like the pinned randbelow(n - 1) call
            return edge_int(8 * nbytes).to_bytes(nbytes, "big")
        return orig[1](nbytes)

    def fake_randbits(k):
        if state["first"]:
            state["first"] = False
            seen.append(N_ - 1)
            return edge_int(k)
        return orig[2](k)

    secrets.randbelow, secrets.token_bytes, secrets.randbits = fake_randbelow, fake_token_bytes, fake_randbits
    try:
        k = bits.keys.key()
    finally:
        secrets.randbelow, secrets.token_bytes, secrets.randbits = orig[:3]
    return [k, seen]


def _cli_keygen(draw, from_top, fo):
    """`bits key -0 fo` with secrets.randbelow scripted as in _keygen"""
    import cli, cliutil
    seen = []

    def fake(n):
        seen.append(n)
        return n - 1 - draw if from_top else draw
    out = cliutil.result(cli.run_main(["key", "-0", fo], stubs={"secrets.randbelow": fake}))
    return [cliutil.fmt_out(out, fo), seen]


def _cli_pub(b, compressed, fi, fo):
    """`bits pubkey [-X] -1 fi -0 fo` with a 32-byte private key on stdin"""
    import cli, cliutil
    argv = ["pubkey"] + (["-X"] if compressed else []) + ["-1", fi, "-0", fo]
    return cliutil.fmt_out(cliutil.result(cli.run_main(argv, stdin=cliutil.fmt_in(b, fi))), fo)


IMPL = {"cli_keygen": _cli_keygen, "cli_pub": _cli_pub, "add": _add, "mul": _mul, "neg": _neg, "on": _on, "distrib": _distrib, "assoc": _assoc,
        "privkey_int": _privkey_int, "compute_point": _compute_point, "keygen": _keygen, "pub": _pub}


def model_call(c):
    op, a = c["op"], c["args"]
    if op in ("add", "mul", "neg", "on", "distrib", "assoc"):
        cv = CURVES[a[0]]
    if op == "add":
        return "c03_point_add", [cv["p"], cv["a"], a[1], a[2]]
    if op == "mul":
        return "c03_point_scalar_mul", [cv["p"], cv["a"], a[1], a[2]]
    if op == "neg":
        return "c03_point_negate", [cv["p"], a[1]]
    if op == "on":
        return "c03_point_is_on_curve", [cv["p"], cv["a"], cv["b"], a[1], a[2]]
    if op == "distrib":
        return "c03_point_scalar_mul", [cv["p"], cv["a"], a[1] + a[2], a[3]]
    if op == "assoc":
        return "c03_point_scalar_mul", [cv["p"], cv["a"], a[1] * a[2], a[3]]
    if op == "privkey_int":
        return "c03_privkey_int", [N, a[0]]
    if op == "compute_point":
        return "c03_compute_point", [P, 0, N, (GX, GY), a[0]]
    if op in ("pub", "cli_pub"):
        return "c03_pub", [P, 0, N, (GX, GY), a[0], a[1]]
    if op in ("keygen", "cli_keygen"):
        # the correct bound of the random source is n-1: its largest value is n-2
        return "c03_key_of_draw", [(N - 2 - a[0]) if (len(a) > 1 and a[1]) else a[0]]
    raise KeyError(op)


def canon(c, v):
    op = c["op"]
    if op in ("distrib", "assoc") and isinstance(v, list) and len(v) == 2 and not isinstance(v[0], int):
        # implementation returns [lhs, rhs] of the identity; the model returns the single value both must equal
        l, r = v
        if (l is None) != (r is None) or (l is not None and list(l) != list(r)):
            return ["IDENTITY-BROKEN", l, r]
        return l
    if op in ("keygen", "cli_keygen") and isinstance(v, list) and len(v) == 2 and isinstance(v[1], list):
        return v[0]
    return v


def prop_oracle(c):
    op, a = c["op"], c["args"]
    if op.startswith("cli_"):
        lib, la = op[4:], a[:2]

        def run(f, args):
            try:
                return ("ok", f(*args))
            except Exception as e:
                return ("err", type(e).__name__)
        got, want = run(IMPL[op], a), run(IMPL[lib], la)
        if got != want and not (got[0] == want[0] == "err"):
            return "`bits %s` gives %r where bits.keys.%s gives %r" % ("key" if lib == "keygen" else "pubkey", got, lib, want)
        op, a = lib, la
    if op in ("add", "mul", "neg", "distrib", "assoc"):
        cv = CURVES[a[0]]
    if op == "add":
        A, B = _pt(a[1]), _pt(a[2])
        if not (ref_on(cv, A) and ref_on(cv, B)):
            return None
        got = _pt(_add(a[0], A, B))
        want = ref_add(cv, A, B)
        if got != want:
            return "point_add gives %r, the group law gives %r" % (got, want)
        if not ref_on(cv, got):
            return "point_add result is not on the curve"
        return None
    if op == "mul":
        k, A = a[1], _pt(a[2])
        if k < 0 or not ref_on(cv, A):
            return None
        got = _pt(_mul(a[0], k, A))
        want = ref_mul(cv, k, A)
        if got != want:
            return "point_scalar_mul(%d, P) gives %r, an independent implementation gives %r" % (k, got, want)
        if a[0] == "secp" and A == (GX, GY) and 1 <= k < N:
            from cryptography.hazmat.primitives.asymmetric import ec as cec
            pn = cec.derive_private_key(k, cec.SECP256K1()).public_key().public_numbers()
            if (pn.x, pn.y) != got:
                return "k*G differs from OpenSSL"
        return None
    if op in ("distrib", "assoc"):
        v = IMPL[op](*a)
        l, r = v
        if _pt(l) != _pt(r):
            return "%s identity fails: %r vs %r" % (op, l, r)
        return None
    if op == "privkey_int":
        b = a[0]
        valid = len(b) == 32 and 1 <= int.from_bytes(b, "big") < N
        try:
            v = _privkey_int(b)
            ok = True
        except AssertionError:
            ok = False
        if ok != valid:
            return "privkey_int accepts=%s but 32-bytes-in-[1,n-1]=%s" % (ok, valid)
        if ok and v != int.from_bytes(b, "big"):
            return "privkey_int returned a different integer"
        return None
    if op == "compute_point":
        b = a[0]
        valid = len(b) == 32 and 1 <= int.from_bytes(b, "big") < N
        try:
            v = _compute_point(b)
        except AssertionError:
            return None if not valid else "valid private key refused"
        if not valid:
            return "invalid private key accepted"
        want = ref_mul(CURVES["secp"], int.from_bytes(b, "big"), (GX, GY))
        return None if _pt(v) == want else "public key is not k*G"
    if op == "pub":
        b, comp = a
        valid = len(b) == 32 and 1 <= int.from_bytes(b, "big") < N
        try:
            v = _pub(b, comp)
        except (AssertionError, ValueError):
            return None if not valid else "keys.pub refuses a valid private key"
        if not valid:
            return "keys.pub accepts %r, which is not 32 bytes encoding an integer in [1, n-1]" % b.hex()
        Q = ref_mul(CURVES["secp"], int.from_bytes(b, "big"), (GX, GY))
        want = (bytes([2 + (Q[1] & 1)]) + Q[0].to_bytes(32, "big")) if comp else (b"\x04" + Q[0].to_bytes(32, "big") + Q[1].to_bytes(32, "big"))
        return None if v == want else "keys.pub is not the SEC1 encoding of k*G"
    if op == "keygen":
        k, seen = _keygen(*a)
        bound = seen[0] if seen else None
        if bound is None or not (0 <= a[0] < bound):
            return None          # the scripted draw is outside what randbelow(bound) can return
        v = int.from_bytes(k, "big")
        if len(k) != 32 or not (1 <= v < N):
            return "generated key %d is not in [1, n-1] for a draw the random source randbelow(%d) can return" % (v, bound)
        return None
    return None


def gen_cases(rng, tier):
    T = tier == "thorough"
    out = []
    G = (GX, GY)
    sec = CURVES["secp"]
    G2 = ref_add(sec, G, G)
    negG = (GX, P - GY)
    some = [ref_mul(sec, rng.randrange(1, N), G) for _ in range(3 if not T else 10)]
    pts = [G, G2, negG, None] + some
    # --- secp256k1 additions (cheap): every special branch
    for A in pts:
        for B in pts:
            out.append(case("secp-add", "add", "secp", A, B))
    for A in [G, G2] + some:
        out.append(case("secp-add-inverse", "add", "secp", A, (A[0], P - A[1])))
        out.append(case("secp-add-double", "add", "secp", A, A))
        out.append(case("secp-neg", "neg", "secp", A))
        out.append(case("secp-on", "on", "secp", A[0], A[1]))
        out.append(case("secp-off", "on", "secp", A[0], (A[1] + 1) % P))
    out.append(case("secp-on-range", "on", "secp", P, 1))
    out.append(case("secp-neg-inf", "neg", "secp", None))
    # --- secp256k1 scalar multiplications (110 ms each in Python): boundary scalars first
    bscal = [0, 1, 2, 3, N - 1, N, N + 1, 2 * N, 2 * N + 1, 2 ** 256 - 1, 2 ** 255, 2 ** 128 - 1, 2 ** 256]
    for k in bscal:
        out.append(case("secp-mul-boundary", "mul", "secp", k, G))
    for k in [0, 1, N - 1, N, N + 1]:
        out.append(case("secp-mul-boundary-P", "mul", "secp", k, some[0]))
        out.append(case("secp-mul-inf", "mul", "secp", k, None))
    for i in (rng.sample(range(256), 12 if not T else 64)):
        out.append(case("secp-mul-onebit", "mul", "secp", 1 << i, G))
    for i in (rng.sample(range(2, 257), 6 if not T else 32)):
        out.append(case("secp-mul-ones", "mul", "secp", (1 << i) - 1, G))
    for _ in range(20 if not T else 300):
        out.append(case("secp-mul-rand", "mul", "secp", rng.randrange(0, 2 ** 256), rng.choice([G, some[0]])))
    for _ in range(4 if not T else 40):
        j, k = rng.randrange(0, N), rng.randrange(0, N)
        out.append(case("secp-distrib", "distrib", "secp", j, k, G))
    out.append(case("secp-distrib-wrap", "distrib", "secp", N - 1, 2, G))
    out.append(case("secp-distrib-n", "distrib", "secp", N - 5, 5, G))
    for _ in range(3 if not T else 30):
        j, k = rng.randrange(0, 2 ** 64), rng.randrange(0, N)
        out.append(case("secp-assoc", "assoc", "secp", j, k, G))
    # --- small curves: the same generic code over ALL points
    for cname in (["c43"] if not T else ["c43", "c79", "c67"]):
        cv = CURVES[cname]
        ap = all_points(cv)
        for A in ap:
            for B in ap:
                out.append(case(cname + "-add-all", "add", cname, A, B))
        for A in ap:
            for k in range(0, 2 * cv["n"] + 2):
                out.append(case(cname + "-mul-all", "mul", cname, k, A))
        for _ in range(60 if not T else 600):
            j, k, A = rng.randrange(0, 3 * cv["n"]), rng.randrange(0, 3 * cv["n"]), rng.choice(ap)
            out.append(case(cname + "-distrib", "distrib", cname, j, k, A))
            out.append(case(cname + "-assoc", "assoc", cname, j, k, A))
        # off-curve / out-of-range inputs: errors must coincide
        out.append(case(cname + "-add-range", "add", cname, (cv["p"], 1), cv["G"]))
        out.append(case(cname + "-on-all", "on", cname, 1, 1))
    # --- scalars far wider than the group order (the loop length is the scalar's bit length, not 256)
    for k in [2 ** 512 - 1, 2 ** 512, 2 ** 512 + 1, 2 ** 513 + 5, 2 ** 1024 + 3, N ** 3 + 1, 2 ** 521 - 1] + \
            ([rng.randrange(2 ** 600, 2 ** 601) for _ in range(3)] if T else []):
        out.append(case("secp-mul-very-wide", "mul", "secp", k, G))
    out.append(case("secp-distrib-wide", "distrib", "secp", 2 ** 511 + 9, 2 ** 511 + 7, G))
    out.append(case("secp-assoc-wide", "assoc", "secp", 2 ** 300 + 1, 2 ** 300 + 3, G))
    for cname in ("c43", "c79", "c67"):
        for k in [2 ** 512, 2 ** 512 + 1, 2 ** 1024 + 3, 2 ** 2000 + 1]:
            out.append(case(cname + "-mul-very-wide", "mul", cname, k, CURVES[cname]["G"]))
    # --- pairs of scalars that collide under cheap fingerprints, back to back in one process: CPython's int hash
    #     (k and k + j*(2**61 - 1)), the low 64 / 256 bits, the same residue mod n
    M61 = 2 ** 61 - 1
    for i in range(6 if not T else 40):
        k1 = rng.randrange(1, N)
        for k2 in (k1 + rng.randrange(1, 8) * M61, k1 + (rng.randrange(1, 2 ** 60) << 64), k1 + (1 << 256), k1 + N):
            A = rng.choice([G, some[0]])
            out.append(case("secp-mul-fingerprint-pair", "mul", "secp", k1, A))
            out.append(case("secp-mul-fingerprint-pair", "mul", "secp", k2, A))
    for cname in ("c43", "c79", "c67"):
        cvv = CURVES[cname]
        for i in range(10 if not T else 60):
            k1 = rng.randrange(1, cvv["n"])
            A = rng.choice(all_points(cvv)[1:])
            for k2 in (k1 + M61, k1 + 3 * M61, k1 + (1 << 64)):
                out.append(case(cname + "-mul-fingerprint-pair", "mul", cname, k1, A))
                out.append(case(cname + "-mul-fingerprint-pair", "mul", cname, k2, A))
    # --- coordinates congruent to a curve point's modulo p but outside [0, p): never "on the curve"
    for cname in ("secp", "c43", "c79", "c67"):
        cv = CURVES[cname]
        p_ = cv["p"]
        pts_ = [cv["G"]] + ([ref_mul(cv, k, cv["G"]) for k in (2, 3, 5)] if cname == "secp" else all_points(cv)[1:(12 if not T else 200)])
        for A in pts_:
            if A is None:
                continue
            for (x, y) in ((A[0] + p_, A[1]), (A[0], A[1] + p_), (A[0] + p_, A[1] + p_), (A[0] - p_, A[1]), (A[0], A[1] - p_),
                           (A[0], -A[1]), (A[0], p_ - A[1])):
                out.append(case(cname + "-on-congruent", "on", cname, x, y))
    for cname in ("c43",) if not T else ("c43", "c79", "c67"):
        p_ = CURVES[cname]["p"]
        for x in range(-1, p_ + 2):
            for y in (range(-1, p_ + 2) if (T or x % 5 == 0) else ()):
                out.append(case(cname + "-on-grid", "on", cname, x, y))
    # --- the three small curves interleaved call by call (the library is re-targeted between calls: nothing computed
    #     for one modulus may be reused for another)
    aps = {cn: all_points(CURVES[cn]) for cn in ("c43", "c79", "c67")}
    for i in range(240 if not T else 2400):
        cn = ("c43", "c79", "c67")[i % 3]
        A, B = rng.choice(aps[cn]), rng.choice(aps[cn])
        if i % 2:
            out.append(case("mixed-curves-add", "add", cn, A, B))
        else:
            out.append(case("mixed-curves-mul", "mul", cn, rng.randrange(0, 2 * CURVES[cn]["n"]), A))
    # --- private keys
    cands = [0, 1, 2, N - 1, N, N + 1, 2 ** 256 - 1, 2 ** 255, 2 ** 8, 2 ** 248 - 1]
    for v in cands:
        out.append(case("privkey-boundary", "privkey_int", v.to_bytes(32, "big"), strict=True))
    for b in [b"", b"\x01", b"\x00" * 31 + b"\x01", b"\x00" * 31, b"\x01" * 33, b"\x00" * 33, rng.randbytes(31), rng.randbytes(33)]:
        out.append(case("privkey-length", "privkey_int", b, strict=True))
    for _ in range(20):
        out.append(case("privkey-rand", "privkey_int", rng.randbytes(32), strict=True))
    for v in [1, 2, N - 1, 3 << 200] + [rng.randrange(1, N) for _ in range(3 if not T else 30)]:
        out.append(case("pub-is-kG", "compute_point", v.to_bytes(32, "big")))
    for b in [(0).to_bytes(32, "big"), N.to_bytes(32, "big"), b"\x01" * 31]:
        out.append(case("pub-invalid", "compute_point", b, strict=True))
    # --- keys.pub: the same refusal rule through the wrapper (short / long / padded encodings of small keys incl.)
    for b in [b"", b"\x01", b"\x00\x01", b"\x01" * 31, b"\x00" * 31 + b"\x01", b"\x00" * 32 + b"\x01", b"\x05" * 33,
              (0).to_bytes(32, "big"), N.to_bytes(32, "big"), (N - 1).to_bytes(32, "big"), (2 ** 256 - 1).to_bytes(32, "big"),
              (7).to_bytes(31, "big"), (7).to_bytes(33, "big"), rng.randbytes(16)]:
        for comp in (True, False):
            out.append(case("pub-wrapper", "pub", b, comp, strict=(len(b) != 32)))
    # --- key generation: every boundary of the random source
    for d in [0, 1, 2, N - 3, N - 2] + [rng.randrange(0, N - 1) for _ in range(10)]:
        out.append(case("keygen-draw", "keygen", d))
    for d in [0, 1, 2]:          # the largest values the source can return, whatever bound the code passes
        out.append(case("keygen-draw-top", "keygen", d, True))
    # --- `bits key` / `bits pubkey` (32-byte input) = keys.key / keys.pub = the model, in rotating formats
    fm = ("raw", "hex", "bin")
    k = 0
    for d in [0, 1, 2, N - 3, N - 2] + [rng.randrange(0, N - 1) for _ in range(4 if not T else 40)]:
        out.append(case("cli-keygen-draw", "cli_keygen", d, False, fm[k % 3]))
        k += 1
    for d in [0, 1, 2]:
        out.append(case("cli-keygen-draw-top", "cli_keygen", d, True, fm[k % 3]))
        k += 1
    for v in [0, 1, 2, N - 1, N, N + 1, 2 ** 256 - 1, 3 << 200] + [rng.randrange(1, N) for _ in range(3 if not T else 30)]:
        for comp in (True, False):
            out.append(case("cli-pub-wrapper", "cli_pub", v.to_bytes(32, "big"), comp, fm[k % 3], fm[(k // 3) % 3]))
            k += 1
    return out


def coq_equation(c, mr):
    from common import coq_lit, coq_result
    op, a = c["op"], c["args"]
    if not (a and isinstance(a[0], str) and a[0].startswith("c")):
        return None           # only the small curves are cheap enough for vm_compute

    def pt(v):
        return "None" if v is None else "(Some (%d, %d)%%Z)" % (v[0], v[1])
    cv = CURVES[a[0]]

    def res(m):
        if m[0] == "err":
            return "Err " + m[1]
        v = m[1]
        return "Ok " + ("None" if v is None else "(Some (%d, %d)%%Z)" % (v[0], v[1]))
    if op == "add":
        return "c03_point_add %d %d %s %s = %s" % (cv["p"], cv["a"], pt(a[1]), pt(a[2]), res(mr))
    if op == "mul":
        return "c03_point_scalar_mul %d %d %d %s = %s" % (cv["p"], cv["a"], a[1], pt(a[2]), res(mr))
    return None


# ops whose answer must not depend on the concrete bytes-like type of their arguments (they agree on the pinned tree;
# tools/bytearray_probe.py); common.py re-runs a sample of their cases with bytearray arguments
BYTEARRAY_OPS = {'compute_point', 'pub', 'privkey_int'}
MEMORYVIEW_OPS = {'pub', 'compute_point', 'privkey_int'}
