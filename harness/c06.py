"""C06 - segwit addresses round-trip and are accepted exactly per BIP173/BIP350; classifiers are total."""
import hashlib
from common import case, case_to_json, shrink_bytes, coq_bytes, coq_result, coq_lit, short

ID = "C06"
MAKE_TARGETS = ["Props/C06.v", "GenProps/Bech32Gen.v"]
GEN_TABLES = ["Bech32Gen"]
ASSUMPTIONS = [
    "sha256 is an arbitrary function in the is_addr / assert_addr theorems (hashlib answers it at run time)",
    "CPython's bytes.isupper/islower/lower/split/join are modelled from their documentation (py_isupper, py_islower, "
    "py_lower, py_split, py_join in Model/Bech32.v); the correspondence run exercises them on every case",
    "the third network prefix 'bcrt' (regtest) is Bitcoin Core's convention, not part of BIP173's text",
    "modelled, not verified: src/bits/bips/bip173.py (all functions), bip350.BECH32M_CONST, utils.segwit_addr, "
    "decode_segwit_addr, assert_valid_segwit, is_segwit_addr, is_addr, assert_addr, to_bitcoin_address (witness branch)",
    "inputs are bytes objects (the declared parameter type); str/None arguments are outside the property",
]
FILLER = {"rand-bytes", "rand-charset"}
CASE_TIMEOUT = 60.0

# ---------------------------------------------------------------------------------------------------
# independent reference, written from the BIP173 / BIP350 reference implementation (segwit_addr.py)
# ---------------------------------------------------------------------------------------------------
CHARSET = "qpzry9x8gf2tvdw0s3jn54khce6mua7l"
BECH32, BECH32M = 1, 0x2BC830A3
HRPS = {"mainnet": "bc", "testnet": "tb", "regtest": "bcrt"}


def _polymod(values):
    generator = [0x3B6A57B2, 0x26508E6D, 0x1EA119FA, 0x3D4233DD, 0x2A1462B3]
    chk = 1
    for value in values:
        top = chk >> 25
        chk = (chk & 0x1FFFFFF) << 5 ^ value
        for i in range(5):
            chk ^= generator[i] if ((top >> i) & 1) else 0
    return chk


def _hrp_expand(hrp):
    return [ord(x) >> 5 for x in hrp] + [0] + [ord(x) & 31 for x in hrp]


def _create_checksum(hrp, data, const):
    values = _hrp_expand(hrp) + data
    polymod = _polymod(values + [0, 0, 0, 0, 0, 0]) ^ const
    return [(polymod >> 5 * (5 - i)) & 31 for i in range(6)]


def _bech32_encode(hrp, data, const):
    combined = data + _create_checksum(hrp, data, const)
    return hrp + "1" + "".join(CHARSET[d] for d in combined)


def _bech32_decode(bech):
    """-> (hrp, data-without-checksum, const) or (None, None, None)"""
    if any(ord(x) < 33 or ord(x) > 126 for x in bech) or (bech.lower() != bech and bech.upper() != bech):
        return (None, None, None)
    bech = bech.lower()
    pos = bech.rfind("1")
    if pos < 1 or pos + 7 > len(bech) or len(bech) > 90:
        return (None, None, None)
    if not all(x in CHARSET for x in bech[pos + 1:]):
        return (None, None, None)
    hrp = bech[:pos]
    data = [CHARSET.find(x) for x in bech[pos + 1:]]
    const = _polymod(_hrp_expand(hrp) + data)
    if const not in (BECH32, BECH32M):
        return (None, None, None)
    return (hrp, data[:-6], const)


def _convertbits(data, frombits, tobits, pad=True):
    acc = 0
    bits = 0
    ret = []
    maxv = (1 << tobits) - 1
    max_acc = (1 << (frombits + tobits - 1)) - 1
    for value in data:
        if value < 0 or (value >> frombits):
            return None
        acc = ((acc << frombits) | value) & max_acc
        bits += frombits
        while bits >= tobits:
            bits -= tobits
            ret.append((acc >> bits) & maxv)
    if pad:
        if bits:
            ret.append((acc << (tobits - bits)) & maxv)
    elif bits >= frombits or ((acc << (tobits - bits)) & maxv):
        return None
    return ret


def _ref_decode_hrp(hrp, addr):
    hrpgot, data, const = _bech32_decode(addr)
    if hrpgot != hrp:
        return (None, None)
    decoded = _convertbits(data[1:], 5, 8, False)
    if decoded is None or len(decoded) < 2 or len(decoded) > 40:
        return (None, None)
    if data[0] > 16:
        return (None, None)
    if data[0] == 0 and len(decoded) != 20 and len(decoded) != 32:
        return (None, None)
    if data[0] == 0 and const != BECH32 or data[0] != 0 and const != BECH32M:
        return (None, None)
    return (data[0], decoded)


def ref_decode(s: bytes):
    """None, or (hrp, version, program) when s is a valid segwit address of one of the three networks"""
    text = s.decode("latin-1")
    for hrp in HRPS.values():
        v, prog = _ref_decode_hrp(hrp, text)
        if v is not None:
            return (hrp.encode(), v, bytes(prog))
    return None


def ref_encode(hrp: str, witver: int, witprog: bytes) -> bytes:
    const = BECH32 if witver == 0 else BECH32M
    return _bech32_encode(hrp, [witver] + _convertbits(list(witprog), 8, 5), const).encode()


def raw_encode(hrp: str, values, const) -> bytes:
    """a checksum-valid Bech32 string over arbitrary 5-bit values (used to build invalid addresses)"""
    return _bech32_encode(hrp, list(values), const).encode("latin-1")


def prog_allowed(v, n):
    return 0 <= v <= 16 and 2 <= n <= 40 and (v != 0 or n in (20, 32))


_B58 = b"123456789ABCDEFGHJKLMNPQRSTUVWXYZabcdefghijkmnopqrstuvwxyz"


def ref_is_base58check(s: bytes) -> bool:
    if any(c not in _B58 for c in s):
        return False
    n = 0
    for c in s:
        n = n * 58 + _B58.index(c)
    body = n.to_bytes((n.bit_length() + 7) // 8, "big")
    d = b"\0" * (len(s) - len(s.lstrip(b"1"))) + body
    # the repo slices decoded[:-4] / decoded[-4:] without a length check; the checksum rule needs 4 bytes
    if len(d) < 4:
        return False
    return d[-4:] == hashlib.sha256(hashlib.sha256(d[:-4]).digest()).digest()[:4]


# ---------------------------------------------------------------------------------------------------
# implementation adaptor (runs inside the worker, against /repo/src)
# ---------------------------------------------------------------------------------------------------
def _u():
    import bits.utils as u
    return u


def _b():
    import bits.bips.bip173 as b
    return b


def _decode_valid(s):
    u = _u()
    hrp, v, prog = u.decode_segwit_addr(s)
    u.assert_valid_segwit(hrp, v, prog)
    return (hrp, v, prog)


def _spec_decode(s):
    try:
        return _decode_valid(s)
    except AssertionError:
        return None


def _kind(e):
    import common
    return common.err_kind(e)


def _elem(f, s):
    try:
        return f(s)
    except BaseException as e:  # noqa
        return _kind(e)


def _classify_batch(strings):
    u = _u()
    return [(_elem(_decode_valid, s), _elem(u.is_segwit_addr, s), _elem(u.is_addr, s)) for s in strings]


def _encode_batch(items):
    u = _u()
    out = []
    for (d, v, n) in items:
        try:
            out.append(u.segwit_addr(d, witness_version=v, network=n))
        except BaseException as e:  # noqa
            out.append(_kind(e))
    return out



# ---------------------------------------------------------------------------------------------------
# the command line entry point `bits bech32` (harness/cli.py runs bits.__main__.main() in the worker)
# ---------------------------------------------------------------------------------------------------
NET_HRP = {"mainnet": b"bc", "testnet": b"tb", "regtest": b"bcrt"}


class CliEmittedOnRefusal(Exception):
    """the command refused its input but wrote to stdout (common.err_kind: "Violation", never agrees)"""


class CliMalformed(Exception):
    """the command's stdout is not one of its two documented JSON answers"""


def _cli_refused(r):
    rc = r["rc"]
    return r["exc"] is not None or (isinstance(rc, str) and rc.startswith("ERROR")) or (isinstance(rc, int) and rc != 0)


def _cli_raise(r):
    """the command refused: re-raise the class of the exception that ended it (so that the worker reports the same
    error kind a library call would); a refusal that wrote to stdout is a value no model result can equal"""
    import builtins
    if r["out"]:
        raise CliEmittedOnRefusal("rc=%r out=%r" % (r["rc"], r["out"][:200]))
    name = r["exc"] or "RuntimeError"
    klass = getattr(builtins, name, None)
    if not (isinstance(klass, type) and issubclass(klass, BaseException)) or name == "SystemExit":
        klass = RuntimeError
    raise klass("bits bech32: rc=%r %s" % (r["rc"], r["err"][-200:]))


def _cli_decode_report(s, extra):
    """-> ("segwit", hrp, version, program) | ("bech32", hrp, payload) | raises (CliMalformed for any other stdout)"""
    import json
    import cli
    r = cli.run_main(["bech32", "--decode"] + list(extra), stdin=s)
    if _cli_refused(r):
        return _cli_raise(r)
    try:
        d = json.loads(r["out"].decode("utf-8"))
    except Exception:
        raise CliMalformed("%r" % (r["out"][:200],))
    if not r["out"].endswith(b"\n") or r["out"].count(b"\n") != 1:
        raise CliMalformed("%r" % (r["out"][:200],))
    if isinstance(d, dict) and set(d) == {"network", "witness_version", "witness_program"}:
        if d["network"] not in NET_HRP or not isinstance(d["witness_version"], int) or isinstance(d["witness_version"], bool):
            raise CliMalformed("%r" % (r["out"][:200],))
        try:
            return ("segwit", NET_HRP[d["network"]], d["witness_version"], bytes.fromhex(d["witness_program"]))
        except Exception:
            raise CliMalformed("%r" % (r["out"][:200],))
    if isinstance(d, dict) and set(d) == {"hrp", "payload"}:
        try:
            return ("bech32", d["hrp"].encode("utf-8"), bytes.fromhex(d["payload"]))
        except Exception:
            raise CliMalformed("%r" % (r["out"][:200],))
    raise CliMalformed("%r" % (r["out"][:200],))


def _cli_segwit(s, extra):
    """what `bits bech32 --decode` REPORTS AS A SEGWIT ADDRESS: (hrp, version, program), or None when it refuses
    (error, nothing on stdout) or answers with the generic Bech32 form (hrp/payload)"""
    try:
        v = _cli_decode_report(s, extra)
    except BaseException as e:  # noqa
        if type(e).__name__ == "CaseTimeout" or type(e).__name__.startswith("Cli"):
            raise
        return None
    if isinstance(v, tuple) and v[0] == "segwit":
        return v[1:]
    if isinstance(v, tuple) and v[0] == "bech32":
        return None
    return v


def _cli_stdin(data, fmt):
    if fmt == "raw":
        return ["-1"], data
    if fmt == "raw-explicit":
        return ["-1", "raw"], data
    if fmt == "hex":
        return ["-1", "hex"], data.hex().encode() + b"\n"
    if fmt == "hex-default":
        return [], data.hex().encode()
    if fmt == "x":
        return ["-1", "x"], b"  " + data.hex().upper().encode() + b"\n"
    if fmt == "bin":
        return ["-1", "bin"], "".join("{:08b}".format(x) for x in data).encode() + b"\n"
    raise ValueError(fmt)


def _cli_encode(hrp, data, wv, pr, fmt):
    import cli
    fl, stdin = _cli_stdin(data, fmt)
    argv = ["bech32", "--hrp", hrp.decode("ascii")]
    if wv is not None and wv < 0:
        argv += ["--wv=%d" % wv]          # "-1" on its own would be taken for the -1 option
    elif wv is not None:
        argv += ["--wv" if wv % 2 else "--witness-version", str(wv)]
    if pr:
        argv += ["-P"]
    r = cli.run_main(argv + fl, stdin=stdin)
    if _cli_refused(r):
        return _cli_raise(r)
    return r["out"]


def _cli_addr(d, v, net, fmt, pr):
    """`bits addr --witness-version V -N net`: to_bitcoin_address(payload, witness_version=V, network=net)"""
    import cli
    fl, stdin = _cli_stdin(d, fmt)
    argv = ["addr", "--wv=%d" % v if v < 0 else "--witness-version=%d" % v, "-N", net] + (["-P"] if pr else [])
    r = cli.run_main(argv + fl, stdin=stdin)
    if _cli_refused(r):
        return _cli_raise(r)
    out = r["out"]
    if pr:
        if not out.endswith(b"\n"):
            raise CliMalformed("-P given but no newline at the end: %r" % (out[:200],))
        out = out[:-1]
    return out


IMPL = {
    "segwit_addr": lambda d, v, n: _u().segwit_addr(d, witness_version=v, network=n),
    "to_bitcoin_address_witness": lambda d, n, v: _u().to_bitcoin_address(d, network=n, witness_version=v),
    "decode_segwit_addr": lambda s: _u().decode_segwit_addr(s),
    "decode_segwit_addr_": lambda s, f: _u().decode_segwit_addr(s, __support_bip350=f),
    "assert_valid_segwit": lambda h, v, p: _u().assert_valid_segwit(h, v, p),
    "decode_valid": _decode_valid,
    "spec_decode": _spec_decode,
    "valid_segwit": lambda s: _spec_decode(s) is not None,
    "is_segwit_addr": lambda s: _u().is_segwit_addr(s),
    "is_addr": lambda s: _u().is_addr(s),
    "assert_addr": lambda s: _u().assert_addr(s),
    "parse_bech32": lambda s: _b().parse_bech32(s),
    "assert_valid_bech32": lambda h, d, c: _b().assert_valid_bech32(h, d, constant=c),
    "bech32_encode": lambda h, d, w, c: _b().bech32_encode(h, d, witness_version=w, constant=c),
    "bech32_decode": lambda d: _b().bech32_decode(d),
    "decode_bech32_string": lambda s, c: _b().decode_bech32_string(s, constant=c),
    "bech32_polymod": lambda l: _b().bech32_polymod(l),
    "bech32_create_checksum": lambda h, d, c: _b().bech32_create_checksum([bytes([x]) for x in h], d, constant=c),
    "bech32_verify_checksum": lambda h, d, c: _b().bech32_verify_checksum([bytes([x]) for x in h], d, constant=c),
    "classify_batch": _classify_batch,
    "encode_batch": _encode_batch,
    # `bits bech32` through bits.__main__.main()
    "cli_bech32_segwit": _cli_segwit,
    "cli_bech32_decode": _cli_decode_report,
    "cli_bech32_encode": _cli_encode,
    "cli_bech32_segwit_addr": lambda d, v, n, fmt: _cli_encode(NET_HRP[n], d, v, False, fmt),
    "cli_addr_witness": lambda d, v, n, fmt, pr: _cli_addr(d, v, n, fmt, pr),
}


def model_call(c):
    """the command line ops are compared with the model ops of the library functions / of __main__'s bech32 branch"""
    op, a = c["op"], c["args"]
    if op == "cli_bech32_segwit":
        return ("c06_spec_decode", [a[0]])          # reported as a segwit address <=> valid per BIP173/BIP350
    if op == "cli_bech32_decode":
        return ("c06_cli_bech32_decode", [a[0]])
    if op == "cli_bech32_encode":
        return ("c06_cli_bech32_encode", list(a[:4]))
    if op == "cli_bech32_segwit_addr":
        return ("c06_segwit_addr", list(a[:3]))     # the encoder must equal segwit_addr
    if op == "cli_addr_witness":
        return ("c06_to_bitcoin_address_witness", [a[0], a[2], a[1]])
    return ("c06_" + op, a)


# KNOWN_FINDINGS.txt matchers: none (the command line encoder defect for versions >= 1 was repaired by 442ffd4;
# its witness corpus/c06/cli-bech32-encode-v1plus.json is now a regression input of gen_cases)
KNOWN = {}


# ---------------------------------------------------------------------------------------------------
# generators
# ---------------------------------------------------------------------------------------------------
NETS = ["mainnet", "testnet", "regtest"]
CS = CHARSET.encode()


# witness programs whose BYTES look like a text encoding of something (hex digits, decimal digits, base64/base58/
# bech32 alphabet characters, printable ASCII, "0x..." literals, UTF-8 text): an encoder must treat them as bytes
TEXT_ALPHABETS = {
    "hexl": b"0123456789abcdef", "hexu": b"0123456789ABCDEF", "hexm": b"0123456789abcdefABCDEF", "dec": b"0123456789",
    "b64": b"ABCDEFGHIJKLMNOPQRSTUVWXYZabcdefghijklmnopqrstuvwxyz0123456789+/=",
    "b58": b"123456789ABCDEFGHJKLMNPQRSTUVWXYZabcdefghijkmnopqrstuvwxyz",
    "bech32": b"qpzry9x8gf2tvdw0s3jn54khce6mua7l", "printable": bytes(range(32, 127)),
}
TEXT_KINDS = sorted(TEXT_ALPHABETS) + ["0x", "utf8", "addr-like"]


def _text_payload(rng, n, kind):
    if kind in TEXT_ALPHABETS:
        return bytes(rng.choice(TEXT_ALPHABETS[kind]) for _ in range(n))
    if kind == "0x":
        return (b"0x" + bytes(rng.choice(b"0123456789abcdef") for _ in range(n)))[:n]
    if kind == "utf8":
        t = "".join(rng.choice("éßñ中κ") for _ in range(n)).encode("utf-8")
        t = t[:n]
        while True:                       # cut on a character boundary, pad with ASCII
            try:
                t.decode("utf-8")
                break
            except UnicodeDecodeError:
                t = t[:-1]
        return t + b"a" * (n - len(t))
    if kind == "addr-like":               # begins like an address / key / PEM prefix
        pre = rng.choice([b"bc1q", b"tb1p", b"bcrt1", b"xpub", b"-----BEGIN ", b"1A1zP1", b"3J98t1", b"\x02", b"\x04"])
        return (pre + bytes(rng.choice(TEXT_ALPHABETS["bech32"]) for _ in range(n)))[:n]
    raise ValueError(kind)


def _contents(rng, n, kind):
    if kind == "zero":
        return bytes(n)
    if kind == "ones":
        return b"\xff" * n
    if kind == "bit":
        b = bytearray(n)
        if n:
            i = rng.randrange(8 * n)
            b[i // 8] |= 0x80 >> (i % 8)
        return bytes(b)
    if kind in TEXT_KINDS:
        return _text_payload(rng, n, kind)
    if kind == "lowbit":          # only the very last bit set: exercises the padding boundary
        b = bytearray(n)
        if n:
            b[-1] = 1
        return bytes(b)
    return rng.randbytes(n)


def _vals(prog):
    return _convertbits(list(prog), 8, 5)


def _sub(s, i, ch):
    return s[:i] + ch + s[i + 1:]


def string_mutants(rng, tier, pool):
    """(class, string) pairs derived from the valid addresses in pool = [(addr, hrp, v, prog)]"""
    T = tier == "thorough"
    out = []
    bad_chars = [b"1", b"b", b"i", b"o", b"B", b"Q", b" ", b"\x7f", b"\x80", b"\xff", b"\x00", b"\xc3", b"!", b"~"]
    sample = pool if T else rng.sample(pool, min(len(pool), 160))
    for (a, hrp, v, prog) in sample:
        sep = a.rindex(b"1")
        n = len(a)
        out.append(("valid", a))
        out.append(("upper-all", a.upper()))
        i = rng.randrange(n)
        # 1..4 random substitutions inside the alphabet (a BCH code word at distance <= 4: always invalid)
        for k in (1, 2, 3, 4):
            s = a
            for p in rng.sample(range(sep + 1, n), min(k, n - sep - 1)):
                s = _sub(s, p, bytes([rng.choice([c for c in CS if c != s[p]])]))
            out.append(("subst%d" % k, s))
        out.append(("subst-bad", _sub(a, i, rng.choice(bad_chars))))
        out.append(("subst-hrp", _sub(a, rng.randrange(sep), bytes([rng.choice(CS)]))))
        # case
        j = rng.choice([p for p in range(n) if a[p:p + 1].isalpha()])
        out.append(("case-flip1", _sub(a, j, a[j:j + 1].upper())))
        out.append(("case-upper-hrp", a[:sep].upper() + a[sep:]))
        out.append(("case-upper-data", a[:sep] + a[sep:].upper()))
        au = a.upper()
        out.append(("case-flip1-in-upper", _sub(au, j, au[j:j + 1].lower())))
        # truncation / extension
        k = rng.randrange(1, 8)
        out.append(("trunc-tail", a[:-k]))
        out.append(("trunc-head", a[k % 3 + 1:]))
        out.append(("extend-tail", a + bytes([rng.choice(CS)])))
        out.append(("extend-insert", a[:i] + bytes([rng.choice(CS)]) + a[i:]))
        out.append(("delete", a[:i] + a[i + 1:]))
        out.append(("extend-space", rng.choice([b" " + a, a + b" ", a + b"\n", a + b"\0"])))
        # constant swap
        h = hrp.decode()
        out.append(("const-swap", raw_encode(h, [v] + _vals(prog), BECH32M if v == 0 else BECH32)))
        out.append(("const-other", raw_encode(h, [v] + _vals(prog), rng.choice([0, 2, 0x3FFFFFFF, BECH32M ^ 1]))))
        # padding: non-zero pad bits / one more (zero) group than needed, with a correct checksum
        vals = _vals(prog)
        padbits = (5 - (8 * len(prog)) % 5) % 5
        const = BECH32 if v == 0 else BECH32M
        if padbits:
            out.append(("pad-nonzero", raw_encode(h, [v] + vals[:-1] + [vals[-1] | (1 << rng.randrange(padbits))], const)))
            out.append(("pad-nonzero-low", raw_encode(h, [v] + vals[:-1] + [vals[-1] | 1], const)))
        out.append(("pad-overlong", raw_encode(h, [v] + vals + [0], const)))
        out.append(("pad-overlong2", raw_encode(h, [v] + vals + [0, 0], const)))
        # wrong HRP (checksum recomputed so that only the HRP rule can reject)
        for wh in ("tc", "bt", "bcr", "bcrtt", "b", "c", "lnbc", "b1c", "bc1", "1bc", "bC", "\x7fbc", " bc", "bc\x80"):
            if T or rng.random() < 0.25:
                out.append(("hrp-wrong", raw_encode(wh, [v] + vals, const)))
        # version position
        out.append(("version-17-31", raw_encode(h, [rng.randrange(17, 32)] + vals, rng.choice([BECH32, BECH32M]))))
        out.append(("version-other", raw_encode(h, [(v + 1) % 17] + vals, BECH32 if (v + 1) % 17 == 0 else BECH32M)))
        # non-ASCII
        out.append(("non-ascii", _sub(a, i, bytes([rng.randrange(128, 256)]))))
        out.append(("non-ascii-insert", a[:i] + "é".encode() + a[i:]))
    # every byte value in the version position (with both checksum constants where it is a character of the table)
    for (a, hrp, v, prog) in (pool[:40] if T else pool[:3]):
        sep = a.rindex(b"1")
        for bv in range(256):
            ch = bytes([bv])
            out.append(("verpos-byte", _sub(a, sep + 1, ch)))
            if ch in CS or ch.lower() in CS:
                val = CS.index(ch.lower())
                for const in (BECH32, BECH32M):
                    out.append(("verpos-rechecksum", raw_encode(hrp.decode(), [val] + _vals(prog), const)))
    # non-ASCII in every position of one address per network
    for (a, hrp, v, prog) in pool[:6]:
        for p in range(len(a)):
            out.append(("non-ascii-everywhere", _sub(a, p, rng.choice([b"\x80", b"\xff", b"\xc3", b"\xe9"]))))
            out.append(("bad-char-everywhere", _sub(a, p, rng.choice([b"1", b"b", b"i", b"o", b" ", b"B"]))))
    return out


_UNI = None


def unicode_lookalikes():
    """{(ascii alphanumeric, kind): [code points > 127]}: code points (up to U+2FFFF) one of whose str.lower() /
    str.upper() / str.casefold() / NFKD / NFKC forms is that single ASCII character (U+212A KELVIN SIGN -> k,
    U+017F -> s, fullwidth, circled, mathematical letters and digits, ...), computed from unicodedata"""
    global _UNI
    if _UNI is None:
        import unicodedata
        tab = {}
        for cp in range(128, 0x30000):
            if 0xD800 <= cp <= 0xDFFF:
                continue
            ch = chr(cp)
            for kind, f in (("lower", ch.lower()), ("upper", ch.upper()), ("casefold", ch.casefold()),
                            ("nfkd", unicodedata.normalize("NFKD", ch)), ("nfkc", unicodedata.normalize("NFKC", ch))):
                if len(f) == 1 and f.isascii() and f.isalnum():
                    tab.setdefault((f, kind), []).append(cp)
        _UNI = tab
    return _UNI


def unicode_mutants(rng, tier, pool):
    """valid addresses (lower- and upper-case spelling) in which one character - of the hrp, the separator, the
    version, the payload or the checksum - is replaced by the UTF-8 bytes of a code point that Unicode case mapping
    or compatibility normalisation would turn into that character; plus invalid UTF-8 / surrogate encodings.
    Every one contains bytes outside the Bech32 alphabet: all must be refused."""
    T = tier == "thorough"
    out = []
    tab = unicode_lookalikes()
    addrs = [a for (a, _, _, _) in pool[:60]]

    def region(a, p):
        sep = a.rindex(b"1")
        return "hrp" if p < sep else "sep" if p == sep else "version" if p == sep + 1 else \
            "checksum" if p >= len(a) - 6 else "data"
    for (f, kind), cps in sorted(tab.items()):
        fl = f.lower()
        if fl not in CHARSET + "bcrt1":
            continue
        picks = [cps[0], cps[-1]] + ([rng.choice(cps) for _ in range(4)] if T else [])
        for cp in dict.fromkeys(picks):
            u8 = chr(cp).encode("utf-8")
            for upper in (False, True):
                done = set()
                for a in rng.sample(addrs, len(addrs)):
                    sp = a.upper() if upper else a
                    pos = [p for p in range(len(a)) if chr(a[p]) == fl and region(a, p) not in done]
                    for p in pos:
                        r = region(a, p)
                        if r in done:
                            continue
                        done.add(r)
                        out.append(("unicode-%s-%s-%s" % (kind, r, "upper" if upper else "lower"), sp[:p] + u8 + sp[p + 1:]))
                    if pos and rng.random() < 0.3:
                        tgt = sp[pos[0]:pos[0] + 1]
                        sepi = sp.rindex(b"1")
                        out.append(("unicode-%s-all-%s" % (kind, "upper" if upper else "lower"),
                                    sp[:sepi + 1] + sp[sepi + 1:].replace(tgt, u8)))
                    if len(done) >= 4:
                        break
    bad = [b"\xc3", b"\xe2\x84", b"\xc1\xab", b"\xe0\x81\xab", b"\xed\xa0\x80", b"\xed\xb0\x80", b"\xed\xa0\x80\xed\xb0\x80",
           b"\xf4\x90\x80\x80", b"\xf8\x88\x80\x80\x80", b"\xff", b"\xfe", b"\x80", b"\xbf"]
    ins = [b"\xef\xbb\xbf", b"\xe2\x80\x8b", b"\xcc\x81", b"\xc2\xa0", b"\xe2\x80\x8e", b"\xc2\xad"]
    for a in addrs[:12 if T else 4]:
        for sp in (a, a.upper()):
            for b_ in bad:
                p = rng.randrange(len(sp))
                out.append(("utf8-invalid-subst", sp[:p] + b_ + sp[p + 1:]))
                out.append(("utf8-invalid-insert", sp[:p] + b_ + sp[p:]))
            for b_ in ins:
                p = rng.randrange(len(sp) + 1)
                out.append(("unicode-invisible-insert", sp[:p] + b_ + sp[p:]))
            out.append(("unicode-invisible-insert", b"\xef\xbb\xbf" + sp))
    # genuine case mappings first (their disagreements are failing inputs of the property itself)
    prio = {"unicode-lower": 0, "unicode-casefold": 1, "unicode-upper": 2}
    out.sort(key=lambda e: prio.get("-".join(e[0].split("-")[:2]), 3))
    return out


def structural_strings(rng, tier):
    T = tier == "thorough"
    out = []
    for s in [b"", b"1", b"11", b"bc", b"bc1", b"BC1", b"1bc", b"bc11", b"tb1", b"bcrt1", b"q", b"qqqqqq", b"1qqqqqq",
              b"bc1q", b"bc1qqqqqq", b"bc1qqqqqqq", b"0123456789", b"12345678", b"2345670", b"901", b"1" * 90, b"1" * 91,
              b"bcqw508d6qejxtdg4y5r3zarvary0c5xw7kv8f3t4", b"bc 1qw508d6qejxtdg4y5r3zarvary0c5xw7kv8f3t4",
              b"bc1b9zpgru", b"bc1q9zpgru", b"bc1gmk9yu", b"\xff", b"\x00", b"bc1\xff", b"\xc3\xa91qqqqqqq"]:
        out.append(("struct-fixed", s))
    for h in ("bc", "tb", "bcrt"):
        for const in (BECH32, BECH32M):
            out.append(("data-checksum-only", raw_encode(h, [], const)))            # no version character
            for v in (0, 1, 16, 17, 31):
                out.append(("data-version-only", raw_encode(h, [v], const)))       # version + checksum
                for k in (1, 2, 3):                                               # 5, 10, 15 payload bits
                    for fill in (0, 31, 16, 1):
                        out.append(("data-short", raw_encode(h, [v] + [fill] * k, const)))
    # program lengths around every limit, all versions, correct checksums (decoder side of the length rules)
    for h in ("bc", "tb", "bcrt"):
        for v in range(0, 17):
            for n in (0, 1, 2, 3, 19, 20, 21, 31, 32, 33, 39, 40, 41, 42):
                if T or rng.random() < 0.3:
                    prog = rng.randbytes(n)
                    out.append(("len-%s" % ("allowed" if prog_allowed(v, n) else "forbidden"),
                                raw_encode(h, [v] + _vals(prog), BECH32 if v == 0 else BECH32M)))
    # overall length 89 / 90 / 91 (checksum-valid; data far too long for a witness program)
    for h in ("bc", "bcrt"):
        for total in (88, 89, 90, 91, 92):
            k = total - len(h) - 1 - 6 - 1
            out.append(("overall-len-%d" % total, raw_encode(h, [1] + [rng.randrange(32) for _ in range(k)], BECH32M)))
    # HRP length / character-range limits of Bech32 itself
    for hl in (82, 83, 84):
        out.append(("hrp-len-%d" % hl, raw_encode("a" * hl, [], BECH32)))
    for ch in (32, 33, 126, 127):
        out.append(("hrp-char-%d" % ch, raw_encode(chr(ch) + "bc", [0] + _vals(bytes(20)), BECH32)))
    # strings without any letter (bytes.isupper() and bytes.islower() are both False)
    for _ in range(20 if T else 6):
        k = rng.randrange(7, 30)
        out.append(("no-letters", rng.choice([b"2", b"9", b"?", b"~"]) + b"1" + bytes(rng.choice(b"0234567895") for _ in range(k))))
    return out


VEC_VALID = [
    b"BC1QW508D6QEJXTDG4Y5R3ZARVARY0C5XW7KV8F3T4",
    b"tb1qrp33g0q5c5txsp9arysrx4k6zdkfs4nce4xj0gdcccefvpysxf3q0sl5k7",
    b"bc1pw508d6qejxtdg4y5r3zarvary0c5xw7kw508d6qejxtdg4y5r3zarvary0c5xw7kt5nd6y",
    b"BC1SW50QGDZ25J", b"bc1zw508d6qejxtdg4y5r3zarvaryvaxxpcs",
    b"tb1qqqqqp399et2xygdj5xreqhjjvcmzhxw4aywxecjdzew6hylgvsesrxh6hy",
    b"tb1pqqqqp399et2xygdj5xreqhjjvcmzhxw4aywxecjdzew6hylgvsesf3hn0c",
    b"bc1p0xlxvlhemja6c4dqv22uapctqupfhlxm9h8z3k2e72q4k9hcz7vqzk5jj0",
]


def repo_vectors():
    """every bytes literal of /repo/tests/unit/test_bip173.py and test_bip350.py (valid and invalid lists)"""
    import ast
    import os
    from common import REPO
    out = []
    for f in ("test_bip173.py", "test_bip350.py"):
        path = os.path.join(REPO, "tests", "unit", f)
        try:
            tree = ast.parse(open(path, "rb").read())
        except OSError:
            continue
        for node in ast.walk(tree):
            if isinstance(node, ast.Constant) and isinstance(node.value, bytes):
                out.append(node.value)
    return out


def valid_pool(rng, tier):
    """valid addresses built by the reference encoder: (addr, hrp, v, prog)"""
    T = tier == "thorough"
    pool = []
    for net in NETS:
        h = HRPS[net]
        for v in range(17):
            lens = [20, 32] if v == 0 else ([2, 3, 4, 5, 20, 32, 33, 39, 40] if T else [2, 20, 32, 40, rng.randrange(3, 40)])
            for n in lens:
                prog = _contents(rng, n, rng.choice(["rand", "rand", "zero", "ones", "bit"]))
                pool.append((ref_encode(h, v, prog), h.encode(), v, prog))
    # the shortest addresses first (used for exhaustive substitution sweeps)
    short_ = []
    for net in NETS:
        for v in (1, 16):
            prog = rng.randbytes(2)
            short_.append((ref_encode(HRPS[net], v, prog), HRPS[net].encode(), v, prog))
    return short_ + pool


def gen_cases(rng, tier):
    T = tier == "thorough"
    out = []
    # ---------------- encoder: all (network, version, length) ----------------
    enc_items = []
    for net in NETS:
        for v in range(17):
            for n in range(2, 41):
                kinds = ["rand", "zero", "ones", "bit", "lowbit"] if T else [rng.choice(["rand", "zero", "ones", "bit", "lowbit"])]
                if not T and n in (2, 3, 4, 5, 20, 32, 40):
                    kinds = ["rand", "zero", "ones", "bit", "lowbit"]
                for kind in kinds:
                    enc_items.append(("enc-%s-%s" % ("ok" if prog_allowed(v, n) else "v0len", kind), _contents(rng, n, kind), v, net))
    # programs whose bytes look like text (every legal length x every kind; 64 = a 32-byte hash written in hex)
    text_items = []
    for n in list(range(2, 41)) + [64]:
        for kind in TEXT_KINDS:
            vs = [rng.randrange(1, 17)] + ([0] if n in (20, 32) else []) + ([1, 16] if T else [])
            for v in dict.fromkeys(vs):
                text_items.append(("enc-ok-text-%s" % kind if prog_allowed(v, n) else "enc-len-64-text-%s" % kind,
                                   _contents(rng, n, kind), v, rng.choice(NETS)))
    enc_items += text_items
    # out-of-domain arguments of the encoder
    for net in NETS:
        for n in (0, 1, 41, 42, 64, 83, 84, 85, 86, 87, 88, 100):
            enc_items.append(("enc-len-%d" % n, rng.randbytes(n), rng.choice([0, 1, 16]), net))
        for v in (-1, 17, 18, 31, 32, 255, 2 ** 64):
            enc_items.append(("enc-version-out", rng.randbytes(20), v, net))
    for net in ("signet", "", "Mainnet", "main", "bc"):
        enc_items.append(("enc-network-unknown", rng.randbytes(20), 0, net))
    # in-domain triples first, so that the first reported disagreements are failing inputs of the property itself
    enc_items.sort(key=lambda e: not e[0].startswith("enc-ok"))
    single = enc_items if T else [e for i, e in enumerate(enc_items)
                                  if i % 3 == 0 or not e[0].startswith("enc-ok") or "-text-" in e[0]]
    for (cls, d, v, net) in single:
        out.append(case(cls, "segwit_addr", d, v, net, strict=True))
    for (cls, d, v, net) in single[::4] + [e for i, e in enumerate(text_items) if len(e[1]) in (20, 32, 40, 64) or i % 3 == 0]:
        out.append(case("tba-" + cls, "to_bitcoin_address_witness", d, net, v, strict=True))
    for i in range(0, len(enc_items), 150):
        out.append(case("enc-batch", "encode_batch", [(d, v, net) for (_, d, v, net) in enc_items[i:i + 150]]))

    # ---------------- decoder / classifiers ----------------
    pool = valid_pool(rng, tier)
    strs = [("bip-vector", s) for s in VEC_VALID + repo_vectors()]
    strs += [("roundtrip-valid", a) for (a, _, _, _) in (pool if T else pool[::3])]
    strs += structural_strings(rng, tier)
    strs += string_mutants(rng, tier, pool)
    strs += unicode_mutants(rng, tier, pool)
    for _ in range(2000 if T else 150):
        strs.append(("rand-bytes", rng.randbytes(rng.randrange(0, 100))))
        k = rng.randrange(0, 80)
        strs.append(("rand-charset", rng.choice([b"bc1", b"tb1", b"bcrt1", b"BC1"]) + bytes(rng.choice(CS) for _ in range(k))))
    # valid base58check strings and near misses (is_addr / assert_addr take the other branch)
    for _ in range(60 if T else 12):
        p = bytes([rng.choice([0, 5, 0x6F, 0xC4])]) + rng.randbytes(20)
        full = p + hashlib.sha256(hashlib.sha256(p).digest()).digest()[:4]
        n = int.from_bytes(full, "big")
        e = b""
        while n:
            n, r = divmod(n, 58)
            e = _B58[r:r + 1] + e
        e = b"1" * (len(full) - len(full.lstrip(b"\0"))) + e
        strs.append(("base58check-valid", e))
        strs.append(("base58check-corrupt", _sub(e, rng.randrange(len(e)), bytes([rng.choice(_B58)]))))
    per_string_ops = [("decode_valid", True), ("spec_decode", True), ("is_segwit_addr", True), ("is_addr", True)]
    seen = set()
    uniq = []
    for cls, s in strs:
        if (cls, s) not in seen:
            seen.add((cls, s))
            uniq.append((cls, s))
    # single-string cases: every class gets them (bounded per class in the quick tier), the volume goes in batches
    per_class = {}
    limit = 120 if T else 40
    light = {"verpos-byte", "verpos-rechecksum", "non-ascii-everywhere", "bad-char-everywhere"}
    for cls, s in uniq:
        k = per_class.get(cls, 0)
        per_class[cls] = k + 1
        is_light = cls in light or cls.startswith(("unicode-nfk", "utf8-", "unicode-invisible"))
        if k >= (limit if not is_light or T else 6) or (T and is_light and k >= (300 if cls in light else 40)):
            continue
        for op, strict in per_string_ops:
            out.append(case(cls, op, s, strict=strict))
        if k % 4 == 0:
            out.append(case(cls, "decode_segwit_addr", s, strict=True))
            out.append(case(cls, "assert_addr", s, strict=True))
            out.append(case(cls, "parse_bech32", s, strict=True))
            out.append(case(cls, "decode_segwit_addr_", s, False, strict=True))
            out.append(case(cls, "decode_bech32_string", s, rng.choice([BECH32, BECH32M]), strict=True))
    allstr = [s for _, s in uniq]
    for i in range(0, len(allstr), 200):
        out.append(case("classify-batch", "classify_batch", allstr[i:i + 200]))


    # ---------------- the command line entry point `bits bech32` ----------------
    focus = {"valid", "upper-all", "bip-vector", "roundtrip-valid", "len-forbidden", "len-allowed", "const-swap", "const-other",
             "pad-nonzero", "pad-nonzero-low", "pad-overlong", "pad-overlong2", "data-checksum-only", "data-version-only",
             "data-short", "version-17-31", "hrp-wrong", "struct-fixed", "no-letters", "case-flip1", "case-upper-hrp",
             "case-upper-data", "extend-space", "subst1", "verpos-rechecksum", "base58check-valid"}
    focus |= {c_ for c_, _ in uniq if c_.startswith("unicode-lower") or c_.startswith("unicode-casefold")}
    cli_strs = [("cli-forbidden-length", b"bc1pw5dgrnzv"),                                 # v1, 1 byte
                ("cli-forbidden-length", b"BC1QR508D6QEJXTDG4Y5R3ZARVARYV98GJ9P"),         # v0, 16 bytes
                ("cli-forbidden-length", raw_encode("bc", [1] + _vals(bytes(range(41))), BECH32M)),
                ("cli-forbidden-length", raw_encode("tb", [0] + _vals(bytes(16)), BECH32)),
                ("cli-forbidden-length", raw_encode("bcrt", [16] + _vals(b"\x01"), BECH32M)),
                ("cli-forbidden-length", raw_encode("bc", [0] + _vals(bytes(33)), BECH32)),
                ("cli-forbidden-length", raw_encode("bc", [2] + _vals(bytes(45)), BECH32M)),
                ("cli-generic-bech32", b"abcdef1qpzry9x8gf2tvdw0s3jn54khce6mua7lmqqqxw"),
                ("cli-generic-bech32", b"a12uel5l"), ("cli-generic-bech32", b"A1LQFN3A"),
                ("cli-trailing-newline", VEC_VALID[1] + b"\n"), ("cli-trailing-newline", VEC_VALID[0] + b"\r\n")]
    # invalid segwit strings with a valid Bech32 checksum whose GENERIC conversion succeeds (the hrp/payload answer)
    for h in ("bc", "tb", "bcrt"):
        for n in (3, 8, 13, 18, 23):
            cli_strs.append(("cli-generic-fallback", raw_encode(h, [0] + _vals(rng.randbytes(n))[:-1] + [0], BECH32)))
            cli_strs.append(("cli-generic-fallback", raw_encode(h, _vals(rng.randbytes(n + 2)), BECH32)))
    cnt = {}
    for cls, s_ in uniq:
        k = cnt.get(cls, 0)
        lim = ((60 if cls in focus else 8) if T else (5 if cls in focus else 1))
        if k < lim:
            cnt[cls] = k + 1
            cli_strs.append(("cli-" + cls, s_))
    variants = [[], ["-P"], ["-1", "hex"], ["-0", "raw"], ["-L", "debug"], ["-1", "hex", "-0", "bin", "-P"]]
    for i, (cls, s_) in enumerate(cli_strs):
        extra = variants[i % len(variants)] if i % 3 == 0 else []
        out.append(case(cls, "cli_bech32_segwit", s_, extra))
        out.append(case(cls, "cli_bech32_decode", s_, extra, strict=True))
    fmts = ["raw", "hex", "bin", "hex-default", "x", "raw-explicit"]
    i = 0
    for net in NETS:
        for v in range(17):
            lens = [20, 32] if v == 0 else ([2, 3, 20, 32, 33, 40] if T else [2, 32, rng.choice([3, 20, 39, 40])])
            for n in lens:
                d = _contents(rng, n, rng.choice(["rand", "zero", "ones", "lowbit"]))
                fmt = fmts[i % len(fmts)]
                i += 1
                out.append(case("cli-enc-segwit-v0" if v == 0 else "cli-enc-segwit-v1plus", "cli_bech32_segwit_addr", d, v, net, fmt,
                                strict=True))
                out.append(case("cli-enc", "cli_bech32_encode", NET_HRP[net], d, v, i % 5 == 0, fmt, strict=True))
    for (h, d, wv, pr, fmt) in [(b"bc", b"", None, False, "raw"), (b"bc", b"", 0, False, "hex"), (b"bc", b"", None, True, "bin"),
                                (b"a", b"\x00", None, False, "raw"), (b"split", rng.randbytes(30), None, True, "hex"),
                                (b"bc", rng.randbytes(20), 17, False, "raw"), (b"bc", rng.randbytes(20), 31, False, "hex"),
                                (b"bc", rng.randbytes(20), 32, False, "raw"), (b"bc", rng.randbytes(20), 100, False, "raw"),
                                (b"bc", rng.randbytes(86), 0, False, "raw"), (b"bc", rng.randbytes(87), 0, False, "raw"),
                                (b"bc", rng.randbytes(87), None, False, "hex"), (b"bc", rng.randbytes(88), None, False, "raw"),
                                (b"a" * 83, b"", None, False, "raw"), (b"a" * 84, b"", None, False, "raw"),
                                (b"BC", rng.randbytes(20), 0, False, "raw"), (b"b~", rng.randbytes(5), 3, True, "x")]:
        out.append(case("cli-enc-edge", "cli_bech32_encode", h, d, wv, pr, fmt, strict=True))
    for j, (cls, d, v, net) in enumerate(text_items):
        if len(d) in (20, 32, 40, 64) or (T and j % 2 == 0) or j % 7 == 0:
            fmt = ["raw", "hex", "raw", "bin"][j % 4]
            out.append(case("cli-" + cls, "cli_bech32_segwit_addr", d, v, net, fmt, strict=True))
            out.append(case("cli-addr-" + cls, "cli_addr_witness", d, v, net, fmt, j % 5 == 0, strict=True))
    j = 0
    for net in NETS:
        for v in range(17):
            for n in ([20, 32] if v == 0 else [2, 20, 32, 40]):
                j += 1
                out.append(case("cli-addr", "cli_addr_witness", _contents(rng, n, rng.choice(["rand", "zero", "ones"])), v, net,
                                fmts[j % len(fmts)], j % 4 == 0, strict=True))
    for (d, v, net) in [(rng.randbytes(20), 17, "mainnet"), (rng.randbytes(20), -1, "testnet"), (rng.randbytes(1), 1, "mainnet"),
                        (rng.randbytes(41), 1, "regtest"), (rng.randbytes(87), 1, "mainnet"), (b"", 0, "mainnet")]:
        out.append(case("cli-addr-edge", "cli_addr_witness", d, v, net, "raw", False))
    for v in (-1, -2, -32, 17, 18, 31, 32, 255):
        for net in NETS:
            out.append(case("cli-enc-version-out", "cli_bech32_segwit_addr", rng.randbytes(rng.choice([20, 32])), v, net,
                            rng.choice(["raw", "hex"])))
            out.append(case("cli-enc-version-out", "cli_bech32_encode", NET_HRP[net], rng.randbytes(20), v, False, "raw"))
    # regression inputs of repaired defects (former KNOWN_FINDINGS witnesses): must agree now
    import glob
    import json
    import os
    from common import VERIF, case_from_json
    for wpath in sorted(glob.glob(os.path.join(VERIF, "corpus", "c06", "*.json"))):
        wc = case_from_json(json.load(open(wpath)))
        wc["cls"] = "regression-" + os.path.basename(wpath)[:-5]
        out.append(wc)

    # ---------------- volume: random mutants of valid addresses, in batches ----------------
    nmut = 120000 if T else 8000
    batch = []
    for _ in range(nmut):
        a = rng.choice(pool)[0]
        sep = a.rindex(b"1")
        k = rng.choice([1, 1, 2, 2, 3, 4])
        s = a
        for p in rng.sample(range(len(a)), min(k, len(a))):
            s = _sub(s, p, bytes([rng.choice(CS)]) if p > sep and rng.random() < 0.9 else bytes([rng.randrange(256)]))
        batch.append(s)
        if len(batch) == 250:
            out.append(case("mutant-batch", "classify_batch", batch))
            batch = []
    if batch:
        out.append(case("mutant-batch", "classify_batch", batch))

    # ---------------- exhaustive substitutions on the shortest addresses ----------------
    shortest = [p for p in pool[:6]]
    for (a, hrp, v, prog) in (shortest if T else shortest[:2]):
        sep = a.rindex(b"1")
        alts = sorted(set(CS) | set(b"1bioBQ \x7f\x80\xff"))
        one = [_sub(a, p, bytes([c])) for p in range(len(a)) for c in alts if c != a[p]]
        for i in range(0, len(one), 250):
            out.append(case("exh-subst1", "classify_batch", one[i:i + 250]))
    if T:
        for (a, hrp, v, prog) in shortest[:2]:
            sep = a.rindex(b"1")
            pos = list(range(sep + 1, len(a)))
            two = []
            for x in range(len(pos)):
                for y in range(x + 1, len(pos)):
                    for c1 in CS:
                        if c1 == a[pos[x]]:
                            continue
                        s1 = _sub(a, pos[x], bytes([c1]))
                        for c2 in CS:
                            if c2 != a[pos[y]]:
                                two.append(_sub(s1, pos[y], bytes([c2])))
            for i in range(0, len(two), 500):
                out.append(case("exh-subst2", "classify_batch", two[i:i + 500]))
    else:
        a = shortest[0][0]
        sep = a.rindex(b"1")
        two = []
        for _ in range(1000):
            x, y = rng.sample(range(sep + 1, len(a)), 2)
            two.append(_sub(_sub(a, x, bytes([rng.choice(CS)])), y, bytes([rng.choice(CS)])))
        for i in range(0, len(two), 500):
            out.append(case("exh-subst2", "classify_batch", two[i:i + 500]))

    # ---------------- the Bech32 layer on its own ----------------
    for s in repo_vectors():
        for const in (BECH32, BECH32M):
            out.append(case("bech32-vector", "decode_bech32_string", s, const, strict=True))
    for _ in range(400 if T else 60):
        hrp = bytes(rng.randrange(33, 127) for _ in range(rng.randrange(1, 10))).lower()
        vals = [rng.randrange(32) for _ in range(rng.randrange(0, 40))]
        const = rng.choice([BECH32, BECH32M, rng.randrange(1 << 30)])
        out.append(case("checksum-create", "bech32_create_checksum", hrp, vals, const))
        cs = _create_checksum(hrp.decode("latin-1"), vals, const)
        out.append(case("checksum-verify", "bech32_verify_checksum", hrp, vals + cs, const))
        out.append(case("checksum-verify-bad", "bech32_verify_checksum", hrp, vals + cs[:-1] + [cs[-1] ^ 1], const))
        out.append(case("polymod", "bech32_polymod", [rng.randrange(32) for _ in range(rng.randrange(0, 60))]))
        data = rng.randbytes(rng.randrange(0, 60))
        out.append(case("bech32-encode", "bech32_encode", hrp, data, rng.choice([b"", b"q", b"p", b"l"]), const, strict=True))
        dp = bytes(rng.choice(CS) for _ in range(rng.randrange(0, 70)))
        out.append(case("bech32-decode", "bech32_decode", dp, strict=True))
    for dp in [b"", b"q", b"l", b"qq", b"ql", b"lq", b"qqq", b"qqqq", b"qqqp", b"lllll", b"qqqqqqqq", b"b", b"qb", b"1"]:
        out.append(case("bech32-decode-edge", "bech32_decode", dp, strict=True))
    out.append(case("bech32-encode-edge", "bech32_encode", b"", b"ab", b"q", 1, strict=True))
    out.append(case("bech32-encode-edge", "bech32_encode", b"a" * 84, b"ab", b"q", 1, strict=True))
    out.append(case("bech32-encode-edge", "bech32_encode", b"a\x7f", b"ab", b"q", 1, strict=True))
    out.append(case("bech32-encode-edge", "bech32_encode", b"bc", b"ab", b"1", 1, strict=True))      # KeyError
    out.append(case("bech32-encode-edge", "bech32_encode", b"bc", b"", b"q", 1, strict=True))
    for (h, v, p) in [(b"bc", 0, bytes(20)), (b"bc", 0, bytes(21)), (b"tc", 1, bytes(20)), (b"bcrt", 16, bytes(40)),
                      (b"bc", 1, bytes(41)), (b"bc", 1, bytes(1)), (b"tb", 1, bytes(2)), (b"BC", 1, bytes(20)), (b"", 0, b"")]:
        out.append(case("assert-valid-segwit", "assert_valid_segwit", h, v, p, strict=True))
    global _LAST_CASES
    _LAST_CASES = out
    return out


# ---------------------------------------------------------------------------------------------------
# shrinking
# ---------------------------------------------------------------------------------------------------
def shrink(c):
    a0 = c["args"][0]
    if c["op"] in ("classify_batch", "encode_batch"):
        n = len(a0)
        if n > 1:
            for part in (a0[: n // 2], a0[n // 2:]):
                c2 = dict(c)
                c2["args"] = [part]
                yield c2
        elif n == 1 and c["op"] == "classify_batch":
            for b in shrink_bytes(a0[0]):
                c2 = dict(c)
                c2["args"] = [[b]]
                yield c2
        return
    if isinstance(a0, (bytes, bytearray)) and c["op"] not in ("segwit_addr", "to_bitcoin_address_witness", "bech32_encode",
                                                              "bech32_create_checksum", "bech32_verify_checksum",
                                                              "cli_bech32_encode", "cli_bech32_segwit_addr", "cli_addr_witness"):
        for b in shrink_bytes(a0):
            c2 = dict(c)
            c2["args"] = [b] + list(c["args"][1:])
            yield c2


# ---------------------------------------------------------------------------------------------------
# the literal property statement on the implementation
# ---------------------------------------------------------------------------------------------------
def _check_string(u, s):
    exp = ref_decode(s)
    try:
        got = _decode_valid(s)
        got = (bytes(got[0]), got[1], bytes(got[2]))
    except AssertionError:
        got = None
    except BaseException as e:  # noqa
        return "decode_segwit_addr/assert_valid_segwit raised %s (not AssertionError) on %r" % (type(e).__name__, s)
    if got != exp:
        return "decoder+validity check gives %r on %r; BIP173/BIP350 reference decoder gives %r" % (got, s, exp)
    try:
        r = u.is_segwit_addr(s)
    except BaseException as e:  # noqa
        return "is_segwit_addr(%r) raised %s instead of returning a bool" % (s, type(e).__name__)
    if r is not (exp is not None):
        return "is_segwit_addr(%r) = %r; BIP173/BIP350 validity is %r" % (s, r, exp is not None)
    want = (exp is not None) or ref_is_base58check(s)
    try:
        r = u.is_addr(s)
    except BaseException as e:  # noqa
        return "is_addr(%r) raised %s instead of returning a bool" % (s, type(e).__name__)
    if r is not want:
        return "is_addr(%r) = %r; expected %r" % (s, r, want)
    try:
        r = u.assert_addr(s)
        if r is not True or not want:
            return "assert_addr(%r) returned %r; expected %s" % (s, r, "True" if want else "AssertionError")
    except AssertionError:
        if want:
            return "assert_addr(%r) raised AssertionError on a valid address" % (s,)
    except BaseException as e:  # noqa
        return "assert_addr(%r) raised %s" % (s, type(e).__name__)
    return None


def _check_encode(u, d, v, net):
    if net not in HRPS or not isinstance(v, int) or not prog_allowed(v, len(d)):
        return None        # outside the domain the property quantifies over
    h = HRPS[net]
    try:
        a = u.segwit_addr(d, witness_version=v, network=net)
    except BaseException as e:  # noqa
        return "segwit_addr raised %s for an allowed (version %d, %d-byte program, %s)" % (type(e).__name__, v, len(d), net)
    if a != ref_encode(h, v, d):
        return "segwit_addr(%s, %d, %s) = %r is not the BIP173/BIP350 encoding %r" % (d.hex(), v, net, a, ref_encode(h, v, d))
    if len(a) > 90:
        return "address longer than 90 characters"
    try:
        got = u.decode_segwit_addr(a)
        if (bytes(got[0]), got[1], bytes(got[2])) != (h.encode(), v, d):
            return "decode_segwit_addr(segwit_addr(x)) = %r, expected %r" % (got, (h.encode(), v, d))
        u.assert_valid_segwit(*got)
    except BaseException as e:  # noqa
        return "round trip raised %s on %r" % (type(e).__name__, a)
    if u.is_segwit_addr(a) is not True or u.is_addr(a) is not True:
        return "is_segwit_addr / is_addr do not return True on the produced address %r" % a
    if u.to_bitcoin_address(d, network=net, witness_version=v) != a:
        return "to_bitcoin_address(witness_version=...) differs from segwit_addr"
    return None


def _has_letter(s):
    return any(65 <= x <= 90 or 97 <= x <= 122 for x in s)


def ref_bech32(s: bytes, const):
    """generic Bech32 layer: (hrp, 5-bit data without checksum) or None"""
    hrp, data, got = _bech32_decode(s.decode("latin-1"))
    if hrp is None or got != const:
        return None
    return (hrp.encode("latin-1"), data)


def ref_decode_novalid(s: bytes, bip350=True):
    """what decode_segwit_addr alone must produce: Bech32(m)-valid for the version, version <= 16, convertible
    payload of at least one character; no rule on the hrp or the program length yet"""
    hrp, data, const = _bech32_decode(s.decode("latin-1"))
    if hrp is None or not data or data[0] > 16 or len(data) < 2:
        return None
    if const != (BECH32M if (data[0] != 0 and bip350) else BECH32):
        return None
    prog = _convertbits(data[1:], 5, 8, False)
    if prog is None:
        return None
    return (hrp.encode("latin-1"), data[0], bytes(prog))


def _check_intermediate(u, op, a):
    """the functions below the classifier, against the BIP reference (strings without any letter excluded:
    parse_bech32 rejects those although BIP173 allows them - a deviation outside segwit addresses)"""
    s = a[0]
    if not _has_letter(s):
        return None
    b = _b()

    def run(f):
        try:
            return ("ok", f())
        except AssertionError:
            return ("ok", None)
        except BaseException as e:  # noqa
            return ("raised", type(e).__name__)
    if op in ("decode_segwit_addr", "decode_segwit_addr_"):
        flag = a[1] if op == "decode_segwit_addr_" else True
        want = ref_decode_novalid(s, flag)
        got = run(lambda: u.decode_segwit_addr(s, __support_bip350=flag))
        if got[0] == "raised":
            return "decode_segwit_addr(%r) raised %s (not AssertionError)" % (s, got[1])
        g = got[1] if got[1] is None else (bytes(got[1][0]), got[1][1], bytes(got[1][2]))
        if g != want:
            return "decode_segwit_addr(%r, bip350=%r) gives %r; BIP173/BIP350 decoding gives %r" % (s, flag, g, want)
    if op == "decode_bech32_string":
        r = ref_bech32(s, a[1])
        want = None
        if r is not None and r[1]:
            cv = _convertbits(r[1], 5, 8, False)
            want = None if cv is None else (r[0], bytes(cv))
        got = run(lambda: b.decode_bech32_string(s, constant=a[1]))
        if got[0] == "raised":
            return "decode_bech32_string(%r) raised %s (not AssertionError)" % (s, got[1])
        g = got[1] if got[1] is None else (bytes(got[1][0]), bytes(got[1][1]))
        if g != want:
            return "decode_bech32_string(%r, %#x) gives %r; the BIP173 reference gives %r" % (s, a[1], g, want)
    if op == "parse_bech32":
        text = s.decode("latin-1")
        want = None
        low = s.lower()
        if len(s) <= 90 and not (text.lower() != text and text.upper() != text) and b"1" in low and low.rindex(b"1") > 0:
            want = (low[:low.rindex(b"1")], low[low.rindex(b"1") + 1:])
        got = run(lambda: b.parse_bech32(s))
        if got[0] == "raised":
            return "parse_bech32(%r) raised %s (not AssertionError)" % (s, got[1])
        g = got[1] if got[1] is None else (bytes(got[1][0]), bytes(got[1][1]))
        if g != want:
            return "parse_bech32(%r) gives %r; splitting at the last '1' of the lowercase form gives %r" % (s, g, want)
    return None


def _check_cli_decode(u, s, extra):
    """`bits bech32 --decode` reports a segwit address exactly for BIP173/BIP350-valid strings, with their triple;
    a refusal leaves stdout empty; the library on the same string must satisfy the property as well"""
    r = _check_string(u, s)
    if r:
        return r
    exp = ref_decode(s)
    try:
        got = _cli_segwit(s, extra)
    except (CliEmittedOnRefusal, CliMalformed) as e:
        return "bits bech32 --decode on %r: %s: %s" % (s, type(e).__name__, e)
    if got is not None:
        got = (bytes(got[0]), got[1], bytes(got[2]))
    if got != exp:
        return ("`bits bech32 --decode` reports %r as segwit address %r; BIP173/BIP350 (and decode_segwit_addr + "
                "assert_valid_segwit) give %r" % (s, got, exp))
    if exp is None and _has_letter(s):
        # not a segwit address: the command answers with the generic Bech32 (constant 1) decoding, or refuses
        rb = ref_bech32(s, BECH32)
        want = None
        if rb is not None and rb[1]:
            cv = _convertbits(rb[1], 5, 8, False)
            want = None if cv is None else ("bech32", rb[0], bytes(cv))
        try:
            full = _cli_decode_report(s, extra)
        except (CliEmittedOnRefusal, CliMalformed) as e:
            return "bits bech32 --decode on %r: %s: %s" % (s, type(e).__name__, e)
        except BaseException as e:  # noqa
            if type(e).__name__ == "CaseTimeout":
                raise
            full = None
        if isinstance(full, tuple):
            full = tuple(bytes(x) if isinstance(x, (bytes, bytearray)) else x for x in full)
        if full != want:
            return "`bits bech32 --decode` answers %r on %r; the generic Bech32 decoding of BIP173 is %r" % (full, s, want)
    return None


def _check_cli_encode(u, hrp, d, wv, pr, fmt):
    try:
        out = _cli_encode(hrp, d, wv, pr, fmt)
    except (CliEmittedOnRefusal, CliMalformed) as e:
        return "bits bech32 --hrp: %s: %s" % (type(e).__name__, e)
    except BaseException as e:  # noqa
        if wv is not None and hrp in NET_HRP.values() and prog_allowed(wv, len(d)):
            return "bits bech32 --hrp %s --wv %d refused an allowed %d-byte program (%s)" % (hrp.decode(), wv, len(d), type(e).__name__)
        return None
    tail = b"\n" if pr else b""
    if wv is not None and not 0 <= wv <= 16:
        return "bits bech32 --hrp %s --wv %d was not refused (witness versions are 0..16): wrote %r" % (hrp.decode(), wv, out)
    if wv is None:
        if len(hrp) + 1 + (8 * len(d) + 4) // 5 + 6 <= 90 and out != raw_encode(hrp.decode("latin-1"), _vals(d), BECH32) + tail:
            return "bits bech32 --hrp output %r is not the Bech32 encoding of the data" % (out,)
        return None
    if hrp in NET_HRP.values() and prog_allowed(wv, len(d)):
        want = ref_encode(hrp.decode(), wv, d) + tail
        if out != want:
            return ("`bits bech32 --hrp %s --wv %d` on %s gives %r; segwit_addr / BIP173+BIP350 give %r (is_segwit_addr "
                    "of the output: %r)" % (hrp.decode(), wv, d.hex(), out, want, u.is_segwit_addr(out[:len(out) - len(tail)])))
    return None


def prop_oracle(c):
    if c["op"] in ("cli_bech32_segwit", "cli_bech32_decode"):
        return _check_cli_decode(_u(), c["args"][0], c["args"][1])
    if c["op"] == "cli_bech32_encode":
        return _check_cli_encode(_u(), *c["args"])
    if c["op"] == "cli_addr_witness":
        d, v, n, fmt, pr = c["args"]
        r = _check_encode(_u(), d, v, n)
        if r or n not in HRPS or not prog_allowed(v, len(d)):
            return r
        try:
            got = _cli_addr(d, v, n, fmt, pr)
        except BaseException as e:  # noqa
            return "`bits addr --witness-version %d -N %s` refused an allowed %d-byte program (%s)" % (v, n, len(d), type(e).__name__)
        if got != ref_encode(HRPS[n], v, d):
            return "`bits addr --witness-version %d -N %s` on %s gives %r; BIP173/BIP350 give %r" % (v, n, d.hex(), got, ref_encode(HRPS[n], v, d))
        return None
    if c["op"] == "cli_bech32_segwit_addr":
        d, v, n, fmt = c["args"]
        return _check_encode(_u(), d, v, n) or _check_cli_encode(_u(), NET_HRP[n], d, v, False, fmt)
    u = _u()
    op = c["op"]
    a = c["args"]
    if op == "classify_batch":
        for s in a[0]:
            r = _check_string(u, s)
            if r:
                return r
        return None
    if op == "encode_batch":
        for (d, v, n) in a[0]:
            r = _check_encode(u, d, v, n)
            if r:
                return r
        return None
    if op == "segwit_addr":
        return _check_encode(u, a[0], a[1], a[2])
    if op == "to_bitcoin_address_witness":
        return _check_encode(u, a[0], a[2], a[1])
    if op in ("decode_valid", "spec_decode", "valid_segwit", "is_segwit_addr", "is_addr", "assert_addr",
              "decode_segwit_addr", "decode_segwit_addr_", "parse_bech32", "decode_bech32_string"):
        r = _check_string(u, a[0])
        if r:
            return r
        return _check_intermediate(u, op, a)
    if op == "bech32_decode":
        dp = a[0]
        if not dp or any(ch not in CS for ch in dp):
            return None            # outside the function's domain (it raises KeyError / IndexError there)
        want = _convertbits([CS.index(ch) for ch in dp], 5, 8, False)
        want = None if want is None else bytes(want)
        try:
            got = _b().bech32_decode(dp)
        except AssertionError:
            got = None
        except BaseException as e:  # noqa
            return "bech32_decode(%r) raised %s" % (dp, type(e).__name__)
        if got != want:
            return "bech32_decode(%r) = %r; BIP173's 5-to-8 conversion gives %r" % (dp, got, want)
        return None
    if op == "assert_valid_bech32":
        return _check_string(u, a[0] + b"1" + a[1])
    if op in ("bech32_create_checksum", "bech32_verify_checksum"):
        b = _b()
        hrp, vals, const = a[0], [x & 31 for x in a[1]], a[2]
        cs = b.bech32_create_checksum([bytes([x]) for x in hrp], vals, constant=const)
        if cs != _create_checksum(hrp.decode("latin-1"), vals, const):
            return "bech32_create_checksum differs from the BIP173 reference"
        if b.bech32_verify_checksum([bytes([x]) for x in hrp], vals + cs, constant=const) is not True:
            return "verify_checksum(data + create_checksum(data)) is not True"
        return None
    if op == "bech32_polymod":
        if _b().bech32_polymod(a[0]) != _polymod(a[0]):
            return "bech32_polymod differs from the BIP173 reference"
        return None
    if op == "bech32_encode":
        hrp, data, wv, const = a
        if len(wv) == 1 and wv in CS and 0 < len(hrp) < 20 and all(33 <= x < 127 for x in hrp) and len(data) < 60:
            want = raw_encode(hrp.decode("latin-1"), [CS.index(wv)] + _vals(data), const)
            if _b().bech32_encode(hrp, data, witness_version=wv, constant=const) != want:
                return "bech32_encode differs from the BIP173 reference encoding"
        return None
    if op == "assert_valid_segwit":
        h, v, p = a
        want = h in (b"bc", b"tb", b"bcrt") and prog_allowed(v, len(p))
        try:
            u.assert_valid_segwit(h, v, p)
            got = True
        except AssertionError:
            got = False
        if got != want:
            return "assert_valid_segwit accepts=%r, BIP173/BIP141 say %r" % (got, want)
    return None


_LAST_CASES = []


def extra_checks(ctx):
    """the literal property (independent BIP173/BIP350 reference vs implementation) on every batch of this run:
    the correspondence alone would not notice a defect shared by the model and the code"""
    impl = ctx["impl"]
    out = []
    n = 0
    for c in _LAST_CASES:
        if c["op"] not in ("classify_batch", "encode_batch"):
            continue
        n += len(c["args"][0])
        verdict = impl.oracle(c)
        if verdict is None:
            continue
        items = c["args"][0]
        while len(items) > 1:        # narrow the batch down to one failing element
            half = items[: len(items) // 2]
            c2 = dict(c)
            c2["args"] = [half]
            v2 = impl.oracle(c2)
            if v2 is not None:
                items, verdict = half, v2
            else:
                items = items[len(items) // 2:]
        c3 = dict(c)
        c3["args"] = [items]
        c3["cls"] = c["cls"] + "-oracle"
        v3 = impl.oracle(c3)
        out.append({"kind": "input", "case": case_to_json(c3), "observed": short(v3 or verdict, 1500),
                    "expected": "the BIP173/BIP350 reference decoder/encoder (harness/c06.py) and the implementation coincide",
                    "oracle": v3 or verdict, "failing_input_found": True})
        if len(out) >= 3:
            break
    ctx["stats"].setdefault("extra", {})["literal_property_evaluations"] = n
    if ctx["tier"] == "thorough":
        # every 1- and 2-character substitution (over the 32-character table; 1-substitutions also over
        # separator/excluded/upper-case/non-ASCII characters) of the shortest addresses was enumerated
        ctx["stats"]["exhaustive"] = True
    return out


# ---------------------------------------------------------------------------------------------------
# the same computation as a Coq term, for the vm_compute cross-check of the extraction
# ---------------------------------------------------------------------------------------------------
def _coq_triple_result(mr):
    if mr[0] == "ok":
        h, v, p = mr[1]
        return "Ok (%s, %s, %s)" % (coq_bytes(h), coq_lit(v), coq_bytes(p))
    return "Err %s" % mr[1]


def coq_equation(c, mr):
    op = c["op"]
    a = c["args"]
    if op in ("classify_batch", "encode_batch", "cli_bech32_decode", "cli_bech32_encode", "cli_addr_witness"):
        return None
    if op == "cli_bech32_segwit":
        op = "spec_decode"
    if op == "cli_bech32_segwit_addr":
        op, a = "segwit_addr", a[:3]
    if isinstance(a[0], (bytes, bytearray)) and len(a[0]) > 100:
        return None
    if op in ("decode_valid", "decode_segwit_addr"):
        return "c06_%s %s = %s" % (op, coq_bytes(a[0]), _coq_triple_result(mr))
    if op == "decode_segwit_addr_":
        return "c06_decode_segwit_addr_ %s %s = %s" % (coq_bytes(a[0]), coq_lit(a[1]), _coq_triple_result(mr))
    if op == "spec_decode":
        if mr[1] is None:
            return "c06_spec_decode %s = None" % coq_bytes(a[0])
        h, v, p = mr[1]
        return "c06_spec_decode %s = Some (%s, %s, %s)" % (coq_bytes(a[0]), coq_bytes(h), coq_lit(v), coq_bytes(p))
    if op == "is_segwit_addr":
        return "c06_is_segwit_addr %s = %s" % (coq_bytes(a[0]), coq_result(mr))
    if op in ("is_addr", "assert_addr"):
        return "c06_%s sha256 %s = %s" % (op, coq_bytes(a[0]), coq_result(mr))
    if op == "segwit_addr":
        if abs(a[1]) > 1000:
            return None
        return "c06_segwit_addr %s %s %s = %s" % (coq_bytes(a[0]), coq_lit(a[1]), coq_lit(a[2]), coq_result(mr))
    if op == "to_bitcoin_address_witness":
        if abs(a[2]) > 1000:
            return None
        return "c06_to_bitcoin_address_witness %s %s %s = %s" % (coq_bytes(a[0]), coq_lit(a[1]), coq_lit(a[2]), coq_result(mr))
    if op == "parse_bech32":
        if mr[0] == "ok":
            return "c06_parse_bech32 %s = Ok (%s, %s)" % (coq_bytes(a[0]), coq_bytes(mr[1][0]), coq_bytes(mr[1][1]))
        return "c06_parse_bech32 %s = Err %s" % (coq_bytes(a[0]), mr[1])
    if op == "bech32_decode":
        return "c06_bech32_decode %s = %s" % (coq_bytes(a[0]), coq_result(mr))
    if op == "bech32_encode":
        return "c06_bech32_encode %s %s %s %s = %s" % (coq_bytes(a[0]), coq_bytes(a[1]), coq_bytes(a[2]), coq_lit(a[3]), coq_result(mr))
    if op == "bech32_polymod":
        return "c06_bech32_polymod %s = %s" % (coq_lit(a[0]), coq_lit(mr[1]))
    if op == "bech32_create_checksum":
        return "c06_bech32_create_checksum %s %s %s = %s" % (coq_bytes(a[0]), coq_lit(a[1]), coq_lit(a[2]), coq_lit(mr[1]))
    if op == "bech32_verify_checksum":
        return "c06_bech32_verify_checksum %s %s %s = %s" % (coq_bytes(a[0]), coq_lit(a[1]), coq_lit(a[2]), coq_lit(mr[1]))
    return None


# ops whose answer must not depend on the concrete bytes-like type of their arguments (they agree on the pinned tree;
# tools/bytearray_probe.py); common.py re-runs a sample of their cases with bytearray arguments
BYTEARRAY_OPS = {'to_bitcoin_address_witness', 'bech32_create_checksum', 'decode_bech32_string', 'segwit_addr', 'bech32_encode', 'bech32_decode', 'assert_valid_segwit', 'parse_bech32', 'bech32_verify_checksum'}
MEMORYVIEW_OPS = {'bech32_verify_checksum', 'bech32_create_checksum', 'bech32_decode', 'to_bitcoin_address_witness', 'assert_valid_segwit', 'segwit_addr'}
