"""C11 generator classes: CONTENT THAT LOOKS LIKE STRUCTURE.

Scripts (scriptCode, scriptPubKeys, scriptSigs) whose leading bytes read as a length prefix / push opcode for exactly the
rest of the script: for every script length L and every "spelling" below, the script starts with the spelling's encoding
of the number of bytes that follow it.  A serialiser that tries to recognise an already-prefixed or PUSHDATA-spelled script
(and strips / rewrites the prefix) misfires on exactly these; BIP143 item 5 is CompactSize(len) + script whatever the
script's bytes say.  Also raw (wm_raw) scriptcode arguments that ARE such spellings: witness_message must copy them verbatim.
"""


def _cs(n):
    if n < 253:
        return bytes([n])
    if n < 0x10000:
        return b"\xfd" + n.to_bytes(2, "little")
    if n < 0x100000000:
        return b"\xfe" + n.to_bytes(4, "little")
    return b"\xff" + n.to_bytes(8, "little")


def _w(width, order="little", lead=b""):
    def f(rest):
        return lead + rest.to_bytes(width, order) if rest < 256 ** width else None
    f.size = width + len(lead)
    return f


def _csf(rest):
    return _cs(rest)


# spelling name -> (header size as a function of the remaining length is implicit: try every size 1..9)
SPELLINGS = {
    "u8": _w(1), "le16": _w(2), "le32": _w(4), "be16": _w(2, "big"), "be32": _w(4, "big"),
    "pushdata1": _w(1, lead=b"\x4c"), "pushdata2": _w(2, lead=b"\x4d"), "pushdata4": _w(4, lead=b"\x4e"),
    "cs-fd": _w(2, lead=b"\xfd"), "cs-fe": _w(4, lead=b"\xfe"), "cs-ff": _w(8, lead=b"\xff"),
}


def lookalike(rng, L, spelling, off=0):
    """a script of exactly L bytes that starts with `spelling` of (number of bytes after the header) + off; None if impossible"""
    f = SPELLINGS[spelling]
    if L < f.size:
        return None
    rest = L - f.size + off
    if rest < 0:
        return None
    h = f(rest)
    if h is None:
        return None
    return h + rng.randbytes(L - f.size)


def compact_lookalike(rng, L):
    """starts with the minimal CompactSize of the rest (direct push opcode for rest <= 75)"""
    for hs in (1, 3, 5):
        if L >= hs and len(_cs(L - hs)) == hs:
            return _cs(L - hs) + rng.randbytes(L - hs)
    return None


LEADS = [0x00, 0x4b, 0x4c, 0x4d, 0x4e, 0x4f, 0xfc, 0xfd, 0xfe, 0xff]


def gen(rng, tier, rand_tx, amount, both, case, std_flags):
    T = tier == "thorough"
    out = []

    def one(cls, script, where, vs_spec):
        n_in, n_out = rng.randrange(1, 5), rng.randrange(1, 5)
        ver, ins, outs, lt = rand_tx(rng, n_in, n_out)
        idx = rng.randrange(n_in)
        sc = rng.randbytes(25)
        if where == "scriptcode":
            sc = script
        elif where == "spk":
            k = rng.randrange(n_out)
            outs[k] = (outs[k][0], script)
            if rng.random() < 0.5:
                idx = min(k, n_in - 1)                      # SINGLE then commits to exactly this output
        else:
            k = rng.choice([idx, rng.randrange(n_in)])
            ins[k] = (ins[k][0], ins[k][1], script, ins[k][3])
        args = [ver, ins, outs, lt, idx, amount(rng), sc, rng.choice(std_flags)]
        if vs_spec:
            both(out, cls, args)
        else:
            out.append(case(cls, "wm_tx", *args, strict=True))

    # ---- scriptCode: EVERY length x every spelling (exact, and off by one either way) ----
    lengths = list(range(0, 601)) + [65535, 65536, 65537, 65538, 65539, 65540, 65541]
    for L in lengths:
        big = L > 600
        if big and not T:
            continue
        for name in SPELLINGS:
            for off in (0,) if not T else (0, -1, 1):
                s = lookalike(rng, L, name, off)
                if s is not None:
                    one("looks-like-length/scriptcode/%s%s" % (name, "" if off == 0 else "/off%+d" % off), s, "scriptcode",
                        vs_spec=(L % 3 == 0))
        s = compact_lookalike(rng, L)
        if s is not None:
            one("looks-like-length/scriptcode/compactsize", s, "scriptcode", vs_spec=(L % 3 == 0))
        if L >= 1 and (T or L % 4 == 0 or L in (75, 76, 77, 78, 252, 253, 254, 255, 256, 257, 258)):
            one("leading-opcode/scriptcode", bytes([rng.choice(LEADS)]) + rng.randbytes(L - 1), "scriptcode", vs_spec=False)
    # ---- the same at the start of output scripts and of scriptSigs (slices txin[:36] / txin[-4:], hashOutputs) ----
    lens2 = list(range(0, 601)) if T else (list(range(0, 90)) + list(range(250, 262)) + [300, 520, 600])
    for where in ("spk", "scriptsig"):
        for L in lens2:
            for name in SPELLINGS:
                s = lookalike(rng, L, name)
                if s is not None:
                    one("looks-like-length/%s/%s" % (where, name), s, where, vs_spec=(L % 5 == 0))
            s = compact_lookalike(rng, L)
            if s is not None:
                one("looks-like-length/%s/compactsize" % where, s, where, vs_spec=(L % 5 == 0))
    # ---- raw scriptcode arguments that ARE a prefixed / PUSHDATA-spelled script: copied verbatim into item 5 ----
    for n in (list(range(0, 80)) + [252, 253, 254, 255, 256, 300, 520, 600]) if not T else range(0, 601):
        for name in SPELLINGS:
            f = SPELLINGS[name]
            h = f(n)
            if h is None:
                continue
            ver, ins, outs, lt = rand_tx(rng, 2, 2)
            txins = [t + v.to_bytes(4, "little") + _cs(len(s)) + s + q.to_bytes(4, "little") for (t, v, s, q) in ins]
            txouts = [a.to_bytes(8, "little") + _cs(len(s)) + s for (a, s) in outs]
            out.append(case("raw-scriptcode-spelling/%s" % name, "wm_raw", txins, rng.randrange(2), amount(rng),
                            h + rng.randbytes(n), txouts, ver, lt, rng.choice(std_flags), strict=True))
    # ---- relations between elements: repeated inputs / outputs / txids, equal fields ----
    for _ in range(30 if T else 8):
        n = rng.randrange(2, 6)
        ver, ins, outs, lt = rand_tx(rng, 1, 1)
        i0, o0 = ins[0], outs[0]
        variants = {
            "same-input-repeated": ([i0] * n, [o0] * rng.randrange(1, 4)),
            "same-output-repeated": ([(rng.randbytes(32), k, b"", 0xFFFFFFFF) for k in range(n)], [o0] * n),
            "same-txid-all-inputs": ([(i0[0], k, i0[2], i0[3]) for k in range(n)], [o0, (o0[0], o0[1] + b"\x00")]),
            "vout-equals-sequence": ([(rng.randbytes(32), k, b"", k) for k in range(n)], [(k, bytes([k])) for k in range(n)]),
        }
        for name, (ii, oo) in variants.items():
            for flag in std_flags:
                both(out, "repeated-elements/" + name, [ver, ii, oo, lt, rng.randrange(n), amount(rng), rng.randbytes(25), flag])
    # ---- fingerprint collisions: consecutive calls (same worker) whose arguments agree on every cheap fingerprint -
    #      Python int hash (a and a + 2**61-1), length + first/last bytes, everything but one middle byte ----
    M61 = 2 ** 61 - 1
    for _ in range(12 if T else 4):
        n_in, n_out = rng.randrange(1, 4), rng.randrange(1, 4)
        ver, ins, outs, lt = rand_tx(rng, n_in, n_out)
        a = rng.randrange(0, 2 ** 64 - 7 * M61)
        sc = rng.randbytes(rng.choice([25, 35, 71]))
        mid = len(sc) // 2
        sc2 = sc[:mid] + bytes([sc[mid] ^ 0x40]) + sc[mid + 1:]
        k = rng.randrange(n_out)
        spk = outs[k][1] if len(outs[k][1]) >= 3 else rng.randbytes(22)
        outs[k] = (outs[k][0], spk)
        outs_mid = list(outs)
        outs_mid[k] = (outs[k][0] % (2 ** 64 - M61) + M61, spk[:1] + bytes([spk[1] ^ 1]) + spk[2:])
        ins_mid = [(t[:16] + bytes([t[16] ^ 0x80]) + t[17:], v, s_, q) for (t, v, s_, q) in ins]
        for flag in std_flags:
            idx = rng.randrange(n_in)
            for name, (ii, oo, amt, script) in (("base", (ins, outs, a, sc)), ("amount+2^61-1", (ins, outs, a + M61, sc)),
                                                ("amount+2*(2^61-1)", (ins, outs, a + 2 * M61, sc)),
                                                ("scriptcode-middle-byte", (ins, outs, a, sc2)), ("base-again", (ins, outs, a, sc)),
                                                ("output-middle", (ins, outs_mid, a, sc)), ("txid-middle-byte", (ins_mid, outs, a, sc)),
                                                ("base-last", (ins, outs, a, sc))):
                both(out, "fingerprint-pairs/" + name, [ver, list(ii), list(oo), lt, idx, amt, script, flag])
    return out
