"""Shared helper of C05 / C04: transaction grammar generator, an INDEPENDENT minimal serialiser / strict
parser (written from the developer reference + BIP141/144, NOT from /repo and NOT from the Coq model), the
public-API builders used inside the worker, and the dict -> tuple canonicalisation.

Canonical structured form (identical to Model/Tx.v, field by field):
  txin  = (txid: bytes32, vout: int, scriptsig: bytes, sequence: bytes4)
          <- dict {"txid": hex, "vout": int, "scriptsig": hex, "sequence": hex}   (bytes.fromhex on the hex fields)
  txout = (value: int, scriptpubkey: bytes)        <- dict {"value": int, "scriptpubkey": hex}
  tx    = (version, [txin..], [txout..], None | [[item: bytes ..] ..], locktime)
          witnesses: key "witnesses" present (segwit) -> list of stacks of bytes.fromhex(item); absent -> None
  parsed = (txid: bytes, wtxid: bytes, raw: bytes, tx)      <- dict keys "txid","wtxid","raw" (include_raw=True)
"""
import hashlib

# ------------------------------------------------------------------------------------------------
# independent reference (developer reference "CompactSize", "Raw transaction format"; BIP141/144)
# ------------------------------------------------------------------------------------------------
def ref_cs(n):
    assert 0 <= n < 1 << 64
    if n < 253:
        return bytes([n])
    if n < 1 << 16:
        return b"\xfd" + n.to_bytes(2, "little")
    if n < 1 << 32:
        return b"\xfe" + n.to_bytes(4, "little")
    return b"\xff" + n.to_bytes(8, "little")


def ref_var(b):
    return ref_cs(len(b)) + b


def ref_txin(i):
    return i[0] + i[1].to_bytes(4, "little") + ref_var(i[2]) + i[3]


def ref_txout(o):
    return o[0].to_bytes(8, "little") + ref_var(o[1])


def ref_stack(items):
    return ref_cs(len(items)) + b"".join(ref_var(x) for x in items)


def ref_ser(t, with_witness=True):
    ver, ins, outs, wits, lt = t
    body = ref_cs(len(ins)) + b"".join(ref_txin(i) for i in ins) + ref_cs(len(outs)) + b"".join(ref_txout(o) for o in outs)
    if wits is not None and with_witness:
        return ver.to_bytes(4, "little") + b"\x00\x01" + body + b"".join(ref_stack(w) for w in wits) + lt.to_bytes(4, "little")
    return ver.to_bytes(4, "little") + body + lt.to_bytes(4, "little")


def hash256(b):
    return hashlib.sha256(hashlib.sha256(b).digest()).digest()


class _Short(Exception):
    pass


def _take(buf, pos, n):
    if pos + n > len(buf):
        raise _Short()
    return buf[pos:pos + n], pos + n


def _rd_cs(buf, pos):
    b, pos = _take(buf, pos, 1)
    f = b[0]
    w = {253: 2, 254: 4, 255: 8}.get(f)
    if w is None:
        return f, pos
    b, pos = _take(buf, pos, w)
    n = int.from_bytes(b, "little")
    if ref_cs(n) != bytes([f]) + b:
        raise _Short()          # non-canonical: not a reference encoding
    return n, pos


def ref_parse(buf):
    """strict parser of ONE canonical transaction at the start of buf -> (tx tuple, consumed) or None"""
    try:
        pos = 0
        v, pos = _take(buf, pos, 4)
        seg = buf[pos:pos + 2] == b"\x00\x01"
        if seg:
            pos += 2
        nin, pos = _rd_cs(buf, pos)
        if nin == 0 or nin > len(buf):
            return None
        ins = []
        for _ in range(nin):
            h, pos = _take(buf, pos, 32)
            idx, pos = _take(buf, pos, 4)
            ln, pos = _rd_cs(buf, pos)
            sc, pos = _take(buf, pos, ln)
            sq, pos = _take(buf, pos, 4)
            ins.append((h, int.from_bytes(idx, "little"), sc, sq))
        nout, pos = _rd_cs(buf, pos)
        if nout > len(buf):
            return None
        outs = []
        for _ in range(nout):
            val, pos = _take(buf, pos, 8)
            ln, pos = _rd_cs(buf, pos)
            sc, pos = _take(buf, pos, ln)
            outs.append((int.from_bytes(val, "little"), sc))
        wits = None
        if seg:
            wits = []
            for _ in range(nin):
                cnt, pos = _rd_cs(buf, pos)
                if cnt > len(buf):
                    return None
                st = []
                for _ in range(cnt):
                    ln, pos = _rd_cs(buf, pos)
                    it, pos = _take(buf, pos, ln)
                    st.append(it)
                wits.append(st)
        lt, pos = _take(buf, pos, 4)
        return (int.from_bytes(v, "little"), ins, outs, wits, int.from_bytes(lt, "little")), pos
    except _Short:
        return None


# ------------------------------------------------------------------------------------------------
# worker side: the structured transaction through /repo's PUBLIC API, and dict -> tuple
# ------------------------------------------------------------------------------------------------
def api_ser(t):
    import bits
    import bits.tx as m
    import bits.script
    ver, ins, outs, wits, lt = t
    txins = [m.txin(m.outpoint(i[0], i[1]), i[2], sequence=i[3]) for i in ins]
    txouts = [m.txout(o[0], o[1]) for o in outs]
    sw = [] if wits is None else [bits.script.script([x.hex() for x in w], witness=True) for w in wits]
    return m.tx(txins, txouts, version=ver, locktime=lt, script_witnesses=sw)


def canon_parsed_dict(d):
    """the dict returned by tx_deser(include_raw=True) -> parsed tuple (mapping in the module docstring)"""
    ins = [(bytes.fromhex(i["txid"]), i["vout"], bytes.fromhex(i["scriptsig"]), bytes.fromhex(i["sequence"]))
           for i in d["txins"]]
    outs = [(o["value"], bytes.fromhex(o["scriptpubkey"])) for o in d["txouts"]]
    wits = None
    if "witnesses" in d:
        wits = [[bytes.fromhex(x) for x in w] for w in d["witnesses"]]
    extra = set(d) - {"txid", "wtxid", "raw", "version", "txins", "txouts", "witnesses", "locktime"}
    if extra:
        raise ValueError("unexpected keys %r" % sorted(extra))
    return (bytes.fromhex(d["txid"]), bytes.fromhex(d["wtxid"]), bytes.fromhex(d["raw"]),
            (d["version"], ins, outs, wits, d["locktime"]))


def canon_tx_deser_worker(r):
    """inside the worker: (dict, leftover) -> [parsed tuple, leftover]"""
    return [canon_parsed_dict(r[0]), r[1]]


def _is_pairs(v):
    return isinstance(v, list) and all(isinstance(p, (tuple, list)) and len(p) == 2 and isinstance(p[0], str) for p in v)


def undict(v):
    """inverse of common.enc's dict rendering (sorted list of (key, value) pairs), recursively"""
    if _is_pairs(v) and v:
        return {k: undict(x) for k, x in v}
    if isinstance(v, (list, tuple)):
        return [undict(x) for x in v]
    return v


def canon_tx_deser(value):
    """ok-value of op tx_deser from either side -> [parsed tuple, leftover]"""
    d, rest = value
    if _is_pairs(d) and d:               # implementation: dict rendered as pairs
        dd = {k: x for k, x in d}
        dd["txins"] = [{k: x for k, x in i} for i in dd["txins"]]
        dd["txouts"] = [{k: x for k, x in o} for o in dd["txouts"]]
        return [canon_parsed_dict(dd), rest]
    return [d, rest]                     # model: already the tuple


# ------------------------------------------------------------------------------------------------
# grammar
# ------------------------------------------------------------------------------------------------
SCRIPT_LENS = [0, 1, 75, 76, 252, 253, 255, 256, 65535, 65536]
SMALL_LENS = [0, 1, 2, 20, 33, 72, 75, 76, 107]
SEQS = [b"\x00\x00\x00\x00", b"\xfe\xff\xff\xff", b"\xff\xff\xff\xff"]


def rbytes(rng, n):
    return rng.randbytes(n) if n else b""


def gen_seq(rng):
    return rng.choice(SEQS + [rng.randbytes(4)])


def gen_txin(rng, slen):
    vout = rng.choice([0, 1, 0xffffffff, rng.randrange(1 << 32)])
    return (rng.randbytes(32), vout, rbytes(rng, slen), gen_seq(rng))


def gen_txout(rng, slen):
    val = rng.choice([0, 1, 5000000000, (1 << 64) - 1, rng.randrange(1 << 64), rng.randrange(1 << 40)])
    return (val, rbytes(rng, slen))


def gen_stack(rng, n_items, lens):
    return [rbytes(rng, rng.choice(lens)) for _ in range(n_items)]


def gen_tx(rng, n_in=1, n_out=1, in_lens=SMALL_LENS, out_lens=SMALL_LENS, segwit=False,
           stack_sizes=(0, 1, 2, 3, 4, 5), item_lens=SMALL_LENS, version=None, locktime=None):
    ver = version if version is not None else rng.choice([1, 2, 0, 0xffffffff, rng.randrange(1 << 32)])
    lt = locktime if locktime is not None else rng.choice([0, 1, 499999999, 500000000, 0xffffffff, rng.randrange(1 << 32)])
    ins = [gen_txin(rng, rng.choice(in_lens)) for _ in range(n_in)]
    outs = [gen_txout(rng, rng.choice(out_lens)) for _ in range(n_out)]
    wits = None
    if segwit:
        wits = [gen_stack(rng, rng.choice(stack_sizes), item_lens) for _ in range(n_in)]
    return (ver, ins, outs, wits, lt)


GENESIS_COINBASE = bytes.fromhex(
    "01000000010000000000000000000000000000000000000000000000000000000000000000ffffffff4d04ffff001d0104455468"
    "652054696d65732030332f4a616e2f32303039204368616e63656c6c6f72206f6e206272696e6b206f66207365636f6e64206261"
    "696c6f757420666f722062616e6b73ffffffff0100f2052a01000000434104678afdb0fe5548271967f1a67130b7105cd6a828e0"
    "3909a67962e0ea1f61deb649f6bc3f4cef38c4f35504e51ec112de5c384df7ba0b8d578a4c702b6bf11d5fac00000000")
GENESIS_TXID_RPC = "4a5e1e4baab89f3a32518a88c31bc87f618f76673e2cc77ab2127b7afdeda33b"


def corpus():
    """(name, raw bytes): every long hex literal of /repo/tests/unit/test_bip143.py (the BIP143 example
    transactions, signed and unsigned; the other literals are sighash preimages = malformed as transactions)
    plus the genesis coinbase"""
    import os
    import re
    out = [("genesis-coinbase", GENESIS_COINBASE)]
    path = os.path.join(os.environ.get("BITS_REPO", "/repo"), "tests", "unit", "test_bip143.py")
    try:
        text = open(path).read()
    except OSError:
        return out
    seen = set()
    for m in re.finditer(r'"([0-9a-fA-F]{120,})"', text):
        h = m.group(1)
        if len(h) % 2 or h in seen:
            continue
        seen.add(h)
        out.append(("bip143-literal-%d" % len(seen), bytes.fromhex(h)))
    return out


# bytes that have a structural meaning somewhere in the encoding: marker 00, flag 01, CompactSize prefixes fd/fe/ff
STRUCT_BYTES = [0x00, 0x01, 0xfd, 0xfe, 0xff]


def struct_bytes(rng, n):
    return bytes(rng.choice(STRUCT_BYTES) for _ in range(n))


def struct_int(rng, width):
    return int.from_bytes(struct_bytes(rng, width), "little")


def _with(t, version=None, locktime=None, seq=None, vout=None, value=None, txid=None):
    ver, ins, outs, wits, lt = t
    ins = [(txid if txid is not None else i[0], vout if vout is not None else i[1], i[2], seq if seq is not None else i[3]) for i in ins]
    outs = [(value if value is not None else o[0], o[1]) for o in outs]
    return (ver if version is None else version, ins, outs, wits, lt if locktime is None else locktime)


def structural(rng, tier):
    """FIELD VALUES whose little-endian bytes contain / look like structural bytes of the encoding: the marker-flag
    pair 00 01 inside version, locktime, sequence, vout, value, txid, scripts, witness items (at every offset, also
    straddling a field boundary: a version ending in 00 right before the marker), and CompactSize prefixes fd/fe/ff
    as field bytes.  Legacy and segwit."""
    import itertools
    T = tier == "thorough"
    out = []
    pats = [bytes(p) for p in itertools.product([0, 1], repeat=4)]
    pats += [b"\x00\x01\xfd\xff", b"\xfd\x00\x01\x00", b"\xff\xff\x00\x01", b"\xfe\x00\x00\x01", b"\x01\x00\xfd\x00",
             b"\xfd\xfd\xfd\xfd", b"\xfe\xff\x00\x00", b"\x00\x00\x00\xff"]
    for p in pats:
        v = int.from_bytes(p, "little")
        for sw in (True, False):
            kind = "segwit" if sw else "legacy"
            t = gen_tx(rng, n_in=rng.choice([1, 2]), n_out=rng.choice([1, 2]), segwit=sw)
            out.append(("struct-version-%s-%s" % (p.hex(), kind), _with(t, version=v)))
            if sw or T or p in pats[:4]:
                t = gen_tx(rng, n_in=rng.choice([1, 2]), n_out=1, segwit=sw)
                out.append(("struct-locktime-%s-%s" % (p.hex(), kind), _with(t, locktime=v)))
                t = gen_tx(rng, n_in=rng.choice([1, 2]), n_out=1, segwit=sw)
                out.append(("struct-sequence-%s-%s" % (p.hex(), kind), _with(t, seq=p)))
        if T or p in pats[1:6]:
            t = gen_tx(rng, n_in=1, n_out=2, segwit=True)
            out.append(("struct-vout-%s-segwit" % p.hex(), _with(t, vout=v)))
            t = gen_tx(rng, n_in=1, n_out=2, segwit=rng.random() < 0.7)
            out.append(("struct-value-%s" % p.hex(), _with(t, value=int.from_bytes(p + rng.choice(pats), "little"))))
    for _ in range(200 if T else 12):      # every field structural at once, scripts and witness items included
        sw = rng.random() < 0.7
        n_in = rng.choice([1, 1, 2, 3])
        ins = [(struct_bytes(rng, 32), struct_int(rng, 4), struct_bytes(rng, rng.choice([0, 1, 2, 4, 9])), struct_bytes(rng, 4))
               for _ in range(n_in)]
        outs = [(struct_int(rng, 8), struct_bytes(rng, rng.choice([0, 1, 2, 5]))) for _ in range(rng.choice([0, 1, 1, 2]))]
        wits = [[struct_bytes(rng, rng.choice([0, 1, 2, 3])) for _ in range(rng.choice([0, 1, 2]))] for _ in range(n_in)] if sw else None
        out.append(("struct-all-fields-%s" % ("segwit" if sw else "legacy"),
                    (struct_int(rng, 4), ins, outs, wits, struct_int(rng, 4))))
    return out


NULL32 = b"\x00" * 32


def coinbase_like(rng, segwit, null_txid=True, vout=0xffffffff, n_in=1, n_out=None):
    """a coinbase-shaped transaction: first input spends the null outpoint 00..00:ffffffff; the segwit form is what
    coinbase_tx(..., witness_merkle_root_hash=...) produces: witness = one 32-byte reserved value, an OP_RETURN
    aa21a9ed commitment output"""
    ins = [(NULL32 if null_txid else rng.randbytes(32), vout, rng.randbytes(rng.choice([2, 4, 8, 100])), FINAL_SEQ)]
    ins += [gen_txin(rng, rng.choice([0, 1, 5])) for _ in range(n_in - 1)]
    outs = [gen_txout(rng, 25) for _ in range(n_out if n_out is not None else rng.choice([1, 2]))]
    wits = None
    if segwit:
        outs.append((0, b"\x6a\x24\xaa\x21\xa9\xed" + rng.randbytes(32)))
        wits = [[NULL32]] + [gen_stack(rng, rng.choice([0, 2]), SMALL_LENS) for _ in range(n_in - 1)]
    return (rng.choice([1, 2]), ins, outs, wits, 0)


def coinbases(rng, tier):
    out = []
    for sw in (True, False):
        k = "segwit" if sw else "legacy"
        for _ in range(6 if tier == "thorough" else 2):
            out.append(("coinbase-" + k, coinbase_like(rng, sw)))
        out.append(("coinbase-%s-2-inputs" % k, coinbase_like(rng, sw, n_in=2)))
        out.append(("null-txid-vout-0-" + k, coinbase_like(rng, sw, vout=0)))
        out.append(("nonnull-txid-vout-ffffffff-" + k, coinbase_like(rng, sw, null_txid=False)))
        t = coinbase_like(rng, sw, n_in=3)
        out.append(("null-outpoint-not-first-" + k, (t[0], t[1][1:] + t[1][:1], t[2], None if t[3] is None else t[3][1:] + t[3][:1], t[4])))
    return out


def repeated(rng, tier):
    """RELATIONS BETWEEN ELEMENTS of lists that are normally distinct: two inputs with the same outpoint (adjacent, far
    apart, all identical), identical whole inputs, identical outputs, identical witness stacks, a script equal to
    another script, one txid equal to another with a different vout.  Well-formed on the wire; legacy and segwit."""
    T = tier == "thorough"
    out = []
    for sw in (False, True):
        k = "segwit" if sw else "legacy"
        for _ in range(4 if T else 1):
            for n, i, j in ((2, 0, 1), (3, 0, 2), (3, 1, 2), (8, 1, 6), (40, 3, 37)):
                t = gen_tx(rng, n_in=n, n_out=rng.choice([1, 2]), in_lens=[0, 1, 5], segwit=sw)
                ins = list(t[1])
                ins[j] = (ins[i][0], ins[i][1]) + ins[j][2:]                      # same txid AND vout, rest differs
                out.append(("dup-outpoint-%d-of-%d-%s" % (2, n, k) + ("-adjacent" if j == i + 1 else "-apart"), (t[0], ins, t[2], t[3], t[4])))
            t = gen_tx(rng, n_in=3, n_out=1, segwit=sw)
            ins = list(t[1])
            ins[2] = (ins[0][0], ins[0][1] + 1 & 0xffffffff) + ins[2][2:]         # same txid, other vout: distinct outpoints
            out.append(("same-txid-other-vout-" + k, (t[0], ins, t[2], t[3], t[4])))
            for n in (2, 5, 253 if T else 30):
                i0 = gen_txin(rng, rng.choice([0, 3]))
                w = None if not sw else [gen_stack(rng, 2, [0, 4])] * n
                out.append(("all-inputs-identical-%d-%s" % (n, k), (1, [i0] * n, [gen_txout(rng, 2)], w, 0)))
                o0 = gen_txout(rng, rng.choice([0, 25]))
                t = gen_tx(rng, n_in=2, n_out=0, segwit=sw)
                out.append(("all-outputs-identical-%d-%s" % (n, k), (t[0], t[1], [o0] * n, t[3], t[4])))
            t = gen_tx(rng, n_in=4, n_out=2, segwit=sw)
            ins = [t[1][0], t[1][1], t[1][0], t[1][3]]                             # a whole input repeated
            w = None if not sw else [t[3][0], t[3][1], t[3][0], t[3][1]]           # ... and identical witness stacks
            out.append(("identical-whole-inputs-" + k, (t[0], ins, [t[2][0], t[2][0]], w, t[4])))
            s = rng.randbytes(rng.choice([1, 25]))
            t = gen_tx(rng, n_in=2, n_out=2, segwit=sw)
            out.append(("scriptsig-equals-scriptpubkey-" + k,
                        (t[0], [i[:2] + (s,) + i[3:] for i in t[1]], [(o[0], s) for o in t[2]], t[3], t[4])))
    return out


# ------------------------------------------------------------------------------------------------
# FINGERPRINT COLLISIONS: pairs of DIFFERENT transactions of equal length that agree under a cheap fingerprint of
# their complete serialisation (a cache keyed by such a fingerprint hands the second one the first one's answer)
# ------------------------------------------------------------------------------------------------
def one_field_variants(rng, t):
    """[(field name, t')]: copies of t that differ from it in EXACTLY ONE field (a cache or memo keyed by a strict subset
    of a transaction's / an input's / an output's fields answers the second with the first one's data)"""
    ver, ins, outs, wits, lt = t
    out = []

    def flip(b):
        if not b:
            return b"\x51"
        j = rng.randrange(len(b))
        return b[:j] + bytes([b[j] ^ (1 << rng.randrange(8))]) + b[j + 1:]

    def other_seq(s):
        c = [x for x in SEQS + [rng.randbytes(4)] if x != s]
        return rng.choice(c)
    out.append(("version", ((ver + 1) % (1 << 32), ins, outs, wits, lt)))
    out.append(("locktime", (ver, ins, outs, wits, (lt + 1) % (1 << 32))))
    for k in sorted({0, len(ins) - 1}):
        i = ins[k]
        for name, i2 in (("in%d-sequence" % k, (i[0], i[1], i[2], other_seq(i[3]))),
                         ("in%d-vout" % k, (i[0], (i[1] + 1) % (1 << 32), i[2], i[3])),
                         ("in%d-txid" % k, (flip(i[0]), i[1], i[2], i[3])),
                         ("in%d-scriptsig" % k, (i[0], i[1], flip(i[2]), i[3]))):
            out.append((name, (ver, ins[:k] + [i2] + ins[k + 1:], outs, wits, lt)))
        if wits is not None:
            w = list(wits[k])
            w2 = [flip(w[0])] + w[1:] if w else [b"\x01"]
            out.append(("in%d-witness" % k, (ver, ins, outs, wits[:k] + [w2] + wits[k + 1:], lt)))
    for k in sorted({0, len(outs) - 1}):
        o = outs[k]
        out.append(("out%d-value" % k, (ver, ins, outs[:k] + [((o[0] + 1) % (1 << 64), o[1])] + outs[k + 1:], wits, lt)))
        out.append(("out%d-script" % k, (ver, ins, outs[:k] + [(o[0], flip(o[1]))] + outs[k + 1:], wits, lt)))
    if len(ins) > 1:
        out.append(("ins-swapped", (ver, [ins[1], ins[0]] + ins[2:], outs, ([wits[1], wits[0]] + wits[2:]) if wits is not None else None, lt)))
    if len(outs) > 1:
        out.append(("outs-swapped", (ver, ins, [outs[1], outs[0]] + outs[2:], wits, lt)))
    return out


def _fingerprints():
    import zlib
    return {"crc32": zlib.crc32, "adler32": zlib.adler32,
            "head16-tail16": lambda b: (b[:16], b[-16:]), "sum-of-bytes": lambda b: sum(b),
            "xor-of-32bit-words": lambda b: __import__("functools").reduce(
                lambda a, i: a ^ int.from_bytes(b[i:i + 4], "little"), range(0, len(b), 4), 0)}


def _search_pair(rng, base, fp, tries=400000):
    """birthday search over the 8 value bytes of the first output (free: any 64-bit value is well-formed)"""
    ver, ins, outs, wits, lt = base
    marker = b"\xa5" * 8
    probe = ref_ser((ver, ins, [(int.from_bytes(marker, "little"), outs[0][1])] + outs[1:], wits, lt))
    off = probe.index(marker)
    assert probe.count(marker) == 1
    seen = {}
    for _ in range(tries):
        v = rng.randbytes(8)
        ser = probe[:off] + v + probe[off + 8:]
        k = fp(ser)
        if k in seen and seen[k] != v:
            mk = lambda vv: (ver, ins, [(int.from_bytes(vv, "little"), outs[0][1])] + outs[1:], wits, lt)
            return mk(seen[k]), mk(v)
        seen[k] = v
    return None


def collision_pairs(cache=True):
    """[(fingerprint name, kind, txA, txB)]: equal length, different bytes, equal fingerprint.  The pairs are cached
    in corpus/c04_collision_pairs.json (searching takes ~1 s per CRC pair); every pair is re-verified when loaded."""
    import json
    import os
    import random
    from common import enc, dec
    path = os.path.join(os.path.dirname(os.path.dirname(os.path.abspath(__file__))), "corpus", "c04_collision_pairs.json")
    fps = _fingerprints()
    out = []
    if cache and os.path.exists(path):
        for name, kind, a, b in json.load(open(path)):
            ta, tb = norm_tx(dec(a)), norm_tx(dec(b))
            sa, sb = ref_ser(ta), ref_ser(tb)
            if sa != sb and len(sa) == len(sb) and fps[name](sa) == fps[name](sb):
                out.append((name, kind, ta, tb))
        if len(out) >= 2 * 2 * len(fps):
            return out
        out = []
    rng = random.Random("collision-pairs")
    for name, fp in fps.items():
        for sw in (False, True):
            for _ in range(2):
                base = gen_tx(rng, n_in=rng.choice([1, 2]), n_out=rng.choice([1, 2]), segwit=sw,
                              in_lens=[0, 1, 5], out_lens=[1, 22], item_lens=[0, 1, 33])
                pr = _search_pair(rng, base, fp)
                if pr:
                    out.append((name, "segwit" if sw else "legacy", pr[0], pr[1]))
    if cache:
        try:
            os.makedirs(os.path.dirname(path), exist_ok=True)
            json.dump([[n, k, enc(a), enc(b)] for n, k, a, b in out], open(path, "w"), indent=0)
        except OSError:
            pass
    return out


def grammar(rng, tier):
    """list of (class, tx tuple) covering every boundary of the model"""
    T = tier == "thorough"
    out = []
    # counts crossing the 253 CompactSize boundary (big ones: few, small scripts)
    for n in ([1, 2, 3, 252, 253, 254, 300] if T else [1, 2, 3, 252, 253]):
        out.append(("nin-%d" % n, gen_tx(rng, n_in=n, n_out=1, in_lens=[0, 1], segwit=False)))
        out.append(("nout-%d" % n, gen_tx(rng, n_in=1, n_out=n, out_lens=[0, 1], segwit=False)))
    out.append(("nin-300-segwit", gen_tx(rng, n_in=300, n_out=2, in_lens=[0], segwit=True, stack_sizes=(0, 1, 2), item_lens=[0, 1, 33])))
    if T:
        out.append(("nin-253-segwit", gen_tx(rng, n_in=253, n_out=253, in_lens=[0, 1], out_lens=[0, 22], segwit=True, stack_sizes=(0, 2), item_lens=[0, 72])))
        out.append(("nin-65536", gen_tx(rng, n_in=65536, n_out=1, in_lens=[0], segwit=False)))
    out.append(("nout-0", gen_tx(rng, n_in=1, n_out=0)))
    out.append(("nout-0-segwit", gen_tx(rng, n_in=2, n_out=0, segwit=True)))
    # script lengths
    for L in SCRIPT_LENS:
        reps = 1 if L >= 65535 and not T else 2
        for _ in range(reps):
            out.append(("scriptsig-len-%d" % L, gen_tx(rng, n_in=rng.choice([1, 2]), n_out=1, in_lens=[L], segwit=rng.random() < 0.5)))
            out.append(("scriptpubkey-len-%d" % L, gen_tx(rng, n_in=1, n_out=rng.choice([1, 2]), out_lens=[L], segwit=rng.random() < 0.5)))
    # witness stacks: 0..5 items, item lengths crossing the boundaries, empty stacks mixed with non-empty
    for L in [0, 1, 252, 253, 255, 256, 65535, 65536]:
        for k in ([1, 2, 5] if (L < 65535 or T) else [1]):
            out.append(("wititem-len-%d" % L, gen_tx(rng, n_in=rng.choice([1, 2, 3]), segwit=True, stack_sizes=(k,), item_lens=[L, L, 0, 33])))
    for k in range(0, 6):
        out.append(("witstack-%d-items" % k, gen_tx(rng, n_in=2, segwit=True, stack_sizes=(k,))))
    for _ in range(40 if T else 12):
        t = gen_tx(rng, n_in=rng.choice([2, 3, 4, 6]), n_out=rng.choice([1, 2]), segwit=True, stack_sizes=(0, 0, 1, 2, 3))
        if not any(len(w) == 0 for w in t[3]):
            t[3][rng.randrange(len(t[3]))] = []
        out.append(("witstack-mixed-empty", t))
    out.append(("witstack-all-empty", gen_tx(rng, n_in=3, segwit=True, stack_sizes=(0,))))
    out.append(("witstack-253-items", gen_tx(rng, n_in=1, segwit=True, stack_sizes=(253,), item_lens=[0, 1])))
    # sequences
    for s in SEQS:
        for sw in (False, True):
            t = gen_tx(rng, n_in=2, n_out=1, segwit=sw)
            t = (t[0], [(i[0], i[1], i[2], s) for i in t[1]], t[2], t[3], t[4])
            out.append(("seq-%s-%s" % (s.hex(), "segwit" if sw else "legacy"), t))
    # widths of version / locktime / vout / value
    for v in [0, 1, 2, 255, 256, 65536, (1 << 31) - 1, 1 << 31, (1 << 32) - 1]:
        out.append(("version-%d" % v, gen_tx(rng, version=v, segwit=rng.random() < 0.5)))
        out.append(("locktime-%d" % v, gen_tx(rng, locktime=v, segwit=rng.random() < 0.5)))
    # first input bytes that look like marker/flag material
    for b0 in (0, 1, 253):
        t = gen_tx(rng, n_in=1, n_out=1, segwit=False)
        t = (t[0], [((bytes([b0, 1]) + t[1][0][0])[:32],) + t[1][0][1:]], t[2], t[3], t[4])
        out.append(("first-txid-byte-%d" % b0, t))
    out += structural(rng, tier)
    out += repeated(rng, tier)
    out += coinbases(rng, tier)
    # plain random
    for _ in range(3000 if T else 150):
        sw = rng.random() < 0.5
        out.append(("rand-segwit" if sw else "rand-legacy",
                    gen_tx(rng, n_in=rng.randrange(1, 5), n_out=rng.randrange(0, 4), segwit=sw)))
    return out


def trailers(rng, ser, other):
    """named trailing buffers for a serialised transaction"""
    inside = sorted(set(ser))
    absent = [b for b in range(256) if b not in set(ser)]
    out = [("empty", b""), ("own-last4", ser[-4:]), ("copy-of-itself", ser), ("second-tx", other),
           ("byte-inside", bytes([rng.choice(inside)])), ("byte-00", b"\x00"), ("byte-01", b"\x01")]
    if absent:
        out.append(("byte-absent", bytes([rng.choice(absent)])))
    out.append(("random", rng.randbytes(rng.randrange(1, 40))))
    return out


def shrink_tx(t):
    """structurally smaller transactions"""
    ver, ins, outs, wits, lt = t
    if len(ins) > 1:
        for keep in (ins[:1], ins[:len(ins) // 2], ins[1:]):
            k = len(keep)
            w2 = None if wits is None else (wits[:k] if keep is not ins[1:] else wits[1:])
            yield (ver, keep, outs, w2, lt)
    if len(outs) > 0:
        yield (ver, ins, outs[:len(outs) // 2], wits, lt)
    for j, i in enumerate(ins):
        if len(i[2]) > 0:
            yield (ver, ins[:j] + [(i[0], i[1], i[2][:len(i[2]) // 2], i[3])] + ins[j + 1:], outs, wits, lt)
            break
    for j, o in enumerate(outs):
        if len(o[1]) > 0:
            yield (ver, ins, outs[:j] + [(o[0], o[1][:len(o[1]) // 2])] + outs[j + 1:], wits, lt)
            break
    if wits is not None:
        for j, w in enumerate(wits):
            if len(w) > 0:
                yield (ver, ins, outs, wits[:j] + [w[:-1]] + wits[j + 1:], lt)
                big = max(range(len(w)), key=lambda q: len(w[q]))
                if len(w[big]) > 0:
                    w2 = list(w)
                    w2[big] = w[big][:len(w[big]) // 2]
                    yield (ver, ins, outs, wits[:j] + [w2] + wits[j + 1:], lt)
                break
    if ver not in (1,):
        yield (1, ins, outs, wits, lt)
    if lt != 0:
        yield (ver, ins, outs, wits, 0)


def norm_tx(v):
    """value decoded from the wire (lists) -> tuple form used by ref_ser"""
    ver, ins, outs, wits, lt = v
    return (ver, [tuple(i) for i in ins], [tuple(o) for o in outs],
            None if wits is None else [list(w) for w in wits], lt)


# ------------------------------------------------------------------------------------------------
# `bits tx` through the command line (worker side; harness/cli.py runs bits.__main__.main() in-process)
#   build : bits tx -txin '{"txid": <rpc-order hex>, "vout": n, "scriptsig": hex}' ... -txout '{"satoshis": n,
#           "scriptpubkey": hex}' ... -v N -l N --script-witness <hex of one serialised stack> ...
#           (no option for the sequence: always the default ffffffff); main() RETURNS the hex string
#   decode: bits tx --decode [-1 fmt] < data   prints json.dumps(tx_deser(data)[0]) (no "raw"), leftover only logged
# ------------------------------------------------------------------------------------------------
FINAL_SEQ = b"\xff\xff\xff\xff"


def _raise_refusal(r):
    """a refusal (ERROR return / non-zero exit / escaped exception) -> the exception class; output next to a
    refusal is returned as a VALUE so that it can never agree with the model's refusal"""
    import builtins
    if r["out"]:
        return ("REFUSED-BUT-WROTE-OUTPUT", r["out"])
    name = r["exc"] or "RuntimeError"
    klass = getattr(builtins, name, None)
    if name == "SystemExit" or not (isinstance(klass, type) and issubclass(klass, Exception)):
        klass = ValueError
    msg = "bits tx refused: rc=%r %s" % (r["rc"], r["err"][-120:])
    try:
        exc = klass(msg)
    except TypeError:                      # e.g. UnicodeDecodeError needs five arguments
        exc = ValueError(name + ": " + msg)
    raise exc


def cli_build_argv(t, style=0):
    import json
    ver, ins, outs, wits, lt = t
    argv = ["tx"]
    for i in ins:
        argv += ["-txin" if style % 2 == 0 else "--txin",
                 json.dumps({"txid": i[0][::-1].hex(), "vout": i[1], "scriptsig": i[2].hex()})]
    for o in outs:
        argv += ["-txout" if style % 2 == 0 else "--txout", json.dumps({"satoshis": o[0], "scriptpubkey": o[1].hex()})]
    if not (style >= 2 and ver == 1):            # style >= 2: leave defaults to the parser
        argv += ["-v", str(ver)] if (style % 2 == 0 and ver >= 0) else ["--version=%d" % ver]
    if not (style >= 2 and lt == 0):
        argv += ["-l", str(lt)] if (style % 2 == 0 and lt >= 0) else ["--locktime=%d" % lt]
    for w in (wits or []):
        argv += ["--script-witness=" + ref_stack(w).hex()]
    return argv


def cli_build(t, style=0):
    import cli
    t = norm_tx(t)
    if any(i[3] != FINAL_SEQ for i in t[1]):
        raise RuntimeError("harness: bits tx has no sequence option")
    r = cli.run_main(cli_build_argv(t, style))
    if r["exc"] is not None or (isinstance(r["rc"], str) and r["rc"].startswith("ERROR")) or isinstance(r["rc"], int):
        return _raise_refusal(r)
    if r["out"]:                                  # should a later version print instead of returning
        return bytes.fromhex(r["out"].decode().strip())
    if not isinstance(r["rc"], str):
        return ("NO-OUTPUT", repr(r["rc"]))
    return bytes.fromhex(r["rc"])


FMT_FLAGS = {"hex": [[], ["-1x"], ["--input-format=hex"], ["-1", "hex"]],
             "raw": [["-1"], ["-1", "raw"], ["--input-format=raw"]],
             "bin": [["-1b"], ["-1", "bin"], ["--input-format=bin"]]}


def cli_stdin(buf, fmt, style=0):
    if fmt == "raw":
        return bytes(buf)
    if fmt == "hex":
        return (buf.hex() + ("\n" if style % 2 == 0 else "")).encode()
    return ("".join(format(b, "08b") for b in buf) + ("\n" if style % 2 == 0 else "")).encode()


def cli_decode(buf, fmt, style=0):
    """-> (txid, wtxid, tx tuple): exactly the keys of tx_deser's dict (without "raw") or an error"""
    import cli
    import json
    flags = FMT_FLAGS[fmt][style % len(FMT_FLAGS[fmt])]
    r = cli.run_main(["tx", "--decode"] + flags, stdin=cli_stdin(buf, fmt, style))
    if r["exc"] is not None or r["rc"] is not None:
        return _raise_refusal(r)
    d = json.loads(r["out"].decode())
    want = {"txid", "wtxid", "version", "txins", "txouts", "locktime"}
    if not (set(d) == want or set(d) == want | {"witnesses"}):
        return ("UNEXPECTED-KEYS", sorted(d))
    d = dict(d)
    d["raw"] = ""
    p = canon_parsed_dict(d)
    return (p[0], p[1], p[3])
