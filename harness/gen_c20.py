"""Gen table of C20: the argparse tree that bits.__main__.setup_parser() builds NOW (per (sub)parser every action's
dest, option strings, whether its class is ExplicitOption, default, const, nargs, choices, type), the defaults of
bits.config.Config() and the documented default configuration files conf/config.json / conf/config.toml."""
import argparse
import json
import os


def scan_main_module(src, config_keys):
    """AST facts about bits/__main__.py (pure function of the source text, also used by harness/c20.py):
    reads  : [(function, expression)] every direct read of a configurable option from the argparse namespace
             (`args.<key>`, getattr(args, "<key>"...), vars(args)["<key>"], vars(args).get("<key>")) -- the generic
             plumbing Config( **vars(args)) / getattr(args, option + "__explicit", False) is not such a read;
    calls  : [(subcommand, branch path, function, format expression)] every read_bytes / write_bytes call in main(),
             with the subcommand of the enclosing `args.subcommand == ...` branch ("" = base command), the other
             enclosing conditions, and the source text of its input_format= / output_format= argument."""
    import ast
    tree = ast.parse(src)
    reads, calls = [], []

    def is_args(n):
        return isinstance(n, ast.Name) and n.id == "args"

    def is_vars_args(n):
        return isinstance(n, ast.Call) and isinstance(n.func, ast.Name) and n.func.id == "vars" and len(n.args) == 1 \
            and is_args(n.args[0])

    def const_key(n):
        return isinstance(n, ast.Constant) and isinstance(n.value, str) and n.value in config_keys

    for fn in [n for n in ast.walk(tree) if isinstance(n, (ast.FunctionDef, ast.AsyncFunctionDef))]:
        for n in ast.walk(fn):
            if isinstance(n, ast.Attribute) and is_args(n.value) and n.attr in config_keys:
                reads.append((fn.name, ast.unparse(n)))
            elif isinstance(n, ast.Call) and isinstance(n.func, ast.Name) and n.func.id == "getattr" and len(n.args) >= 2 \
                    and is_args(n.args[0]) and const_key(n.args[1]):
                reads.append((fn.name, ast.unparse(n)))
            elif isinstance(n, ast.Subscript) and is_vars_args(n.value) and const_key(n.slice):
                reads.append((fn.name, ast.unparse(n)))
            elif isinstance(n, ast.Call) and isinstance(n.func, ast.Attribute) and n.func.attr == "get" \
                    and is_vars_args(n.func.value) and n.args and const_key(n.args[0]):
                reads.append((fn.name, ast.unparse(n)))
    mains = [n for n in tree.body if isinstance(n, ast.FunctionDef) and n.name == "main"]
    assert len(mains) == 1, "expected exactly one main()"

    def subcommand_of(test):
        """'' for `not args.subcommand`, 'x' for `args.subcommand == 'x'`, else None"""
        if isinstance(test, ast.UnaryOp) and isinstance(test.op, ast.Not) and ast.unparse(test.operand) == "args.subcommand":
            return ""
        if isinstance(test, ast.Compare) and ast.unparse(test.left) == "args.subcommand" and len(test.ops) == 1 \
                and isinstance(test.ops[0], ast.Eq) and isinstance(test.comparators[0], ast.Constant):
            return test.comparators[0].value
        return None

    def io_call(n):
        if not isinstance(n, ast.Call):
            return None
        name = n.func.attr if isinstance(n.func, ast.Attribute) else (n.func.id if isinstance(n.func, ast.Name) else None)
        if name not in ("read_bytes", "write_bytes"):
            return None
        kw = "input_format" if name == "read_bytes" else "output_format"
        pos = 1 if name == "read_bytes" else 2
        for k in n.keywords:
            if k.arg == kw:
                return name, ast.unparse(k.value)
            if k.arg is None:
                return name, "**" + ast.unparse(k.value)
        if len(n.args) > pos:
            return name, ast.unparse(n.args[pos])
        return name, "<default>"

    def visit(stmts, sub, path):
        for st in stmts:
            if isinstance(st, ast.If):
                s2 = subcommand_of(st.test)
                cond = ast.unparse(st.test)
                if s2 is not None and sub is None:
                    visit(st.body, s2, path)
                    visit(st.orelse, sub, path)
                else:
                    for n in ast.walk(st.test):
                        c = io_call(n)
                        if c:
                            calls.append((sub, path, c[0], c[1]))
                    visit(st.body, sub, path + [cond])
                    visit(st.orelse, sub, path + ["not (" + cond + ")"])
            elif isinstance(st, (ast.For, ast.While, ast.With, ast.Try)):
                for field in ("body", "orelse", "finalbody"):
                    visit(getattr(st, field, []) or [], sub, path)
                for h in getattr(st, "handlers", []) or []:
                    visit(h.body, sub, path)
            else:
                for n in ast.walk(st):
                    c = io_call(n)
                    if c:
                        calls.append((sub, path, c[0], c[1]))

    visit(mains[0].body, None, [])
    return reads, [("<none>" if s is None else s, " & ".join(p), f, e) for (s, p, f, e) in calls]


def register(gt):
    def pyval(v):
        if v is None:
            return "PNone"
        if isinstance(v, bool):
            return "(PBool %s)" % gt.coq_bool(v)
        if isinstance(v, int):
            return "(PInt %s)" % gt.coq_Z(v)
        if isinstance(v, str):
            return "(PStr %s)" % gt.coq_string_bytes(v)
        return "(POther %s %s)" % (gt.coq_bool(bool(v)), gt.coq_string_bytes(repr(v)))

    def pydict(d):
        assert isinstance(d, dict), type(d)
        for k in d:
            assert isinstance(k, str), k
        return gt.coq_list("(%s, %s)" % (gt.coq_string_bytes(k), pyval(v)) for k, v in d.items())

    def action(a):
        tname = getattr(a.type, "__name__", "") if a.type is not None else ""
        if a.type is not None and not tname:
            tname = type(a.type).__name__          # e.g. argparse.FileType instance
        choices = "None" if a.choices is None else "(Some %s)" % gt.coq_list(pyval(c) for c in a.choices)
        assert isinstance(a.dest, str)
        for s in a.option_strings:
            assert isinstance(s, str)
        return "mkAction %s %s %s %s %s %s %s %s %s" % (
            gt.coq_string_bytes(a.dest),
            gt.coq_list(gt.coq_string_bytes(s) for s in a.option_strings),
            gt.coq_bool(type(a).__name__ == "ExplicitOption"),
            gt.coq_string_bytes(type(a).__name__),
            pyval(a.default), pyval(a.const), pyval(a.nargs), choices, gt.coq_string_bytes(tname))

    def parser_actions(p):
        """actions that put their dest into the namespace, in argparse's order"""
        out, skipped = [], []
        for a in p._actions:
            if a.dest is argparse.SUPPRESS or a.default is argparse.SUPPRESS:
                skipped.append(a)
            else:
                out.append(a)
        return out, skipped

    def render_parser(name, acts):
        lines = []
        for a in acts:
            lines.append("    (* %s %s *)\n    %s" % (a.dest, " ".join(a.option_strings).replace("*", "_"), action(a)))
        return "  [\n" + ";\n".join(lines) + "\n  ]"

    @gt.table("CliTable")
    def gen_clitable():
        gt.load()
        import bits.__main__ as m
        import bits.config as cfg
        # ExplicitOption must be the class that records `<dest>__explicit` (checked by name in the table; the class
        # body itself is modelled in Model/Cli.v ns_entry and exercised by the correspondence run)
        assert issubclass(m.ExplicitOption, argparse.Action)
        p = m.setup_parser()
        assert isinstance(p, argparse.ArgumentParser)
        subs = [a for a in p._actions if isinstance(a, argparse._SubParsersAction)]
        assert len(subs) == 1, "expected exactly one sub-parsers action"
        sub = subs[0]
        assert isinstance(sub.dest, str)
        base, skipped = parser_actions(p)
        out = "(* GENERATED from /repo's working tree by harness/gen_c20.py -- do not edit *)\n"
        out += "From Coq Require Import ZArith List.\nRequire Import Bits.Lib.Bytes Bits.Model.Cli.\n"
        out += "Import ListNotations.\nImport Coq.Init.Byte.\n"
        out += "(* bits.config.HAS_TOMLLIB under the interpreter that ran the translator *)\n"
        out += "Definition has_tomllib : bool := %s.\n" % gt.coq_bool(bool(cfg.HAS_TOMLLIB))
        out += "(* vars(bits.config.Config()) *)\n"
        out += "Definition config_defaults : dict :=\n  %s.\n" % pydict(vars(cfg.Config()))
        conf = os.path.join(os.path.dirname(os.path.abspath(gt.REPO_SRC)), "conf")
        with open(os.path.join(conf, "config.json")) as f:
            cj = json.load(f)
        out += "(* conf/config.json *)\nDefinition conf_json : dict :=\n  %s.\n" % pydict(cj)
        try:
            import tomllib
            with open(os.path.join(conf, "config.toml"), "rb") as f:
                ct = tomllib.load(f)
            out += "(* conf/config.toml *)\nDefinition conf_toml : option dict :=\n  Some %s.\n" % pydict(ct)
        except ImportError:
            out += "Definition conf_toml : option dict := None.\n"
        out += "(* base parser (prog=%s); %d actions without a namespace entry omitted: %s *)\n" % (
            p.prog, len(skipped), ", ".join(type(a).__name__ for a in skipped))
        out += "Definition base_parser : parser :=\n%s.\n" % render_parser("", base)
        names = []
        for name, sp in sub.choices.items():
            assert isinstance(name, str) and name
            acts, sk = parser_actions(sp)
            ident = "sub_" + "".join(ch if ch.isalnum() else "_" for ch in name)
            out += "Definition %s : parser :=\n%s.\n" % (ident, render_parser(name, acts))
            names.append((name, ident))
        import inspect
        reads, calls = scan_main_module(inspect.getsource(m), set(vars(cfg.Config())))
        sb = gt.coq_string_bytes
        out += "(* direct reads of a configurable option from the argparse namespace in bits/__main__.py: (function, expression) *)\n"
        out += "Definition args_config_reads : list (bytes * bytes) :=\n  %s.\n" % gt.coq_list(
            "(%s, %s)" % (sb(f), sb(e)) for f, e in reads)
        out += "(* the read_bytes / write_bytes calls of main(): (subcommand, enclosing conditions, function, format argument) *)\n"
        out += "Definition io_calls : list (bytes * bytes * bytes * bytes) :=\n  [\n%s\n  ].\n" % ";\n".join(
            "    (* %s | %s | %s | %s *)\n    (%s, %s, %s, %s)" % (
                su, pa.replace("*", "_"), f, e.replace("*", "_"), sb(su), sb(pa), sb(f), sb(e)) for su, pa, f, e in calls)
        out += "Definition table : cli_table :=\n  mkTable base_parser %s\n  %s.\n" % (
            gt.coq_string_bytes(sub.dest),
            gt.coq_list("(%s, %s)" % (gt.coq_string_bytes(n), i) for n, i in names))
        return out
