"""Gen table of C20: the argparse tree that bits.__main__.setup_parser() builds NOW (per (sub)parser every action's
dest, option strings, whether its class is ExplicitOption, default, const, nargs, choices, type), the defaults of
bits.config.Config() and the documented default configuration files conf/config.json / conf/config.toml."""
import argparse
import json
import os


def register(gt):
    def pyval(v):
        if v is None:
            return "PNone"
        if isinstance(v, bool):
            return "(PBool %s)" % gt.coq_bool(v)
        if isinstance(v, int):
            return "(PInt %s)" % gt.coq_Z(v)
        if isinstance(v, str):
            return "(PStr %s)" % gt.coq_string_bytes(v)
        return "(POther %s %s)" % (gt.coq_bool(bool(v)), gt.coq_string_bytes(repr(v)))

    def pydict(d):
        assert isinstance(d, dict), type(d)
        for k in d:
            assert isinstance(k, str), k
        return gt.coq_list("(%s, %s)" % (gt.coq_string_bytes(k), pyval(v)) for k, v in d.items())

    def action(a):
        tname = getattr(a.type, "__name__", "") if a.type is not None else ""
        if a.type is not None and not tname:
            tname = type(a.type).__name__          # e.g. argparse.FileType instance
        choices = "None" if a.choices is None else "(Some %s)" % gt.coq_list(pyval(c) for c in a.choices)
        assert isinstance(a.dest, str)
        for s in a.option_strings:
            assert isinstance(s, str)
        return "mkAction %s %s %s %s %s %s %s %s %s" % (
            gt.coq_string_bytes(a.dest),
            gt.coq_list(gt.coq_string_bytes(s) for s in a.option_strings),
            gt.coq_bool(type(a).__name__ == "ExplicitOption"),
            gt.coq_string_bytes(type(a).__name__),
            pyval(a.default), pyval(a.const), pyval(a.nargs), choices, gt.coq_string_bytes(tname))

    def parser_actions(p):
        """actions that put their dest into the namespace, in argparse's order"""
        out, skipped = [], []
        for a in p._actions:
            if a.dest is argparse.SUPPRESS or a.default is argparse.SUPPRESS:
                skipped.append(a)
            else:
                out.append(a)
        return out, skipped

    def render_parser(name, acts):
        lines = []
        for a in acts:
            lines.append("    (* %s %s *)\n    %s" % (a.dest, " ".join(a.option_strings).replace("*", "_"), action(a)))
        return "  [\n" + ";\n".join(lines) + "\n  ]"

    @gt.table("CliTable")
    def gen_clitable():
        gt.load()
        import bits.__main__ as m
        import bits.config as cfg
        # ExplicitOption must be the class that records `<dest>__explicit` (checked by name in the table; the class
        # body itself is modelled in Model/Cli.v ns_entry and exercised by the correspondence run)
        assert issubclass(m.ExplicitOption, argparse.Action)
        p = m.setup_parser()
        assert isinstance(p, argparse.ArgumentParser)
        subs = [a for a in p._actions if isinstance(a, argparse._SubParsersAction)]
        assert len(subs) == 1, "expected exactly one sub-parsers action"
        sub = subs[0]
        assert isinstance(sub.dest, str)
        base, skipped = parser_actions(p)
        out = "(* GENERATED from /repo's working tree by harness/gen_c20.py -- do not edit *)\n"
        out += "From Coq Require Import ZArith List.\nRequire Import Bits.Lib.Bytes Bits.Model.Cli.\n"
        out += "Import ListNotations.\nImport Coq.Init.Byte.\n"
        out += "(* bits.config.HAS_TOMLLIB under the interpreter that ran the translator *)\n"
        out += "Definition has_tomllib : bool := %s.\n" % gt.coq_bool(bool(cfg.HAS_TOMLLIB))
        out += "(* vars(bits.config.Config()) *)\n"
        out += "Definition config_defaults : dict :=\n  %s.\n" % pydict(vars(cfg.Config()))
        conf = os.path.join(os.path.dirname(os.path.abspath(gt.REPO_SRC)), "conf")
        with open(os.path.join(conf, "config.json")) as f:
            cj = json.load(f)
        out += "(* conf/config.json *)\nDefinition conf_json : dict :=\n  %s.\n" % pydict(cj)
        try:
            import tomllib
            with open(os.path.join(conf, "config.toml"), "rb") as f:
                ct = tomllib.load(f)
            out += "(* conf/config.toml *)\nDefinition conf_toml : option dict :=\n  Some %s.\n" % pydict(ct)
        except ImportError:
            out += "Definition conf_toml : option dict := None.\n"
        out += "(* base parser (prog=%s); %d actions without a namespace entry omitted: %s *)\n" % (
            p.prog, len(skipped), ", ".join(type(a).__name__ for a in skipped))
        out += "Definition base_parser : parser :=\n%s.\n" % render_parser("", base)
        names = []
        for name, sp in sub.choices.items():
            assert isinstance(name, str) and name
            acts, sk = parser_actions(sp)
            ident = "sub_" + "".join(ch if ch.isalnum() else "_" for ch in name)
            out += "Definition %s : parser :=\n%s.\n" % (ident, render_parser(name, acts))
            names.append((name, ident))
        out += "Definition table : cli_table :=\n  mkTable base_parser %s\n  %s.\n" % (
            gt.coq_string_bytes(sub.dest),
            gt.coq_list("(%s, %s)" % (gt.coq_string_bytes(n), i) for n, i in names))
        return out
