"""Gen table Bip340Gen: what bits/bips/bip340.py contains NOW that the model takes from the BIP:
the by-name copies of the curve constants, the three tag strings (in the order sign / verify use them),
and the literals of lift_x (exponent 3, constant 7, the (P + 1) // 4 exponent)."""
import ast
import inspect
import textwrap


def _calls(tree, name):
    return [n for n in ast.walk(tree) if isinstance(n, ast.Call) and isinstance(n.func, ast.Name) and n.func.id == name]


def register(gt):
    @gt.table("Bip340Gen")
    def gen_bip340():
        gt.load()
        import bits.bips.bip340 as m
        out = gt.HEADER
        for name, attr in [("p", "SECP256K1_P"), ("n", "SECP256K1_N"), ("Gx", "SECP256K1_Gx"), ("Gy", "SECP256K1_Gy")]:
            out += "Definition %s : Z := %s.\n" % (name, gt.coq_Z(getattr(m, attr)))

        def tags(fn):
            tree = ast.parse(textwrap.dedent(inspect.getsource(fn)))
            found = []
            for node in ast.walk(tree):
                # tag = "<literal>".encode("utf8")
                if isinstance(node, ast.Assign) and len(node.targets) == 1 and isinstance(node.targets[0], ast.Name) \
                        and node.targets[0].id == "tag":
                    v = node.value
                    assert isinstance(v, ast.Call) and isinstance(v.func, ast.Attribute) and v.func.attr == "encode" \
                        and isinstance(v.func.value, ast.Constant) and isinstance(v.func.value.value, str), ast.dump(v)
                    enc = v.args[0].value if v.args else "utf-8"
                    found.append((node.lineno, v.func.value.value.encode(enc)))
            return [t for _, t in sorted(found)]
        def tags_probed(run):
            """behavioural fallback (used only when the syntactic reader finds no `tag = "...".encode()` assignment, e.g.
            after the tagged hash was extracted into a helper): the inputs handed to sha256 during one call that look
            like a tag (short, printable ASCII), in order of first use"""
            import hashlib
            real = hashlib.sha256
            seen = []

            # tags may also be used through PRECOMPUTED prefixes sha256(tag) || sha256(tag): candidates are the printable
            # constants found in the module's namespace (nested containers included) and the BIP's own three tags; a
            # sha256 input that starts with the doubled hash of a candidate is a use of that tag
            cands = {b"BIP0340/aux", b"BIP0340/nonce", b"BIP0340/challenge"}

            def collect(v, depth=0):
                if isinstance(v, str):
                    v = v.encode("utf-8", "replace")
                if isinstance(v, (bytes, bytearray)):
                    if 0 < len(v) <= 40 and all(32 <= ch < 127 for ch in v):
                        cands.add(bytes(v))
                elif depth < 3 and isinstance(v, (tuple, list, set, frozenset)):
                    for x in v:
                        collect(x, depth + 1)
                elif depth < 3 and isinstance(v, dict):
                    for k_, x in v.items():
                        collect(k_, depth + 1)
                        collect(x, depth + 1)
            for k_, v_ in list(vars(m).items()):
                if not k_.startswith("__"):
                    collect(v_)
            prefix = {real(t).digest() * 2: t for t in cands}

            def spy(data=b"", *a, **k):
                d = bytes(data)
                if 0 < len(d) <= 40 and all(32 <= ch < 127 for ch in d) and d not in seen:
                    seen.append(d)
                elif len(d) >= 64 and d[:64] in prefix and prefix[d[:64]] not in seen:
                    seen.append(prefix[d[:64]])
                return real(data, *a, **k)
            patched = [(hashlib, "sha256")] + [(m, k) for k, v in vars(m).items() if v is real]
            try:
                for obj, k in patched:
                    setattr(obj, k, spy)
                run()
            finally:
                for obj, k in patched:
                    setattr(obj, k, real)
            return seen
        st, vt = tags(m.sign), tags(m.verify)
        mode = "syntactic"
        if not (st and vt):
            key, msg, aux = (3).to_bytes(32, "big"), b"translator probe", bytes(32)
            sig_ = []
            st = tags_probed(lambda: sig_.append(m.sign(key, msg, aux)))
            pk = m.pubkey(m.point_scalar_mul(3, (m.SECP256K1_Gx, m.SECP256K1_Gy))) if hasattr(m, "point_scalar_mul") else None
            if pk is None:
                import bits.ecmath as ec
                pk = m.pubkey(ec.point_scalar_mul(3, (m.SECP256K1_Gx, m.SECP256K1_Gy)))
            vt = tags_probed(lambda: m.verify(pk, msg, sig_[0]))
            mode = "behavioural probe (sha256 inputs observed during one sign / one verify: tag strings, or the doubled tag hash of a candidate tag)"
        assert st and vt, "no tag assignments found"
        out += "(* translator_mode: tags %s *)\n" % mode
        out += "Definition sign_tags : list bytes := %s.\n" % gt.coq_list(gt.coq_bytes(t) for t in st)
        out += "Definition verify_tags : list bytes := %s.\n" % gt.coq_list(gt.coq_bytes(t) for t in vt)
        # lift_x: c = add_mod_p(pow_mod_p(<x>, 3), 7); y = pow_mod_p(c, (SECP256K1_P + 1) // 4)
        tree = ast.parse(textwrap.dedent(inspect.getsource(m.lift_x)))
        adds = _calls(tree, "add_mod_p")
        assert len(adds) == 1 and len(adds[0].args) == 2, "lift_x: add_mod_p call not recognised"
        inner, seven = adds[0].args
        assert isinstance(seven, ast.Constant) and isinstance(seven.value, int)
        assert isinstance(inner, ast.Call) and inner.func.id == "pow_mod_p" and isinstance(inner.args[1], ast.Constant)
        out += "Definition lift_b : Z := %s.\n" % gt.coq_Z(seven.value)
        out += "Definition lift_cube : Z := %s.\n" % gt.coq_Z(inner.args[1].value)
        exps = [c.args[1] for c in _calls(tree, "pow_mod_p") if isinstance(c.args[1], ast.BinOp)]
        assert len(exps) == 1, "lift_x: square-root exponent not recognised"
        e = exps[0]
        assert isinstance(e.op, ast.FloorDiv) and isinstance(e.left, ast.BinOp) and isinstance(e.left.op, ast.Add) \
            and isinstance(e.left.left, ast.Name) and e.left.left.id == "SECP256K1_P" \
            and isinstance(e.left.right, ast.Constant) and isinstance(e.right, ast.Constant), ast.dump(e)
        out += "Definition lift_exp_add : Z := %s.\n" % gt.coq_Z(e.left.right.value)
        out += "Definition lift_exp_div : Z := %s.\n" % gt.coq_Z(e.right.value)
        # widths of the encodings: every <int>.to_bytes(k, "big") in sign / verify / pubkey
        widths = set()
        for fn in (m.sign, m.verify, m.pubkey):
            tree = ast.parse(textwrap.dedent(inspect.getsource(fn)))
            for c in ast.walk(tree):
                if isinstance(c, ast.Call) and isinstance(c.func, ast.Attribute) and c.func.attr == "to_bytes":
                    assert isinstance(c.args[0], ast.Constant) and c.args[1].value == "big", ast.dump(c)
                    widths.add(c.args[0].value)
        out += "Definition to_bytes_widths : list Z := %s.\n" % gt.coq_list(gt.coq_Z(w) for w in sorted(widths))
        return out
