"""C13 - script assembly/disassembly are inverse with minimal, well-formed pushes; every standard-template
builder emits the intended script.

Correspondence: bits.script.{script, decode_script, *_script_pubkey, *_script_sig} against the extracted Coq
model (Model/Script.v; witness-stack mode: Model/Witness.v).  The property oracle below is an independent
assembler / disassembler written from the Script reference (https://en.bitcoin.it/wiki/Script); it never
looks at the model or at bits.script.constants."""
import hashlib
import re
from common import case, case_to_json, shrink_bytes, coq_lit, coq_result, short

ID = "C13"
MAKE_TARGETS = ["Props/C13.v", "GenProps/Opcodes.v"]
GEN_TABLES = ["Opcodes"]
CASE_TIMEOUT = 30.0
ASSUMPTIONS = [
    "sha256 / ripemd160 are arbitrary functions in the nested-segwit and P2SH builder theorems, with only their "
    "output lengths (32 / 20 bytes) as hypotheses (hashlib answers them at run time)",
    "strings are modelled as their UTF-8 bytes; bytes.fromhex / bytes.hex / str.startswith / f-string of an int / "
    "Python slicing are modelled in Lib/PyStr.v (library behaviour, not repo code)",
    "the branch `too much data to push!` (an item of 2^32 bytes or more) is part of the model and of the theorem "
    "C13_push_too_big but cannot be exercised by the correspondence run (4 GiB argument)",
    "modelled, not verified: src/bits/script/utils.py (script, decode_script and every *_script_pubkey / *_script_sig "
    "builder), the tables of src/bits/script/constants.py are regenerated into Gen/Opcodes.v on every run",
    "witness-stack mode is the model Model/Witness.v (data items only: an `OP_x` argument in witness mode is outside "
    "the model)",
]
FILLER = {"asm-rand", "dec-rand"}

# ------------------------------------------------------------------------------------------------
# independent reference (from the Script reference, NOT from the repo)
# ------------------------------------------------------------------------------------------------
REF = {"OP_0": 0x00, "OP_FALSE": 0x00, "OP_PUSHDATA1": 0x4c, "OP_PUSHDATA2": 0x4d, "OP_PUSHDATA4": 0x4e,
       "OP_1NEGATE": 0x4f, "OP_RESERVED": 0x50, "OP_1": 0x51, "OP_TRUE": 0x51}
for _i in range(2, 17):
    REF["OP_%d" % _i] = 0x50 + _i
for _i, _n in enumerate(
        "NOP VER IF NOTIF VERIF VERNOTIF ELSE ENDIF VERIFY RETURN TOALTSTACK FROMALTSTACK 2DROP 2DUP 3DUP 2OVER 2ROT "
        "2SWAP IFDUP DEPTH DROP DUP NIP OVER PICK ROLL ROT SWAP TUCK CAT SUBSTR LEFT RIGHT SIZE INVERT AND OR XOR EQUAL "
        "EQUALVERIFY RESERVED1 RESERVED2 1ADD 1SUB 2MUL 2DIV NEGATE ABS NOT 0NOTEQUAL ADD SUB MUL DIV MOD LSHIFT RSHIFT "
        "BOOLAND BOOLOR NUMEQUAL NUMEQUALVERIFY NUMNOTEQUAL LESSTHAN GREATERTHAN LESSTHANOREQUAL GREATERTHANOREQUAL MIN "
        "MAX WITHIN RIPEMD160 SHA1 SHA256 HASH160 HASH256 CODESEPARATOR CHECKSIG CHECKSIGVERIFY CHECKMULTISIG "
        "CHECKMULTISIGVERIFY NOP1 CHECKLOCKTIMEVERIFY CHECKSEQUENCEVERIFY NOP4 NOP5 NOP6 NOP7 NOP8 NOP9 NOP10 "
        "CHECKSIGADD".split()):
    REF["OP_" + _n] = 0x61 + _i
REF["OP_NOP2"] = 0xb1
REF["OP_NOP3"] = 0xb2
REF["OP_INVALIDOPCODE"] = 0xff
assert REF["OP_CHECKSIG"] == 0xac and REF["OP_CHECKMULTISIG"] == 0xae and REF["OP_CHECKSIGADD"] == 0xba \
    and REF["OP_NOP10"] == 0xb9 and REF["OP_WITHIN"] == 0xa5 and REF["OP_EQUAL"] == 0x87 and REF["OP_HASH160"] == 0xa9
PUSHDATA = (0x4c, 0x4d, 0x4e)
NAMES_OF = {}
for _n, _b in REF.items():
    NAMES_OF.setdefault(_b, set()).add(_n)
NONPUSH_NAMES = sorted(n for n, b in REF.items() if b not in PUSHDATA)
HEXRE = re.compile(r"(?:[0-9a-fA-F]{2})+\Z")


def ref_push(d):
    n = len(d)
    if n == 0:
        return b"\x00"                      # the empty push IS the opcode OP_0
    if n <= 75:
        return bytes([n]) + d
    if n <= 0xff:
        return b"\x4c" + bytes([n]) + d
    if n <= 0xffff:
        return b"\x4d" + n.to_bytes(2, "little") + d
    assert n <= 0xffffffff
    return b"\x4e" + n.to_bytes(4, "little") + d


def ref_asm(items):
    """items: ('op', name) | ('data', bytes)"""
    out = b""
    for k, v in items:
        out += bytes([REF[v]]) if k == "op" else ref_push(v)
    return out


def ref_disasm(bs, need_minimal=False):
    """-> list of ('op', byte) | ('data', bytes), or None when bs is not a well-formed script
    (undefined opcode byte, truncated push, and - with need_minimal - a non-minimal or empty push)"""
    out, i, n = [], 0, len(bs)
    while i < n:
        b = bs[i]
        i += 1
        if 1 <= b <= 75:
            ln, minimal = b, True
        elif b == 0x4c:
            if i + 1 > n:
                return None
            ln = bs[i]; i += 1; minimal = ln > 75
        elif b == 0x4d:
            if i + 2 > n:
                return None
            ln = int.from_bytes(bs[i:i + 2], "little"); i += 2; minimal = ln > 0xff
        elif b == 0x4e:
            if i + 4 > n:
                return None
            ln = int.from_bytes(bs[i:i + 4], "little"); i += 4; minimal = ln > 0xffff
        else:
            if b not in NAMES_OF:
                return None
            out.append(("op", b))
            continue
        if i + ln > n or (need_minimal and not minimal):
            return None
        out.append(("data", bs[i:i + ln]))
        i += ln
    return out


def matches(strs, items):
    """does the disassembly (list of str) denote the item list? opcode aliases sharing a byte are identified"""
    if not isinstance(strs, list) or len(strs) != len(items):
        return False
    for s, (k, v) in zip(strs, items):
        if k == "op":
            b = REF[v] if isinstance(v, str) else v
            if s not in NAMES_OF[b]:
                return False
        elif len(v) == 0:
            if s not in NAMES_OF[0]:
                return False
        elif s != v.hex():
            return False
    return True


def ref_compact(n):
    if n < 253:
        return bytes([n])
    if n <= 0xffff:
        return b"\xfd" + n.to_bytes(2, "little")
    if n <= 0xffffffff:
        return b"\xfe" + n.to_bytes(4, "little")
    return b"\xff" + n.to_bytes(8, "little")


def ref_witness(items):
    return ref_compact(len(items)) + b"".join(ref_compact(len(d)) + d for d in items)


def ref_read_compact(bs, i):
    if i >= len(bs):
        return None
    b = bs[i]
    w = {0xfd: 2, 0xfe: 4, 0xff: 8}.get(b, 0)
    if w == 0:
        return b, i + 1
    if i + 1 + w > len(bs):
        return None
    return int.from_bytes(bs[i + 1:i + 1 + w], "little"), i + 1 + w


def ref_witness_parse(bs):
    """-> (items, rest) for a complete witness stack followed by anything, else None"""
    r = ref_read_compact(bs, 0)
    if r is None:
        return None
    cnt, i = r
    items = []
    for _ in range(cnt):
        r = ref_read_compact(bs, i)
        if r is None:
            return None
        ln, i = r
        if i + ln > len(bs):
            return None
        items.append(bs[i:i + ln])
        i += ln
        if len(items) > len(bs):
            return None
    return items, bs[i:]


def h160(b):
    return hashlib.new("ripemd160", hashlib.sha256(b).digest()).digest()


# ------------------------------------------------------------------------------------------------
# implementation entry points (run inside the worker)
# ------------------------------------------------------------------------------------------------
def S():
    import bits.script as m
    return m


def _witness_deser(b):
    r = S().decode_script(b, witness=True)
    items, rest = r                    # what every caller does; a bare list raises ValueError here
    if not isinstance(rest, (bytes, bytearray)):
        raise ValueError("decode_script(witness=True) returned a bare list")
    return ([bytes.fromhex(x) for x in items], bytes(rest))


IMPL = {
    "script": lambda args: S().script(args),
    "decode_script": lambda b: S().decode_script(b),
    "p2pkh_script_pubkey": lambda h: S().p2pkh_script_pubkey(h),
    "p2pkh_script_sig": lambda sig, pk: S().p2pkh_script_sig(sig, pk),
    "p2pk_script_pubkey": lambda pk: S().p2pk_script_pubkey(pk),
    "p2pk_script_sig": lambda sig: S().p2pk_script_sig(sig),
    "p2sh_script_pubkey": lambda h: S().p2sh_script_pubkey(h),
    "p2sh_script_sig": lambda sigs, rs: S().p2sh_script_sig(sigs, rs),
    "multisig_script_pubkey": lambda m, pks: S().multisig_script_pubkey(m, pks),
    "multisig_script_sig": lambda sigs: S().multisig_script_sig(sigs),
    "null_data_script_pubkey": lambda d: S().null_data_script_pubkey(d),
    "p2sh_multisig_script_pubkey": lambda m, pks: S().p2sh_multisig_script_pubkey(m, pks),
    "p2sh_multisig_script_sig": lambda sigs, rs: S().p2sh_multisig_script_sig(sigs, rs),
    "p2wpkh_script_pubkey": lambda h, v: S().p2wpkh_script_pubkey(h, witness_version=v),
    "p2wpkh_script_sig": lambda: S().p2wpkh_script_sig(),
    "p2wsh_script_pubkey": lambda h, v: S().p2wsh_script_pubkey(h, witness_version=v),
    "p2wsh_script_sig": lambda: S().p2wsh_script_sig(),
    "p2sh_p2wpkh_script_pubkey": lambda h, v: S().p2sh_p2wpkh_script_pubkey(h, witness_version=v),
    "p2sh_p2wpkh_script_sig": lambda rs: S().p2sh_p2wpkh_script_sig(rs),
    "p2sh_p2wsh_script_pubkey": lambda ws, v: S().p2sh_p2wsh_script_pubkey(ws, witness_version=v),
    "p2sh_p2wsh_script_sig": lambda ws: S().p2sh_p2wsh_script_sig(ws),
    "witness_ser": lambda items: S().script([d.hex() for d in items], witness=True),
    "witness_deser": _witness_deser,
    # not repo code: the harness' Python reference recogniser against the Coq Spec recogniser `canonical`
    # (keeps the two independent statements of "canonically encoded script" in step)
    "canonical": lambda b: ref_disasm(b, need_minimal=True) is not None,
}


# ---- modes / optional parameters that the plain ops above never set --------------------------------
def _witness_parse(b):
    """decode_script(b, witness=True, parse=True) -> (raw serialisation of the first stack, rest)"""
    r = S().decode_script(b, witness=True, parse=True)
    raw, rest = r                      # a bare list (buffer exhausted early) raises ValueError here
    if not isinstance(raw, (bytes, bytearray)) or not isinstance(rest, (bytes, bytearray)):
        raise ValueError("decode_script(witness=True, parse=True) did not return (bytes, bytes)")
    return (bytes(raw), bytes(rest))


class SequenceViolation(Exception):
    """a builder changed its caller's list / answered differently the second time"""
    harness_violation = True


def _snapshot(x):
    return [bytes(e) if isinstance(e, (bytes, bytearray, memoryview)) else e for e in x] if isinstance(x, list) else x


def _call_builder(name, lst, rs):
    """the builders that take a caller-owned list (signatures / public keys / script items)"""
    m = S()
    if name in ("p2sh_script_sig", "p2sh_multisig_script_sig"):
        return getattr(m, name)(lst, rs)
    if name == "multisig_script_sig":
        return m.multisig_script_sig(lst)
    if name in ("multisig_script_pubkey", "p2sh_multisig_script_pubkey"):
        return getattr(m, name)(rs, lst)           # rs carries m here
    if name == "script":
        return m.script(lst)
    if name == "script_w":
        return m.script(lst, witness=True)
    raise KeyError(name)


SEQ_GROUPS = {
    # builders handed the SAME list object one after the other (fee estimation then final build, several inputs
    # of one multisig, one signature list given to two templates)
    "sigs": ["p2sh_script_sig", "multisig_script_sig", "p2sh_multisig_script_sig"],
    "keys": ["multisig_script_pubkey", "p2sh_multisig_script_pubkey"],
    "strs": ["script"],
}


def _seq_op(first, second):
    def run(lst, rs=None):
        before = _snapshot(lst)
        try:
            r1 = _call_builder(first, lst, rs)
        except Exception:
            r1 = None                               # a refusal of the first call is judged by its own op
        if _snapshot(lst) != before:
            raise SequenceViolation("%s(...) modified its caller's list: %d -> %d elements" % (first, len(before), len(lst)))
        r2 = _call_builder(second, lst, rs)         # the value compared with the model of `second` on the ORIGINAL args
        if _snapshot(lst) != before:
            raise SequenceViolation("%s(...) modified its caller's list" % second)
        if first == second and r1 is not None and r1 != r2:
            raise SequenceViolation("two calls with the same arguments returned different scripts")
        return r2
    return run


SEQ_OPS = {}
for _g, _names in SEQ_GROUPS.items():
    for _a in _names:
        for _b in _names:
            SEQ_OPS["seq_%s__%s" % (_a, _b)] = (_a, _b)

IMPL.update({
    "witness_parse": _witness_parse,
    # parse=True is ignored outside witness mode
    "decode_script_parse_flag": lambda b: S().decode_script(b, witness=False, parse=True),
    "script_kw": lambda args: S().script(args=args, witness=False),
    # witness_version left at its default / passed positionally
    "p2wpkh_script_pubkey_default": lambda h: S().p2wpkh_script_pubkey(h),
    "p2wsh_script_pubkey_default": lambda h: S().p2wsh_script_pubkey(h),
    "p2sh_p2wpkh_script_pubkey_default": lambda h: S().p2sh_p2wpkh_script_pubkey(h),
    "p2sh_p2wsh_script_pubkey_default": lambda ws: S().p2sh_p2wsh_script_pubkey(ws),
    "p2wpkh_script_pubkey_pos": lambda h, v: S().p2wpkh_script_pubkey(h, v),
    "p2wsh_script_pubkey_pos": lambda h, v: S().p2wsh_script_pubkey(h, v),
    "p2sh_p2wpkh_script_pubkey_pos": lambda h, v: S().p2sh_p2wpkh_script_pubkey(h, v),
    "p2sh_p2wsh_script_pubkey_pos": lambda ws, v: S().p2sh_p2wsh_script_pubkey(ws, v),
})
IMPL.update({name: _seq_op(a, b) for name, (a, b) in SEQ_OPS.items()})

# variant op -> (library op whose model / oracle judges it, argument rewriting)
VARIANT_OF = {"decode_script_parse_flag": ("decode_script", lambda a: a), "script_kw": ("script", lambda a: a)}
for _n in ("p2wpkh_script_pubkey", "p2wsh_script_pubkey", "p2sh_p2wpkh_script_pubkey", "p2sh_p2wsh_script_pubkey"):
    VARIANT_OF[_n + "_default"] = (_n, lambda a: [a[0], 0])
    VARIANT_OF[_n + "_pos"] = (_n, lambda a: a)
for _name, (_a, _b) in SEQ_OPS.items():
    if _b in ("multisig_script_sig", "script"):
        VARIANT_OF[_name] = (_b, lambda a: [a[0]])
    elif _b in ("multisig_script_pubkey", "p2sh_multisig_script_pubkey"):
        VARIANT_OF[_name] = (_b, lambda a: [a[1], a[0]])
    else:
        VARIANT_OF[_name] = (_b, lambda a: [a[0], a[1]])


def base_case(c):
    """the plain library case a variant / sequence op is judged by"""
    if c["op"] in VARIANT_OF:
        op, f = VARIANT_OF[c["op"]]
        return dict(c, op=op, args=f(c["args"]))
    return c


# ------------------------------------------------------------------------------------------------
# the command line entry point `bits script` (run in-process through harness/cli.py)
#   bits [-0 FMT] script ITEM...              = write_bytes(script(ITEMS), output_format)
#   bits script --witness HEX...              = script(ITEMS, witness=True)
#   bits script --decode HEXSCRIPT...         = json.dumps([decode_script(bytes.fromhex(h)) for h in ...])
#   bits script --decode --witness HEX...     = the same with witness=True
# The sub-parser has no -0/-1/-o of its own: the output format comes from the base option in FRONT of the
# sub-command or from the configuration file.  Each cli_* op returns the canonical value of its library op.
# ------------------------------------------------------------------------------------------------
CLI_FMT = {
    "hex": ([], None), "hex-explicit": (["-0", "hex"], None), "x": (["-0x"], None),
    "raw": (["-0", "raw"], None), "bin": (["-0", "bin"], None), "b": (["-0b"], None),
    "cfg-raw": ([], {"output_format": "raw"}), "cfg-bin": ([], {"output_format": "bin"}),
    "cfg-hex-in-raw": (["-1", "raw"], {"output_format": "hex"}),     # an input format must not matter
    "loglevel": ([], None),                                            # -L debug after the sub-command
}


class CliLeak(Exception):
    """the CLI refused (error return / exit / exception) but had already written to stdout"""


def _cli_run(pre, sub, cfg=None):
    import cli
    return cli.run_main(list(pre) + ["script"] + list(sub), config_json=cfg)


def _cli_refused(r):
    return bool(r["exc"]) or (isinstance(r["rc"], str) and r["rc"].startswith("ERROR")) or r["exit"] not in (None, 0)


def _cli_raise_if_refused(r):
    if not _cli_refused(r):
        return
    if r["out"]:
        raise CliLeak("refusal (%r) after writing %r to stdout" % (r["rc"], r["out"][:60]))
    import builtins
    klass = getattr(builtins, r["exc"] or "", None)
    if not (isinstance(klass, type) and issubclass(klass, BaseException)):
        klass = RuntimeError
    raise klass(str(r["rc"])[:200])


def _cli_payload(out, fmt):
    """stdout of write_bytes -> bytes (strict: exactly the documented rendering, one trailing newline)"""
    kind = {"hex-explicit": "hex", "x": "hex", "b": "bin", "cfg-raw": "raw", "cfg-bin": "bin", "cfg-hex-in-raw": "hex",
            "loglevel": "hex"}.get(fmt, fmt)
    if kind == "raw":
        return bytes(out)
    text = out.decode("ascii")
    if not text.endswith("\n") or "\n" in text[:-1]:
        raise CliLeak("output is not one line: %r" % text[:80])
    body = text[:-1]
    if kind == "hex":
        if body != body.lower() or len(body) % 2:
            raise CliLeak("not lower-case hex: %r" % body[:80])
        return bytes.fromhex(body) if HEXRE.match(body) or body == "" else _bad(body)
    if len(body) % 8 or body.strip("01"):
        raise CliLeak("not a binary string: %r" % body[:80])
    return int(body, 2).to_bytes(len(body) // 8, "big") if body else b""


def _bad(body):
    raise CliLeak("not hex: %r" % body[:80])


def _cli_script(items, fmt, witness=False):
    pre, cfg = CLI_FMT[fmt]
    sub = (["--witness"] if witness else []) + (["-L", "debug"] if fmt == "loglevel" else []) + list(items)
    r = _cli_run(pre, sub, cfg)
    _cli_raise_if_refused(r)
    return _cli_payload(r["out"], fmt)


def _cli_decode_raw(hexes, variant="plain", witness=False):
    pre = ["-1", "raw"] if variant == "in-raw" else (["-0", "raw"] if variant == "out-raw" else [])
    sub = ["--decode"] + (["--witness"] if witness else []) + (["-L", "info"] if variant == "loglevel" else [])
    sub += (["--"] if variant == "dashdash" else []) + list(hexes)
    r = _cli_run(pre, sub)
    _cli_raise_if_refused(r)
    text = r["out"].decode("utf-8")
    if not text.endswith("\n"):
        raise CliLeak("no trailing newline: %r" % text[-40:])
    import json
    v = json.loads(text)
    if not (isinstance(v, list) and len(v) == len(hexes)):
        raise CliLeak("expected a JSON list with one entry per script, got %r" % text[:80])
    return v


def _hexarg(b, variant):
    h = bytes(b).hex()
    if variant == "upper":
        return h.upper()
    if variant == "spaced":
        return " ".join(h[i:i + 2] for i in range(0, len(h), 2)) + " "
    return h


def _cli_decode(b, variant):
    v = _cli_decode_raw([_hexarg(b, variant)], variant)[0]
    if not (isinstance(v, list) and all(isinstance(x, str) for x in v)):
        raise CliLeak("not a list of strings: %r" % (v,))
    return v


def _cli_decode_multi(scripts):
    """several scripts in one call: no model op takes a list of scripts, so the CLI answer is compared with the
    library function called directly in this worker (True = identical)"""
    try:
        want = [S().decode_script(b) for b in scripts]
    except Exception as e:          # the library refuses one of them: the CLI must refuse too, printing nothing
        r = _cli_run([], ["--decode"] + [b.hex() for b in scripts])
        return True if (_cli_refused(r) and not r["out"]) else "library refuses (%s), CLI printed %r" % (type(e).__name__, r["out"][:80])
    got = _cli_decode_raw([b.hex() for b in scripts])
    return True if got == want else "cli %r != library %r" % (got, want)


def _cli_decode_w(b):
    """decode --witness: the library returns (items, rest); any JSON rendering [[hex items], hex rest] is accepted"""
    v = _cli_decode_raw([bytes(b).hex()], witness=True)[0]
    if not (isinstance(v, list) and len(v) == 2 and isinstance(v[0], list) and isinstance(v[1], str)):
        raise CliLeak("not [items, rest]: %r" % (v,))
    return ([bytes.fromhex(x) for x in v[0]], bytes.fromhex(v[1]))


IMPL.update({
    "cli_script": lambda items, fmt: _cli_script(items, fmt),
    "cli_script_w": lambda items, fmt: _cli_script([d.hex() for d in items], fmt, witness=True),
    "cli_decode": _cli_decode,
    "cli_decode_str": lambda h: _cli_decode_raw([h])[0],
    "cli_decode_multi": _cli_decode_multi,
    "cli_decode_w": _cli_decode_w,
})

# the expected value of a cli_* op is the EXISTING model op of its library counterpart
CLI_MODEL = {"cli_script": "c13_script", "cli_script_w": "c13_witness_ser", "cli_decode": "c13_decode_script",
             "cli_decode_w": "c13_witness_deser"}
CLI_LIB = {"cli_script": "script", "cli_script_w": "witness_ser", "cli_decode": "decode_script",
           "cli_decode_w": "witness_deser"}


def model_call(c):
    if c["op"] in CLI_MODEL:
        return CLI_MODEL[c["op"]], c["args"][:1]
    if c["op"] in VARIANT_OF:
        b = base_case(c)
        return "c13_" + b["op"], b["args"]
    return "c13_" + c["op"], c["args"]


# `bits script --decode --witness` ended in json.dumps((items, bytes)) -> TypeError on the pinned tree (repaired by
# /repo 1e6197d, KNOWN_FINDINGS.txt `fixed:` line): the cases of this class are always generated
def _decode_witness_cases_enabled():
    return True


# ------------------------------------------------------------------------------------------------
# the literal property on the implementation
# ------------------------------------------------------------------------------------------------
def _classify(arg):
    if not isinstance(arg, str):
        return None
    if arg in REF:
        return None if REF[arg] in PUSHDATA else ("op", arg)
    if HEXRE.match(arg):
        return ("data", bytes.fromhex(arg))
    return None


def _ok_sig(s):
    return 1 <= len(s) <= 75      # the quantifier's 8..73 and everything else one direct push can carry


def _ok_key(k):
    return 1 <= len(k) <= 75      # 33 / 65 in the quantifier


def _ok_hash(h):
    return 1 <= len(h) <= 75      # 20 / 32 in the quantifier


def _intended(op, a):
    """intended item list of a template builder for arguments inside the property's quantifier, else None"""
    O, D = (lambda n: ("op", n)), (lambda d: ("data", d))
    if op == "p2pkh_script_pubkey":
        return [O("OP_DUP"), O("OP_HASH160"), D(a[0]), O("OP_EQUALVERIFY"), O("OP_CHECKSIG")] if _ok_hash(a[0]) else None
    if op == "p2pkh_script_sig":
        return [D(a[0]), D(a[1])] if _ok_sig(a[0]) and _ok_key(a[1]) else None
    if op == "p2pk_script_pubkey":
        return [D(a[0]), O("OP_CHECKSIG")] if _ok_key(a[0]) else None
    if op == "p2pk_script_sig":
        return [D(a[0])] if _ok_sig(a[0]) else None
    if op == "p2sh_script_pubkey":
        return [O("OP_HASH160"), D(a[0]), O("OP_EQUAL")] if _ok_hash(a[0]) else None
    if op == "p2sh_script_sig":
        return [D(s) for s in a[0]] + [D(a[1])] if all(map(_ok_sig, a[0])) and 1 <= len(a[1]) <= 600 else None
    if op in ("multisig_script_pubkey", "p2sh_multisig_script_pubkey"):
        m, pks = a
        if not (1 <= m <= len(pks) <= 16 and all(map(_ok_key, pks))):
            return None
        ms = [O("OP_%d" % m)] + [D(k) for k in pks] + [O("OP_%d" % len(pks)), O("OP_CHECKMULTISIG")]
        if op == "multisig_script_pubkey":
            return ms
        return [O("OP_HASH160"), D(h160(ref_asm(ms))), O("OP_EQUAL")]
    if op == "multisig_script_sig":
        return [O("OP_0")] + [D(s) for s in a[0]] if all(map(_ok_sig, a[0])) else None
    if op == "null_data_script_pubkey":
        return [O("OP_RETURN"), D(a[0])] if len(a[0]) <= 80 else None
    if op == "p2sh_multisig_script_sig":
        return [O("OP_0")] + [D(s) for s in a[0]] + [D(a[1])] if all(map(_ok_sig, a[0])) and 1 <= len(a[1]) <= 600 else None
    if op in ("p2wpkh_script_pubkey", "p2wsh_script_pubkey"):
        return [O("OP_%d" % a[1]), D(a[0])] if 0 <= a[1] <= 16 and _ok_hash(a[0]) else None
    if op in ("p2wpkh_script_sig", "p2wsh_script_sig"):
        return []
    if op == "p2sh_p2wpkh_script_pubkey":
        if not (0 <= a[1] <= 16 and _ok_hash(a[0])):
            return None
        return [O("OP_HASH160"), D(h160(ref_asm([O("OP_%d" % a[1]), D(a[0])]))), O("OP_EQUAL")]
    if op == "p2sh_p2wpkh_script_sig":
        return [D(a[0])] if 1 <= len(a[0]) <= 600 else None
    if op == "p2sh_p2wsh_script_pubkey":
        if not (0 <= a[1] <= 16 and 1 <= len(a[0]) <= 600):
            return None
        prog = hashlib.sha256(a[0]).digest()
        return [O("OP_HASH160"), D(h160(ref_asm([O("OP_%d" % a[1]), D(prog)]))), O("OP_EQUAL")]
    if op == "p2sh_p2wsh_script_sig":
        if not 1 <= len(a[0]) <= 600:
            return None
        return [D(ref_asm([O("OP_0"), D(hashlib.sha256(a[0]).digest())]))]   # BIP141: push of 0 <32-byte hash>
    return None


def prop_oracle(c):
    try:
        return _prop_oracle(c)
    except Exception as e:     # the property promises a value here
        return "the implementation raised %s: %s" % (type(e).__name__, str(e)[:200])


def in_quantifier(c):
    """is the case inside the set the property quantifies over (so that the oracle says something)?"""
    c = base_case(c)
    op, a = c["op"], c["args"]
    if op in ("cli_decode_multi", "cli_decode_str"):
        return True
    if op == "witness_parse":
        r = ref_witness_parse(a[0])
        return r is not None and ref_witness(r[0]) + r[1] == a[0]
    if op in CLI_LIB:
        op, a = CLI_LIB[op], a[:1]
    if op == "script":
        return all(_classify(x) is not None for x in a[0])
    if op == "decode_script":
        return ref_disasm(a[0], need_minimal=True) is not None
    if op == "witness_ser":
        return True
    if op == "witness_deser":
        return ref_witness_parse(a[0]) is not None
    if op == "canonical":
        return False
    return _intended(op, a) is not None


def _cli_oracle(c):
    """cli_* ops: the CLI must print exactly what the property requires of the library op, and refuse - with empty
    stdout - whatever the library refuses"""
    m = S()
    op, a = c["op"], c["args"]
    if op == "cli_decode_multi":
        v = IMPL[op](*a)
        return None if v is True else v
    if op == "cli_decode_str":
        try:
            lib = ("ok", m.decode_script(bytes.fromhex(a[0])))
        except Exception as e:
            lib = ("err", type(e).__name__)
        r = _cli_run([], ["--decode", a[0]])
        if lib[0] == "err":
            return None if (_cli_refused(r) and not r["out"]) else "library refuses (%s) but the CLI printed %r (rc=%r)" % (lib[1], r["out"][:80], r["rc"])
        return None if IMPL[op](*a) == lib[1] else "cli != library"
    lib_case = {"cls": c["cls"], "op": CLI_LIB[op], "args": a[:1], "strict": False}
    # (1) refusal: what the library refuses, the CLI refuses without output
    try:
        lib = ("ok", IMPL[CLI_LIB[op]](*a[:1]))
    except Exception as e:
        lib = ("err", type(e).__name__)
    try:
        got = ("ok", IMPL[op](*a))
    except CliLeak as e:
        return "CLI: %s" % e
    except Exception as e:
        got = ("err", type(e).__name__)
    if lib[0] == "err":
        return None if got[0] == "err" else "library refuses (%s) but the CLI printed a value %s" % (lib[1], short(got[1], 80))
    if got[0] == "err":
        return "library returns a value but the CLI refuses with %s" % got[1]
    # (2) the printed value satisfies the literal statement (independent reference), when inside the quantifier
    if not in_quantifier(lib_case):
        return None if norm_val(got[1]) == norm_val(lib[1]) else "CLI prints %s, library returns %s" % (short(got[1], 80), short(lib[1], 80))
    if op == "cli_script":
        want = ref_asm([_classify(x) for x in a[0]])
    elif op == "cli_script_w":
        want = ref_witness(a[0])
    elif op == "cli_decode":
        items = ref_disasm(a[0], need_minimal=True)
        if not matches(got[1], items):
            return "CLI disassembly %s is not the reference disassembly %s" % (short(got[1], 200), short(items, 200))
        back = _cli_script(got[1], "hex")
        return None if back == a[0] else "bits script $(bits script --decode X) = %s != X" % short(back.hex(), 80)
    else:
        r = ref_witness_parse(a[0])
        want = (r[0], r[1])
        got = ("ok", (list(got[1][0]), got[1][1]))
    return None if got[1] == want else "CLI prints %s, the property requires %s" % (
        short(got[1].hex() if isinstance(got[1], bytes) else got[1], 100), short(want.hex() if isinstance(want, bytes) else want, 100))


def norm_val(v):
    if isinstance(v, tuple):
        return [norm_val(x) for x in v]
    if isinstance(v, list):
        return [norm_val(x) for x in v]
    return v


def _seq_oracle(c):
    """a builder is called with a caller-owned list, then a builder is called again with the SAME list object: both
    calls must emit their intended scripts and the list must be left as it was"""
    first, second = SEQ_OPS[c["op"]]
    a = c["args"]
    lst, rs = list(a[0]), (a[1] if len(a) > 1 else None)
    before = _snapshot(lst)
    steps = []
    for i, name in enumerate((first, second)):
        bc = base_case(dict(c, op="seq_%s__%s" % (name, name)))
        items = _intended(bc["op"], bc["args"]) if bc["op"] != "script" else \
            ([_classify(x) for x in a[0]] if all(_classify(x) is not None for x in a[0]) else None)
        try:
            out = _call_builder(name, lst, rs)
        except Exception as e:
            if items is None:
                steps.append("call %d %s: refused" % (i + 1, name))
                continue
            return "call %d, %s(<the same list>%s): raised %s although the arguments are inside the template" % (
                i + 1, name, "" if rs is None else ", ...", type(e).__name__)
        if _snapshot(lst) != before:
            msg = "call %d, %s(lst%s) changed the caller's list from %d to %d elements (%s)" % (
                i + 1, name, "" if rs is None else ", arg", len(before), len(lst), short(_snapshot(lst)[len(before):], 80))
            if i == 0:                          # what the next call with that list object then emits
                try:
                    out2 = _call_builder(second, lst, rs)
                    msg += "; call 2, %s(lst%s) then emits %s = %s" % (second, "" if rs is None else ", arg", short(out2.hex(), 80),
                                                                     short(S().decode_script(out2), 160))
                except Exception as e:
                    msg += "; call 2, %s then raises %s" % (second, type(e).__name__)
            return msg
        if items is not None and out != ref_asm(items):
            return "call %d, %s on the same list emits %s, the intended script is %s; disassembly %s" % (
                i + 1, name, short(out.hex(), 100), short(ref_asm(items).hex(), 100), short(S().decode_script(out), 200))
    return None


def _prop_oracle(c):
    m = S()
    op, a = c["op"], c["args"]
    if op.startswith("cli_"):
        return _cli_oracle(c)
    if op in SEQ_OPS:
        return _seq_oracle(c)
    if op in VARIANT_OF:                      # same statement as the plain op, through the variant entry point
        b = base_case(c)
        try:
            got = IMPL[op](*a)
        except Exception as e:
            got = e
        try:
            lib = IMPL[b["op"]](*b["args"])
        except Exception as e:
            lib = e
        if isinstance(lib, Exception) != isinstance(got, Exception) or (not isinstance(lib, Exception) and lib != got):
            return "%s%r = %s but %s%r = %s" % (op, tuple(short(x, 40) for x in a), short(got, 100), b["op"],
                                                tuple(short(x, 40) for x in b["args"]), short(lib, 100))
        return _prop_oracle(b)
    if op == "witness_parse":
        r = ref_witness_parse(a[0])
        if r is None or ref_witness(r[0]) + r[1] != a[0]:
            return None                       # not a canonically serialised stack followed by anything
        raw, rest = IMPL[op](a[0])
        if raw != ref_witness(r[0]) or rest != r[1]:
            return "decode_script(witness=True, parse=True) returned raw stack of %d bytes %s..%s and %d bytes rest; the stack's " \
                   "serialisation has %d bytes (..%s), rest %d bytes" % (len(raw), raw[:6].hex(), raw[-4:].hex(), len(rest),
                                                                        len(a[0]) - len(r[1]), ref_witness(r[0])[-4:].hex(), len(r[1]))
        return None
    if op == "script":
        items = [_classify(x) for x in a[0]]
        if any(i is None for i in items):
            return None                       # outside the property's quantifier
        out = m.script(a[0])
        want = ref_asm(items)
        if out != want:
            return "script(items) = %s is not the minimal-push serialisation %s" % (short(out.hex(), 80), short(want.hex(), 80))
        dec = m.decode_script(out)
        if not matches(dec, items):
            return "decode_script(script(items)) = %s is not items (up to aliases)" % short(dec, 200)
        return None
    if op == "decode_script":
        items = ref_disasm(a[0], need_minimal=True)
        if items is None:
            return None                       # not a canonical script
        dec = m.decode_script(a[0])
        if not matches(dec, items):
            return "decode_script(canonical script) = %s, the reference disassembly is %s" % (short(dec, 200), short(items, 200))
        back = m.script(dec)
        if back != a[0]:
            return "script(decode_script(bs)) = %s != bs" % short(back.hex(), 100)
        return None
    if op == "canonical":
        return None
    if op == "witness_ser":
        out = m.script([d.hex() for d in a[0]], witness=True)
        want = ref_witness(a[0])
        if out != want:
            return "witness stack serialised as %s, CompactSize rule requires %s" % (short(out.hex(), 80), short(want.hex(), 80))
        tail = b"\x01\x02\x03"
        back = m.decode_script(out + tail, witness=True)
        if not (isinstance(back, tuple) and back[0] == [d.hex() for d in a[0]] and back[1] == tail):
            return "decode_script(witness=True) does not return (items, rest): %s" % short(back, 200)
        return None
    if op == "witness_deser":
        r = ref_witness_parse(a[0])
        if r is None:
            return None
        back = m.decode_script(a[0], witness=True)
        if not (isinstance(back, tuple) and back[0] == [d.hex() for d in r[0]] and back[1] == r[1]):
            return "decode_script(witness=True) = %s, reference parse = %s" % (short(back, 200), short(r, 200))
        return None
    items = _intended(op, a)
    if items is None:
        return None
    out = IMPL[op](*a)
    want = ref_asm(items)
    dec = m.decode_script(out)
    if not matches(dec, items):
        return "%s: disassembly %s is not the intended %s" % (op, short(dec, 300), short(items, 300))
    if out != want:
        return "%s emits %s, the intended script is %s" % (op, short(out.hex(), 120), short(want.hex(), 120))
    return None


# ------------------------------------------------------------------------------------------------
# generators
# ------------------------------------------------------------------------------------------------
BOUNDARY_LENS = [1, 2, 20, 32, 33, 65, 73, 74, 75, 76, 77, 80, 254, 255, 256, 257, 520, 600, 65534, 65535, 65536, 65537, 70000]


def _len_cls(n):
    if n == 0:
        return "len0"
    if n <= 75:
        return "direct" if n < 75 else "direct75"
    if n <= 255:
        return "pd1-76" if n == 76 else ("pd1-255" if n == 255 else "pd1")
    if n <= 65535:
        return "pd2-256" if n == 256 else ("pd2-65535" if n == 65535 else "pd2")
    return "pd4-65536" if n == 65536 else "pd4"


def _rand_len(rng, big=True):
    r = rng.random()
    if r < 0.55:
        return rng.randrange(1, 76)
    if r < 0.8:
        return rng.randrange(76, 256)
    if r < 0.95 or not big:
        return rng.randrange(256, 700)
    return rng.choice([65535, 65536, rng.randrange(60000, 70001)])


def _rand_items(rng, maxn=8, big=True, names=None):
    names = names or NONPUSH_NAMES
    out = []
    for _ in range(rng.randrange(0, maxn + 1)):
        if rng.random() < 0.5:
            out.append(("op", rng.choice(names)))
        else:
            out.append(("data", rng.randbytes(_rand_len(rng, big))))
    return out


def _strs(items):
    return [v if k == "op" else v.hex() for k, v in items]


def _sig(rng, n=None):
    return rng.randbytes(n if n is not None else rng.randrange(8, 74))


def _key(rng, comp=None):
    comp = rng.random() < 0.5 if comp is None else comp
    return (bytes([rng.choice([2, 3])]) + rng.randbytes(32)) if comp else (b"\x04" + rng.randbytes(64))


# data-item patterns whose treatment must not depend on the neighbouring element: script numbers (minimal and padded),
# sign-bit endings, zero endings, all-zero, single small values, and the direct-push / PUSHDATA1 boundary
def _adjacency_patterns(rng):
    pats = ["00", "01", "02", "10", "7f", "80", "81", "ff", "0000", "0100", "0500", "ff00", "7f80", "8000", "0080", "e803",
            "e80300", "e8030000", "e803000000", "7f00000000", "ffff0000", "00000000", "0000000000", "000000000000",
            "ffffff7f", "ffffffff00", "0000008000", "010000000000", "aabbccddee80", "aabbccddeeff"]
    pats += [rng.randbytes(n).hex() for n in (1, 2, 3, 4, 5, 6)]
    pats += [(rng.randbytes(n - 1) + e).hex() for n in (2, 3, 4, 5, 6) for e in (b"\x00", b"\x80", b"\xff")]
    pats += [(rng.randbytes(n - 2) + b"\x00\x00").hex() for n in (3, 4, 5, 6)]
    pats += [(rng.randbytes(74) + b"\x00").hex(), (rng.randbytes(75) + b"\x00").hex(), "00" * 75, "00" * 76,
             (rng.randbytes(73) + b"\x00\x00").hex()]
    return pats


def gen_cases(rng, tier):
    T = tier == "thorough"
    out = []
    A = lambda cls, strs: out.append(case(cls, "script", strs))
    def Dd(cls, bs):
        out.append(case(cls, "decode_script", bs))
        out.append(case("canon-" + cls[4:], "canonical", bs))

    # ---- script(): assembly -------------------------------------------------------------------
    A("asm-empty-list", [])
    A("asm-empty-data", [""])
    A("asm-empty-data", ["OP_DUP", "", "aa"])
    for n in sorted(REF):                                   # every name of the reference, alone
        A("asm-op-each" if REF[n] not in PUSHDATA else "asm-pushdata-name", [n])
    for n in ("OP_0", "OP_FALSE", "OP_1", "OP_TRUE", "OP_NOP2", "OP_CHECKLOCKTIMEVERIFY", "OP_NOP3", "OP_CHECKSEQUENCEVERIFY"):
        A("asm-alias", [n, "aabb", n])
    A("asm-doctest", ["OP_2", "024c9b21035e4823d6f09d5a948201d14086d854dfa5bba828c06f5131d9cfe14f",
                      "03fe0b5ca0ab60705b21a00cbd9900026f282c7188427123e87e0dc344ce742eb0",
                      "02528e776c2bf0be68f4503151fd036c9cb720c4977f6f5b0248d5472c654aebe4", "OP_3", "OP_CHECKMULTISIG"])
    lens = list(BOUNDARY_LENS)
    if T:
        lens = sorted(set(lens) | set(range(1, 601)) | {65533, 65538, 69999})
    else:
        lens = sorted(set(lens) | set(rng.sample(range(1, 601), 60)) | {70, 71, 72, 78, 79, 250, 251, 252, 253, 258})
    for n in lens:
        d = rng.randbytes(n)
        A("asm-" + _len_cls(n), [d.hex()])
        if n <= 700 or T:
            A("asm-ctx-" + _len_cls(n), ["OP_DUP", d.hex(), "OP_CHECKSIG", "ff"])
    for _ in range(4000 if T else 700):
        A("asm-prog", _strs(_rand_items(rng, 8, big=False)))
    for _ in range(60 if T else 8):
        A("asm-prog-big", _strs(_rand_items(rng, 5, big=True)))
    for _ in range(300 if T else 60):                       # plain random filler
        A("asm-rand", _strs(_rand_items(rng, 3, big=False)))
    # strings that are neither (malformed stream / Python leniency)
    bad = [("asm-bad-name", ["OP_FOO"]), ("asm-bad-name", ["OP_"]), ("asm-bad-name", ["OP_dup"]), ("asm-bad-name", ["OP_17"]),
           ("asm-bad-name", ["aa", "OP_CHECKSIGG"]), ("asm-bad-name", ["OP_DUP "]), ("asm-bad-name", ["OP_é"]),
           ("asm-bad-name", ["OP_0\x00"]), ("asm-bad-name", ["OP_DUP\n"]), ("asm-bad-hex", ["a\x00"]),
           ("asm-bad-hex", ["zz"]), ("asm-bad-hex", ["op_dup"]), ("asm-bad-hex", ["0x00"]), ("asm-bad-hex", [" OP_DUP"]),
           ("asm-bad-hex", ["aa", "g0"]), ("asm-bad-hex", ["éé"]), ("asm-bad-hex", ["a٠"]), ("asm-bad-hex", ["OP"]),
           ("asm-odd-hex", ["a"]), ("asm-odd-hex", ["abc"]), ("asm-odd-hex", ["aa b"]), ("asm-odd-hex", ["a a"]),
           ("asm-ws-hex", [" aa bb "]), ("asm-ws-hex", ["aa\tbb\ncc\rdd\x0bee\x0cff"]), ("asm-ws-hex", ["   "]),
           ("asm-ws-hex", ["aa\x1cbb"]), ("asm-ws-hex", ["aa\x85bb"]), ("asm-ws-hex", [" " * 5 + "00" * 76]),
           ("asm-upper-hex", ["AABBccDd"]), ("asm-upper-hex", ["0A" * 76]),
           ("asm-err-order", ["zz", "OP_FOO"]), ("asm-err-order", ["OP_FOO", "zz"]), ("asm-err-order", ["aa", "OP_DUP", "q"])]
    for cls, strs in bad:
        A(cls, strs)
    for _ in range(200 if T else 40):                       # valid program with one corrupted string
        strs = _strs(_rand_items(rng, 6, big=False)) or ["aa"]
        i = rng.randrange(len(strs))
        s = strs[i]
        j = rng.randrange(len(s) + 1)
        strs[i] = s[:j] + rng.choice(["x", " ", "O", "_", "0", "f", "F", "é"]) + s[j + (rng.random() < 0.5):]
        A("asm-corrupt", strs)

    # ---- decode_script(): disassembly ---------------------------------------------------------
    Dd("dec-empty", b"")
    progs = [ref_asm(_rand_items(rng, 8, big=False)) for _ in range(1500 if T else 300)]
    progs += [ref_asm(_rand_items(rng, 4, big=True)) for _ in range(40 if T else 6)]
    for n in lens:
        if n <= 700 or n in (65535, 65536, 70000) or T:
            progs.append(ref_asm([("data", rng.randbytes(n)), ("op", "OP_EQUAL")]))
    for p in progs:
        Dd("dec-canon", p)
    for p in progs[: (600 if T else 150)]:
        if p:
            Dd("dec-trunc", p[: rng.randrange(len(p))])
            i = rng.randrange(len(p))
            Dd("dec-mutate", p[:i] + bytes([rng.randrange(256)]) + p[i + 1:])
    for b in range(256):                                    # every first byte: alone, and followed by data
        Dd("dec-byte-alone", bytes([b]))
        Dd("dec-byte-ctx", bytes([b]) + rng.randbytes(rng.choice([1, 2, 3, 5, 80])))
    for k in (0, 1, 2, 75, 76, 255):                        # non-minimal / boundary PUSHDATA lengths
        d = rng.randbytes(k)
        Dd("dec-nonminimal", b"\x4c" + bytes([k]) + d + b"\x76")
        Dd("dec-nonminimal", b"\x4d" + k.to_bytes(2, "little") + d + b"\x76")
        Dd("dec-nonminimal", b"\x4e" + k.to_bytes(4, "little") + d + b"\x76")
    for s in ("4c", "4c05", "4c05aabb", "4d", "4d01", "4d0100", "4d0100aa", "4d0200aa", "4dffff", "4e", "4e01", "4e0100",
              "4e010000", "4e01000000", "4e01000000aa", "4e02000000aa", "4effffffff", "4effffffffaabb", "4b", "4baa", "01", "0100", "00",
              "0000", "4c00", "4d0000", "4e00000000", "4c4c4c", "4d4d4d4d", "4e4e4e4e4e4e"):
        Dd("dec-pd-short", bytes.fromhex(s))
    for b in list(range(0xbb, 0xff)) + [0xff]:
        Dd("dec-undefined" if b != 0xff else "dec-invalidopcode", b"\x76" + bytes([b]) + b"\x87")
    for _ in range(1500 if T else 300):
        Dd("dec-rand", rng.randbytes(rng.randrange(0, 40)))
    for _ in range(400 if T else 80):                       # random, but mostly opcode-range bytes
        Dd("dec-rand-ops", bytes(rng.choice([rng.randrange(0x4f, 0xbb), rng.randrange(256), 0, 1, 2]) for _ in range(rng.randrange(1, 30))))

    # ---- adjacency: every data pattern FOLLOWED BY and PRECEDED BY every opcode name (aliases included), and
    #      pairs of adjacent data items; assembled, and the reference assembly disassembled ----
    pats = _adjacency_patterns(rng)
    names = [n for n in sorted(REF) if REF[n] not in PUSHDATA]
    for n in names:
        if T:
            for p in pats:
                A("adj-op-" + ("locktime" if REF[n] in (0xb1, 0xb2) else "any"), [p, n, p])
        groups = [pats[i::3] for i in range(3)]
        for g in groups:
            strs = []
            for p in g:
                strs += [p, n, p]
            A("adj-op-" + ("locktime" if REF[n] in (0xb1, 0xb2) else "any") + "-multi", strs)
            Dd("dec-adj-op", ref_asm([_classify(x) for x in strs]))
    for n in ("OP_CHECKLOCKTIMEVERIFY", "OP_CHECKSEQUENCEVERIFY", "OP_NOP2", "OP_NOP3", "OP_CHECKSIG", "OP_CHECKMULTISIG",
              "OP_EQUAL", "OP_IF", "OP_RETURN", "OP_PICK", "OP_ROLL", "OP_1ADD", "OP_WITHIN", "OP_SIZE", "OP_0", "OP_1NEGATE"):
        for p in pats:                                   # script-number consumers individually, in both tiers
            A("adj-num-" + n[3:].lower(), [p, n, "OP_DROP"])
            A("adj-num-" + n[3:].lower() + "-pre", ["OP_DUP", n, p])
    for p in pats:                                       # a data item at the end, alone between data items
        A("adj-data-data", [p, p])
        A("adj-data-data", [rng.choice(pats), p, rng.choice(pats)])
    # ---- element counts above the consensus limits (201 ops, 520-byte elements, 10000-byte scripts, 1000 items):
    #      the codec is not an interpreter, it assembles and disassembles them all ----
    def _limits():
        yield "ops", lambda k: ["OP_DUP"] * k
        yield "ops-alt", lambda k: ["OP_DUP", "OP_DROP"] * (k // 2) + ["OP_NOP"] * (k % 2)
        yield "ops-mixed", lambda k: (["OP_1", "aa", "OP_ADD", "OP_16", "OP_1NEGATE", "OP_CHECKSIG"] * k)[: 3 * k]
        yield "ops-all", lambda k: (names * (k // len(names) + 1))[:k]
        yield "items", lambda k: ["%02x" % (i & 0xff) for i in range(k)]
        yield "smallints", lambda k: ["OP_%d" % (i % 17) for i in range(k)]
    for nm, f in _limits():
        for k in (199, 200, 201, 202, 203, 402, 1000, 1001) + ((10000, 10001) if T or nm in ("ops", "items") else ()):
            strs = f(k)
            A("limit-%s-%d" % (nm, k) if k in (201, 202) else "limit-" + nm, strs)
            Dd("dec-limit-%s-%d" % (nm, k) if k in (201, 202) else "dec-limit-" + nm, ref_asm([_classify(x) for x in strs]))
    for n in (519, 520, 521, 522, 9999, 10000, 10001):
        A("limit-element-%d" % n if n in (520, 521) else "limit-script-size", ["OP_IF", rng.randbytes(n).hex(), "OP_ENDIF"])
        Dd("dec-limit-element" if n < 1000 else "dec-limit-script-size", ref_asm([("data", rng.randbytes(n)), ("op", "OP_DROP")]))
    A("limit-script-size", [rng.randbytes(500).hex(), "OP_DROP"] * 21)          # 10563 bytes, every element <= 520
    A("limit-multisig-20", ["OP_15"] + [_key(rng, True).hex() for _ in range(20)] + ["14", "OP_CHECKMULTISIG"] + ["OP_DUP"] * 182)
    # ---- content that looks like structure / pairs that collide under cheap fingerprints -------------------------
    for d in (b"OP_DUP", b"OP_0", b"76a914", b"\x4c\x01", b"\x4d\x01\x00", b"\x4e\x01\x00\x00\x00", b"\x01", b"\x4b" * 75, b"\x4c" * 76,
              b"0123456789abcdef", b"\xfd\xfd\x00", b"\xfe" * 5, b"\xff" * 9, b"\x00"):
        A("asm-looks-like", [d.hex(), "OP_DROP", d.hex()])
        Dd("dec-looks-like", ref_asm([("data", d), ("op", "OP_DROP"), ("data", d)]))
    for _ in range(40 if T else 8):
        n = rng.choice([20, 33, 76, 300])
        d1 = bytearray(rng.randbytes(n)); d2 = bytearray(d1); d2[n // 2] ^= 1 << rng.randrange(8)
        A("asm-collide-pair", ["OP_DUP", bytes(d1).hex(), "OP_EQUAL"])          # same length, same first/last bytes
        A("asm-collide-pair", ["OP_DUP", bytes(d2).hex(), "OP_EQUAL"])
        h = rng.randbytes(6).hex()
        A("asm-split-pair", [h[:4], h[4:]])                                      # (a+b, c) vs (a, b+c)
        A("asm-split-pair", [h[:8], h[8:]])
        A("asm-split-pair", [h])

    # ---- template builders --------------------------------------------------------------------
    B = lambda cls, op, *args: out.append(case(cls, op, *args))
    reps = 6 if T else 2
    for _ in range(reps):
        B("b-p2pkh", "p2pkh_script_pubkey", rng.randbytes(20))
        B("b-p2sh", "p2sh_script_pubkey", rng.randbytes(20))
        for comp in (True, False):
            B("b-p2pk", "p2pk_script_pubkey", _key(rng, comp))
            B("b-p2pkh-sig", "p2pkh_script_sig", _sig(rng), _key(rng, comp))
        for v in range(0, 17):
            B("b-p2wpkh", "p2wpkh_script_pubkey", rng.randbytes(20), v)
            B("b-p2wsh", "p2wsh_script_pubkey", rng.randbytes(32), v)
        B("b-p2sh-p2wpkh", "p2sh_p2wpkh_script_pubkey", rng.randbytes(20), 0)
        B("b-p2sh-p2wpkh-sig", "p2sh_p2wpkh_script_sig", b"\x00\x14" + rng.randbytes(20))
    for v in (0, 1, 16):
        B("b-p2sh-p2wpkh", "p2sh_p2wpkh_script_pubkey", rng.randbytes(20), v)
    B("b-empty-sig", "p2wpkh_script_sig")
    B("b-empty-sig", "p2wsh_script_sig")
    for n in range(8, 74):                                  # every signature length of the quantifier
        B("b-p2pk-sig", "p2pk_script_sig", _sig(rng, n))
        B("b-p2pkh-sig", "p2pkh_script_sig", _sig(rng, n), _key(rng))
    for n in range(0, 81):                                  # every null-data payload length
        B("b-nulldata" if n else "b-nulldata-0", "null_data_script_pubkey", rng.randbytes(n))
    rs_lens = range(1, 601) if T else sorted(set(rng.sample(range(1, 601), 70)) | {1, 2, 34, 35, 74, 75, 76, 77, 105, 254, 255, 256, 257, 520, 599, 600})
    for n in rs_lens:                                       # redeem / witness scripts 1..600
        rs = rng.randbytes(n)
        cls = _len_cls(n)
        B("b-p2sh-sig-" + cls, "p2sh_script_sig", [_sig(rng) for _ in range(rng.randrange(0, 4))], rs)
        B("b-p2sh-msig-sig-" + cls, "p2sh_multisig_script_sig", [_sig(rng) for _ in range(rng.randrange(0, 4))], rs)
        B("b-p2sh-p2wpkh-sig-" + cls, "p2sh_p2wpkh_script_sig", rs)
        B("b-p2sh-p2wsh-sig", "p2sh_p2wsh_script_sig", rs)
        B("b-p2sh-p2wsh", "p2sh_p2wsh_script_pubkey", rs, rng.choice([0, 0, 0, 1, 16]))
    for n in range(1, 17):                                  # all m-of-n
        for m in range(1, n + 1):
            for comp in ((True, False, None) if T else (None,)):
                pks = [_key(rng, comp) for _ in range(n)]
                B("b-multisig", "multisig_script_pubkey", m, pks)
                if T or (m + n) % 3 == 0:
                    B("b-p2sh-multisig", "p2sh_multisig_script_pubkey", m, pks)
        B("b-multisig-sig", "multisig_script_sig", [_sig(rng) for _ in range(n)])
    B("b-multisig-sig", "multisig_script_sig", [])
    # outside the templates: refusals and one-byte-length boundaries
    for m, n in ((0, 1), (0, 0), (1, 0), (2, 1), (17, 17), (1, 17), (16, 17), (-1, 3), (3, 2), (1, 20), (20, 20), (15, 21),
                 (2 ** 512, 3), (-2 ** 512, 3)):
        B("b-multisig-bad", "multisig_script_pubkey", m, [_key(rng) for _ in range(n)])
        B("b-multisig-bad", "p2sh_multisig_script_pubkey", m, [_key(rng) for _ in range(n)])
    for v in (-1, 17, 100, 2 ** 70, -2 ** 70, 2 ** 512, 2 ** 1024):
        B("b-witver-bad", "p2wpkh_script_pubkey", rng.randbytes(20), v)
        B("b-witver-bad", "p2wsh_script_pubkey", rng.randbytes(32), v)
        B("b-witver-bad", "p2sh_p2wpkh_script_pubkey", rng.randbytes(20), v)
        B("b-witver-bad", "p2sh_p2wsh_script_pubkey", rng.randbytes(40), v)
    for n in (0, 1, 75, 76, 255, 256, 300):
        d = rng.randbytes(n)
        cls = "b-len1-" + ("ovf" if n >= 256 else _len_cls(n))
        B(cls, "p2pkh_script_pubkey", d)
        B(cls, "p2sh_script_pubkey", d)
        B(cls, "p2pk_script_pubkey", d)
        B(cls, "p2pk_script_sig", d)
        B(cls, "p2pkh_script_sig", d, _key(rng))
        B(cls, "p2pkh_script_sig", _sig(rng), d)
        B(cls, "p2wpkh_script_pubkey", d, 0)
        B(cls, "multisig_script_sig", [_sig(rng), d])
        B(cls, "multisig_script_pubkey", 1, [_key(rng), d])
        B(cls, "p2sh_script_sig", [d, _sig(rng)], b"\x51")
        B(cls, "p2sh_multisig_script_sig", [d, _sig(rng)], b"\x51")
        B(cls, "null_data_script_pubkey", d)
        B(cls, "p2sh_script_sig", [], d)
        B(cls, "p2sh_p2wsh_script_sig", d)

    # ---- witness stacks ---------------------------------------------------------------------
    W = lambda cls, items: out.append(case(cls, "witness_ser", items))
    wl = [0, 1, 2, 71, 72, 73, 252, 253, 254, 255, 256, 257, 520, 65535, 65536, 70000]
    W("w-empty-stack", [])
    for n in wl:
        W("w-item-%d" % n if n in (0, 252, 253, 255, 256, 65535, 65536) else "w-item", [rng.randbytes(n)])
    for cnt in range(0, 21):
        W("w-count", [rng.randbytes(rng.choice([0, 1, 33, 72, 300])) for _ in range(cnt)])
    stacks = []
    for _ in range(60 if T else 12):
        cnt = rng.randrange(0, 21)
        stacks.append([rng.randbytes(rng.choice([0, 1, 33, 72, 73, 252, 253, 300, rng.randrange(0, 70001) if rng.random() < 0.15 else rng.randrange(0, 600)]))
                       for _ in range(cnt)])
    for s in stacks:
        W("w-stack", s)
    # item COUNT across the CompactSize boundary (tapscript allows up to 1000 stack items)
    for n in (252, 253, 254, 255, 256, 300) + ((1000, 65535) if T else ()):
        W("w-count-%d" % n if n in (252, 253, 255, 256) else "w-count-many", [bytes([i & 0xFF]) * (i % 3) for i in range(n)])
    def WD(cls, bs):
        out.append(case(cls, "witness_deser", bs))
        out.append(case("wp-" + cls[3:], "witness_parse", bs))          # the parse=True mode on the same stream
    WD("wd-empty-input", b"")
    WD("wd-empty-stack", b"\x00")
    WD("wd-empty-stack", b"\x00\xaa\xbb")
    big = [[rng.randbytes(65536)], [b"\x01", rng.randbytes(65536), b""], [rng.randbytes(65535), rng.randbytes(65537)],
           [rng.randbytes(70000), rng.randbytes(3)]]
    many = [[bytes([i & 0xFF]) * (i % 3) for i in range(n)] for n in (252, 253, 254) + ((255, 256, 1000) if T else ())]
    for s in stacks + [[rng.randbytes(n)] for n in wl] + [[b""], [b"", b""], [b"\x01"] * 20] + big + many:
        ser = ref_witness(s)
        WD("wd-valid", ser)
        WD("wd-valid-tail", ser + rng.randbytes(rng.randrange(1, 9)))
        if len(ser) > 1 and (len(ser) < 5000 or s in big):
            WD("wd-trunc", ser[: rng.randrange(1, len(ser))])
            WD("wd-trunc-last", ser[:-1])
    for s in ("01", "02", "0100", "020100", "0201aa", "01fd", "01fd01", "01fd0100", "01fd0100aa", "01fe01000000aa", "01ff0100000000000000aa",
              "fd0100", "fd010001aa", "fd000000", "fe00000000", "ff0000000000000000aa", "fd", "fe0000", "ff00", "0105aa", "03010101",
              "01ffffffffffffffffffaa", "ffffffffffffffffff"):
        WD("wd-malformed", bytes.fromhex(s))
    for _ in range(300 if T else 60):
        WD("wd-rand", bytes([rng.randrange(0, 4)]) + rng.randbytes(rng.randrange(0, 12)))

    # ---- optional parameters / modes no plain op sets ---------------------------------------------
    for p in progs[: (120 if T else 25)]:
        out.append(case("dec-parse-flag", "decode_script_parse_flag", p))
    for _ in range(60 if T else 10):
        out.append(case("asm-kw", "script_kw", _strs(_rand_items(rng, 5, big=False))))
    for _ in range(6 if T else 2):
        for nm, ln in (("p2wpkh_script_pubkey", 20), ("p2wsh_script_pubkey", 32), ("p2sh_p2wpkh_script_pubkey", 20),
                       ("p2sh_p2wsh_script_pubkey", rng.randrange(1, 600))):
            out.append(case("b-default-version", nm + "_default", rng.randbytes(ln)))
            for v in (0, 1, 16, 17):
                out.append(case("b-positional-version", nm + "_pos", rng.randbytes(ln), v))
    # ---- the same caller-owned list handed to a builder twice / to two builders (aliasing, call history) ----
    for _ in range(8 if T else 2):
        for nm, (fa, fb) in sorted(SEQ_OPS.items()):
            if fa in SEQ_GROUPS["sigs"]:
                for k in (0, 1, 2, 3):
                    out.append(case("seq-sigs-%d" % k, nm, [_sig(rng) for _ in range(k)], rng.randbytes(rng.choice([1, 34, 71, 105, 300]))))
            elif fa in SEQ_GROUPS["keys"]:
                n = rng.randrange(1, 6)
                out.append(case("seq-keys", nm, [_key(rng) for _ in range(n)], rng.randrange(1, n + 1)))
            else:
                out.append(case("seq-strs", nm, _strs(_rand_items(rng, 5, big=False))))

    # ---- the command line: `bits script` must agree with the library / model --------------------
    CA = lambda cls, strs, fmt="hex": out.append(case(cls, "cli_script", strs, fmt))
    fmts = list(CLI_FMT)
    CA("cli-asm-empty", [])
    CA("cli-asm-empty", [], "raw")
    CA("cli-asm-empty", [], "bin")
    CA("cli-asm-empty-data", ["", "OP_DUP", ""])
    CA("cli-asm-doctest", ["OP_2", "024c9b21035e4823d6f09d5a948201d14086d854dfa5bba828c06f5131d9cfe14f",
                           "03fe0b5ca0ab60705b21a00cbd9900026f282c7188427123e87e0dc344ce742eb0", "OP_3", "OP_CHECKMULTISIG"])
    for i, n in enumerate([1, 75, 76, 255, 256, 65535, 65536] + ([2, 74, 77, 254, 257, 600, 65534, 65537] if T else [])):
        d = rng.randbytes(n)
        CA("cli-asm-" + _len_cls(n), ["OP_DUP", d.hex(), "OP_EQUAL"], fmts[i % len(fmts)])
        CA("cli-asm-" + _len_cls(n), [d.hex()])
    for i, n in enumerate(("OP_0", "OP_FALSE", "OP_1", "OP_TRUE", "OP_NOP2", "OP_CHECKLOCKTIMEVERIFY", "OP_NOP3", "OP_CHECKSEQUENCEVERIFY")):
        CA("cli-asm-alias", [n, "aabb", n], fmts[i % len(fmts)])
    for fmt in fmts:                                       # every way of choosing the output format; leading 00 byte
        CA("cli-asm-fmt-" + fmt, ["OP_0", "OP_0", "00ff", "OP_CHECKSIG"], fmt)
    for _ in range(150 if T else 12):
        CA("cli-asm-prog", _strs(_rand_items(rng, 6, big=False)), rng.choice(fmts))
    for strs in (["OP_FOO"], ["zz"], ["abc"], ["aa", "OP_CHECKSIGG"], ["OP_DUP", "0g"], ["OP_dup"], ["op_dup"], [" aa bb "], ["AAbb"],
                 ["aa", "OP_DUP", "q"]):
        cls = "cli-asm-refuse" if (strs[0] not in (" aa bb ", "AAbb")) else "cli-asm-lenient-hex"
        for fmt in ("hex", "raw", "cfg-bin"):
            CA(cls, strs, fmt)
    CW = lambda cls, items, fmt="hex": out.append(case(cls, "cli_script_w", items, fmt))
    CW("cli-w-empty-stack", [])
    CW("cli-w-empty-stack", [], "raw")
    for i, n in enumerate([0, 1, 252, 253, 254, 255, 256, 65535, 65536]):
        CW("cli-w-item-%d" % n, [rng.randbytes(n)], fmts[i % len(fmts)])
    for cnt in (1, 2, 20, 252, 253, 254) + ((3, 19, 21, 255, 300) if T else ()):
        CW("cli-w-count-%d" % cnt if cnt in (252, 253) else "cli-w-count", [rng.randbytes(rng.choice([0, 1, 2])) for _ in range(cnt)])
    for _ in range(40 if T else 5):
        CW("cli-w-stack", [rng.randbytes(rng.choice([0, 1, 33, 72, 252, 253, 300])) for _ in range(rng.randrange(0, 21))], rng.choice(fmts))
    CD = lambda cls, bs, variant="plain": out.append(case(cls, "cli_decode", bs, variant))
    variants = ["plain", "upper", "spaced", "dashdash", "in-raw", "out-raw", "loglevel"]
    CD("cli-dec-empty", b"")
    for i, n in enumerate([1, 75, 76, 255, 256, 65535, 65536]):
        CD("cli-dec-" + _len_cls(n), ref_asm([("op", "OP_DUP"), ("data", rng.randbytes(n)), ("op", "OP_EQUAL")]), variants[i % len(variants)])
    CD("cli-dec-alias", bytes.fromhex("005100b1b2ac"))
    for v in variants:
        CD("cli-dec-variant-" + v, ref_asm([("op", "OP_HASH160"), ("data", rng.randbytes(20)), ("op", "OP_EQUAL")]), v)
    for _ in range(120 if T else 12):
        CD("cli-dec-prog", ref_asm(_rand_items(rng, 6, big=False)), rng.choice(variants))
    for k in (201, 202, 1000):                            # above the interpreter's limits, through the CLI as well
        CD("cli-dec-limit-ops-%d" % k, ref_asm([("op", n) for n in (["OP_DUP", "OP_DROP"] * k)[:k]]))
        CA("cli-asm-limit-ops-%d" % k, (["OP_DUP", "OP_DROP"] * k)[:k])
    CD("cli-dec-limit-element", ref_asm([("data", rng.randbytes(521)), ("op", "OP_DROP")]))
    CA("cli-asm-locktime", ["e8030000", "OP_CHECKLOCKTIMEVERIFY", "OP_DROP", "0500", "OP_CHECKSEQUENCEVERIFY", "7f00000000", "OP_NOP2", "00", "OP_NOP3"])
    for p_ in rng.sample(pats, 6):
        CA("cli-asm-adj", [p_, rng.choice(["OP_CHECKLOCKTIMEVERIFY", "OP_CHECKSEQUENCEVERIFY", "OP_NOP2", "OP_NOP3"]), p_, rng.choice(names), p_])
    for hx in ("ee", "76ee", "4c", "76fd", "fe"):            # the library refuses: KeyError / IndexError
        CD("cli-dec-refuse", bytes.fromhex(hx))
        CD("cli-dec-refuse", bytes.fromhex(hx), "out-raw")
    for hx in ("05aa", "4d05", "4c0000", "4e"):                # Python-lenient disassembly
        CD("cli-dec-lenient", bytes.fromhex(hx))
    for hx in ("zz", "7", "76a", "0x76", "OP_DUP"):           # not hex: bytes.fromhex refuses
        out.append(case("cli-dec-badhex", "cli_decode_str", hx, expect=("err", "ValueE")))
    out.append(case("cli-dec-multi", "cli_decode_multi", [], expect=("ok", True)))
    out.append(case("cli-dec-multi-refuse", "cli_decode_multi", [b"\x76", b"\xee"], expect=("ok", True)))
    out.append(case("cli-dec-multi-refuse", "cli_decode_multi", [b"\x4c", b"\x76"], expect=("ok", True)))
    for _ in range(20 if T else 4):
        out.append(case("cli-dec-multi", "cli_decode_multi",
                        [ref_asm(_rand_items(rng, 4, big=False)) for _ in range(rng.randrange(1, 4))], expect=("ok", True)))
    if _decode_witness_cases_enabled():
        for st in ([], [b""], [b"\xaa\xbb", b""], [rng.randbytes(253)], [rng.randbytes(1)] * 253):
            out.append(case("cli-dec-witness", "cli_decode_w", ref_witness(st)))
            out.append(case("cli-dec-witness", "cli_decode_w", ref_witness(st) + b"\x01\x02"))
    # multi-call sequences first: when a builder leaks state into its caller's list, the replay that names the
    # sequence is reported before the single-call symptoms
    out.sort(key=lambda c: 0 if c["op"] in SEQ_OPS else 1)
    return out


# ------------------------------------------------------------------------------------------------
def shrink(c):
    inside = in_quantifier(c)
    for c2 in _shrink(c):
        if not inside or in_quantifier(c2):
            yield c2


def _shrink(c):
    a = c["args"]

    def with_args(*args):
        c2 = dict(c)
        c2["args"] = list(args)
        return c2
    if c["op"] in ("script", "cli_script", "script_kw", "seq_script__script"):
        strs = a[0]
        for i in range(len(strs)):
            yield with_args(strs[:i] + strs[i + 1:], *a[1:])
        for i, s in enumerate(strs):
            if not s.startswith("OP_") and len(s) > 2:
                for t in (s[: (len(s) // 4) * 2], s[:-2], s[2:]):
                    yield with_args(strs[:i] + [t] + strs[i + 1:], *a[1:])
        return
    if c["op"] in ("witness_ser", "cli_script_w"):
        items = a[0]
        for i in range(len(items)):
            yield with_args(items[:i] + items[i + 1:], *a[1:])
        for i, d in enumerate(items):
            for t in shrink_bytes(d):
                yield with_args(items[:i] + [t] + items[i + 1:], *a[1:])
        return
    if c["op"] == "cli_decode_str":
        return
    for i, x in enumerate(a):
        if isinstance(x, bytes):
            for t in shrink_bytes(x):
                yield with_args(*(a[:i] + [t] + a[i + 1:]))
        elif isinstance(x, list):
            for j in range(len(x)):
                yield with_args(*(a[:i] + [x[:j] + x[j + 1:]] + a[i + 1:]))
            for j, d in enumerate(x):
                for t in list(shrink_bytes(d))[:3]:
                    yield with_args(*(a[:i] + [x[:j] + [t] + x[j + 1:]] + a[i + 1:]))


def extra_checks(ctx):
    """the literal property (prop_oracle) evaluated on the implementation for every generated case, so that a
    change of a table constant - which the model follows through Gen/Opcodes.v - still yields a failing input"""
    impl, rng = ctx["impl"], ctx["rng"]
    import random
    r2 = random.Random("C13-extra-%s" % ctx["tier"])
    cases = gen_cases(r2, "thorough" if (ctx["broken"] or ctx["tier"] == "thorough") else "quick")
    found, n = [], 0
    for c in cases:
        if sum(len(x) if isinstance(x, (bytes, str)) else sum(map(len, x)) if isinstance(x, list) else 0 for x in c["args"]) > 20000 \
                and n % 7:
            n += 1
            continue
        n += 1
        v = impl.oracle(c)
        if v is not None:
            found.append({"kind": "input", "case": case_to_json(c), "observed": "property oracle: " + str(v)[:600],
                          "expected": "the literal statement of C13 holds on this input", "oracle": v,
                          "failing_input_found": True})
            if len(found) >= 3:
                break
    ctx["stats"].setdefault("extra", {})["literal_property_evaluations"] = n
    return found


def _coq_args(c):
    return " ".join(_p(coq_lit(x)) for x in c["args"])


def _p(s):
    return s if s.startswith("[") or (s.startswith("(") and s.endswith(")%Z")) else "(" + s + ")"


def coq_equation(c, mr):
    size = 0
    for x in c["args"]:
        size += len(x) if isinstance(x, (bytes, str)) else (sum(len(y) for y in x) if isinstance(x, list) else 0)
    if size > 200:
        return None
    c = base_case(c)
    op = c["op"]
    if op.startswith("cli_"):
        if op not in CLI_MODEL:
            return None
        c = {"op": CLI_LIB[op], "args": c["args"][:1]}
        op = c["op"]
    hashed = {"p2sh_multisig_script_pubkey": "sha256 ripemd160", "p2sh_p2wpkh_script_pubkey": "sha256 ripemd160",
              "p2sh_p2wsh_script_pubkey": "sha256 ripemd160", "p2sh_p2wsh_script_sig": "sha256"}
    args = _coq_args(c)
    if op == "canonical":
        return "c13_canonical %s = %s" % (args, coq_lit(mr[1]))
    if op == "script":
        args = "[" + "; ".join(coq_lit(s) for s in c["args"][0]) + "]"
    return "c13_%s %s %s = %s" % (op, hashed.get(op, ""), args, coq_result(mr))


# ops whose answer must not depend on the concrete bytes-like type of their arguments (they agree on the pinned tree;
# tools/bytearray_probe.py); common.py re-runs a sample of their cases with bytearray arguments
BYTEARRAY_OPS = {'witness_parse', 'decode_script_parse_flag', 'p2wsh_script_pubkey', 'p2pkh_script_sig', 'p2sh_p2wpkh_script_pubkey', 'p2sh_p2wpkh_script_sig', 'p2sh_p2wsh_script_sig', 'p2sh_p2wsh_script_pubkey', 'p2sh_script_pubkey', 'witness_deser', 'p2pk_script_sig', 'p2wpkh_script_pubkey', 'p2sh_multisig_script_sig', 'p2pkh_script_pubkey', 'null_data_script_pubkey', 'p2pk_script_pubkey', 'p2sh_script_sig', 'canonical', 'decode_script'}
MEMORYVIEW_OPS = {'p2wpkh_script_pubkey', 'p2sh_script_sig', 'p2pkh_script_sig', 'decode_script', 'p2sh_multisig_script_sig', 'p2pkh_script_pubkey', 'p2sh_p2wpkh_script_pubkey', 'p2sh_p2wsh_script_sig', 'p2sh_script_pubkey', 'null_data_script_pubkey', 'p2pk_script_pubkey', 'p2sh_p2wsh_script_pubkey', 'p2wsh_script_pubkey', 'p2pk_script_sig', 'p2sh_p2wpkh_script_sig', 'canonical'}
