"""Gen table CurveGen: the secp256k1 constants ecmath.py defines now."""


def register(gt):
    @gt.table("CurveGen")
    def gen_curve():
        gt.load()
        import bits.ecmath as ec
        out = gt.HEADER
        for name, attr in [("p", "SECP256K1_P"), ("a", "SECP256K1_A"), ("b", "SECP256K1_B"), ("n", "SECP256K1_N"),
                           ("Gx", "SECP256K1_Gx"), ("Gy", "SECP256K1_Gy"), ("G_n", "SECP256K1_G_n"), ("G_h", "SECP256K1_G_h")]:
            out += "Definition %s : Z := %s.\n" % (name, gt.coq_Z(getattr(ec, attr)))
        out += "Definition G_compressed : bytes := %s.\n" % gt.coq_bytes(ec.SECP256K1_G_compressed)
        out += "Definition G_uncompressed : bytes := %s.\n" % gt.coq_bytes(ec.SECP256K1_G_uncompressed)
        # defaults bound into the functions (they are what the code actually uses)
        out += "Definition field_defaults : list Z := %s.\n" % gt.coq_list(
            gt.coq_Z(getattr(ec, f).__defaults__[0]) for f in ["add_mod_p", "sub_mod_p", "mul_mod_p", "pow_mod_p", "div_mod_p", "sqrt_mod_p"])
        out += "Definition curve_defaults : list (Z * Z) := %s.\n" % gt.coq_list(
            "(%s, %s)" % (gt.coq_Z(getattr(ec, f).__defaults__[0]), gt.coq_Z(getattr(ec, f).__defaults__[1]))
            for f in ["y_from_x", "point_is_on_curve", "point_negate", "point_add", "point_scalar_mul"])
        out += "Definition sig_defaults : list (Z * (Z * Z)) := %s.\n" % gt.coq_list(
            "(%s, (%s, %s))" % (gt.coq_Z(getattr(ec, f).__defaults__[0]), gt.coq_Z(getattr(ec, f).__defaults__[1][0]),
                                gt.coq_Z(getattr(ec, f).__defaults__[1][1])) for f in ["sign", "verify"])
        return out
